//! C11 — factorisations (Cholesky, pivoted LU, triangular solves, determinant, pivot parity):
//! case generation for the Coq correspondence and the failure-search oracle.
#![allow(clippy::needless_range_loop)]
use crate::util::*;
use compute::linalg::{
    backward_substitution, cholesky, cholesky_solve, forward_substitution, ipiv_parity, is_positive_definite,
    is_symmetric, lu, lu_solve, try_cholesky, Matrix, Solve, Vector,
};

// ------------------------------------------------------------------------------------------------
// input classes
const CLASSES: [&str; 15] = [
    "dense-real", "integer", "singular", "rank-deficient", "zero-leading-pivots", "permutation", "cyclic-shift",
    "spd-real", "spd-integer", "indefinite-posdiag", "special-values", "graded", "lower-triangular", "upper-triangular",
    "extreme-scale-symmetric",
];

fn perm(r: &mut Rng, n: usize) -> Vec<usize> {
    let mut p: Vec<usize> = (0..n).collect();
    for i in (1..n).rev() { let j = r.below(i as u64 + 1) as usize; p.swap(i, j); }
    p
}

fn special(r: &mut Rng) -> f64 {
    *r.pick(&[f64::NAN, f64::INFINITY, f64::NEG_INFINITY, -0.0, 0.0, 5e-324, -2.2250738585072014e-308, 1e300, -1e300, 1e-300, 1.0, -1.0])
}

fn gen_matrix(r: &mut Rng, n: usize, class: usize) -> Vec<f64> {
    let mut a = vec![0.0; n * n];
    match class {
        0 => for x in a.iter_mut() { *x = r.uniform(-4.0, 4.0) },
        1 => for x in a.iter_mut() { *x = r.small_int(9) },
        2 => { // singular: a duplicated row, a zero column or a zero row
            for x in a.iter_mut() { *x = r.small_int(5) }
            if n >= 2 {
                match r.below(3) {
                    0 => { let (i, k) = (r.below(n as u64) as usize, r.below(n as u64) as usize); if i != k { for j in 0..n { a[i * n + j] = a[k * n + j]; } } else { for j in 0..n { a[i * n + j] = 0.0; } } }
                    1 => { let c = r.below(n as u64) as usize; for i in 0..n { a[i * n + c] = 0.0; } }
                    _ => { let i = r.below(n as u64) as usize; for j in 0..n { a[i * n + j] = 0.0; } }
                }
            } else { a[0] = 0.0; }
        }
        3 => { // rank k < n: sum of k integer outer products
            let k = if n >= 2 { 1 + r.below(n as u64 - 1) as usize } else { 0 };
            for _ in 0..k {
                let u: Vec<f64> = (0..n).map(|_| r.small_int(3)).collect();
                let v: Vec<f64> = (0..n).map(|_| r.small_int(3)).collect();
                for i in 0..n { for j in 0..n { a[i * n + j] += u[i] * v[j]; } }
            }
        }
        4 => { // leading k x k block is zero
            for x in a.iter_mut() { *x = r.small_int(9) }
            let k = 1 + r.below(n.max(2) as u64 / 2) as usize;
            for i in 0..k.min(n) { for j in 0..k.min(n) { a[i * n + j] = 0.0; } }
        }
        5 => { // (scaled) permutation matrix
            let p = perm(r, n); let scaled = r.coin(0.5);
            for i in 0..n { a[i * n + p[i]] = if scaled { let s = r.small_int(7); if s == 0.0 { 1.0 } else { s } } else { 1.0 }; }
        }
        6 => { // every column pivots on the next row: sub-diagonal large, diagonal small
            for i in 0..n { for j in 0..n { a[i * n + j] = r.small_int(2); } }
            for j in 0..n { a[((j + 1) % n) * n + j] = 16.0 + r.small_int(3); }
        }
        7 => { // SPD, real: B.B^T + n.I
            let b: Vec<f64> = (0..n * n).map(|_| r.uniform(-1.0, 1.0)).collect();
            for i in 0..n { for j in 0..=i { let mut s = 0.0; for k in 0..n { s += b[i * n + k] * b[j * n + k]; } a[i * n + j] = s; a[j * n + i] = s; } a[i * n + i] += n as f64; }
        }
        8 => { // SPD, integer: B.B^T + I (exact)
            let b: Vec<f64> = (0..n * n).map(|_| r.small_int(3)).collect();
            for i in 0..n { for j in 0..=i { let mut s = 0.0; for k in 0..n { s += b[i * n + k] * b[j * n + k]; } a[i * n + j] = s; a[j * n + i] = s; } a[i * n + i] += 1.0; }
        }
        9 => { // symmetric, positive diagonal, indefinite (off-diagonal dominates)
            for i in 0..n { for j in 0..i { let x = r.small_int(9); a[i * n + j] = x; a[j * n + i] = x; } a[i * n + i] = 1.0 + r.below(3) as f64; }
        }
        10 => { // special values sprinkled over a symmetric or a dense matrix
            let sym = r.coin(0.5);
            for i in 0..n { for j in 0..n { a[i * n + j] = r.uniform(-2.0, 2.0); } }
            if sym { for i in 0..n { for j in 0..i { a[j * n + i] = a[i * n + j]; } a[i * n + i] = a[i * n + i].abs() + 1.0; } }
            let k = 1 + r.below(3) as usize;
            for _ in 0..k { let (i, j) = (r.below(n as u64) as usize, r.below(n as u64) as usize); let s = special(r); a[i * n + j] = s; if sym { a[j * n + i] = s; } }
        }
        11 => { // rows graded over many orders of magnitude
            for i in 0..n { let s = (10.0f64).powi(r.range(-8, 8) as i32); for j in 0..n { a[i * n + j] = s * r.uniform(-1.0, 1.0); } }
        }
        14 => { // symmetric, positive diagonal, magnitudes 1e-300 .. 1e300 entry by entry: the elimination overflows / underflows (inf, 0 * inf = NaN pivots)
            for i in 0..n { for j in 0..=i {
                let m = (10.0f64).powi(r.range(-300, 300) as i32) * r.uniform(1.0, 10.0);
                let v = if i == j { m } else if r.coin(0.3) { 0.0 } else if r.coin(0.5) { m } else { -m };
                a[i * n + j] = v; a[j * n + i] = v;
            }}
        }
        12 => { for i in 0..n { for j in 0..=i { a[i * n + j] = r.uniform(-3.0, 3.0); } if r.coin(0.85) && a[i * n + i].abs() < 0.25 { a[i * n + i] = 1.5; } } if n > 0 && r.coin(0.1) { let i = r.below(n as u64) as usize; a[i * n + i] = 0.0; } }
        _ => { for i in 0..n { for j in i..n { a[i * n + j] = r.uniform(-3.0, 3.0); } if r.coin(0.85) && a[i * n + i].abs() < 0.25 { a[i * n + i] = -1.5; } } if n > 0 && r.coin(0.1) { let i = r.below(n as u64) as usize; a[i * n + i] = 0.0; } }
    }
    a
}

fn rhs(r: &mut Rng, n: usize) -> Vec<f64> { if r.coin(0.5) { (0..n).map(|_| r.small_int(9)).collect() } else { (0..n).map(|_| r.uniform(-4.0, 4.0)).collect() } }
fn transpose_sq(a: &[f64], n: usize) -> Vec<f64> { let mut t = vec![0.0; n * n]; for i in 0..n { for j in 0..n { t[j * n + i] = a[i * n + j]; } } t }

fn nat(n: usize) -> Tm { Tm::Nat(n as u64) }
fn pv(p: &[i32]) -> Tm { Tm::L(p.iter().map(|x| Tm::Nat(*x as u64)).collect()) }
fn mat_out(m: &Matrix) -> Vec<f64> { let mut v = vec![m.nrows as f64, m.ncols as f64]; v.extend_from_slice(&m.data); v }
fn bool_out(b: bool) -> Vec<f64> { vec![if b { 1.0 } else { 0.0 }] }
fn mk(d: &[f64], r: usize, c: usize) -> Matrix { Matrix::new(d.to_vec(), r as i32, c as i32) }
fn is_id(p: &[i32]) -> bool { p.iter().enumerate().all(|(i, x)| *x == i as i32) }

/// every view of one square matrix `a` (order n) the property observes
fn emit_all(cs: &mut Cases, r: &mut Rng, a: &[f64], n: usize, cname: &str) {
    let b = rhs(r, n);
    let nt2 = n >= 2;
    // --- LU family
    let res = catch(|| lu(a));
    let swapped = res.as_ref().map(|(_, p)| !is_id(p)).unwrap_or(false);
    let tag = |s: &str| format!("{}/{}{}", s, cname, if swapped { "/swap" } else { "" });
    let nt = nt2 && swapped;
    cs.push(app("CLu", vec![fl(a), outcome_list(&res.clone().map(|(l, p)| { let mut v = l; v.extend(p.iter().map(|x| *x as f64)); v }))]), &tag("lu"), nt);
    if n >= 1 {
        let resm = catch(|| { let (l, p) = mk(a, n, n).lu(); let mut v = mat_out(&l); v.extend(p.iter().map(|x| *x as f64)); v });
        cs.push(app("CLuM", vec![nat(n), nat(n), fl(a), outcome_list(&resm)]), &tag("Matrix::lu"), nt);
        let d = catch(|| vec![mk(a, n, n).det()]);
        cs.push(app("CDet", vec![nat(n), nat(n), fl(a), outcome_list(&d)]), &tag("Matrix::det"), nt);
        let s = catch(|| mk(a, n, n).solve(&Vector::new(b.clone())).v);
        cs.push(app("CSolveM", vec![nat(n), nat(n), fl(a), fl(&b), outcome_list(&s)]), &tag("Matrix::solve"), nt);
    }
    if let Ok((l, p)) = &res {
        let x = catch(|| lu_solve(l, p, &b));
        cs.push(app("CLuSolve", vec![fl(l), pv(p), fl(&b), outcome_list(&x)]), &tag("lu_solve"), nt);
        let par = catch(|| vec![ipiv_parity(p) as f64]);
        cs.push(app("CParity", vec![pv(p), outcome_list(&par)]), "ipiv_parity/from-lu", nt);
        if n >= 1 {
            let xm = catch(|| mk(l, n, n).lu_solve(p, &Vector::new(b.clone())).v);
            cs.push(app("CLuSolveM", vec![nat(n), nat(n), fl(l), pv(p), fl(&b), outcome_list(&xm)]), &tag("Matrix::lu_solve"), nt);
            let dd = catch(|| vec![mk(l, n, n).lu_det(p)]);
            cs.push(app("CLuDet", vec![nat(n), nat(n), fl(l), pv(p), outcome_list(&dd)]), &tag("Matrix::lu_det"), nt);
            if r.coin(0.25) {
                let k = 1 + r.below(3) as usize;
                let s: Vec<f64> = (0..n * k).map(|_| r.small_int(9)).collect();
                let xs = catch(|| mat_out(&mk(l, n, n).lu_solve(p, &mk(&s, n, k))));
                cs.push(app("CLuSolveMM", vec![nat(n), nat(n), fl(l), pv(p), nat(n), nat(k), fl(&s), outcome_list(&xs)]), &tag("Matrix::lu_solve(Matrix)"), nt);
                let xs = catch(|| mat_out(&mk(a, n, n).solve(&mk(&s, n, k))));
                cs.push(app("CSolveMM", vec![nat(n), nat(n), fl(a), nat(n), nat(k), fl(&s), outcome_list(&xs)]), &tag("Matrix::solve(Matrix)"), nt);
            }
        }
    }
    // --- predicates
    let sy = catch(|| bool_out(is_symmetric(a)));
    let symmetric = sy == Ok(vec![1.0]);
    cs.push(app("CIsSym", vec![fl(a), outcome_list(&sy)]), &format!("is_symmetric/{}", cname), nt2);
    cs.push(app("CIsPD", vec![fl(a), outcome_list(&catch(|| bool_out(is_positive_definite(a))))]), &format!("is_positive_definite/{}", cname), nt2);
    if n >= 1 {
        cs.push(app("CIsSymM", vec![nat(n), nat(n), fl(a), outcome_list(&catch(|| bool_out(mk(a, n, n).is_symmetric())))]), &format!("Matrix::is_symmetric/{}", cname), nt2);
        cs.push(app("CIsPDM", vec![nat(n), nat(n), fl(a), outcome_list(&catch(|| bool_out(mk(a, n, n).is_positive_definite())))]), &format!("Matrix::is_positive_definite/{}", cname), nt2);
    }
    // --- Cholesky family (panics unless symmetric within EPSILON)
    let ch = catch(|| cholesky(a));
    let ctag = |s: &str| format!("{}/{}{}", s, cname, if !symmetric { "/rejected-asymmetric" } else if ch.is_err() { "/rejected-not-positive-definite" } else { "" });
    cs.push(app("CChol", vec![fl(a), outcome_list(&ch)]), &ctag("cholesky"), nt2);
    let tch = catch(|| match try_cholesky(a) { Some(l) => { let mut v = vec![1.0]; v.extend(l); v } None => vec![0.0] });
    cs.push(app("CTryChol", vec![fl(a), outcome_list(&tch)]), &format!("try_cholesky/{}/{}", cname, match &tch { Ok(v) if v[0] == 1.0 => "factor", Ok(_) => "not-positive-definite", Err(_) => "rejected" }), nt2);
    if n >= 1 {
        let chm = catch(|| mat_out(&mk(a, n, n).cholesky()));
        cs.push(app("CCholM", vec![nat(n), nat(n), fl(a), outcome_list(&chm)]), &ctag("Matrix::cholesky"), nt2);
    }
    if let Ok(l) = &ch {
        let x = catch(|| cholesky_solve(l, &b));
        cs.push(app("CCholSolve", vec![fl(l), fl(&b), outcome_list(&x)]), &ctag("cholesky_solve"), nt2);
        if n >= 1 {
            let xm = catch(|| mk(l, n, n).cholesky_solve(&Vector::new(b.clone())).v);
            cs.push(app("CCholSolveM", vec![nat(n), nat(n), fl(l), fl(&b), outcome_list(&xm)]), &ctag("Matrix::cholesky_solve"), nt2);
            if r.coin(0.3) {
                let k = 1 + r.below(3) as usize;
                let s: Vec<f64> = (0..n * k).map(|_| r.small_int(9)).collect();
                let xs = catch(|| mat_out(&mk(l, n, n).cholesky_solve(&mk(&s, n, k))));
                cs.push(app("CCholSolveMM", vec![nat(n), nat(n), fl(l), nat(n), nat(k), fl(&s), outcome_list(&xs)]), &ctag("Matrix::cholesky_solve(Matrix)"), nt2);
            }
        }
        emit_subst(cs, l, &transpose_sq(l, n), &b, n, &format!("chol-factor-of-{}", cname));
    }
}

/// triangular solves on `lo` (used as lower) and `up` (used as upper), slice and Matrix forms
fn emit_subst(cs: &mut Cases, lo: &[f64], up: &[f64], b: &[f64], n: usize, cname: &str) {
    let nt = n >= 2;
    cs.push(app("CFwd", vec![fl(lo), fl(b), outcome_list(&catch(|| forward_substitution(lo, b)))]), &format!("forward_substitution/{}", cname), nt);
    cs.push(app("CBwd", vec![fl(up), fl(b), outcome_list(&catch(|| backward_substitution(up, b)))]), &format!("backward_substitution/{}", cname), nt);
    if n >= 1 {
        cs.push(app("CFwdM", vec![nat(n), nat(n), fl(lo), fl(b), outcome_list(&catch(|| mk(lo, n, n).forward_substitution(b).v))]), &format!("Matrix::forward_substitution/{}", cname), nt);
        cs.push(app("CBwdM", vec![nat(n), nat(n), fl(up), fl(b), outcome_list(&catch(|| mk(up, n, n).backward_substitution(b).v))]), &format!("Matrix::backward_substitution/{}", cname), nt);
    }
}

fn all_perms(n: usize) -> Vec<Vec<i32>> {
    fn go(cur: &mut Vec<i32>, used: &mut Vec<bool>, n: usize, out: &mut Vec<Vec<i32>>) {
        if cur.len() == n { out.push(cur.clone()); return; }
        for v in 0..n { if !used[v] { used[v] = true; cur.push(v as i32); go(cur, used, n, out); cur.pop(); used[v] = false; } }
    }
    let mut out = vec![]; go(&mut vec![], &mut vec![false; n], n, &mut out); out
}

pub fn gen(tier: &str, seed: u64, outdir: &str) {
    let mut r = Rng::new(seed ^ 0xC11);
    let mut cs = Cases::new("C11");
    let thorough = tier == "thorough";
    // 1. every class x every order 1..=12 (quick: one matrix each; thorough: six each) + larger orders in thorough
    let reps = if thorough { 6 } else { 1 };
    if !thorough {
        // the last order of the quantifier (and 31 = 7 mod 8 for the unrolled dot) also at the quick tier (first, so that they share a shard with the smallest cases)
        for (n, c) in [(32usize, 0usize), (32, 7), (31, 6)] { let a = gen_matrix(&mut r, n, c); emit_all(&mut cs, &mut r, &a, n, CLASSES[c]); }
    }
    for n in 1..=12usize { for c in 0..CLASSES.len() { for _ in 0..reps {
        let a = gen_matrix(&mut r, n, c);
        emit_all(&mut cs, &mut r, &a, n, CLASSES[c]);
        if c >= 12 { let b = rhs(&mut r, n); emit_subst(&mut cs, &a, &a, &b, n, CLASSES[c]); }
    }}}
    if thorough {
        for n in 13..=32usize { for c in 0..CLASSES.len() {
            let a = gen_matrix(&mut r, n, c);
            emit_all(&mut cs, &mut r, &a, n, CLASSES[c]);
        }}
    } else {
        for n in [16usize, 17, 24] { for c in [0usize, 6, 7] { let a = gen_matrix(&mut r, n, c); emit_all(&mut cs, &mut r, &a, n, CLASSES[c]); } }
    }
    // matrices of the oracle's sweep that the fifteen classes never draw: column-graded, power-of-two scaled, Wilkinson's growth matrix, +-1 entries
    // (ties in every pivot search), Hadamard blocks; SPD with a prescribed spectrum (condition number up to 1e8), min(i,j), second difference,
    // Hilbert / Lehmer, scaled, equicorrelated; an exactly zero / exactly negative pivot at the first and the last position; equicorrelation below
    // the bound; singular Gram matrices
    let xorders: Vec<usize> = if thorough { (1..=12).chain([16usize, 31, 32]).collect() } else { vec![1, 8] };
    for &n in &xorders {
        for k in 0..XLU.len() { let a = gen_xlu(&mut r, n, k); emit_all(&mut cs, &mut r, &a, n, XLU[k]); }
        for k in 0..XSPD.len() { let a = gen_xspd(&mut r, n, k); emit_all(&mut cs, &mut r, &a, n, XSPD[k]); }
        for (k, m) in [(0usize, 0.0), (n - 1, 0.0), (n - 1, 1.0)] { let a = exact_nonpositive_pivot(&mut r, n, k, m); emit_all(&mut cs, &mut r, &a, n, "exact-nonpositive-pivot"); }
        if n >= 2 {
            let rho = -1.0 / (n - 1) as f64 - 0.05;
            let a: Vec<f64> = (0..n * n).map(|q| if q / n == q % n { 1.0 } else { rho }).collect();
            emit_all(&mut cs, &mut r, &a, n, "equicorrelated-below-the-bound");
            let k = 1 + r.below(n as u64 - 1) as usize;
            let b: Vec<f64> = (0..n * k).map(|_| r.small_int(3)).collect();
            let mut g = vec![0.0; n * n];
            for i in 0..n { for j in 0..n { let mut s = 0.0; for q in 0..k { s += b[i * k + q] * b[j * k + q]; } g[i * n + j] = s; } }
            emit_all(&mut cs, &mut r, &g, n, "singular-gram");
        }
    }
    // triangular solves: dense input to the slice forms (they never look at the other triangle), special values, -0.0 above the diagonal
    for n in 1..=(if thorough { 20usize } else { 10 }) {
        let a = gen_matrix(&mut r, n, 0); let b = rhs(&mut r, n);
        emit_subst(&mut cs, &a, &a, &b, n, "dense");
        let mut lo = gen_matrix(&mut r, n, 12); let mut up = gen_matrix(&mut r, n, 13);
        if n >= 2 { lo[1] = -0.0; up[n] = -0.0; let s = special(&mut r); lo[n] = s; up[1] = s; }
        emit_subst(&mut cs, &lo, &up, &b, n, "triangular-special");
    }
    // symmetry tolerance (relative, 2^-52 of the larger magnitude): one ulp of asymmetry is accepted at every scale,
    // four ulps are rejected; a non-symmetric matrix of tiny entries is rejected (the absolute test accepted it)
    for n in 2..=5usize { for (k, ulps) in [1u64, 4].iter().enumerate() { for v in [0.75f64, 2.5, 1.9999999] {
        let mut a = gen_matrix(&mut r, n, 7);
        a[1] = v; a[n] = f64::from_bits(v.to_bits() + ulps);
        emit_all(&mut cs, &mut r, &a, n, if k == 0 { "spd-asymmetric-1ulp" } else { "spd-asymmetric-4ulp" });
    }}}
    for n in 2..=4usize {
        let mut a = gen_matrix(&mut r, n, 7); for x in a.iter_mut() { *x *= 1e-20; }
        emit_all(&mut cs, &mut r, &a, n, "spd-tiny-scale");
        a[1] *= 3.0;
        emit_all(&mut cs, &mut r, &a, n, "tiny-scale-asymmetric");
    }
    for n in 2..=4usize {
        let mut a = gen_matrix(&mut r, n, 7); for x in a.iter_mut() { *x *= 2f64.powi(-60); }
        if a[1] == 0.0 { a[1] = 2f64.powi(-61); } a[n] = 0.0;
        emit_all(&mut cs, &mut r, &a, n, "zero-vs-tiny-asymmetric");
        let mut a = gen_matrix(&mut r, n, 7); a[1] = 1e-17; a[n] = 0.0;
        emit_all(&mut cs, &mut r, &a, n, "zero-vs-tiny-asymmetric");
    }
    // an infinite diagonal entry passes the pivot test d > 0 (outside the property's quantifier: pinned for the model only)
    emit_all(&mut cs, &mut r, &[f64::INFINITY], 1, "infinite-diagonal");
    emit_all(&mut cs, &mut r, &[f64::INFINITY, 1.0, 1.0, 1.0], 2, "infinite-diagonal");
    emit_all(&mut cs, &mut r, &[2.0, 1.0, 1.0, f64::INFINITY], 2, "infinite-diagonal");
    // 2. ipiv_parity: every permutation of 0..n
    for n in 0..=(if thorough { 7usize } else { 5 }) {
        for p in all_perms(n) {
            let res = catch(|| vec![ipiv_parity(&p) as f64]);
            cs.push(app("CParity", vec![pv(&p), outcome_list(&res)]), &format!("ipiv_parity/all-permutations-of-{}", n), !is_id(&p));
        }
    }
    for _ in 0..(if thorough { 400 } else { 60 }) {
        let n = 6 + r.below(27) as usize;
        let p: Vec<i32> = perm(&mut r, n).iter().map(|x| *x as i32).collect();
        let res = catch(|| vec![ipiv_parity(&p) as f64]);
        cs.push(app("CParity", vec![pv(&p), outcome_list(&res)]), "ipiv_parity/random-permutation", true);
    }
    // 3. empty slices
    let e: Vec<f64> = vec![]; let ep: Vec<i32> = vec![];
    cs.push(app("CChol", vec![fl(&e), outcome_list(&catch(|| cholesky(&e)))]), "empty", false);
    cs.push(app("CLu", vec![fl(&e), outcome_list(&catch(|| { let (l, p) = lu(&e); let mut v = l; v.extend(p.iter().map(|x| *x as f64)); v }))]), "empty", false);
    cs.push(app("CLuSolve", vec![fl(&e), pv(&ep), fl(&e), outcome_list(&catch(|| lu_solve(&e, &ep, &e)))]), "empty", false);
    cs.push(app("CCholSolve", vec![fl(&e), fl(&e), outcome_list(&catch(|| cholesky_solve(&e, &e)))]), "empty", false);
    cs.push(app("CFwd", vec![fl(&e), fl(&e), outcome_list(&catch(|| forward_substitution(&e, &e)))]), "empty", false);
    cs.push(app("CBwd", vec![fl(&e), fl(&e), outcome_list(&catch(|| backward_substitution(&e, &e)))]), "empty", false);
    cs.push(app("CIsSym", vec![fl(&e), outcome_list(&catch(|| bool_out(is_symmetric(&e))))]), "empty", false);
    cs.push(app("CIsPD", vec![fl(&e), outcome_list(&catch(|| bool_out(is_positive_definite(&e))))]), "empty", false);
    // 4. malformed stream
    for _ in 0..(if thorough { 1500 } else { 250 }) {
        let la = r.below(18) as usize; let lb = r.below(6) as usize;
        let a: Vec<f64> = (0..la).map(|_| r.small_int(4)).collect();
        let b: Vec<f64> = (0..lb).map(|_| r.small_int(4)).collect();
        let lp = r.below(6) as usize;
        let p: Vec<i32> = (0..lp).map(|_| r.below(lp as u64 + 1) as i32).collect();
        let t = |res: &Result<Vec<f64>, String>| if res.is_ok() { "malformed-stream/value" } else { "malformed-stream/panic" };
        match r.below(10) {
            0 => { let res = catch(|| cholesky(&a)); cs.push(app("CChol", vec![fl(&a), outcome_list(&res)]), t(&res), res.is_err()); }
            1 => { let res = catch(|| { let (l, p) = lu(&a); let mut v = l; v.extend(p.iter().map(|x| *x as f64)); v }); cs.push(app("CLu", vec![fl(&a), outcome_list(&res)]), t(&res), res.is_err()); }
            2 => { let res = catch(|| lu_solve(&a, &p, &b)); cs.push(app("CLuSolve", vec![fl(&a), pv(&p), fl(&b), outcome_list(&res)]), t(&res), res.is_err()); }
            3 => { let res = catch(|| cholesky_solve(&a, &b)); cs.push(app("CCholSolve", vec![fl(&a), fl(&b), outcome_list(&res)]), t(&res), res.is_err()); }
            4 => { let res = catch(|| forward_substitution(&a, &b)); cs.push(app("CFwd", vec![fl(&a), fl(&b), outcome_list(&res)]), t(&res), res.is_err()); }
            5 => { let res = catch(|| backward_substitution(&a, &b)); cs.push(app("CBwd", vec![fl(&a), fl(&b), outcome_list(&res)]), t(&res), res.is_err()); }
            6 => { let res = catch(|| vec![ipiv_parity(&p) as f64]); cs.push(app("CParity", vec![pv(&p), outcome_list(&res)]), t(&res), res.is_err()); }
            7 => { // lu_solve with a square lu and a pivot vector that is too long / too short / out of range / repeated
                let n = 1 + r.below(4) as usize; let l: Vec<f64> = (0..n * n).map(|_| r.small_int(4) + 0.5).collect(); let bb = rhs(&mut r, n);
                let res = catch(|| lu_solve(&l, &p, &bb)); cs.push(app("CLuSolve", vec![fl(&l), pv(&p), fl(&bb), outcome_list(&res)]), t(&res), res.is_err());
                let res = catch(|| mk(&l, n, n).lu_solve(&p, &Vector::new(bb.clone())).v); cs.push(app("CLuSolveM", vec![nat(n), nat(n), fl(&l), pv(&p), fl(&bb), outcome_list(&res)]), t(&res), res.is_err());
                let res = catch(|| vec![mk(&l, n, n).lu_det(&p)]); cs.push(app("CLuDet", vec![nat(n), nat(n), fl(&l), pv(&p), outcome_list(&res)]), t(&res), res.is_err());
            }
            8 => { // Matrix methods on a non-square receiver (all must panic) or a right-hand side of the wrong length
                let (rr, cc) = (1 + r.below(4) as usize, 1 + r.below(4) as usize);
                let d: Vec<f64> = (0..rr * cc).map(|_| r.small_int(4)).collect();
                if rr != cc {
                    let res = catch(|| { let (l, p) = mk(&d, rr, cc).lu(); let mut v = mat_out(&l); v.extend(p.iter().map(|x| *x as f64)); v }); cs.push(app("CLuM", vec![nat(rr), nat(cc), fl(&d), outcome_list(&res)]), t(&res), res.is_err());
                    let res = catch(|| vec![mk(&d, rr, cc).det()]); cs.push(app("CDet", vec![nat(rr), nat(cc), fl(&d), outcome_list(&res)]), t(&res), res.is_err());
                    let res = catch(|| mat_out(&mk(&d, rr, cc).cholesky())); cs.push(app("CCholM", vec![nat(rr), nat(cc), fl(&d), outcome_list(&res)]), t(&res), res.is_err());
                    let res = catch(|| bool_out(mk(&d, rr, cc).is_symmetric())); cs.push(app("CIsSymM", vec![nat(rr), nat(cc), fl(&d), outcome_list(&res)]), t(&res), true);
                    let res = catch(|| bool_out(mk(&d, rr, cc).is_positive_definite())); cs.push(app("CIsPDM", vec![nat(rr), nat(cc), fl(&d), outcome_list(&res)]), t(&res), true);
                } else {
                    let res = catch(|| mk(&d, rr, cc).solve(&Vector::new(b.clone())).v); cs.push(app("CSolveM", vec![nat(rr), nat(cc), fl(&d), fl(&b), outcome_list(&res)]), t(&res), res.is_err());
                    let mut lo = d.clone(); for i in 0..rr { for j in (i + 1)..cc { lo[i * cc + j] = 0.0; } lo[i * cc + i] = 2.0; }
                    let res = catch(|| mk(&lo, rr, cc).forward_substitution(&b).v); cs.push(app("CFwdM", vec![nat(rr), nat(cc), fl(&lo), fl(&b), outcome_list(&res)]), t(&res), res.is_err());
                    let res = catch(|| mk(&lo, rr, cc).cholesky_solve(&Vector::new(b.clone())).v); cs.push(app("CCholSolveM", vec![nat(rr), nat(cc), fl(&lo), fl(&b), outcome_list(&res)]), t(&res), res.is_err());
                    let up = transpose_sq(&lo, rr);
                    let res = catch(|| mk(&up, rr, cc).backward_substitution(&b).v); cs.push(app("CBwdM", vec![nat(rr), nat(cc), fl(&up), fl(&b), outcome_list(&res)]), t(&res), res.is_err());
                    // a system matrix with the wrong number of rows
                    let sr = 1 + r.below(4) as usize; let s: Vec<f64> = (0..sr * 2).map(|_| r.small_int(4)).collect();
                    let res = catch(|| mat_out(&mk(&d, rr, cc).solve(&mk(&s, sr, 2)))); cs.push(app("CSolveMM", vec![nat(rr), nat(cc), fl(&d), nat(sr), nat(2), fl(&s), outcome_list(&res)]), t(&res), res.is_err());
                }
            }
            _ => { // Matrix triangular solves on a receiver that is not triangular (must panic)
                let n = 2 + r.below(3) as usize; let d = gen_matrix(&mut r, n, 1); let bb = rhs(&mut r, n);
                let res = catch(|| mk(&d, n, n).forward_substitution(&bb).v); cs.push(app("CFwdM", vec![nat(n), nat(n), fl(&d), fl(&bb), outcome_list(&res)]), t(&res), res.is_err());
                let res = catch(|| mk(&d, n, n).backward_substitution(&bb).v); cs.push(app("CBwdM", vec![nat(n), nat(n), fl(&d), fl(&bb), outcome_list(&res)]), t(&res), res.is_err());
                let res = catch(|| mk(&d, n, n).cholesky_solve(&Vector::new(bb.clone())).v); cs.push(app("CCholSolveM", vec![nat(n), nat(n), fl(&d), fl(&bb), outcome_list(&res)]), t(&res), res.is_err());
            }
        }
    }
    cs.write(outdir, if thorough { 60 } else { 150 },
             "15 input classes + 16 named families shared with the oracle sweep (column-graded, power-of-two scaled, Wilkinson growth, +-1 entries, Hadamard blocks; SPD with prescribed spectrum up to condition 1e8, min(i,j), second difference, Hilbert/Lehmer, scaled, equicorrelated; exact zero / negative pivot at the first and last position; equicorrelation below the bound; singular Gram) at orders 1, 8 (thorough: 1..12, 16, 31, 32); orders 31 and 32 also at the quick tier; 15 classes = (extreme-scale symmetric 1e-300..1e300, dense, integer, singular, rank-deficient, zero leading block, (scaled) permutation, every-column-pivots-on-next-row, SPD real/integer, symmetric indefinite with positive diagonal, special values NaN/inf/-0/subnormal/huge, graded rows, lower/upper triangular) x every order 1..12 (thorough: 6 matrices each and orders 13..32), each matrix seen through every entry point (slice and Matrix forms of lu, lu_solve, det, lu_det, solve, cholesky, cholesky_solve, forward/backward substitution, is_symmetric, is_positive_definite); every permutation of 0..n (n <= 5 quick, 7 thorough) and random permutations through ipiv_parity; empty slices; a malformed stream (non-square lengths, wrong right-hand-side lengths, bad pivot vectors, non-square / non-triangular Matrix receivers). Non-trivial = order >= 2 and (LU family: at least one row swap; Cholesky family / substitutions / predicates: order >= 2), a non-identity permutation, a panic in the malformed stream; distinct by hash of the case term");
}

// ------------------------------------------------------------------------------------------------
// failure-search oracle: the property's statement against the implementation only

/// double-double accumulation of sum_k x_k*y_k (error-free product by Veltkamp/Dekker splitting)
#[derive(Clone, Copy)]
struct DD { hi: f64, lo: f64 }
fn two_sum(a: f64, b: f64) -> (f64, f64) { let s = a + b; let bb = s - a; (s, (a - (s - bb)) + (b - bb)) }
fn split(a: f64) -> (f64, f64) { let c = 134217729.0 * a; let h = c - (c - a); (h, a - h) }
fn two_prod(a: f64, b: f64) -> (f64, f64) { let p = a * b; let (ah, al) = split(a); let (bh, bl) = split(b); (p, ((ah * bh - p) + ah * bl + al * bh) + al * bl) }
impl DD {
    fn zero() -> DD { DD { hi: 0.0, lo: 0.0 } }
    fn add_f(self, x: f64) -> DD { let (s, e) = two_sum(self.hi, x); let (h, l) = two_sum(s, e + self.lo); DD { hi: h, lo: l } }
    fn add_prod(self, a: f64, b: f64) -> DD { let (p, e) = two_prod(a, b); self.add_f(p).add_f(e) }
    fn val(self) -> f64 { self.hi + self.lo }
}
const EPS: f64 = f64::EPSILON / 2.0; // unit roundoff

/// Bareiss fraction-free determinant of an integer matrix, exact in i128
fn bareiss(a: &[f64], n: usize) -> i128 {
    let mut m: Vec<i128> = a.iter().map(|x| *x as i128).collect();
    let mut sign = 1i128; let mut prev = 1i128;
    for k in 0..n {
        if m[k * n + k] == 0 {
            let mut s = None;
            for i in (k + 1)..n { if m[i * n + k] != 0 { s = Some(i); break; } }
            match s { None => return 0, Some(i) => { for j in 0..n { m.swap(k * n + j, i * n + j); } sign = -sign; } }
        }
        for i in (k + 1)..n { for j in (k + 1)..n {
            m[i * n + j] = (m[i * n + j] * m[k * n + k] - m[i * n + k] * m[k * n + j]) / prev;
        }}
        prev = m[k * n + k];
    }
    if n == 0 { 1 } else { sign * m[(n - 1) * n + (n - 1)] }
}

/// sign of a permutation vector by counting cycles (independent of the implementation)
fn sign_by_cycles(p: &[i32]) -> i32 {
    let n = p.len(); let mut seen = vec![false; n]; let mut s = 1;
    for i in 0..n { if !seen[i] { let mut len = 0; let mut j = i; while !seen[j] { seen[j] = true; j = p[j] as usize; len += 1; } if len % 2 == 0 { s = -s; } } }
    s
}
fn is_permutation(p: &[i32]) -> bool { let n = p.len(); let mut seen = vec![false; n]; p.iter().all(|x| { let k = *x as usize; *x >= 0 && k < n && !std::mem::replace(&mut seen[k], true) }) }
fn finite(v: &[f64]) -> bool { v.iter().all(|x| x.is_finite()) }

fn check_lu(out: &mut Vec<Finding>, form: &str, a: &[f64], n: usize, l: &[f64], p: &[i32], input: &str) {
    let mut f = |class: &str, what: String| out.push(Finding { class: format!("{}:{}", form, class), what, input: input.to_string() });
    if l.len() != n * n || p.len() != n { f("shape", format!("result has {} entries and {} pivots for order {}", l.len(), p.len(), n)); return; }
    if !is_permutation(p) { f("pivots-not-a-permutation", format!("pivots = {:?}", p)); return; }
    if !finite(l) { f("nonfinite-factors-of-finite-input", "LU factors of a finite, moderately sized matrix are not finite".into()); return; }
    for i in 0..n { for k in 0..i { if l[i * n + k].abs() > 1.0 { f("multiplier-exceeds-1", format!("|l[{}][{}]| = {:e} > 1", i, k, l[i * n + k].abs())); return; } } }
    // P.A = L.U to backward-error precision: |PA - LU|_ij <= 2.n.u.(|L||U|)_ij
    for i in 0..n { for j in 0..n {
        let mut s = DD::zero(); let mut mag = 0.0;
        for k in 0..=i.min(j) { let lik = if k == i { 1.0 } else { l[i * n + k] }; s = s.add_prod(lik, l[k * n + j]); mag += (lik * l[k * n + j]).abs(); }
        let res = s.add_f(-a[p[i] as usize * n + j]).val().abs();
        if res > 2.0 * (n as f64 + 1.0) * EPS * mag + 1e-300 { f("does-not-reconstruct", format!("(L.U - P.A)[{}][{}] = {:e}, allowed {:e}", i, j, res, 2.0 * (n as f64 + 1.0) * EPS * mag)); return; }
    }}
}

fn check_chol(out: &mut Vec<Finding>, form: &str, a: &[f64], n: usize, l: &[f64], input: &str) {
    let mut f = |class: &str, what: String| out.push(Finding { class: format!("{}:{}", form, class), what, input: input.to_string() });
    if l.len() != n * n { f("shape", format!("{} entries for order {}", l.len(), n)); return; }
    if !finite(l) { f("nonfinite-factor-of-spd-input", "Cholesky factor of an SPD matrix is not finite".into()); return; }
    for i in 0..n { for j in (i + 1)..n { if l[i * n + j] != 0.0 { f("not-lower-triangular", format!("l[{}][{}] = {:e}", i, j, l[i * n + j])); return; } } if !(l[i * n + i] > 0.0) { f("diagonal-not-positive", format!("l[{}][{}] = {:e}", i, i, l[i * n + i])); return; } }
    for i in 0..n { for j in 0..=i {
        let mut s = DD::zero(); let mut mag = 0.0;
        for k in 0..=j { s = s.add_prod(l[i * n + k], l[j * n + k]); mag += (l[i * n + k] * l[j * n + k]).abs(); }
        let res = s.add_f(-a[i * n + j]).val().abs();
        if res > 2.0 * (n as f64 + 2.0) * EPS * mag + 1e-300 { f("does-not-reconstruct", format!("(L.L^T - A)[{}][{}] = {:e}, allowed {:e}", i, j, res, 2.0 * (n as f64 + 2.0) * EPS * mag)); return; }
    }}
}

/// |T.x - b|_i <= 2(n+1)u (|T||x|)_i for a triangular T (lower: uses j <= i, upper: j >= i)
fn check_tri(out: &mut Vec<Finding>, form: &str, t: &[f64], n: usize, lower: bool, x: &[f64], b: &[f64], input: &str) {
    if x.len() != n { out.push(Finding { class: format!("{}:shape", form), what: format!("solution has {} entries for order {}", x.len(), n), input: input.to_string() }); return; }
    if !finite(x) { out.push(Finding { class: format!("{}:nonfinite-solution-of-regular-system", form), what: "non-finite solution for a triangular system with a well-separated diagonal".into(), input: input.to_string() }); return; }
    for i in 0..n {
        let mut s = DD::zero(); let mut mag = 0.0;
        let (lo, hi) = if lower { (0, i + 1) } else { (i, n) };
        for j in lo..hi { s = s.add_prod(t[i * n + j], x[j]); mag += (t[i * n + j] * x[j]).abs(); }
        let res = s.add_f(-b[i]).val().abs();
        if res > 2.0 * (n as f64 + 1.0) * EPS * (mag + b[i].abs()) + 1e-300 { out.push(Finding { class: format!("{}:residual", form), what: format!("(T.x - b)[{}] = {:e}, allowed {:e}", i, res, 2.0 * (n as f64 + 1.0) * EPS * (mag + b[i].abs())), input: input.to_string() }); return; }
    }
}


// ------------------------------------------------------------------------------------------------
// additional evaluation points (coverage audit against the property's quantifier: every order 1..32 for every class and entry point,
// exact integer determinants at every order, genuinely ill-conditioned SPD input, rejection at every pivot position, Solve<Matrix> forms)

impl DD {
    fn mul_f(self, p: f64) -> DD { let (h, e) = two_prod(self.hi, p); let l = self.lo * p + e; let (s, t) = two_sum(h, l); DD { hi: s, lo: t } }
}

/// the twenty largest primes below 2^31 (products of two residues fit in u64)
const PRIMES: [u64; 20] = [2147483647, 2147483629, 2147483587, 2147483579, 2147483563, 2147483549, 2147483543, 2147483497, 2147483489, 2147483477,
    2147483423, 2147483399, 2147483353, 2147483323, 2147483269, 2147483249, 2147483237, 2147483179, 2147483171, 2147483137];
fn powmod(mut b: u64, mut e: u64, p: u64) -> u64 { let mut r = 1u64; b %= p; while e > 0 { if e & 1 == 1 { r = r * b % p; } b = b * b % p; e >>= 1; } r }
/// determinant of an integer matrix modulo the prime p (Gaussian elimination over GF(p))
fn det_mod(a: &[f64], n: usize, p: u64) -> u64 {
    let mut m: Vec<u64> = a.iter().map(|x| { assert!(x.fract() == 0.0 && x.abs() < 9.0e15); (*x as i64).rem_euclid(p as i64) as u64 }).collect();
    let mut det = 1u64;
    for c in 0..n {
        let mut piv = None;
        for i in c..n { if m[i * n + c] != 0 { piv = Some(i); break; } }
        let i = match piv { None => return 0, Some(i) => i };
        if i != c { for j in 0..n { m.swap(i * n + j, c * n + j); } det = (p - det) % p; }
        det = det * m[c * n + c] % p;
        let inv = powmod(m[c * n + c], p - 2, p);
        for i in (c + 1)..n {
            let f = m[i * n + c] * inv % p;
            if f != 0 { for j in c..n { m[i * n + j] = (m[i * n + j] + p - f * m[c * n + j] % p) % p; } }
        }
    }
    det
}
/// mixed-radix digits (Garner) of the number below prod p_i with the given residues
fn garner(res: &[u64]) -> Vec<u64> {
    let k = res.len(); let mut d = vec![0u64; k];
    for i in 0..k {
        let pi = PRIMES[i]; let mut t = res[i] % pi;
        for j in 0..i { t = (t + pi - d[j] % pi) % pi * powmod(PRIMES[j] % pi, pi - 2, pi) % pi; }
        d[i] = t;
    }
    d
}
/// exact determinant of an integer matrix (any order up to 32 and beyond), correctly rounded to about 1e-30 relative: residues modulo enough primes
/// that the modulus exceeds 8 x the Hadamard bound, mixed-radix digits, sign read off the top digit, Horner evaluation in double-double
fn exact_det(a: &[f64], n: usize) -> f64 {
    if n == 0 { return 1.0; }
    let h: f64 = (0..n).map(|i| (0..n).map(|j| a[i * n + j] * a[i * n + j]).sum::<f64>().sqrt()).product();
    let mut k = 0; let mut m = 1.0f64;
    while m <= 8.0 * h + 8.0 { m *= PRIMES[k] as f64; k += 1; }
    let res: Vec<u64> = (0..k).map(|i| det_mod(a, n, PRIMES[i])).collect();
    let mut d = garner(&res); let mut neg = false;
    if d[k - 1] >= PRIMES[k - 1] / 2 { neg = true; let r2: Vec<u64> = (0..k).map(|i| (PRIMES[i] - res[i]) % PRIMES[i]).collect(); d = garner(&r2); }
    let mut x = DD::zero().add_f(d[k - 1] as f64);
    for i in (0..k - 1).rev() { x = x.mul_f(PRIMES[i] as f64).add_f(d[i] as f64); }
    if neg { -x.val() } else { x.val() }
}

const XLU: [&str; 6] = ["column-graded", "power-of-two-scaled", "wilkinson-growth", "plus-minus-one", "orthogonal-rows-hadamard-blocks", "rank-deficient-real"];
/// general matrices the random classes never draw
fn gen_xlu(r: &mut Rng, n: usize, kind: usize) -> Vec<f64> {
    let mut a = vec![0.0; n * n];
    match kind {
        0 => { let s: Vec<f64> = (0..n).map(|_| (10.0f64).powi(r.range(-8, 8) as i32)).collect(); for i in 0..n { for j in 0..n { a[i * n + j] = s[j] * r.uniform(-1.0, 1.0); } } }
        1 => { let s = (2.0f64).powi(r.range(-200, 200) as i32); for x in a.iter_mut() { *x = s * r.uniform(-4.0, 4.0); } }
        2 => { for i in 0..n { for j in 0..i { a[i * n + j] = -1.0; } a[i * n + i] = 1.0; a[i * n + n - 1] = 1.0; } } // element growth 2^(n-1) under partial pivoting
        3 => for x in a.iter_mut() { *x = if r.coin(0.5) { 1.0 } else { -1.0 } }, // every pivot search meets ties
        4 => return hadamard_blocks(r, n).0,
        _ => { // real matrix of rank k < n: pivots of the order of the rounding errors
            let k = if n >= 2 { 1 + r.below(n as u64 - 1) as usize } else { 0 };
            let u: Vec<f64> = (0..n * k).map(|_| r.uniform(-2.0, 2.0)).collect(); let v: Vec<f64> = (0..n * k).map(|_| r.uniform(-2.0, 2.0)).collect();
            for i in 0..n { for j in 0..n { for q in 0..k { a[i * n + j] += u[i * k + q] * v[j * k + q]; } } }
        }
    }
    a
}
/// signed, scaled, row- and column-permuted direct sum of Sylvester-Hadamard blocks: rows are orthogonal, so the Hadamard bound equals |det| and
/// the determinant tolerance is as sharp as it can be; the exact determinant is known by multiplicativity
fn hadamard_blocks(r: &mut Rng, n: usize) -> (Vec<f64>, f64) {
    let mut b = vec![0.0; n * n]; let mut det = 1.0f64; let mut o = 0;
    while o < n {
        let mut s = 1usize << r.below(6); while s > n - o { s >>= 1; }
        let c = 1.0 + r.below(3) as f64;
        for i in 0..s { for j in 0..s { b[(o + i) * n + o + j] = if (i & j).count_ones() % 2 == 0 { c } else { -c }; } }
        det *= match s { 1 => 1.0, 2 => -2.0, _ => (s as f64).powi(s as i32 / 2) };
        for _ in 0..s { det *= c; }
        o += s;
    }
    for i in 0..n { if r.coin(0.5) { for j in 0..n { b[i * n + j] = -b[i * n + j]; } det = -det; } }
    let (pr, pc) = (perm(r, n), perm(r, n));
    let mut a = vec![0.0; n * n];
    for i in 0..n { for j in 0..n { a[i * n + j] = b[pr[i] * n + pc[j]]; } }
    let sg = |p: &[usize]| sign_by_cycles(&p.iter().map(|x| *x as i32).collect::<Vec<i32>>()) as f64;
    (a, det * sg(&pr) * sg(&pc))
}

const XSPD: [&str; 6] = ["spd-spectrum-cond-up-to-1e8", "spd-min-ij", "spd-second-difference", "spd-hilbert-or-lehmer", "spd-power-of-two-scaled", "spd-equicorrelated"];
/// positive definite matrices the random classes never draw: a prescribed spectrum 1 .. 10^-c (c up to 8) in a random orthogonal basis (the
/// condition number of the quantifier, not removable by diagonal scaling), classical test matrices, extreme-but-harmless scalings
fn gen_xspd(r: &mut Rng, n: usize, kind: usize) -> Vec<f64> {
    let mut a = vec![0.0; n * n];
    match kind {
        0 => {
            let c = if r.coin(0.3) { 8.0 } else { r.uniform(0.0, 8.0) }; let sc = (10.0f64).powi(r.range(-3, 3) as i32);
            let lam: Vec<f64> = (0..n).map(|k| if n == 1 { sc } else { sc * (10.0f64).powf(-c * k as f64 / (n - 1) as f64) }).collect();
            let mut q = vec![0.0; n * n]; for i in 0..n { q[i * n + i] = 1.0; }
            for _ in 0..2 { // two Householder reflectors
                let v: Vec<f64> = (0..n).map(|_| r.uniform(-1.0, 1.0)).collect(); let vv: f64 = v.iter().map(|x| x * x).sum();
                if vv == 0.0 { continue; }
                for i in 0..n { let mut s = 0.0; for k in 0..n { s += q[i * n + k] * v[k]; } for k in 0..n { q[i * n + k] -= 2.0 * s * v[k] / vv; } }
            }
            for i in 0..n { for j in 0..=i { let mut s = 0.0; for k in 0..n { s += q[i * n + k] * lam[k] * q[j * n + k]; } a[i * n + j] = s; a[j * n + i] = s; } }
        }
        1 => for i in 0..n { for j in 0..n { a[i * n + j] = (i.min(j) + 1) as f64; } }, // factor = all ones, exactly
        2 => for i in 0..n { a[i * n + i] = 2.0; if i + 1 < n { a[i * n + i + 1] = -1.0; a[(i + 1) * n + i] = -1.0; } },
        3 => for i in 0..n { for j in 0..n { a[i * n + j] = if n <= 6 { 1.0 / (i + j + 1) as f64 } else { (i.min(j) + 1) as f64 / (i.max(j) + 1) as f64 }; } }, // Hilbert: cond 1.5e7 at order 6
        4 => { a = gen_matrix(r, n, 7); let s = (2.0f64).powi(2 * r.range(-200, 200) as i32); for x in a.iter_mut() { *x *= s; } }
        _ => { let rho = if n == 1 { 0.0 } else if r.coin(0.5) { r.uniform(0.0, 0.999) } else { -0.9 / (n - 1) as f64 }; for i in 0..n { for j in 0..n { a[i * n + j] = if i == j { 1.0 } else { rho }; } } }
    }
    a
}

/// symmetric integer matrix whose Cholesky sweep is exact in binary64 and meets the pivot -m <= 0 exactly at position k (rows 0..k-1 of the factor are
/// the integer rows of a known L): not positive definite by construction, with nothing left to rounding
fn exact_nonpositive_pivot(r: &mut Rng, n: usize, k: usize, m: f64) -> Vec<f64> {
    let mut l = vec![0.0; n * n];
    for i in 0..n { for j in 0..i { l[i * n + j] = r.small_int(2); } l[i * n + i] = 1.0 + r.below(3) as f64; }
    let mut a = vec![0.0; n * n];
    for i in 0..n { for j in 0..=i { let mut s = 0.0; for q in 0..=j { s += l[i * n + q] * l[j * n + q]; } a[i * n + j] = s; a[j * n + i] = s; } }
    a[k * n + k] -= l[k * n + k] * l[k * n + k] + m;
    a
}

/// residual of lu_solve's answer: row i of (L.U.x - P.b) against 8(n+1)u(|L||U||x| + |P.b|)
fn lu_solution_defect(l: &[f64], p: &[i32], n: usize, x: &[f64], b: &[f64]) -> Option<(usize, f64, f64)> {
    for i in 0..n {
        let mut s = DD::zero(); let mut mag = 0.0;
        for k in 0..n { for m in 0..=i.min(k) { let lim = if m == i { 1.0 } else { l[i * n + m] }; let t = lim * l[m * n + k]; let (q, e) = two_prod(t, x[k]); s = s.add_f(q).add_f(e); mag += (t * x[k]).abs(); } }
        let res = s.add_f(-b[p[i] as usize]).val().abs();
        if res > 8.0 * (n as f64 + 1.0) * EPS * (mag + b[p[i] as usize].abs()) + 1e-300 { return Some((i, res, mag)); }
    }
    None
}
/// residual of cholesky_solve's answer: row i of (L.L^T.x - b) against 8(n+1)u(|L||L^T||x| + |b|)
fn chol_solution_defect(l: &[f64], n: usize, x: &[f64], b: &[f64]) -> Option<(usize, f64, f64)> {
    for i in 0..n {
        let mut s = DD::zero(); let mut mag = 0.0;
        for k in 0..n { for m in 0..=i.min(k) { let t = l[i * n + m] * l[k * n + m]; let (q, e) = two_prod(t, x[k]); s = s.add_f(q).add_f(e); mag += (t * x[k]).abs(); } }
        let res = s.add_f(-b[i]).val().abs();
        if res > 8.0 * (n as f64 + 1.0) * EPS * (mag + b[i].abs()) + 1e-300 { return Some((i, res, mag)); }
    }
    None
}
fn column(m: &Matrix, c: usize) -> Vec<f64> { (0..m.nrows).map(|i| m.data[i * m.ncols + c]).collect() }

/// LU family on one square matrix: structure and reconstruction (slice form), bitwise equality of the Matrix form, determinant = signed product of
/// U's diagonal (Matrix::det, Matrix::lu_det), and every solve form -- Vector and Matrix right-hand sides -- when U's diagonal is safely nonzero
fn probe_lu(out: &mut Vec<Finding>, tried: &mut u64, r: &mut Rng, a: &[f64], n: usize, cname: &str) {
    let input = format!("class={} n={} a={}", cname, n, json_floats(a));
    *tried += 2;
    crumb(&format!("lu / Matrix::lu / det / lu_det / lu_solve / Matrix::solve {}", input));
    let res = catch(|| lu(a));
    match &res { Ok((l, p)) => check_lu(out, "lu", a, n, l, p, &input), Err(e) => out.push(Finding { class: "lu:panics-on-square-input".into(), what: e.clone(), input: input.clone() }) }
    let resm = catch(|| { let (l, p) = mk(a, n, n).lu(); (l.data.v.clone(), p) });
    match (&res, &resm) {
        (Ok((l, p)), Ok((lm, pm))) => { if l.iter().map(|x| x.to_bits()).ne(lm.iter().map(|x| x.to_bits())) || p != pm { out.push(Finding { class: "Matrix::lu:differs-from-slice-lu".into(), what: "slice and Matrix LU return different factors (same algorithm: must be identical)".into(), input: input.clone() }); } }
        (_, Err(e)) => out.push(Finding { class: "Matrix::lu:panics-on-square-input".into(), what: e.clone(), input: input.clone() }),
        _ => {}
    }
    let (l, p) = match &res { Ok(x) => x, Err(_) => return };
    if !finite(l) || !is_permutation(p) || l.len() != n * n { return; }
    // the determinant is the signed product of U's diagonal (no partial product can leave the normal range: sum of |exponents| < 900)
    let diag: Vec<f64> = (0..n).map(|i| l[i * n + i]).collect();
    let expsum: i64 = diag.iter().filter(|u| **u != 0.0).map(|u| { let e = ((u.to_bits() >> 52) & 0x7ff) as i64; if e == 0 { 2000 } else { (e - 1023).abs() + 1 } }).sum();
    if expsum < 900 {
        let want = diag.iter().fold(1.0, |m, u| m * u) * sign_by_cycles(p) as f64;
        for (form, d) in [("Matrix::det", catch(|| mk(a, n, n).det())), ("Matrix::lu_det", catch(|| mk(l, n, n).lu_det(p)))] {
            *tried += 1;
            match d {
                Err(e) => out.push(Finding { class: format!("{}:panics-on-square-input", form), what: e, input: input.clone() }),
                Ok(d) => if !((d - want).abs() <= 4.0 * (n as f64 + 1.0) * EPS * want.abs()) {
                    let class = if (d + want).abs() <= 4.0 * (n as f64 + 1.0) * EPS * want.abs() { "wrong-sign" } else { "not-the-signed-product-of-U-diagonal" };
                    out.push(Finding { class: format!("{}:{}", form, class), what: format!("returned {:e}, sign(P) x product of U's diagonal = {:e}", d, want), input: input.clone() });
                }
            }
        }
    }
    // solves
    let dmin = diag.iter().fold(f64::INFINITY, |m, u| m.min(u.abs()));
    let umax = l.iter().fold(0.0f64, |m, x| m.max(x.abs()));
    if !(dmin > 1e-6 * umax) { return; }
    let b = rhs(r, n);
    for (form, x) in [("lu_solve", catch(|| lu_solve(l, p, &b))), ("Matrix::lu_solve", catch(|| mk(l, n, n).lu_solve(p, &Vector::new(b.clone())).v)), ("Matrix::solve", catch(|| mk(a, n, n).solve(&Vector::new(b.clone())).v))] {
        *tried += 1;
        match x {
            Err(e) => out.push(Finding { class: format!("{}:panics-on-valid-input", form), what: e, input: input.clone() }),
            Ok(x) => {
                if x.len() != n || !finite(&x) { out.push(Finding { class: format!("{}:nonfinite-solution-of-regular-system", form), what: format!("x = {:?}", x), input: format!("{} b={}", input, json_floats(&b)) }); continue; }
                if let Some((i, res, mag)) = lu_solution_defect(l, p, n, &x, &b) { out.push(Finding { class: format!("{}:residual", form), what: format!("(L.U.x - P.b)[{}] = {:e} with |L||U||x| = {:e}", i, res, mag), input: format!("{} b={}", input, json_floats(&b)) }); }
            }
        }
    }
    // Solve<Matrix>: k right-hand sides at once (column 0 is b)
    let k = 1 + r.below(3) as usize;
    let mut s = vec![0.0; n * k]; for i in 0..n { s[i * k] = b[i]; for c in 1..k { s[i * k + c] = r.small_int(9); } }
    for (form, xs) in [("Matrix::lu_solve(Matrix)", catch(|| mk(l, n, n).lu_solve(p, &mk(&s, n, k)))), ("Matrix::solve(Matrix)", catch(|| mk(a, n, n).solve(&mk(&s, n, k))))] {
        *tried += 1;
        let inp = format!("{} rhs({}x{})={}", input, n, k, json_floats(&s));
        match xs {
            Err(e) => out.push(Finding { class: format!("{}:panics-on-valid-input", form), what: e, input: inp }),
            Ok(xs) => {
                if xs.nrows != n || xs.ncols != k || xs.data.len() != n * k { out.push(Finding { class: format!("{}:shape", form), what: format!("result is {}x{} for {} right-hand sides of length {}", xs.nrows, xs.ncols, k, n), input: inp }); continue; }
                for c in 0..k {
                    let (x, bc) = (column(&xs, c), (0..n).map(|i| s[i * k + c]).collect::<Vec<f64>>());
                    if !finite(&x) { out.push(Finding { class: format!("{}:nonfinite-solution-of-regular-system", form), what: format!("column {} = {:?}", c, x), input: inp.clone() }); break; }
                    if let Some((i, res, mag)) = lu_solution_defect(l, p, n, &x, &bc) { out.push(Finding { class: format!("{}:residual", form), what: format!("column {}: (L.U.x - P.b)[{}] = {:e} with |L||U||x| = {:e}", c, i, res, mag), input: inp.clone() }); break; }
                }
            }
        }
    }
}

/// Matrix::det and Matrix::lu_det of an integer matrix against its exact determinant (tolerance 1e-9 x Hadamard bound, as for the small orders)
fn probe_det_exact(out: &mut Vec<Finding>, tried: &mut u64, a: &[f64], n: usize, exact: f64, cname: &str) {
    let h: f64 = (0..n).map(|i| (0..n).map(|j| a[i * n + j] * a[i * n + j]).sum::<f64>().sqrt()).product();
    let inp = format!("class={} n={} a={}", cname, n, json_floats(a));
    *tried += 2;
    crumb(&format!("Matrix::det / Matrix::lu_det {}", inp));
    let tol = 1e-9 * h + 1e-300;
    for (form, d) in [("Matrix::det", catch(|| mk(a, n, n).det())), ("Matrix::lu_det", catch(|| { let (l, p) = mk(a, n, n).lu(); l.lu_det(&p) }))] {
        match d {
            Err(e) => out.push(Finding { class: format!("{}:panics-on-square-input", form), what: e, input: inp.clone() }),
            Ok(d) => if !((d - exact).abs() <= tol) {
                let class = if (d + exact).abs() <= tol { "wrong-sign" } else { "wrong-value" };
                out.push(Finding { class: format!("{}:{}", form, class), what: format!("returned {:e}, exact integer determinant is {:e}", d, exact), input: inp.clone() });
            }
        }
    }
}

/// Cholesky family on one positive definite matrix: acceptance, structure, reconstruction, agreement of the forms, every solve form
fn probe_spd(out: &mut Vec<Finding>, tried: &mut u64, r: &mut Rng, s: &[f64], ns: usize, cname: &str, tolf: f64) {
    let inp = format!("class={} n={} a={}", cname, ns, json_floats(s));
    *tried += 2;
    crumb(&format!("cholesky / Matrix::cholesky / cholesky_solve {}", inp));
    let l1 = catch(|| cholesky(s)); let l2 = catch(|| mk(s, ns, ns).cholesky().data.v.clone());
    match &l1 { Ok(l) => check_chol(out, "cholesky", s, ns, l, &inp), Err(e) => out.push(Finding { class: "cholesky:panics-on-spd-input".into(), what: e.clone(), input: inp.clone() }) }
    match (catch(|| try_cholesky(s)), &l1) {
        (Ok(Some(t)), Ok(l)) => if t.iter().map(|x| x.to_bits()).ne(l.iter().map(|x| x.to_bits())) { out.push(Finding { class: "try_cholesky:differs-from-cholesky".into(), what: "try_cholesky and cholesky return different factors".into(), input: inp.clone() }) },
        (Ok(None), _) => out.push(Finding { class: "try_cholesky:rejects-spd-input".into(), what: "try_cholesky returned None for an SPD matrix".into(), input: inp.clone() }),
        (Err(e), _) => out.push(Finding { class: "try_cholesky:panics-on-spd-input".into(), what: e, input: inp.clone() }),
        _ => {}
    }
    match &l2 { Ok(l) => check_chol(out, "Matrix::cholesky", s, ns, l, &inp), Err(e) => out.push(Finding { class: "Matrix::cholesky:panics-on-spd-input".into(), what: e.clone(), input: inp.clone() }) }
    let (a1, a2) = match (&l1, &l2) { (Ok(a), Ok(b)) => (a, b), _ => return };
    if a1.len() != ns * ns || !finite(a1) { return; }
    let m = a1.iter().fold(0.0f64, |m, x| m.max(x.abs()));
    if a1.len() == a2.len() { for k in 0..a1.len() { if (a1[k] - a2[k]).abs() > tolf * m { out.push(Finding { class: "cholesky:slice-and-Matrix-factors-differ".into(), what: format!("entry {} differs: {:e} vs {:e}", k, a1[k], a2[k]), input: inp.clone() }); break; } } }
    let b = rhs(r, ns);
    for (form, x) in [("cholesky_solve", catch(|| cholesky_solve(a1, &b))), ("Matrix::cholesky_solve", catch(|| mk(a1, ns, ns).cholesky_solve(&Vector::new(b.clone())).v))] {
        *tried += 1;
        match x {
            Err(e) => out.push(Finding { class: format!("{}:panics-on-valid-input", form), what: e, input: inp.clone() }),
            Ok(x) => {
                if x.len() != ns || !finite(&x) { out.push(Finding { class: format!("{}:nonfinite-solution-of-regular-system", form), what: format!("x = {:?}", x), input: inp.clone() }); continue; }
                if let Some((i, res, mag)) = chol_solution_defect(a1, ns, &x, &b) { out.push(Finding { class: format!("{}:residual", form), what: format!("(L.L^T.x - b)[{}] = {:e} with |L||L^T||x| = {:e}", i, res, mag), input: format!("{} b={}", inp, json_floats(&b)) }); }
            }
        }
    }
    let k = 1 + r.below(3) as usize;
    let mut sy = vec![0.0; ns * k]; for i in 0..ns { sy[i * k] = b[i]; for c in 1..k { sy[i * k + c] = r.small_int(9); } }
    *tried += 1;
    let inp2 = format!("{} rhs({}x{})={}", inp, ns, k, json_floats(&sy));
    match catch(|| mk(a1, ns, ns).cholesky_solve(&mk(&sy, ns, k))) {
        Err(e) => out.push(Finding { class: "Matrix::cholesky_solve(Matrix):panics-on-valid-input".into(), what: e, input: inp2 }),
        Ok(xs) => {
            if xs.nrows != ns || xs.ncols != k || xs.data.len() != ns * k { out.push(Finding { class: "Matrix::cholesky_solve(Matrix):shape".into(), what: format!("result is {}x{} for {} right-hand sides of length {}", xs.nrows, xs.ncols, k, ns), input: inp2 }); return; }
            for c in 0..k {
                let (x, bc) = (column(&xs, c), (0..ns).map(|i| sy[i * k + c]).collect::<Vec<f64>>());
                if !finite(&x) { out.push(Finding { class: "Matrix::cholesky_solve(Matrix):nonfinite-solution-of-regular-system".into(), what: format!("column {} = {:?}", c, x), input: inp2.clone() }); break; }
                if let Some((i, res, mag)) = chol_solution_defect(a1, ns, &x, &bc) { out.push(Finding { class: "Matrix::cholesky_solve(Matrix):residual".into(), what: format!("column {}: (L.L^T.x - b)[{}] = {:e} with |L||L^T||x| = {:e}", c, i, res, mag), input: inp2.clone() }); break; }
            }
        }
    }
}

/// a symmetric matrix that is not positive definite must be rejected by all three Cholesky entry points
fn probe_not_pd(out: &mut Vec<Finding>, tried: &mut u64, a3: &[f64], n3: usize, cname: &str) {
    let inp = format!("class={} n={} a={}", cname, n3, json_floats(a3));
    *tried += 3; crumb(&format!("cholesky / try_cholesky / Matrix::cholesky of a matrix that is not positive definite {}", inp));
    if let Ok(l) = catch(|| cholesky(a3)) { out.push(Finding { class: if finite(&l) { "cholesky:accepts-input-that-is-not-positive-definite".into() } else { "cholesky:nonfinite-factor-for-input-that-is-not-positive-definite".into() }, what: format!("cholesky returned a factor (finite: {}) for a symmetric matrix that is not positive definite", finite(&l)), input: inp.clone() }); }
    match catch(|| try_cholesky(a3)) { Ok(Some(l)) => out.push(Finding { class: "try_cholesky:accepts-input-that-is-not-positive-definite".into(), what: format!("try_cholesky returned Some (finite: {})", finite(&l)), input: inp.clone() }), Ok(None) => {}, Err(e) => out.push(Finding { class: "try_cholesky:panics-on-symmetric-input".into(), what: e, input: inp.clone() }) }
    if let Ok(l) = catch(|| mk(a3, n3, n3).cholesky().data.v.clone()) { out.push(Finding { class: if finite(&l) { "Matrix::cholesky:accepts-input-that-is-not-positive-definite".into() } else { "Matrix::cholesky:nonfinite-factor-for-input-that-is-not-positive-definite".into() }, what: format!("Matrix::cholesky returned a factor (finite: {})", finite(&l)), input: inp.clone() }); }
}

/// whatever a Cholesky entry point returns for a finite symmetric matrix is finite, lower triangular, with a positive diagonal
fn probe_factor_structure(out: &mut Vec<Finding>, tried: &mut u64, a4: &[f64], n4: usize, cname: &str) {
    let inp = format!("class={} n={} a={}", cname, n4, json_floats(a4));
    *tried += 3; crumb(&format!("cholesky / try_cholesky / Matrix::cholesky near the boundary of positive definiteness {}", inp));
    let bad = |l: &[f64]| !(l.len() == n4 * n4 && finite(l) && (0..n4).all(|i| l[i * n4 + i] > 0.0 && (i + 1..n4).all(|j| l[i * n4 + j] == 0.0)));
    if let Ok(Some(l)) = catch(|| try_cholesky(a4)) { if bad(&l) { out.push(Finding { class: "try_cholesky:factor-not-finite-lower-triangular-positive-diagonal".into(), what: format!("try_cholesky returned Some({:?})", l), input: inp.clone() }); } }
    if let Ok(l) = catch(|| cholesky(a4)) { if bad(&l) { out.push(Finding { class: "cholesky:factor-not-finite-lower-triangular-positive-diagonal".into(), what: format!("cholesky returned {:?}", l), input: inp.clone() }); } }
    if let Ok(l) = catch(|| mk(a4, n4, n4).cholesky().data.v.clone()) { if bad(&l) { out.push(Finding { class: "Matrix::cholesky:factor-not-finite-lower-triangular-positive-diagonal".into(), what: format!("Matrix::cholesky returned {:?}", l), input: inp.clone() }); } }
}

/// the four triangular solves on one lower and one upper triangular system
fn probe_tri(out: &mut Vec<Finding>, tried: &mut u64, lo: &[f64], up: &[f64], b: &[f64], nt: usize) {
    let inl = format!("n={} l={} b={}", nt, json_floats(lo), json_floats(b));
    let inu = format!("n={} u={} b={}", nt, json_floats(up), json_floats(b));
    *tried += 4;
    crumb(&format!("forward_substitution (slice, Matrix) {} ; backward_substitution (slice, Matrix) {}", inl, inu));
    match catch(|| forward_substitution(lo, b)) { Ok(x) => check_tri(out, "forward_substitution", lo, nt, true, &x, b, &inl), Err(e) => out.push(Finding { class: "forward_substitution:panics-on-valid-input".into(), what: e, input: inl.clone() }) }
    match catch(|| mk(lo, nt, nt).forward_substitution(b).v) { Ok(x) => check_tri(out, "Matrix::forward_substitution", lo, nt, true, &x, b, &inl), Err(e) => out.push(Finding { class: "Matrix::forward_substitution:panics-on-valid-input".into(), what: e, input: inl.clone() }) }
    match catch(|| backward_substitution(up, b)) { Ok(x) => check_tri(out, "backward_substitution", up, nt, false, &x, b, &inu), Err(e) => out.push(Finding { class: "backward_substitution:panics-on-valid-input".into(), what: e, input: inu.clone() }) }
    match catch(|| mk(up, nt, nt).backward_substitution(b).v) { Ok(x) => check_tri(out, "Matrix::backward_substitution", up, nt, false, &x, b, &inu), Err(e) => out.push(Finding { class: "Matrix::backward_substitution:panics-on-valid-input".into(), what: e, input: inu.clone() }) }
}

/// the sweep: every order 1..=32 (first and last included) x every class x every entry point, `reps` matrices each
fn oracle_sweep(out: &mut Vec<Finding>, tried: &mut u64, r: &mut Rng, reps: usize) {
    for n in 1..=32usize { for _ in 0..reps {
        if out.len() > 30 { return; }
        // LU family: the random classes and the extra ones
        for c in [0usize, 1, 2, 3, 4, 5, 6, 9, 11, 12, 13] {
            let a = gen_matrix(r, n, c);
            probe_lu(out, tried, r, &a, n, CLASSES[c]);
            if [1usize, 2, 3, 4, 5, 6].contains(&c) { let e = exact_det(&a, n); probe_det_exact(out, tried, &a, n, e, CLASSES[c]); }
        }
        for k in 0..XLU.len() {
            let (a, known) = if k == 4 { let (a, d) = hadamard_blocks(r, n); (a, Some(d)) } else { (gen_xlu(r, n, k), None) };
            probe_lu(out, tried, r, &a, n, XLU[k]);
            if (2..=4).contains(&k) {
                let e = exact_det(&a, n);
                if let Some(d) = known { if d != e { out.push(Finding { class: "oracle:reference-determinants-disagree".into(), what: format!("multiplicativity gives {:e}, modular elimination gives {:e}", d, e), input: format!("n={} a={}", n, json_floats(&a)) }); } }
                probe_det_exact(out, tried, &a, n, e, XLU[k]);
            }
        }
        // Cholesky family: acceptance
        for c in [7usize, 8] { let s = gen_matrix(r, n, c); probe_spd(out, tried, r, &s, n, CLASSES[c], if c == 8 { 1e-9 } else { 1e-5 }); }
        { // graded congruence of a random SPD matrix (as in the random search)
            let mut s = gen_matrix(r, n, 7);
            let d: Vec<f64> = (0..n).map(|_| (2.0f64).powi(r.range(-13, 13) as i32)).collect();
            for i in 0..n { for j in 0..n { s[i * n + j] *= d[i] * d[j]; } }
            probe_spd(out, tried, r, &s, n, "spd-real-graded-congruence", 1e-5);
        }
        for k in 0..XSPD.len() { let s = gen_xspd(r, n, k); probe_spd(out, tried, r, &s, n, XSPD[k], if k == 1 || k == 2 { 1e-9 } else { 1e-5 }); }
        // Cholesky family: rejection at the first, the last and a random pivot (exactly zero and exactly negative pivots)
        for k in [0usize, n - 1, r.below(n as u64) as usize] { for m in [0.0, 1.0, 5.0] {
            let a = exact_nonpositive_pivot(r, n, k, m);
            probe_not_pd(out, tried, &a, n, &format!("exact-pivot-{}-at-position-{}", -m, k));
        }}
        if n >= 2 {
            // equicorrelation below the bound -1/(n-1): every 2x2 minor is positive (n >= 3), smallest eigenvalue -0.05(n-1)
            let rho = -1.0 / (n - 1) as f64 - 0.05;
            let a: Vec<f64> = (0..n * n).map(|q| if q / n == q % n { 1.0 } else { rho }).collect();
            probe_not_pd(out, tried, &a, n, "equicorrelated-below-the-bound");
            // class 9 / 8 with a negative 2x2 minor or a non-positive diagonal entry at the first / last index
            for (p, q) in [(0usize, n - 1), (n - 1, 0), (n - 2, n - 1)] {
                let c3 = if r.coin(0.5) { 9 } else { 8 };
                let mut a3 = gen_matrix(r, n, c3);
                if r.coin(0.7) { let v = 2.0 * (a3[p * n + p] * a3[q * n + q]).abs().sqrt() + 1.0; a3[p * n + q] = v; a3[q * n + p] = v; } else { a3[p * n + p] = if r.coin(0.5) { 0.0 } else { -1.0 - r.unit() }; }
                probe_not_pd(out, tried, &a3, n, "negative-2x2-minor-or-nonpositive-diagonal-at-the-border");
            }
            // singular positive semi-definite Gram matrix B.B^T, B n x k, k < n (exact integers): rejection or a finite, well-formed factor
            let k = 1 + r.below(n as u64 - 1) as usize;
            let b: Vec<f64> = (0..n * k).map(|_| r.small_int(3)).collect();
            let mut g = vec![0.0; n * n];
            for i in 0..n { for j in 0..n { let mut s = 0.0; for q in 0..k { s += b[i * k + q] * b[j * k + q]; } g[i * n + j] = s; } }
            probe_factor_structure(out, tried, &g, n, "singular-gram");
        }
        probe_factor_structure(out, tried, &gen_matrix(r, n, 14), n, CLASSES[14]);
        // triangular solves: moderate, row-graded (1e-8 .. 1e8) and exact integer systems with a unit diagonal
        let b = rhs(r, n);
        let mut lo = gen_matrix(r, n, 12); let mut up = gen_matrix(r, n, 13);
        for i in 0..n { if lo[i * n + i].abs() < 0.5 { lo[i * n + i] = 1.0 + r.unit(); } if up[i * n + i].abs() < 0.5 { up[i * n + i] = -1.0 - r.unit(); } }
        probe_tri(out, tried, &lo, &up, &b, n);
        for i in 0..n { let (s, t) = ((10.0f64).powi(r.range(-8, 8) as i32), (10.0f64).powi(r.range(-8, 8) as i32)); for j in 0..n { lo[i * n + j] *= s; up[i * n + j] *= t; } }
        probe_tri(out, tried, &lo, &up, &b, n);
        let mut li = vec![0.0; n * n]; let mut ui = vec![0.0; n * n];
        for i in 0..n { for j in 0..i { li[i * n + j] = r.small_int(1); ui[j * n + i] = r.small_int(1); } li[i * n + i] = if r.coin(0.5) { 1.0 } else { -1.0 }; ui[i * n + i] = if r.coin(0.5) { 1.0 } else { -1.0 }; }
        probe_tri(out, tried, &li, &ui, &b, n);
        // pivot vectors of this length: identity, reversal, the two n-cycles, a transposition at the first / last position, random ones
        let id: Vec<i32> = (0..n as i32).collect();
        let mut ps: Vec<Vec<i32>> = vec![id.clone(), id.iter().rev().cloned().collect(), (0..n).map(|i| ((i + 1) % n) as i32).collect(), (0..n).map(|i| ((i + n - 1) % n) as i32).collect()];
        if n >= 2 { let mut t = id.clone(); t.swap(0, 1); ps.push(t); let mut t = id.clone(); t.swap(n - 2, n - 1); ps.push(t); let mut t = id.clone(); t.swap(0, n - 1); ps.push(t); }
        for _ in 0..6 { ps.push(perm(r, n).iter().map(|x| *x as i32).collect()); }
        for p in ps {
            *tried += 1; crumb(&format!("ipiv_parity ipiv={:?}", p));
            let got = catch(|| ipiv_parity(&p)); let want = sign_by_cycles(&p);
            if got != Ok(want) { out.push(Finding { class: "ipiv_parity:not-the-sign-of-the-permutation".into(), what: format!("ipiv_parity returned {:?}, the permutation has sign {}", got, want), input: format!("ipiv={:?}", p) }); break; }
        }
        // rejection: asymmetry at a random / the last mirrored pair; right-hand sides one too short, one too long, empty; lengths that are not squares
        if n >= 2 {
            for (i, j) in [(n - 2, n - 1), { let i = r.below(n as u64 - 1) as usize; (i, i + 1 + r.below((n - i - 1) as u64) as usize) }] {
                let mut a2 = gen_matrix(r, n, 8); a2[i * n + j] += 1.0;
                *tried += 3; crumb(&format!("rejection: cholesky / try_cholesky / Matrix::cholesky of a non-symmetric matrix n={} a={}", n, json_floats(&a2)));
                if catch(|| cholesky(&a2)).is_ok() || catch(|| try_cholesky(&a2)).is_ok() { out.push(Finding { class: "cholesky:accepts-nonsymmetric-input".into(), what: format!("cholesky or try_cholesky returned for a matrix with a[{}][{}] != a[{}][{}]", i, j, j, i), input: format!("a={}", json_floats(&a2)) }); }
                if catch(|| mk(&a2, n, n).cholesky()).is_ok() { out.push(Finding { class: "Matrix::cholesky:accepts-nonsymmetric-input".into(), what: format!("Matrix::cholesky returned a factor for a matrix with a[{}][{}] != a[{}][{}]", i, j, j, i), input: format!("a={}", json_floats(&a2)) }); }
            }
        }
        // ... and asymmetry of the kind an ABSOLUTE comparison cannot see: one entry of a mirrored pair exactly zero, the other below
        //     machine epsilon (a whole matrix scaled by 2^-60, or a single entry 1e-17 beside O(1) entries); seeded change C11-10
        //     routed is_symmetric through close_to, whose relative difference degenerates to |y| when the other entry is 0
        if n >= 2 {
            for variant in 0..2 {
                let i = r.below(n as u64 - 1) as usize; let j = i + 1 + r.below((n - i - 1) as u64) as usize;
                let mut a3 = gen_matrix(r, n, 8);
                if variant == 0 { for v in a3.iter_mut() { *v *= 2f64.powi(-60); } if a3[i * n + j] == 0.0 { a3[i * n + j] = 2f64.powi(-61); } a3[j * n + i] = 0.0; }
                else { a3[i * n + j] = 1e-17; a3[j * n + i] = 0.0; }
                *tried += 3; crumb(&format!("rejection: zero-vs-tiny asymmetry n={} a={}", n, json_floats(&a3)));
                if catch(|| cholesky(&a3)).is_ok() || catch(|| try_cholesky(&a3)).is_ok() { out.push(Finding { class: "cholesky:accepts-nonsymmetric-input".into(), what: format!("cholesky or try_cholesky returned for a matrix with a[{}][{}] = {:e} and a[{}][{}] = 0", i, j, a3[i * n + j], j, i), input: format!("n={} a={}", n, json_floats(&a3)) }); }
                if catch(|| mk(&a3, n, n).cholesky()).is_ok() { out.push(Finding { class: "Matrix::cholesky:accepts-nonsymmetric-input".into(), what: format!("Matrix::cholesky returned a factor for a matrix with a[{}][{}] = {:e} and a[{}][{}] = 0", i, j, a3[i * n + j], j, i), input: format!("n={} a={}", n, json_floats(&a3)) }); }
                *tried += 1;
                if catch(|| mk(&a3, n, n).is_symmetric()) == Ok(true) { out.push(Finding { class: "Matrix::is_symmetric:true-for-nonsymmetric".into(), what: format!("is_symmetric is true although a[{}][{}] = {:e} and a[{}][{}] = 0", i, j, a3[i * n + j], j, i), input: format!("n={} a={}", n, json_floats(&a3)) }); }
            }
        }
        let sq = { let mut t = gen_matrix(r, n, 12); for i in 0..n { t[i * n + i] = 2.0; } t };
        let idp: Vec<i32> = (0..n as i32).collect();
        for lb in [n - 1, n + 1, 0] {
            if lb == n { continue; }
            let bad = rhs(r, lb);
            *tried += 8; crumb(&format!("rejection: right-hand side of length {} for order {}", lb, n));
            let accepted: Vec<&str> = [
                ("forward_substitution", catch(|| forward_substitution(&sq, &bad)).is_ok()), ("backward_substitution", catch(|| backward_substitution(&transpose_sq(&sq, n), &bad)).is_ok()),
                ("cholesky_solve", catch(|| cholesky_solve(&sq, &bad)).is_ok()), ("lu_solve", catch(|| lu_solve(&sq, &idp, &bad)).is_ok()),
                ("Matrix::forward_substitution", catch(|| mk(&sq, n, n).forward_substitution(&bad)).is_ok()), ("Matrix::backward_substitution", catch(|| mk(&transpose_sq(&sq, n), n, n).backward_substitution(&bad)).is_ok()),
                ("Matrix::cholesky_solve", catch(|| mk(&sq, n, n).cholesky_solve(&Vector::new(bad.clone()))).is_ok()), ("Matrix::lu_solve", catch(|| mk(&sq, n, n).lu_solve(&idp, &Vector::new(bad.clone()))).is_ok()),
            ].iter().filter(|(_, ok)| *ok).map(|(f, _)| *f).collect();
            if !accepted.is_empty() { out.push(Finding { class: "substitution:accepts-wrong-length-rhs".into(), what: format!("{:?} accepted a right-hand side of length {} for order {}", accepted, lb, n), input: format!("n={} len(b)={} t={}", n, lb, json_floats(&sq)) }); }
        }
        for len in [n * n + 1, n * n + n] {
            let ns = vec![1.0; len];
            *tried += 2; crumb(&format!("rejection: lu / cholesky of a slice of length {}", len));
            if catch(|| lu(&ns)).is_ok() || catch(|| cholesky(&ns)).is_ok() { out.push(Finding { class: "factorisation:accepts-non-square-slice".into(), what: format!("lu or cholesky accepted a slice of length {}", len), input: format!("len={}", len) }); }
        }
    }}
}

pub fn oracle(tier: &str, seed: u64) -> (u64, Vec<Finding>) {
    let mut r = Rng::new(seed ^ 0x0C11);
    let mut out: Vec<Finding> = vec![]; let mut tried = 0u64;
    let thorough = tier == "thorough";
    // (a) ipiv_parity = sign of the permutation, for every permutation of 0..n
    for n in 0..=(if thorough { 8usize } else { 6 }) {
        for p in all_perms(n) {
            tried += 1;
            crumb(&format!("ipiv_parity ipiv={:?}", p));
            let got = catch(|| ipiv_parity(&p)); let want = sign_by_cycles(&p);
            if got != Ok(want) { out.push(Finding { class: "ipiv_parity:not-the-sign-of-the-permutation".into(), what: format!("ipiv_parity returned {:?}, the permutation has sign {}", got, want), input: format!("ipiv={:?}", p) }); break; }
        }
    }
    // the matrix behind D2: every column pivots on the next row, pivot vector [1,2,3,0], determinant -16^4 (all operations exact)
    {
        let w = vec![0., 0., 0., 16., 16., 0., 0., 0., 0., 16., 0., 0., 0., 0., 16., 0.];
        let inp = format!("n=4 a={}", json_floats(&w));
        tried += 1; crumb(&format!("Matrix::det {}", inp));
        let got = catch(|| mk(&w, 4, 4).det());
        if got != Ok(-65536.0) { out.push(Finding { class: "Matrix::det:wrong-sign".into(), what: format!("det returned {:?}, exact determinant is -65536", got), input: inp }); }
    }
    let iters = if thorough { 40000 } else { 4000 };
    for it in 0..iters {
        if out.len() > 30 { break; }
        let big = it % 12 == 0;
        let n = if big { 13 + r.below(20) as usize } else { 1 + r.below(12) as usize };
        // (b) LU of general matrices (finite, moderate entries)
        let c = *r.pick(&[0usize, 1, 2, 3, 4, 5, 6, 9, 11, 12, 13]);
        let a = gen_matrix(&mut r, n, c);
        let input = format!("class={} n={} a={}", CLASSES[c], n, json_floats(&a));
        tried += 2;
        crumb(&format!("lu / Matrix::lu / lu_solve / Matrix::solve {}", input));
        let res = catch(|| lu(&a));
        match &res { Ok((l, p)) => check_lu(&mut out, "lu", &a, n, l, p, &input), Err(e) => out.push(Finding { class: "lu:panics-on-square-input".into(), what: e.clone(), input: input.clone() }) }
        let resm = catch(|| { let (l, p) = mk(&a, n, n).lu(); (l.data.v.clone(), p) });
        match (&res, &resm) {
            (Ok((l, p)), Ok((lm, pm))) => { if l.iter().map(|x| x.to_bits()).ne(lm.iter().map(|x| x.to_bits())) || p != pm { out.push(Finding { class: "Matrix::lu:differs-from-slice-lu".into(), what: "slice and Matrix LU return different factors (same algorithm: must be identical)".into(), input: input.clone() }); } }
            (_, Err(e)) => out.push(Finding { class: "Matrix::lu:panics-on-square-input".into(), what: e.clone(), input: input.clone() }),
            _ => {}
        }
        // (c) lu_solve: |P.b - L.U.x| small whenever U has a safely nonzero diagonal
        if let Ok((l, p)) = &res {
            let b = rhs(&mut r, n);
            let dmin = (0..n).map(|i| l[i * n + i].abs()).fold(f64::INFINITY, f64::min);
            let umax = l.iter().fold(0.0f64, |m, x| m.max(x.abs()));
            if dmin > 1e-6 * umax && finite(l) {
                for (form, x) in [("lu_solve", catch(|| lu_solve(l, p, &b))), ("Matrix::lu_solve", catch(|| mk(l, n, n).lu_solve(p, &Vector::new(b.clone())).v)), ("Matrix::solve", catch(|| mk(&a, n, n).solve(&Vector::new(b.clone())).v))] {
                    tried += 1;
                    match x {
                        Err(e) => out.push(Finding { class: format!("{}:panics-on-valid-input", form), what: e, input: input.clone() }),
                        Ok(x) => {
                            if x.len() != n || !finite(&x) { out.push(Finding { class: format!("{}:nonfinite-solution-of-regular-system", form), what: format!("x = {:?}", x), input: format!("{} b={}", input, json_floats(&b)) }); continue; }
                            // y = U.x with magnitudes, then L.y against P.b
                            let mut worst = None;
                            for i in 0..n {
                                let mut s = DD::zero(); let mut mag = 0.0;
                                for k in 0..n { // (L.U)[i][k] accumulated directly: sum_m L[i][m] U[m][k] x[k]
                                    for m in 0..=i.min(k) { let lim = if m == i { 1.0 } else { l[i * n + m] }; let t = lim * l[m * n + k]; let (q, e) = two_prod(t, x[k]); s = s.add_f(q).add_f(e); mag += (t * x[k]).abs(); }
                                }
                                let res = s.add_f(-b[p[i] as usize]).val().abs();
                                // products t = l*u are rounded once (relative u), covered by the factor below
                                if res > 8.0 * (n as f64 + 1.0) * EPS * (mag + b[p[i] as usize].abs()) + 1e-300 { worst = Some((i, res, mag)); break; }
                            }
                            if let Some((i, res, mag)) = worst { out.push(Finding { class: format!("{}:residual", form), what: format!("(L.U.x - P.b)[{}] = {:e} with |L||U||x| = {:e}", i, res, mag), input: format!("{} b={}", input, json_floats(&b)) }); }
                        }
                    }
                }
            }
        }
        // (d) determinant of small integer matrices against exact fraction-free elimination
        {
            let nd = 1 + r.below(6) as usize;
            let cd = *r.pick(&[1usize, 1, 2, 3, 4, 5, 6]);
            let mut ad = gen_matrix(&mut r, nd, cd);
            for x in ad.iter_mut() { *x = x.max(-5.0).min(5.0); }
            let exact = bareiss(&ad, nd) as f64;
            let h: f64 = (0..nd).map(|i| (0..nd).map(|j| ad[i * nd + j] * ad[i * nd + j]).sum::<f64>().sqrt()).product();
            let inp = format!("class={} n={} a={}", CLASSES[cd], nd, json_floats(&ad));
            tried += 2;
            crumb(&format!("Matrix::det / Matrix::lu_det {}", inp));
            let tol = 1e-9 * h + 1e-300;
            match catch(|| mk(&ad, nd, nd).det()) {
                Err(e) => out.push(Finding { class: "Matrix::det:panics-on-square-input".into(), what: e, input: inp.clone() }),
                Ok(d) => if !((d - exact).abs() <= tol) {
                    let class = if (d + exact).abs() <= tol { "Matrix::det:wrong-sign" } else { "Matrix::det:wrong-value" };
                    out.push(Finding { class: class.into(), what: format!("det returned {:e}, exact integer determinant is {:e}", d, exact), input: inp.clone() });
                }
            }
            match catch(|| { let (l, p) = mk(&ad, nd, nd).lu(); l.lu_det(&p) }) {
                Err(e) => out.push(Finding { class: "Matrix::lu_det:panics-on-square-input".into(), what: e, input: inp.clone() }),
                Ok(d) => if !((d - exact).abs() <= tol) {
                    let class = if (d + exact).abs() <= tol { "Matrix::lu_det:wrong-sign" } else { "Matrix::lu_det:wrong-value" };
                    out.push(Finding { class: class.into(), what: format!("lu_det returned {:e}, exact integer determinant is {:e}", d, exact), input: inp.clone() });
                }
            }
        }
        // (e) Cholesky of SPD matrices (condition number up to about 1e8), both forms
        {
            let ns = if big { 13 + r.below(20) as usize } else { 1 + r.below(12) as usize };
            let cls = if r.coin(0.5) { 7 } else { 8 };
            let mut s = gen_matrix(&mut r, ns, cls);
            if cls == 7 && r.coin(0.4) { // congruence with a graded diagonal: condition number up to ~1e8, still SPD
                let d: Vec<f64> = (0..ns).map(|_| (2.0f64).powi(r.range(-13, 13) as i32)).collect();
                for i in 0..ns { for j in 0..ns { s[i * ns + j] *= d[i] * d[j]; } }
            }
            let inp = format!("class={} n={} a={}", CLASSES[cls], ns, json_floats(&s));
            tried += 2;
            crumb(&format!("cholesky / Matrix::cholesky / cholesky_solve {}", inp));
            let l1 = catch(|| cholesky(&s)); let l2 = catch(|| mk(&s, ns, ns).cholesky().data.v.clone());
            match &l1 { Ok(l) => check_chol(&mut out, "cholesky", &s, ns, l, &inp), Err(e) => out.push(Finding { class: "cholesky:panics-on-spd-input".into(), what: e.clone(), input: inp.clone() }) }
            match (catch(|| try_cholesky(&s)), &l1) {
                (Ok(Some(t)), Ok(l)) => if t.iter().map(|x| x.to_bits()).ne(l.iter().map(|x| x.to_bits())) { out.push(Finding { class: "try_cholesky:differs-from-cholesky".into(), what: "try_cholesky and cholesky return different factors".into(), input: inp.clone() }) },
                (Ok(None), _) => out.push(Finding { class: "try_cholesky:rejects-spd-input".into(), what: "try_cholesky returned None for an SPD matrix".into(), input: inp.clone() }),
                (Err(e), _) => out.push(Finding { class: "try_cholesky:panics-on-spd-input".into(), what: e, input: inp.clone() }),
                _ => {}
            }
            match &l2 { Ok(l) => check_chol(&mut out, "Matrix::cholesky", &s, ns, l, &inp), Err(e) => out.push(Finding { class: "Matrix::cholesky:panics-on-spd-input".into(), what: e.clone(), input: inp.clone() }) }
            if let (Ok(a1), Ok(a2)) = (&l1, &l2) {
                // identical in exact arithmetic; in binary64 both are backward stable, so they agree to cond.n.u
                {
                    let m = a1.iter().fold(0.0f64, |m, x| m.max(x.abs()));
                    let tolf = if cls == 8 { 1e-9 } else { 1e-5 };
                    if a1.len() == a2.len() { for k in 0..a1.len() { if (a1[k] - a2[k]).abs() > tolf * m { out.push(Finding { class: "cholesky:slice-and-Matrix-factors-differ".into(), what: format!("entry {} differs: {:e} vs {:e}", k, a1[k], a2[k]), input: inp.clone() }); break; } } }
                }
                // cholesky_solve inverts: residual of A.x = b through the factor, |L.L^T.x - b| small
                let b = rhs(&mut r, ns);
                for (form, x) in [("cholesky_solve", catch(|| cholesky_solve(a1, &b))), ("Matrix::cholesky_solve", catch(|| mk(a1, ns, ns).cholesky_solve(&Vector::new(b.clone())).v))] {
                    tried += 1;
                    match x {
                        Err(e) => out.push(Finding { class: format!("{}:panics-on-valid-input", form), what: e, input: inp.clone() }),
                        Ok(x) => {
                            if x.len() != ns || !finite(&x) { out.push(Finding { class: format!("{}:nonfinite-solution-of-regular-system", form), what: format!("x = {:?}", x), input: inp.clone() }); continue; }
                            for i in 0..ns {
                                let mut sacc = DD::zero(); let mut mag = 0.0;
                                for k in 0..ns { for m in 0..=i.min(k) { let t = a1[i * ns + m] * a1[k * ns + m]; let (q, e) = two_prod(t, x[k]); sacc = sacc.add_f(q).add_f(e); mag += (t * x[k]).abs(); } }
                                let res = sacc.add_f(-b[i]).val().abs();
                                if res > 8.0 * (ns as f64 + 1.0) * EPS * (mag + b[i].abs()) + 1e-300 { out.push(Finding { class: format!("{}:residual", form), what: format!("(L.L^T.x - b)[{}] = {:e} with |L||L^T||x| = {:e}", i, res, mag), input: format!("{} b={}", inp, json_floats(&b)) }); break; }
                            }
                        }
                    }
                }
            }
        }
        // (f) triangular solves invert triangular systems (diagonal bounded away from zero), slice and Matrix forms
        {
            let nt = 1 + r.below(if big { 32 } else { 12 }) as usize;
            let mut lo = gen_matrix(&mut r, nt, 12); let mut up = gen_matrix(&mut r, nt, 13);
            for i in 0..nt { if lo[i * nt + i].abs() < 0.5 { lo[i * nt + i] = 1.0 + r.unit(); } if up[i * nt + i].abs() < 0.5 { up[i * nt + i] = -1.0 - r.unit(); } }
            let b = rhs(&mut r, nt);
            let inl = format!("n={} l={} b={}", nt, json_floats(&lo), json_floats(&b));
            let inu = format!("n={} u={} b={}", nt, json_floats(&up), json_floats(&b));
            tried += 4;
            crumb(&format!("forward_substitution (slice, Matrix) {} ; backward_substitution (slice, Matrix) {}", inl, inu));
            match catch(|| forward_substitution(&lo, &b)) { Ok(x) => check_tri(&mut out, "forward_substitution", &lo, nt, true, &x, &b, &inl), Err(e) => out.push(Finding { class: "forward_substitution:panics-on-valid-input".into(), what: e, input: inl.clone() }) }
            match catch(|| mk(&lo, nt, nt).forward_substitution(&b).v) { Ok(x) => check_tri(&mut out, "Matrix::forward_substitution", &lo, nt, true, &x, &b, &inl), Err(e) => out.push(Finding { class: "Matrix::forward_substitution:panics-on-valid-input".into(), what: e, input: inl.clone() }) }
            match catch(|| backward_substitution(&up, &b)) { Ok(x) => check_tri(&mut out, "backward_substitution", &up, nt, false, &x, &b, &inu), Err(e) => out.push(Finding { class: "backward_substitution:panics-on-valid-input".into(), what: e, input: inu.clone() }) }
            match catch(|| mk(&up, nt, nt).backward_substitution(&b).v) { Ok(x) => check_tri(&mut out, "Matrix::backward_substitution", &up, nt, false, &x, &b, &inu), Err(e) => out.push(Finding { class: "Matrix::backward_substitution:panics-on-valid-input".into(), what: e, input: inu.clone() }) }
        }
        // (g0) input that is not positive definite is rejected (never a factor, in particular never a non-finite one):
        //      symmetric, positive diagonal, a 2x2 principal minor with a clearly negative determinant; or a non-positive diagonal entry
        {
            let n3 = 2 + r.below(if big { 30 } else { 10 }) as usize;
            let c3 = if r.coin(0.5) { 9 } else { 8 };
            let mut a3 = gen_matrix(&mut r, n3, c3);
            let (p, q) = { let p = r.below(n3 as u64) as usize; let mut q = r.below(n3 as u64) as usize; if q == p { q = (p + 1) % n3; } (p, q) };
            if r.coin(0.7) { let v = 2.0 * (a3[p * n3 + p] * a3[q * n3 + q]).abs().sqrt() + 1.0; a3[p * n3 + q] = v; a3[q * n3 + p] = v; }
            else { a3[p * n3 + p] = if r.coin(0.5) { 0.0 } else { -1.0 - r.unit() }; }
            let inp = format!("n={} a={}", n3, json_floats(&a3));
            tried += 3; crumb(&format!("cholesky / try_cholesky / Matrix::cholesky of a matrix that is not positive definite {}", inp));
            match catch(|| cholesky(&a3)) { Ok(l) => out.push(Finding { class: if finite(&l) { "cholesky:accepts-input-that-is-not-positive-definite".into() } else { "cholesky:nonfinite-factor-for-input-that-is-not-positive-definite".into() }, what: format!("cholesky returned a factor (finite: {}) for a symmetric matrix with a negative 2x2 principal minor or a non-positive diagonal entry", finite(&l)), input: inp.clone() }), Err(_) => {} }
            match catch(|| try_cholesky(&a3)) { Ok(Some(l)) => out.push(Finding { class: "try_cholesky:accepts-input-that-is-not-positive-definite".into(), what: format!("try_cholesky returned Some (finite: {})", finite(&l)), input: inp.clone() }), Ok(None) => {}, Err(e) => out.push(Finding { class: "try_cholesky:panics-on-symmetric-input".into(), what: e, input: inp.clone() }) }
            match catch(|| mk(&a3, n3, n3).cholesky().data.v.clone()) { Ok(l) => out.push(Finding { class: if finite(&l) { "Matrix::cholesky:accepts-input-that-is-not-positive-definite".into() } else { "Matrix::cholesky:nonfinite-factor-for-input-that-is-not-positive-definite".into() }, what: format!("Matrix::cholesky returned a factor (finite: {})", finite(&l)), input: inp.clone() }), Err(_) => {} }
        }
        // (g1) at extreme scales (overflowing / underflowing elimination): whatever comes back as a factor is lower triangular, finite, with a positive
        //      diagonal -- a pivot that is not a positive number (negative, zero, NaN from 0 * inf) must lead to rejection, never into a factor
        {
            let n4 = 2 + r.below(5) as usize;
            let a4 = gen_matrix(&mut r, n4, 14);
            let inp = format!("n={} a={}", n4, json_floats(&a4));
            tried += 3; crumb(&format!("cholesky / try_cholesky / Matrix::cholesky at extreme scales {}", inp));
            let bad = |l: &[f64]| !(l.len() == n4 * n4 && finite(l) && (0..n4).all(|i| l[i * n4 + i] > 0.0 && (i + 1..n4).all(|j| l[i * n4 + j] == 0.0)));
            if let Ok(Some(l)) = catch(|| try_cholesky(&a4)) { if bad(&l) { out.push(Finding { class: "try_cholesky:factor-not-finite-lower-triangular-positive-diagonal".into(), what: format!("try_cholesky returned Some({:?})", l), input: inp.clone() }); } }
            if let Ok(l) = catch(|| cholesky(&a4)) { if bad(&l) { out.push(Finding { class: "cholesky:factor-not-finite-lower-triangular-positive-diagonal".into(), what: format!("cholesky returned {:?}", l), input: inp.clone() }); } }
            if let Ok(l) = catch(|| mk(&a4, n4, n4).cholesky().data.v.clone()) { if bad(&l) { out.push(Finding { class: "Matrix::cholesky:factor-not-finite-lower-triangular-positive-diagonal".into(), what: format!("Matrix::cholesky returned {:?}", l), input: inp.clone() }); } }
        }
        // (g) rejection: non-symmetric input to cholesky, wrong right-hand-side lengths, non-square slices
        if it % 5 == 0 {
            let n2 = 2 + r.below(5) as usize;
            let mut a2 = gen_matrix(&mut r, n2, 8); a2[1] += 1.0;
            tried += 4;
            crumb(&format!("rejection tests: cholesky a={} ; substitutions with len(b)=n+1, n={}", json_floats(&a2), n2));
            if catch(|| cholesky(&a2)).is_ok() { out.push(Finding { class: "cholesky:accepts-nonsymmetric-input".into(), what: "cholesky returned a factor for a matrix with a[0][1] != a[1][0]".into(), input: format!("a={}", json_floats(&a2)) }); }
            if catch(|| mk(&a2, n2, n2).cholesky()).is_ok() { out.push(Finding { class: "Matrix::cholesky:accepts-nonsymmetric-input".into(), what: "Matrix::cholesky returned a factor for a matrix with a[0][1] != a[1][0]".into(), input: format!("a={}", json_floats(&a2)) }); }
            let sq = gen_matrix(&mut r, n2, 12); let bad = rhs(&mut r, n2 + 1);
            if catch(|| forward_substitution(&sq, &bad)).is_ok() || catch(|| backward_substitution(&sq, &bad)).is_ok() || catch(|| cholesky_solve(&sq, &bad)).is_ok() { out.push(Finding { class: "substitution:accepts-wrong-length-rhs".into(), what: "a triangular solve accepted a right-hand side of the wrong length".into(), input: format!("n={} len(b)={}", n2, n2 + 1) }); }
            let ns = vec![1.0; n2 * n2 + 1];
            if catch(|| lu(&ns)).is_ok() || catch(|| cholesky(&ns)).is_ok() { out.push(Finding { class: "factorisation:accepts-non-square-slice".into(), what: format!("lu or cholesky accepted a slice of length {}", ns.len()), input: format!("len={}", ns.len()) }); }
        }
    }
    // (h) the sweep over every order 1..=32 x every class x every entry point (see oracle_sweep)
    oracle_sweep(&mut out, &mut tried, &mut r, if thorough { 30 } else { 5 });
    (tried, out)
}
