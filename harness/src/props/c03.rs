//! C03 — samplers draw from the law they describe.
#![allow(clippy::type_complexity)]
use crate::libm;
use crate::util::*;
use compute::distributions::*;
use compute::linalg::{Matrix, Vector};
use std::sync::mpsc;
use std::time::Duration;

#[path = "c03_ref.rs"]
mod refs;
#[path = "mvn_covs.rs"]
mod mvn_covs;
use refs::*;

// ------------------------------------------------------------------------------------------------------------
// distributions as data (parameters only), so that a regime can be rebuilt inside a worker thread
// ------------------------------------------------------------------------------------------------------------
#[derive(Clone, Debug, PartialEq)]
pub enum D {
    Normal(f64, f64), Uniform(f64, f64), Exponential(f64), Gumbel(f64, f64), Pareto(f64, f64), Gamma(f64, f64), Beta(f64, f64),
    ChiSquared(u64), T(f64), Poisson(f64), Binomial(u64, f64), DiscreteUniform(i64, i64), Bernoulli(f64),
}
impl D {
    pub fn name(&self) -> &'static str {
        match self { D::Normal(..) => "normal", D::Uniform(..) => "uniform", D::Exponential(..) => "exponential", D::Gumbel(..) => "gumbel", D::Pareto(..) => "pareto",
            D::Gamma(..) => "gamma", D::Beta(..) => "beta", D::ChiSquared(..) => "chi_squared", D::T(..) => "t", D::Poisson(..) => "poisson", D::Binomial(..) => "binomial",
            D::DiscreteUniform(..) => "discrete_uniform", D::Bernoulli(..) => "bernoulli" }
    }
    pub fn describe(&self) -> String {
        match self {
            D::Normal(a, b) => format!("Normal::new({:e}, {:e})", a, b), D::Uniform(a, b) => format!("Uniform::new({:e}, {:e})", a, b),
            D::Exponential(a) => format!("Exponential::new({:e})", a), D::Gumbel(a, b) => format!("Gumbel::new({:e}, {:e})", a, b),
            D::Pareto(a, b) => format!("Pareto::new({:e}, {:e})", a, b), D::Gamma(a, b) => format!("Gamma::new({:e}, {:e})", a, b),
            D::Beta(a, b) => format!("Beta::new({:e}, {:e})", a, b), D::ChiSquared(k) => format!("ChiSquared::new({})", k), D::T(a) => format!("T::new({:e})", a),
            D::Poisson(a) => format!("Poisson::new({:e})", a), D::Binomial(n, p) => format!("Binomial::new({}, {:e})", n, p),
            D::DiscreteUniform(a, b) => format!("DiscreteUniform::new({}, {})", a, b), D::Bernoulli(p) => format!("Bernoulli::new({:e})", p),
        }
    }
    pub fn build(&self) -> Box<dyn Distribution1D> {
        match *self {
            D::Normal(a, b) => Box::new(Normal::new(a, b)), D::Uniform(a, b) => Box::new(Uniform::new(a, b)), D::Exponential(a) => Box::new(Exponential::new(a)),
            D::Gumbel(a, b) => Box::new(Gumbel::new(a, b)), D::Pareto(a, b) => Box::new(Pareto::new(a, b)), D::Gamma(a, b) => Box::new(Gamma::new(a, b)),
            D::Beta(a, b) => Box::new(Beta::new(a, b)), D::ChiSquared(k) => Box::new(ChiSquared::new(k as usize)), D::T(a) => Box::new(T::new(a)),
            D::Poisson(a) => Box::new(Poisson::new(a)), D::Binomial(n, p) => Box::new(Binomial::new(n, p)), D::DiscreteUniform(a, b) => Box::new(DiscreteUniform::new(a, b)),
            D::Bernoulli(p) => Box::new(Bernoulli::new(p)),
        }
    }
    /// the parameters in the order `new` and `update` take them
    pub fn params(&self) -> Vec<f64> {
        match *self { D::Normal(a, b) | D::Uniform(a, b) | D::Gumbel(a, b) | D::Pareto(a, b) | D::Gamma(a, b) | D::Beta(a, b) => vec![a, b],
            D::Exponential(a) | D::T(a) | D::Poisson(a) | D::Bernoulli(a) => vec![a], D::ChiSquared(k) => vec![k as f64],
            D::Binomial(n, p) => vec![n as f64, p], D::DiscreteUniform(a, b) => vec![a as f64, b as f64] }
    }
    /// another valid parameter setting of the same family
    pub fn other(&self) -> D {
        match *self { D::Normal(..) => D::Normal(1.0, 2.0), D::Uniform(..) => D::Uniform(-1.0, 1.0), D::Exponential(..) => D::Exponential(2.5), D::Gumbel(..) => D::Gumbel(1.0, 2.0),
            D::Pareto(..) => D::Pareto(3.0, 2.0), D::Gamma(..) => D::Gamma(2.5, 1.5), D::Beta(..) => D::Beta(2.5, 1.5), D::ChiSquared(..) => D::ChiSquared(7), D::T(..) => D::T(5.0),
            D::Poisson(..) => D::Poisson(3.5), D::Binomial(..) => D::Binomial(12, 0.3), D::DiscreteUniform(..) => D::DiscreteUniform(-3, 4), D::Bernoulli(..) => D::Bernoulli(0.3) }
    }
    /// the same parameter setting reached through `update` from another one: "every valid parameter setting" does not depend on how the object got there
    pub fn build_via(&self, via_update: bool) -> Box<dyn Distribution1D> {
        if !via_update || !self.update_exact() { return self.build(); }
        let mut b = self.other().build(); b.update(&self.params()); b
    }
    /// `update` takes every parameter as f64: integer parameters beyond 2^53 cannot be passed through it unchanged
    pub fn update_exact(&self) -> bool { match *self { D::DiscreteUniform(a, b) => (a as f64) as i64 == a && (b as f64) as i64 == b && (a as f64) < 9e18 && (b as f64) < 9e18, D::Binomial(n, _) => (n as f64) as u64 == n, _ => true } }
    pub fn describe_via(&self, via_update: bool) -> String {
        if via_update && self.update_exact() { format!("{{ let mut d = {}; d.update(&{:?}); d }}", self.other().describe(), self.params()) } else { self.describe() }
    }
    pub fn discrete(&self) -> bool { matches!(self, D::Poisson(..) | D::Binomial(..) | D::DiscreteUniform(..) | D::Bernoulli(..)) }
    /// a point mass (degenerate parameters): every draw must equal this value
    pub fn atom(&self) -> Option<f64> {
        match *self { D::Normal(m, s) if s == 0.0 => Some(m), D::Uniform(a, b) if a == b => Some(a), D::Binomial(n, p) if n == 0 || p == 0.0 => { let _ = n; Some(0.0) }
            D::Binomial(n, p) if p == 1.0 => Some(n as f64), D::DiscreteUniform(a, b) if a == b => Some(a as f64), D::Bernoulli(p) if p == 0.0 => Some(0.0), D::Bernoulli(p) if p == 1.0 => Some(1.0), _ => None }
    }
    /// closed support (finite values only) and integrality for the discrete laws
    pub fn in_support(&self, x: f64) -> bool {
        if !x.is_finite() { return false; }
        match *self {
            D::Normal(..) | D::Gumbel(..) | D::T(..) => true,
            D::Uniform(a, b) => a <= x && x <= b, D::Exponential(_) | D::Gamma(..) | D::ChiSquared(_) => x >= 0.0, D::Pareto(_, m) => x >= m,
            D::Beta(..) => (0.0..=1.0).contains(&x), D::Poisson(_) => x >= 0.0 && x.fract() == 0.0, D::Binomial(n, _) => x >= 0.0 && x <= n as f64 && x.fract() == 0.0,
            D::DiscreteUniform(a, b) => x >= a as f64 && x <= b as f64 && x.fract() == 0.0, D::Bernoulli(_) => x == 0.0 || x == 1.0,
        }
    }
    /// the true CDF F(x) = P(X <= x), from the harness's own references
    pub fn cdf(&self, x: f64) -> f64 {
        match *self {
            D::Normal(m, s) => norm_cdf((x - m) / s), D::Uniform(a, b) => ((x - a) / (b - a)).clamp(0.0, 1.0),
            D::Exponential(l) => if x <= 0.0 { 0.0 } else { -(-l * x).exp_m1() }, D::Gumbel(m, b) => (-(-(x - m) / b).exp()).exp(),
            D::Pareto(a, m) => if x <= m { 0.0 } else { -(a * (m / x).ln()).exp_m1() }, D::Gamma(a, b) => gamma_p_any(a, b * x), D::Beta(a, b) => beta_i(a, b, x),
            D::ChiSquared(k) => gamma_p_any(k as f64 / 2.0, x / 2.0), D::T(nu) => t_cdf(nu, x), D::Poisson(l) => poisson_cdf(l, x), D::Binomial(n, p) => binom_cdf(n, p, x),
            D::DiscreteUniform(a, b) => { let k = x.floor(); if k < a as f64 { 0.0 } else if k >= b as f64 { 1.0 } else { (k - a as f64 + 1.0) / ((b as f64 - a as f64) + 1.0) } }
            D::Bernoulli(p) => if x < 0.0 { 0.0 } else if x < 1.0 { 1.0 - p } else { 1.0 },
        }
    }
}

/// run `f` on a fresh thread (alea's generator is thread-local: the thread seeds it itself); `None` = no answer within `secs`
/// (the thread is left behind, the process ends when the oracle returns)
fn watchdog<R: Send + 'static>(secs: f64, f: impl FnOnce() -> R + Send + 'static) -> Option<Result<R, String>> {
    let (tx, rx) = mpsc::channel();
    std::thread::Builder::new().stack_size(64 << 20).spawn(move || { let r = catch(f); let _ = tx.send(r); }).unwrap();
    rx.recv_timeout(Duration::from_secs_f64(secs)).ok()
}

/// sup |F_n(x) - F(x)| over the sample points x of a sorted sample, every `stride`-th of them (stride 1 = all). A maximum over FEWER
/// points is a lower bound of the DKW statistic, so the false-alarm bound alpha is kept; the stride (used where one evaluation of the
/// reference CDF costs 1e4..1e6 operations) loses at most stride/n of resolution.
fn dkw_sup(sorted: &[f64], d: &D, stride: usize) -> (f64, f64) {
    let n = sorted.len() as f64;
    let mut worst = (0.0f64, 0.0f64);
    if d.discrete() {
        let mut i = 0usize; let mut g = 0usize;
        while i < sorted.len() {
            let v = sorted[i]; let mut j = i; while j < sorted.len() && sorted[j] == v { j += 1; }
            if g % stride == 0 {
                // just below v: F_n = i/n, F = F(v - 1); beyond 2^53 the integer v - 1 is not a binary64 number (the draws are returned as
                // f64, several integers share one value) and the left limit cannot be formed: only the value AT v is compared there
                let left = if v - 1.0 < v { (i as f64 / n - d.cdf(v - 1.0)).abs() } else { 0.0 };
                let at = (j as f64 / n - d.cdf(v)).abs();
                if left > worst.0 { worst = (left, v - 1.0); }
                if at > worst.0 { worst = (at, v); }
            }
            i = j; g += 1;
        }
    } else {
        for (i, &x) in sorted.iter().enumerate().step_by(stride) {
            let f = d.cdf(x);
            let e = (f - i as f64 / n).abs().max(((i + 1) as f64 / n - f).abs());
            if e > worst.0 { worst = (e, x); }
        }
    }
    worst
}
/// how many sample points share one evaluation of the reference CDF (1 unless the reference is expensive at these parameters)
fn cdf_stride(d: &D, n: usize) -> usize {
    let big = match *d { D::Gamma(a, _) => a, D::ChiSquared(k) => k as f64 / 2.0, D::T(nu) => nu / 2.0, D::Poisson(l) => l, D::Beta(a, b) => a.max(b),
        D::Binomial(nn, p) => { let v = nn as f64 * p * (1.0 - p); if v >= 1e7 { 0.0 } else { v } } _ => 0.0 };
    let s = if big >= 1e7 { if matches!(d, D::Gamma(..) | D::ChiSquared(_) | D::Poisson(_)) { 1 } else { 512 } } else if big >= 3e5 { 256 } else if big >= 2e4 { 16 } else { 1 };
    s.min((n / 500).max(1))
}
fn dkw_eps(n: usize) -> f64 { ((2.0f64 / 1e-12).ln() / (2.0 * n as f64)).sqrt() }

fn regimes(thorough: bool) -> Vec<D> {
    let mut v = vec![
        D::Normal(0.0, 1.0), D::Normal(5.0, 4.0), D::Normal(-3.0, 0.01), D::Normal(2.0, 0.0),
        D::Uniform(0.0, 1.0), D::Uniform(-2.0, 6.0), D::Uniform(1e6, 1e6 + 1.0), D::Uniform(3.0, 3.0),
        D::Exponential(0.01), D::Exponential(1.0), D::Exponential(5.0), D::Exponential(1e3),
        D::Gumbel(0.0, 1.0), D::Gumbel(-3.0, 0.5), D::Gumbel(10.0, 20.0),
        D::Pareto(4.0, 4.0), D::Pareto(1.0, 1.0), D::Pareto(0.5, 2.0), D::Pareto(10.0, 1e-3),
        // gamma: shape < 1/3, < 1, >= 1
        D::Gamma(0.1, 1.0), D::Gamma(0.2, 1.0), D::Gamma(0.3, 4.0), D::Gamma(1.0 / 3.0, 1.0), D::Gamma(0.4, 1.0), D::Gamma(0.5, 0.5), D::Gamma(0.9, 1.0),
        D::Gamma(1.0, 1.0), D::Gamma(1.5, 0.01), D::Gamma(2.0, 4.0), D::Gamma(10.0, 1.0), D::Gamma(100.0, 3.0), D::Gamma(1e4, 1.0),
        D::Beta(2.0, 4.0), D::Beta(0.5, 0.5), D::Beta(0.2, 3.0), D::Beta(3.0, 0.2), D::Beta(0.2, 0.2), D::Beta(1.0, 1.0), D::Beta(0.9, 50.0), D::Beta(100.0, 200.0),
        D::ChiSquared(1), D::ChiSquared(2), D::ChiSquared(3), D::ChiSquared(5), D::ChiSquared(50),
        D::T(1.0), D::T(1.5), D::T(0.5), D::T(2.0), D::T(3.0), D::T(10.0), D::T(100.0),
        // Poisson: < 10 (multiplication), >= 10 (PTRS), >= 150 (beyond gamma's range)
        D::Poisson(0.1), D::Poisson(1.0), D::Poisson(5.0), D::Poisson(9.99), D::Poisson(10.0), D::Poisson(12.0), D::Poisson(42.0), D::Poisson(150.0), D::Poisson(200.0),
        D::Poisson(1e3), D::Poisson(1e5),
        // binomial: inversion (n min(p,1-p) <= 30), BTPE (> 30), flipped (p > 0.5), degenerate
        D::Binomial(15, 0.3), D::Binomial(70, 0.5), D::Binomial(10, 0.9), D::Binomial(1000, 0.03), D::Binomial(1000, 0.0301), D::Binomial(100, 0.31), D::Binomial(1000, 0.5),
        D::Binomial(1000, 0.97), D::Binomial(1000, 0.6), D::Binomial(5, 0.0), D::Binomial(5, 1.0), D::Binomial(0, 0.5), D::Binomial(1, 0.5), D::Binomial(100000, 0.4),
        D::Binomial(2147483647, 1.3900000000000002e-8), D::Binomial(3_000_000_000, 1e-8), D::Binomial(5_000_000_000, 0.25),
        // a = b is excluded here: alea::i64_in_range asserts max > min (defect D11, owned by C19)
        D::DiscreteUniform(0, 1), D::DiscreteUniform(-2, 6), D::DiscreteUniform(0, 99), D::DiscreteUniform(-5, -4), D::DiscreteUniform(0, 1 << 40),
        D::Bernoulli(0.0), D::Bernoulli(1.0), D::Bernoulli(0.5), D::Bernoulli(0.75), D::Bernoulli(1e-3),
            // p > 1/2 with a large mean and only a handful of expected failures (the reflected p decides between inversion and BTPE)
        D::Binomial(100, 0.97), D::Binomial(200, 0.98), D::Binomial(35, 0.95), D::Binomial(1000, 0.999), D::Binomial(60, 0.6),
    ];
    if thorough {
        v.extend([D::Gamma(0.25, 10.0), D::Gamma(0.7, 2.0), D::Gamma(3.3, 1.0), D::Beta(0.3, 0.7), D::Beta(5.0, 1.0), D::T(0.6), D::T(5.0), D::Poisson(20.0), D::Poisson(171.0),
                  D::Poisson(500.0), D::Binomial(40, 0.75), D::Binomial(200, 0.2), D::Binomial(10_000, 0.003), D::ChiSquared(4), D::Exponential(0.3), D::Pareto(2.0, 3.0)]);
    }
    v
}

/// COVERAGE AUDIT (the property says "every valid parameter setting"; the grid above stops at moderate values): extreme-but-valid
/// parameters of every family, the boundary of each algorithm switch, and the degenerate equal bounds of the discrete uniform law
/// (the quantifier names them; D11 is repaired). Scales at which the TRUE law leaves binary64 (mass below the smallest subnormal or
/// above the largest double: Gamma / Beta shape < 0.05, t dof < 0.1, Pareto alpha < 0.1) stay outside, as recorded in the assumptions.
/// Beta with a SECOND shape below about 0.15 is outside for the same reason at the other end: the true law puts the mass
/// (2^-53)^b / (b B(a, b)) within half an ulp of 1 (Beta(0.05, 0.05): 7.7%, Beta(0.1, 0.1): 1.3%), every binary64-valued sampler returns
/// exactly 1.0 with that probability, and the empirical CDF of ANY such sampler jumps by more than the band there.
fn wide(thorough: bool) -> Vec<D> {
    let mut v = vec![
        // location / scale far from 1 (the ziggurat variate is scaled: nothing may overflow or lose the sign)
        D::Normal(-1e6, 1e3), D::Normal(0.0, 1e150), D::Normal(0.0, 1e-150), D::Normal(1e300, 1e299),
        D::Uniform(-1e300, 1e300), D::Uniform(-1e308, 1e308), D::Uniform(0.0, 1e-300), D::Uniform(-1.0, 0.0),
        D::Exponential(1e-200), D::Exponential(1e200), D::Gumbel(0.0, 1e100), D::Gumbel(1e3, 1e-3),
        D::Pareto(0.1, 1.0), D::Pareto(1e3, 5.0), D::Pareto(2.0, 1e-200), D::Pareto(0.5, 1e200),
        // gamma: smallest shape of the grid, both sides of the switch at 1, large shapes, extreme rates
        D::Gamma(0.05, 1.0), D::Gamma(0.9999999, 1.0), D::Gamma(1.0000001, 1.0), D::Gamma(1e6, 1.0), D::Gamma(1e9, 1e9), D::Gamma(1e15, 1.0),
        D::Gamma(2.0, 1e-200), D::Gamma(2.0, 1e200), D::Gamma(0.07, 1e-100),
        D::Beta(0.05, 0.3), D::Beta(0.05, 100.0), D::Beta(1e3, 0.5), D::Beta(1e4, 1e4), D::Beta(1.0, 1e6), D::Beta(0.999, 1.001),
        D::ChiSquared(200), D::ChiSquared(1000), D::ChiSquared(1_000_000), D::ChiSquared(40_000_000),
        D::T(0.1), D::T(0.3), D::T(1.9999), D::T(1e3), D::T(1e6),
        // Poisson: tiny rates, the switch at 10 from below, PTRS far beyond 1e5 (k ln(lambda) - ln k! is a difference of huge terms)
        D::Poisson(1e-9), D::Poisson(1e-300), D::Poisson(9.999999999), D::Poisson(1e7), D::Poisson(1e9), D::Poisson(1e12), D::Poisson(1e15),
        // (1e18 at every tier: the recorded finding poisson:dkw:log-terms-above-2^49 is systematic there - sup|Fn - F| about 0.018 - and so reported by every run)
        D::Poisson(1e18),
        // binomial: huge n in the inversion regime ((1-p)^n with 1-p rounded), at the switch n p = 30, BTPE with huge n, both reflected
        D::Binomial(1_000_000_000_000, 1e-11), D::Binomial(1_000_000_000_000_000, 1e-14), D::Binomial(1_000_000_000_000_000, 3e-14),
        D::Binomial(1_000_000_000_000_000_000, 1e-17), D::Binomial(1_000_000_000_000_000, 1.0 - 1e-14), D::Binomial(1_000_000_000_000_000, 0.5),
        D::Binomial(1 << 53, 0.25), D::Binomial(1_000_000_000_000, 0.9), D::Binomial(61, 0.5), D::Binomial(60, 0.5), D::Binomial(2, 0.5), D::Binomial(31, 1.0 - 1e-3),
        D::Binomial(1_000_000, 1e-300), D::Binomial(1, 1e-3), D::Binomial(1, 1.0), D::Binomial(0, 0.0), D::Binomial(0, 1.0),
        // discrete uniform: DEGENERATE EQUAL BOUNDS (named by the quantifier), extreme bounds, a span above 2^63
        D::DiscreteUniform(3, 3), D::DiscreteUniform(0, 0), D::DiscreteUniform(-7, -7), D::DiscreteUniform(i64::MAX, i64::MAX), D::DiscreteUniform(i64::MIN, i64::MIN),
        D::DiscreteUniform(i64::MIN, i64::MIN + 1), D::DiscreteUniform(i64::MAX - 2, i64::MAX), D::DiscreteUniform(-(1 << 62) - 5, 1 << 62), D::DiscreteUniform(i64::MIN, i64::MAX),
        D::Bernoulli(1e-300), D::Bernoulli(1.0 - 1e-3), D::Bernoulli(0.9999999999999999), D::Bernoulli(5e-324),
    ];
    if thorough {
        v.extend([D::Gamma(1e12, 1e-3), D::ChiSquared(2_000_000_000), D::T(1e9), D::Poisson(1e10), D::Poisson(3e13), D::Binomial(1_000_000_000_000_000_000, 0.3),
                  D::Binomial(100_000_000_000_000, 1e-13), D::Binomial(10_000_000_000, 3e-9), D::Beta(1e6, 1e6), D::Pareto(1e6, 1.0), D::Normal(-1e9, 1.0)]);   // not Normal(-1e15, 1): the binary64 grid there is 0.125 wide, one cell carries 5% of the mass (see Beta above)
    }
    v
}

/// class key of a failure of kind `kind` ("support", "dkw", ...) in regime `d`: the family, refined where the parameters themselves
/// are of a kind of their own (a range wider than the largest double / than 2^64 - 1 integers)
fn class_of(d: &D, kind: &str) -> String {
    match *d {
        D::Uniform(a, b) if !(b - a).is_finite() => format!("uniform:{}:width-overflows-f64", kind),
        D::DiscreteUniform(a, b) if b.wrapping_sub(a).wrapping_add(1) == 0 => format!("discrete_uniform:{}:span-2^64", kind),
        // PTRS accepts on ln V + .. <= -lam + k ln(lam) - ln_gamma(k + 1): beyond lam ln(lam) = 2^49 (lam about 1.9e13) each of the two large terms
        // carries an absolute rounding error of 1/16 or more, in a comparison whose sides differ by O(1)
        D::Poisson(l) if l * l.ln() >= 562949953421312.0 => format!("poisson:{}:log-terms-above-2^49", kind),
        _ => format!("{}:{}", d.name(), kind),
    }
}

struct Sink { worst: std::collections::BTreeMap<String, (f64, String, String)>, tried: u64 }
impl Sink {
    fn fail(&mut self, class: String, sev: f64, what: String, input: String) {
        if std::env::var_os("C03_ORACLE_VERBOSE").is_some() { eprintln!("[{}] {} | {}", class, what, input); }
        let e = self.worst.entry(class).or_insert((-1.0, String::new(), String::new()));
        if sev > e.0 { *e = (sev, what, input); }
    }
}

/// the two seeds after which wyrand's state is 0 or equals its xor constant: the next u64() is 0, so f64() is exactly 0
const ZERO_SEEDS: [u64; 2] = [0u64.wrapping_sub(0xa0761d6478bd642f), 0xe7037ed1a0b428dbu64.wrapping_sub(0xa0761d6478bd642f)];

pub fn oracle(tier: &str, seed: u64) -> (u64, Vec<Finding>) {
    let thorough = tier == "thorough";
    let n: usize = if thorough { 4_000_000 } else { 200_000 };
    let mut r = Rng::new(seed ^ 0xC03);
    let mut sink = Sink { worst: Default::default(), tried: 0 };

    // 0. the references themselves: incomplete gamma/beta against integration of the textbook densities
    let bad = selftest();
    if !bad.is_empty() { eprintln!("C03 oracle: reference CDF self-test failed:\n{}", bad.join("\n")); std::process::exit(4); }

    // 1. every regime: termination, support, DKW band
    let mut hung: std::collections::BTreeSet<&'static str> = Default::default();
    // every second regime (both ways in the thorough tier) the object is reached through `update` from another valid setting
    let mut plan: Vec<(D, bool)> = vec![];
    for (i, d) in regimes(thorough).into_iter().chain(wide(thorough)).enumerate() { if thorough { plan.push((d.clone(), false)); plan.push((d, true)); } else { plan.push((d, i % 2 == 1)); } }
    // diagnostic only: C03_ORACLE_ONLY=<family> evaluates that family's regimes alone (seeds unchanged); the driver never sets it
    let only = std::env::var("C03_ORACLE_ONLY").ok();
    for (d, via) in plan {
        let sd = r.next();
        if let Some(o) = &only { if o != d.name() { continue; } }
        let input = format!("alea::set_seed({}); {}.sample_n({})", sd, d.describe_via(via), n);
        if hung.contains(regime_tag(&d)) { continue; }
        crumb(&input);
        sink.tried += 1;
        // probe: a few draws must come back quickly
        let dd = d.clone();
        match watchdog(3.0, move || { alea::set_seed(sd); let s = dd.build_via(via); (0..50).map(|_| s.sample()).collect::<Vec<f64>>() }) {
            None => { hung.insert(regime_tag(&d)); hung.insert(d.name());
                sink.fail(format!("{}:nonterminating", d.name()), 1.0, "sampling did not return within 3 s for 50 draws (the property requires termination)".into(),
                          format!("alea::set_seed({}); {}.sample()", sd, d.describe_via(via))); continue; }
            Some(Err(e)) => { sink.fail(format!("{}:panic", d.name()), 1.0, format!("valid parameters, but sampling panicked: {}", e), input.clone()); continue; }
            Some(Ok(_)) => {}
        }
        let dd = d.clone();
        let limit = if thorough { 600.0 } else { 120.0 };
        let xs = match watchdog(limit, move || { alea::set_seed(sd); dd.build_via(via).sample_n(n) }) {
            None => { hung.insert(regime_tag(&d)); hung.insert(d.name()); sink.fail(format!("{}:nonterminating", d.name()), 1.0, format!("sample_n({}) did not return within {} s", n, limit), input.clone()); continue; }
            Some(Err(e)) => { sink.fail(format!("{}:panic", d.name()), 1.0, format!("valid parameters, but sample_n panicked: {}", e), input.clone()); continue; }
            Some(Ok(v)) => v,
        };
        sink.tried += n as u64;
        if xs.len() != n { sink.fail("bulk:length".into(), 1.0, format!("sample_n({}) returned {} draws", n, xs.len()), input.clone()); continue; }
        if let Some((i, x)) = xs.iter().enumerate().find(|(_, x)| !d.in_support(**x)) {
            sink.fail(class_of(&d, "support"), 1.0, format!("draw #{} = {:e} is outside the support{}", i, x, if d.discrete() { " (or not an integer)" } else { "" }), input.clone());
            continue;
        }
        if let Some(a) = d.atom() {
            if let Some((i, x)) = xs.iter().enumerate().find(|(_, x)| **x != a) { sink.fail(class_of(&d, "degenerate"), 1.0, format!("point mass at {:e}, but draw #{} = {:e}", a, i, x), input.clone()); }
            continue;
        }
        let mut s: Vec<f64> = xs.to_vec(); s.sort_by(|a, b| a.partial_cmp(b).unwrap());
        let (sup, at) = dkw_sup(&s, &d, cdf_stride(&d, n)); let eps = dkw_eps(n);
        if !(sup <= eps) {
            sink.fail(class_of(&d, "dkw"), sup / eps, format!("sup|F_n - F| = {:.5} at x = {:e} exceeds the DKW band {:.5} (n = {}, alpha = 1e-12): F_n = {:.5}, F = {:.5}", sup, at, eps, n,
                      s.partition_point(|v| *v <= at) as f64 / n as f64, d.cdf(at)), input.clone());
        }
    }

    if only.is_some() { let out = sink.worst.into_iter().map(|(class, (_, what, input))| Finding { class, what, input }).collect(); return (sink.tried, out); }
    // 2. draws on which the uniform variate is exactly 0 (seeds that make wyrand return 0 first)
    for d in regimes(false).into_iter().chain(wide(false)) {
        if hung.contains(d.name()) { continue; }
        for &z in &ZERO_SEEDS {
            let input = format!("alea::set_seed({}); {}.sample()", z, d.describe());
            crumb(&input); sink.tried += 1;
            let dd = d.clone();
            match watchdog(3.0, move || { alea::set_seed(z); dd.build().sample() }) {
                None => { hung.insert(d.name()); sink.fail(format!("{}:nonterminating", d.name()), 1.0, "did not return within 3 s when the first uniform variate is exactly 0".into(), input); }
                Some(Err(e)) => sink.fail(format!("{}:panic", d.name()), 1.0, format!("panicked when the first uniform variate is exactly 0: {}", e), input),
                Some(Ok(x)) => if !d.in_support(x) { sink.fail(class_of(&d, "support"), 2.0, format!("returned {:e}, outside the support, when alea::f64() returned exactly 0", x), input); }
            }
        }
    }

    // 3. binomial inversion with the uniform variate above the summed (rounded) mass: search seeds whose first f64() is within 2e-7 of 1
    if !hung.contains("binomial") {
        let cases: [(u64, f64); 2] = [(2147483647, 1.3900000000000002e-8), (2147483000, 1.3970000000000003e-8)];
        let mut cand: Vec<(u64, f64)> = vec![];
        let span: u64 = if thorough { 1_000_000_000 } else { 150_000_000 };
        let base = r.next() & 0xffff_ffff;
        for sd in base..base + span { alea::set_seed(sd); let u = alea::f64(); if u > 1.0 - 2e-7 { cand.push((sd, u)); if cand.len() >= 60 { break; } } }
        'outer: for &(nn, p) in &cases {
            for &(sd, u) in &cand {
                let input = format!("alea::set_seed({}); Binomial::new({}, {:e}).sample()   [first uniform variate {:.17}]", sd, nn, p, u);
                crumb(&input); sink.tried += 1;
                match watchdog(2.0, move || { alea::set_seed(sd); Binomial::new(nn, p).sample() }) {
                    None => { sink.fail("binomial:nonterminating".into(), 1.0, "inversion did not return within 2 s: the uniform variate exceeds the sum of the rounded mass terms and the loop runs past n".into(), input); break 'outer; }
                    Some(Err(e)) => sink.fail("binomial:panic".into(), 1.0, format!("panicked: {}", e), input),
                    Some(Ok(x)) => if !D::Binomial(nn, p).in_support(x) { sink.fail("binomial:support".into(), 1.0, format!("returned {:e}", x), input); }
                }
            }
        }
    }

    // 4. bulk shapes
    let shapes_d = [D::Normal(0.0, 1.0), D::Gamma(0.5, 1.0), D::Poisson(12.0), D::Bernoulli(0.3)];
    for d in shapes_d.iter() {
        if hung.contains(d.name()) { continue; }
        let dd = d.clone();
        let res = watchdog(60.0, move || {
            let s = dd.build(); let mut bad: Vec<String> = vec![];
            for k in (0..=70usize).chain([100, 1000, 4097]) { let v = s.sample_n(k); if v.len() != k { bad.push(format!("sample_n({}) has length {}", k, v.len())); } }
            for rr in 1..=9usize { for cc in 1..=9usize { let m = s.sample_matrix(rr, cc); if m.shape() != [rr, cc] || m.data().len() != rr * cc { bad.push(format!("sample_matrix({}, {}) has shape {:?} and {} elements", rr, cc, m.shape(), m.data().len())); } } }
            bad });
        sink.tried += 74 + 81;
        match res {
            Some(Ok(b)) => for w in b { sink.fail("bulk:shape".into(), 1.0, w, d.describe()); },
            Some(Err(e)) => sink.fail("bulk:panic".into(), 1.0, format!("bulk sampling panicked: {}", e), d.describe()),
            None => sink.fail(format!("{}:nonterminating", d.name()), 1.0, "bulk sampling did not return within 60 s".into(), d.describe()),
        }
    }

    // 5. multivariate normal: whitened coordinates and random projections are standard normal (DKW), shape of sample_n
    let nm = if thorough { 1_000_000 } else { 100_000 };
    // COVERAGE AUDIT: beyond the four well-conditioned orders 1, 2, 3, 5, the covariance kinds of the end-to-end correspondence cases
    // (diagonal over 12 decades, badly scaled, Hilbert, nearly singular, equicorrelated with rho -> 1, small integers) at orders up to 12
    let mut extra: Vec<(usize, Vec<f64>, Vec<f64>, &'static str)> = vec![];
    { let mut r2 = Rng::new(seed ^ 0xC03_A0D);
      let pairs: Vec<(usize, usize)> = if thorough { let mut v = vec![]; for &dim in &[4usize, 6, 7, 8, 9, 10, 11, 12] { for &kind in &[0usize, 1, 2, 3, 4, 5, 16] { if kind != 3 || dim <= 8 { v.push((kind, dim)); } } } v }
          else { vec![(0, 4), (1, 6), (2, 8), (3, 6), (4, 7), (5, 10), (16, 12), (1, 12), (0, 9)] };
      for (kind, dim) in pairs { let cv = mvn_covs::covariance(&mut r2, dim, kind); let mu: Vec<f64> = (0..dim).map(|_| r2.uniform(-5.0, 5.0) * if kind == 1 { 1e3 } else { 1.0 }).collect(); extra.push((dim, cv.data, mu, cv.tag)); } }
    for case in 0..4 + extra.len() {
        let (dim, cov, mu, kind_tag) = if case < 4 {
        let dim = [1usize, 2, 3, 5][case];
        // covariance = A A^T + diag, mean arbitrary
        let a: Vec<f64> = (0..dim * dim).map(|_| r.uniform(-1.5, 1.5)).collect();
        let mut cov = vec![0.0; dim * dim];
        for i in 0..dim { for j in 0..dim { let mut s = 0.0; for k in 0..dim { s += a[i * dim + k] * a[j * dim + k]; } cov[i * dim + j] = s + if i == j { 0.5 } else { 0.0 }; } }
        for i in 0..dim { for j in 0..i { cov[i * dim + j] = cov[j * dim + i]; } }
        let mu: Vec<f64> = (0..dim).map(|_| r.uniform(-5.0, 5.0)).collect();
        (dim, cov, mu, "spd/gram+0.5") } else { extra[case - 4].clone() };
        // own Cholesky factor (textbook): a covariance on which it meets a non-positive pivot is numerically not positive definite
        // (only the nearly singular kind can be): the constructor may refuse it and nothing is demanded there
        let mut l = vec![0.0; dim * dim];
        for i in 0..dim { for j in 0..=i { let mut s = cov[i * dim + j]; for k in 0..j { s -= l[i * dim + k] * l[j * dim + k]; } l[i * dim + j] = if i == j { s.sqrt() } else { s / l[j * dim + j] }; } }
        if !(0..dim).all(|i| l[i * dim + i] > 0.0 && l[i * dim + i].is_finite()) { continue; }
        let _ = kind_tag;
        let sd = r.next();
        let input = format!("alea::set_seed({}); MVN::new({:?}, Matrix::new({:?}, {}, {})).sample_n({})", sd, mu, cov, dim, dim, nm);
        crumb(&input); sink.tried += nm as u64;
        let (mu2, cov2) = (mu.clone(), cov.clone());
        let res = watchdog(300.0, move || { alea::set_seed(sd); let m = MVN::new(Vector::new(mu2), Matrix::new(cov2, dim as i32, dim as i32)); let s = m.sample_n(nm); (s.shape(), s.data().to_vec(), m.sample().to_vec()) });
        let (shape, data, one) = match res { Some(Ok(x)) => x, Some(Err(e)) => { sink.fail("mvn:panic".into(), 1.0, format!("panicked: {}", e), input); continue; }
            None => { sink.fail("mvn:nonterminating".into(), 1.0, "no return within 300 s".into(), input); continue; } };
        if shape != [nm, dim] || data.len() != nm * dim || one.len() != dim { sink.fail("bulk:shape".into(), 1.0, format!("MVN sample_n({}) has shape {:?} ({} elements), sample() has length {}", nm, shape, data.len(), one.len()), input.clone()); continue; }
        if data.iter().any(|x| !x.is_finite()) { sink.fail("mvn:support".into(), 1.0, "a draw has a non-finite coordinate".into(), input.clone()); continue; }
        // forward substitution with the own factor
        let eps = dkw_eps(nm);
        let std_norm = D::Normal(0.0, 1.0);
        let mut white: Vec<Vec<f64>> = vec![Vec::with_capacity(nm); dim];
        for row in data.chunks(dim) {
            let mut z = vec![0.0; dim];
            for i in 0..dim { let mut s = row[i] - mu[i]; for k in 0..i { s -= l[i * dim + k] * z[k]; } z[i] = s / l[i * dim + i]; }
            for i in 0..dim { white[i].push(z[i]); }
        }
        for (i, w) in white.iter_mut().enumerate() {
            w.sort_by(|a, b| a.partial_cmp(b).unwrap());
            let (sup, at) = dkw_sup(w, &std_norm, 1);
            if !(sup <= eps) { sink.fail("mvn:whitened-dkw".into(), sup / eps, format!("whitened coordinate {} is not standard normal: sup|F_n - Phi| = {:.5} at {:e} > {:.5}", i, sup, at, eps), input.clone()); }
        }
        for _ in 0..(if thorough { 12 } else { 4 }) {
            let dir: Vec<f64> = (0..dim).map(|_| r.uniform(-1.0, 1.0)).collect();
            let mut var = 0.0; for i in 0..dim { for j in 0..dim { var += dir[i] * cov[i * dim + j] * dir[j]; } }
            let sdv = var.sqrt(); if !(sdv > 1e-6) { continue; }
            let mut pr: Vec<f64> = data.chunks(dim).map(|row| (0..dim).map(|i| dir[i] * (row[i] - mu[i])).sum::<f64>() / sdv).collect();
            pr.sort_by(|a, b| a.partial_cmp(b).unwrap());
            let (sup, at) = dkw_sup(&pr, &std_norm, 1);
            if !(sup <= eps) { sink.fail("mvn:projection-dkw".into(), sup / eps, format!("projection on {:?} is not standard normal after scaling: sup|F_n - Phi| = {:.5} at {:e} > {:.5}", dir, sup, at, eps), input.clone()); }
        }
    }

    let out = sink.worst.into_iter().map(|(class, (_, what, input))| Finding { class, what, input }).collect();
    (sink.tried, out)
}

// ------------------------------------------------------------------------------------------------------------
// correspondence cases
// ------------------------------------------------------------------------------------------------------------
/// one implementation run on a worker thread (alea's generator and the libm recorder are thread-local), with a wall-clock guard:
/// `None` = no answer within 3 s (a hang is the failing behaviour; the case then records an outcome no model run can equal)
fn run_case(f: impl FnOnce() -> Vec<f64> + Send + 'static) -> (libm::Table, Tm, bool) {
    match watchdog(3.0, move || { libm::start(); let r = catch(f); let t = libm::stop(); (r, t) }) {
        Some(Ok((r, t))) => (t, outcome_list(&r), false),
        Some(Err(_)) => (libm::Table::default(), Tm::Raw("Panic".into()), false),
        None => (libm::Table::default(), Tm::Raw("(Val [nan; nan; nan; nan; nan; nan; nan; nan; nan; nan; nan; nan])".into()), true),
    }
}

fn dist_term(d: &D) -> Tm {
    match *d {
        D::Normal(a, b) => app("DNormal", vec![Tm::F(a), Tm::F(b)]), D::Uniform(a, b) => app("DUniform", vec![Tm::F(a), Tm::F(b)]),
        D::Exponential(a) => app("DExponential", vec![Tm::F(a)]), D::Gumbel(a, b) => app("DGumbel", vec![Tm::F(a), Tm::F(b)]),
        D::Pareto(a, b) => app("DPareto", vec![Tm::F(a), Tm::F(b)]), D::Gamma(a, b) => app("DGamma", vec![Tm::F(a), Tm::F(b)]),
        D::Beta(a, b) => app("DBeta", vec![Tm::F(a), Tm::F(b)]), D::ChiSquared(k) => app("DChiSquared", vec![Tm::N(k)]), D::T(a) => app("DT", vec![Tm::F(a)]),
        D::Poisson(a) => app("DPoisson", vec![Tm::F(a)]), D::Binomial(n, p) => app("DBinomial", vec![Tm::N(n), Tm::F(p)]),
        D::DiscreteUniform(a, b) => app("DDiscreteUniform", vec![Tm::Z(a), Tm::Z(b)]), D::Bernoulli(p) => app("DBernoulli", vec![Tm::F(p)]),
    }
}

/// which regime of its algorithm a distribution is in (tag of the case), and whether it leaves the default path
fn regime_tag(d: &D) -> &'static str {
    match *d {
        D::Normal(..) => "normal/ziggurat", D::Uniform(..) => "uniform", D::Exponential(_) => "exponential", D::Gumbel(..) => "gumbel", D::Pareto(..) => "pareto",
        D::Gamma(a, _) => if a < 1.0 / 3.0 { "gamma/shape<1/3" } else if a < 1.0 { "gamma/shape<1" } else { "gamma/shape>=1" },
        D::Beta(a, b) => if a < 1.0 || b < 1.0 { "beta/boosted" } else { "beta/direct" }, D::ChiSquared(k) => if k == 1 { "chi_squared/dof=1" } else { "chi_squared/dof>=2" },
        D::T(nu) => if nu < 2.0 { "t/dof<2" } else { "t/dof>=2" }, D::Poisson(l) => if l < 10.0 { "poisson/mult" } else if l < 150.0 { "poisson/ptrs" } else { "poisson/ptrs>=150" },
        D::Binomial(n, p) => { let q = if p > 0.5 { 1.0 - p } else { p };
            if n == 0 || p == 0.0 || (p - 1.0).abs() <= f64::EPSILON { "binomial/degenerate" } else if q * n as f64 <= 30.0 { if p > 0.5 { "binomial/inversion-flipped" } else { "binomial/inversion" } }
            else if p > 0.5 { "binomial/btpe-flipped" } else { "binomial/btpe" } }
        D::DiscreteUniform(..) => "discrete_uniform", D::Bernoulli(p) => if p == 0.0 || p == 1.0 { "bernoulli/degenerate" } else { "bernoulli" },
    }
}

fn random_dist(r: &mut Rng) -> D {
    let lg = |r: &mut Rng, lo: f64, hi: f64| (r.uniform(lo.ln(), hi.ln())).exp();
    match r.below(30) {
        0 | 1 => D::Normal(r.uniform(-10.0, 10.0), if r.coin(0.1) { 0.0 } else { lg(r, 1e-3, 1e3) }),
        2 => D::Uniform(r.uniform(-10.0, 0.0), r.uniform(0.0, 10.0)),
        3 => D::Exponential(lg(r, 1e-3, 1e3)),
        4 => D::Gumbel(r.uniform(-10.0, 10.0), lg(r, 1e-2, 1e2)),
        5 => D::Pareto(lg(r, 0.1, 20.0), lg(r, 1e-3, 1e3)),
        6 => D::Gamma(r.uniform(0.01, 1.0 / 3.0), lg(r, 1e-2, 1e2)),
        7 => D::Gamma(r.uniform(1.0 / 3.0, 1.0), lg(r, 1e-2, 1e2)),
        8 | 9 => D::Gamma(lg(r, 1.0, 1e4), lg(r, 1e-2, 1e2)),
        10 => D::Gamma(*r.pick(&[1.0, 1.0 / 3.0, 0.5, 2.0]), 1.0),
        11 => D::Beta(lg(r, 0.05, 5.0), lg(r, 0.05, 5.0)),
        12 => D::Beta(lg(r, 1.0, 100.0), lg(r, 1.0, 100.0)),
        13 => { let m = if r.coin(0.5) { 4 } else { 60 }; D::ChiSquared(1 + r.below(m)) }
        14 => D::T(lg(r, 0.3, 2.0)),
        15 => D::T(lg(r, 2.0, 200.0)),
        16 | 17 => D::Poisson(lg(r, 0.05, 10.0)),
        18 | 19 => D::Poisson(lg(r, 10.0, 150.0)),
        20 => D::Poisson(lg(r, 150.0, 1e6)),
        21 | 22 => { let n = 1 + r.below(2000); D::Binomial(n, (r.uniform(0.0, 30.0) / n as f64).min(1.0)) }                // inversion (possibly flipped below)
        23 | 24 => { let n = 70 + r.below(100000); let p = r.uniform(31.0 / n as f64, 0.5); D::Binomial(n, if r.coin(0.4) { 1.0 - p } else { p }) } // BTPE
        25 => { let n = 1 + r.below(500); D::Binomial(n, 1.0 - r.uniform(0.0, 30.0f64.min(n as f64 * 0.45)) / n as f64) }    // flipped inversion
        26 => D::Binomial(*r.pick(&[0u64, 1, 5, 1000, 3_000_000_000]), *r.pick(&[0.0, 1.0, 0.5, 1e-9, 1.0 - 1e-16, 0.9999999999999998])),
        27 => { let a = r.range(-1000, 1000); let m = if r.coin(0.5) { 10 } else { 1 << 40 }; D::DiscreteUniform(a, a + 1 + r.below(m) as i64) }
        28 => D::Bernoulli(if r.coin(0.3) { *r.pick(&[0.0, 1.0]) } else { r.unit() }),
        _ => D::DiscreteUniform(r.range(-(1 << 62), 0), r.range(1, 1 << 62)),
    }
}

fn malformed(r: &mut Rng) -> D {
    match r.below(14) {
        0 => D::Normal(0.0, -r.uniform(0.1, 3.0)), 1 => D::Uniform(2.0, r.uniform(-3.0, 1.9)), 2 => D::Exponential(-r.unit()), 3 => D::Gumbel(1.0, *r.pick(&[0.0, -1.0])),
        4 => D::Pareto(*r.pick(&[0.0, -1.0, 2.0]), *r.pick(&[0.0, -2.0])), 5 => D::Gamma(*r.pick(&[0.0, -1.0, 1.0]), *r.pick(&[0.0, -3.0])), 6 => D::Beta(0.0, 1.0), 7 => D::Beta(1.0, -1.0),
        8 => D::ChiSquared(0), 9 => D::T(*r.pick(&[0.0, -2.5])), 10 => D::Poisson(*r.pick(&[0.0, -1.0])), 11 => D::Binomial(5, *r.pick(&[-0.1, 1.5, f64::NAN])),
        12 => D::DiscreteUniform(3, r.range(-5, 2)), _ => D::Bernoulli(*r.pick(&[-0.5, 1.000001, f64::NAN])),
    }
}

pub fn gen(tier: &str, seed: u64, outdir: &str) {
    let thorough = tier == "thorough";
    let mut r = Rng::new(seed ^ 0x9C03);
    let mut cs = Cases::new("C03");
    let k = if thorough { 12 } else { 1 };
    // a regime in which one case did not return is recorded once (as a case no model run can equal) and then skipped: every such run leaves a spinning thread behind
    let hung: std::cell::RefCell<std::collections::HashSet<&'static str>> = Default::default();
    let push_draws = |cs: &mut Cases, d: &D, sd: u64, cnt: usize, tag_override: Option<&str>| {
        if hung.borrow().contains(regime_tag(d)) { return; }
        let dd = d.clone();
        let (t, e, timed_out) = run_case(move || { alea::set_seed(sd); let s = dd.build(); s.sample_n(cnt).to_vec() });
        let tag = tag_override.unwrap_or(regime_tag(d));
        if timed_out { hung.borrow_mut().insert(regime_tag(d)); }
        cs.push(app("CDraws", vec![libm_table(&t), dist_term(d), Tm::N(sd), Tm::Nat(cnt as u64), e]), tag, cnt >= 2);
    };
    // the oracle's regime grid, a few draws each
    for d in regimes(thorough) {
        if let D::Binomial(n, _) = d { if n > 1 << 33 { continue; } }
        let sd = r.next(); push_draws(&mut cs, &d, sd, 6, None);
    }
    // COVERAGE AUDIT: the extreme-but-valid parameters of the oracle's wide grid (the huge-n inversion cases pin exp(n ln_1p(-p))), the
    // degenerate equal bounds of the discrete uniform law; left out: BTPE with n > 2^33 (as above) and the span of 2^64 integers (finding)
    for d in wide(thorough) {
        if let D::Binomial(n, p) = d { if n > 1 << 33 && (n as f64) * p.min(1.0 - p) > 30.0 { continue; } }
        if let D::DiscreteUniform(a, b) = d { if b.wrapping_sub(a).wrapping_add(1) == 0 { continue; } }
        let tag = match d { D::DiscreteUniform(a, b) if a == b => Some("discrete_uniform/equal-bounds"), D::Binomial(n, _) if n > 1 << 33 => Some("binomial/inversion-huge-n"), _ => None };
        let sd = r.next(); push_draws(&mut cs, &d, sd, 6, tag);
    }
    // random parameters in every regime
    for _ in 0..260 * k { let d = random_dist(&mut r); let sd = r.next(); let cnt = 1 + r.below(8) as usize; push_draws(&mut cs, &d, sd, cnt, None); }
    // the seeds on which the first uniform variate is exactly 0, and small seeds
    for d in [D::Exponential(2.0), D::Gumbel(1.0, 2.0), D::Pareto(3.0, 2.0), D::Uniform(-1.0, 1.0), D::Bernoulli(0.5), D::Poisson(3.0), D::Poisson(30.0), D::Binomial(20, 0.3), D::Gamma(0.5, 1.0), D::Normal(0.0, 1.0)] {
        for &z in &ZERO_SEEDS { push_draws(&mut cs, &d, z, 3, Some("zero-uniform-variate")); }
        for sd in [0u64, 1, 2, u64::MAX] { push_draws(&mut cs, &d, sd, 2, None); }
    }
    // binomial inversion with a uniform variate above the summed mass (reaches the x < n bound)
    { let mut found = 0; let base = r.next() & 0xffff_ffff;
      for sd in base..base + 400_000_000 { alea::set_seed(sd); if alea::f64() > 1.0 - 4e-8 { push_draws(&mut cs, &D::Binomial(2147483647, 1.3900000000000002e-8), sd, 1, Some("binomial/inversion-capped-at-n")); found += 1; if found >= 3 { break; } } } }
    // ziggurat: seeds whose first word lands in the tail layer (i = 127, j >= K[127]), in a wedge (i < 127, j >= K[i]), in layer 0 (K[0] = 0)
    { let (mut tail, mut wedge, mut top) = (0, 0, 0); let base = r.next() & 0xffff_ffff;
      for sd in base..base + 50_000_000 {
          alea::set_seed(sd); let u = alea::u64(); let (i, j) = ((u & 0x7F) as usize, ((u >> 8) & 0xFFFFFF) as u32);
          // thresholds read from the implementation's behaviour, not from its tables: a slow-path draw consumes more than one word
          if i == 127 && j >= 15_600_000 && tail < 6 * k { tail += 1; push_draws(&mut cs, &D::Normal(r.uniform(-2.0, 2.0), 1.5), sd, 2, Some("normal/ziggurat-tail-layer")); }
          else if i == 0 && top < 3 * k { top += 1; push_draws(&mut cs, &D::Normal(0.0, 1.0), sd, 2, Some("normal/ziggurat-layer0")); }
          else if i > 0 && i < 127 && j >= 16_640_000 && wedge < 12 * k { wedge += 1; push_draws(&mut cs, &D::Normal(1.0, 0.5), sd, 2, Some("normal/ziggurat-wedge")); }
          if tail >= 6 * k && wedge >= 12 * k && top >= 3 * k { break; } } }
    // malformed parameters: the constructor panics
    for _ in 0..40 * k { let d = malformed(&mut r); let sd = r.next(); push_draws(&mut cs, &d, sd, 1, Some("malformed")); }
    // zero draws
    for d in [D::Normal(0.0, 1.0), D::Poisson(4.0)] { push_draws(&mut cs, &d, 7, 0, Some("sample_n(0)")); }

    // sample_matrix
    for _ in 0..30 * k {
        let d = random_dist(&mut r); let sd = r.next(); let (rr, cc) = (r.below(5) as usize, r.below(5) as usize);
        if hung.borrow().contains(regime_tag(&d)) { continue; }
        let dd = d.clone();
        let (t, e, timed_out) = run_case(move || { alea::set_seed(sd); let m = dd.build().sample_matrix(rr, cc); let mut v = vec![m.nrows as f64, m.ncols as f64]; v.extend(m.data().iter()); v });
        if timed_out { hung.borrow_mut().insert(regime_tag(&d)); }
        cs.push(app("CMatrix", vec![libm_table(&t), dist_term(&d), Tm::N(sd), Tm::Nat(rr as u64), Tm::Nat(cc as u64), e]), "sample_matrix", rr * cc >= 2);
    }
    // MVN: mean + L z, with L the crate's own Cholesky factor of the covariance (recorded sub-call: C11 owns it)
    for i in 0..30 * k {
        let dim = 1 + r.below(5) as usize; let nn = r.below(4) as usize; let sd = r.next();
        let a: Vec<f64> = (0..dim * dim).map(|_| r.uniform(-1.5, 1.5)).collect();
        let mut cov = vec![0.0; dim * dim];
        for i in 0..dim { for j in 0..=i { let mut s = 0.0; for kk in 0..dim { s += a[i * dim + kk] * a[j * dim + kk]; } cov[i * dim + j] = s + if i == j { 0.5 } else { 0.0 }; cov[j * dim + i] = cov[i * dim + j]; } }
        let mu: Vec<f64> = (0..(if i % 10 == 9 { dim + 1 } else { dim })).map(|_| r.uniform(-5.0, 5.0)).collect();
        let lfac = catch(|| Matrix::new(cov.clone(), dim as i32, dim as i32).cholesky().data().to_vec());
        let lfac = match lfac { Ok(l) => l, Err(_) => continue };
        let (mu2, cov2) = (mu.clone(), cov.clone());
        let (t, e, _) = run_case(move || { alea::set_seed(sd); let m = MVN::new(Vector::new(mu2), Matrix::new(cov2, dim as i32, dim as i32));
            let one = m.sample().to_vec(); let s = m.sample_n(nn); let mut v = one; v.push(s.nrows as f64); v.push(s.ncols as f64); v.extend(s.data().iter()); v });
        cs.push(app("CMvn", vec![libm_table(&t), fl(&mu), fl(&lfac), Tm::Nat(dim as u64), Tm::N(sd), Tm::Nat(nn as u64), e]), if mu.len() != dim { "mvn/malformed" } else { "mvn" }, dim >= 2);
    }
    // MVN END TO END: nothing recorded but libm; the Coq side computes the Cholesky factor (and the inverse and determinant the
    // constructor also caches) with the models of C11 / C01.  Own generator state: the cases above and below do not move.
    {
        let mut r = Rng::new(seed ^ 0x9C03_E2E);
        let dims: Vec<usize> = if thorough { (1..=12).collect() } else { (1..=6).collect() };
        let reps = if thorough { 4 } else { 2 };
        // the symmetric positive definite kinds (0..=5 and 16) are drawn three times as often as the others
        let kinds: Vec<usize> = (0..mvn_covs::KINDS + 1).chain((0..=5).chain(16..17)).chain((0..=5).chain(16..17)).collect();
        for rep in 0..reps { for &dim in &dims { for &kind in &kinds {
            // kind KINDS: a valid covariance with a mean of the wrong length
            let cv = mvn_covs::covariance(&mut r, dim, if kind >= mvn_covs::KINDS { 0 } else { kind });
            let nmu = if kind == mvn_covs::KINDS { if r.coin(0.5) { dim + 1 } else { dim - 1 } } else { dim };
            let mu: Vec<f64> = (0..nmu).map(|_| r.uniform(-5.0, 5.0)).collect();
            let nn = ((rep + dim + kind) % 4) as usize; let sd = r.next();
            let (mu2, cov2, rows, cols) = (mu.clone(), cv.data.clone(), cv.rows, cv.cols);
            let (t, e, _) = run_case(move || { alea::set_seed(sd); let m = MVN::new(Vector::new(mu2), Matrix::new(cov2, rows as i32, cols as i32));
                let one = m.sample().to_vec(); let s = m.sample_n(nn); let mut v = one; v.push(s.nrows as f64); v.push(s.ncols as f64); v.extend(s.data().iter()); v });
            let tag = if kind == mvn_covs::KINDS { "rejected/mean-of-wrong-length" } else { cv.tag };
            cs.push(app("CMvnE", vec![libm_table(&t), Tm::Nat(rows as u64), Tm::Nat(cols as u64), fl(&cv.data), fl(&mu), Tm::N(sd), Tm::Nat(nn as u64), e]),
                &format!("mvn-end-to-end/{}", tag), cv.spd && kind < mvn_covs::KINDS && dim >= 2);
        } } }
    }
    // ln_gamma (added next to gamma for the Poisson sampler)
    let mut xs: Vec<f64> = (1..=60).map(|i| i as f64).collect();
    for _ in 0..150 * k { xs.push((r.uniform((0.5f64).ln(), (1e7f64).ln())).exp()); }
    for _ in 0..40 * k { xs.push(r.uniform(-20.0, 0.5)); }
    xs.extend([0.5, 0.49999999999999994, 171.0, 172.0, 1e300, f64::INFINITY, 0.0, -1.0, f64::NAN]);
    for x in xs {
        libm::start(); let res = catch(|| compute::functions::ln_gamma(x)); let t = libm::stop();
        cs.push(app("CLnGamma", vec![libm_table(&t), Tm::F(x), outcome_list(&res.map(|v| vec![v]))]), if x < 0.5 { "ln_gamma/reflection" } else { "ln_gamma/direct" }, x != 1.0 && x != 2.0);
    }
    cs.write(outdir, 120, "after alea::set_seed(seed): the first k draws (k = 0..8) of every distribution over the oracle's regime grid and over random parameters in every algorithm branch (gamma shape < 1/3, < 1, >= 1 and beta / chi-squared / t built on it; Poisson multiplication / PTRS / PTRS beyond 150; binomial inversion / BTPE / flipped / degenerate / n >= 2^31; ziggurat fast path, wedge and tail as the seeds reach them), the oracle's wide grid of extreme-but-valid parameters (scales 1e-300..1e300, Gamma shape 0.05..1e15, Poisson rate 1e-300..1e15, binomial inversion with n up to 1e18, DiscreteUniform with equal bounds, at both ends of i64 and with a span above 2^63), the two seeds that make the first uniform variate exactly 0, seeds 0, 1, 2, 2^64-1, seeds whose first variate exceeds the summed binomial mass (loop bound x < n), invalid parameters (constructor panics), sample_matrix shapes 0..4 x 0..4, MVN sample and sample_n for dimensions 1..5 (Cholesky factor recorded from the crate's own routine), MVN END TO END (MVN::new + sample + sample_n, the Cholesky factor computed by C11's model, nothing recorded but libm) for dimensions 1..6 (thorough: 1..12) on random / diagonal / small-integer / ill-conditioned (badly scaled, Hilbert, nearly singular, equicorrelated) SPD covariances, covariances symmetric only within / just outside the relative tolerance, and rejected inputs (non-positive diagonal, not symmetric, indefinite, singular, NaN / inf entry, not square, zero, mean of the wrong length), ln_gamma on integers, log-uniform (0.5, 1e7), the reflection branch and specials; every case carries the libm calls made (exp, ln, log1p, pow, floor, sin); non-trivial = at least two draws (the generator state is threaded through) or dimension >= 2; distinct by hash of the case term");
}
