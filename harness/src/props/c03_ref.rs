//! Reference CDFs for the C03 oracle, independent of the crate under test: regularised incomplete gamma and beta
//! (series / continued fraction, glibc lgamma for the normalisation), normal through glibc erfc, and a composite
//! Simpson integrator used to cross-check them against the textbook densities.
use crate::libm::reference::{erfc, lgamma};

pub fn norm_cdf(z: f64) -> f64 { 0.5 * erfc(-z / std::f64::consts::SQRT_2) }

/// regularised lower incomplete gamma P(a, x), a > 0
pub fn gamma_p(a: f64, x: f64) -> f64 {
    if !(x > 0.0) { return 0.0; }
    if x == f64::INFINITY { return 1.0; }
    let lnpre = -x + a * x.ln() - lgamma(a);
    if x < a + 1.0 {
        let (mut ap, mut del) = (a, 1.0 / a);
        let mut sum = del;
        for _ in 0..10_000_000 { ap += 1.0; del *= x / ap; sum += del; if del.abs() < sum.abs() * 1e-17 { break; } }
        (sum.ln() + lnpre).exp().min(1.0)
    } else {
        // modified Lentz for Q(a, x)
        let tiny = 1e-300;
        let mut b = x + 1.0 - a; let mut c = 1.0 / tiny; let mut d = 1.0 / b; let mut h = d;
        for i in 1..10_000_000 {
            let an = -(i as f64) * (i as f64 - a);
            b += 2.0;
            d = an * d + b; if d.abs() < tiny { d = tiny; }
            c = b + an / c; if c.abs() < tiny { c = tiny; }
            d = 1.0 / d; let del = d * c; h *= del;
            if (del - 1.0).abs() < 1e-16 { break; }
        }
        (1.0 - (lnpre + h.ln()).exp()).max(0.0)
    }
}

fn betacf(a: f64, b: f64, x: f64) -> f64 {
    let tiny = 1e-300;
    let (qab, qap, qam) = (a + b, a + 1.0, a - 1.0);
    let mut c = 1.0; let mut d = 1.0 - qab * x / qap; if d.abs() < tiny { d = tiny; } d = 1.0 / d; let mut h = d;
    for m in 1..5_000_000 {
        let m = m as f64; let m2 = 2.0 * m;
        let aa = m * (b - m) * x / ((qam + m2) * (a + m2));
        d = 1.0 + aa * d; if d.abs() < tiny { d = tiny; } c = 1.0 + aa / c; if c.abs() < tiny { c = tiny; } d = 1.0 / d; h *= d * c;
        let aa = -(a + m) * (qab + m) * x / ((a + m2) * (qap + m2));
        d = 1.0 + aa * d; if d.abs() < tiny { d = tiny; } c = 1.0 + aa / c; if c.abs() < tiny { c = tiny; } d = 1.0 / d;
        let del = d * c; h *= del;
        if (del - 1.0).abs() < 1e-16 { break; }
    }
    h
}
/// regularised incomplete beta I_x(a, b)
pub fn beta_i(a: f64, b: f64, x: f64) -> f64 {
    if !(x > 0.0) { return 0.0; }
    if x >= 1.0 { return 1.0; }
    let bt = (lgamma(a + b) - lgamma(a) - lgamma(b) + a * x.ln() + b * (-x).ln_1p()).exp();
    if x < (a + 1.0) / (a + b + 2.0) { (bt * betacf(a, b, x) / a).min(1.0) } else { (1.0 - bt * betacf(b, a, 1.0 - x) / b).max(0.0) }
}

/// Q(a, x) = 1 - P(a, x) for LARGE a by Temme's uniform asymptotic expansion (DLMF 8.12.7-8.12.10, leading coefficient):
/// Q = erfc(eta sqrt(a/2))/2 + exp(-a eta^2/2)/sqrt(2 pi a) (c0(eta) + O(1/a)), eta^2/2 = mu - ln(1+mu), mu = (x-a)/a, c0 = 1/mu - 1/eta.
/// The direct evaluation above forms -x + a ln x - lgamma(a) from terms of size a ln a and is useless beyond a ~ 1e10; this one has
/// no cancellation. Dropped terms are below 1e-3/a^1.5 (used for a >= 1e7 only; cross-checked against gamma_p at a = 1e5, 1e6 in selftest).
pub fn gamma_q_large(a: f64, x: f64) -> f64 {
    if !(x > 0.0) { return 1.0; }
    if x == f64::INFINITY { return 0.0; }
    let mu = (x - a) / a;
    let phi = if mu.abs() < 1e-2 { let m = mu; m * m * (0.5 + m * (-1.0 / 3.0 + m * (0.25 + m * (-0.2 + m * (1.0 / 6.0 + m * (-1.0 / 7.0 + m * 0.125)))))) } else { mu - mu.ln_1p() };
    let eta = (2.0 * phi).sqrt() * if mu < 0.0 { -1.0 } else { 1.0 };
    let c0 = if eta.abs() < 2e-2 { -1.0 / 3.0 + eta * (1.0 / 12.0 + eta * (-2.0 / 135.0 + eta * (1.0 / 864.0))) } else { 1.0 / mu - 1.0 / eta };
    let q = 0.5 * erfc(eta * (a / 2.0).sqrt()) + (-a * phi).exp() / (2.0 * std::f64::consts::PI * a).sqrt() * c0;
    q.clamp(0.0, 1.0)
}
/// P(a, x) with the method that is accurate at that a
pub fn gamma_p_any(a: f64, x: f64) -> f64 { if a >= 1e7 { 1.0 - gamma_q_large(a, x) } else { gamma_p(a, x) } }

/// Binomial CDF for a LARGE variance npq (>= 1e7): normal approximation with continuity correction and the first Edgeworth (skewness)
/// term, F(k) = Phi(z) - phi(z) (z^2 - 1) (1 - 2p) / (6 sigma), z = (k + 1/2 - np) / sigma; the error is O(1/sigma^2) <= 1e-7.
/// (beta_i forms lgamma differences of size n ln n and is useless beyond n ~ 1e10; cross-checked against it at n = 1e8 in selftest.)
pub fn binom_cdf_large(n: u64, p: f64, k: f64) -> f64 {
    let nf = n as f64; let k = k.floor();
    if k < 0.0 { return 0.0; } if k >= nf { return 1.0; }
    let sigma = (nf * p * (1.0 - p)).sqrt();
    // k - np with np possibly beyond 2^53: k and nf*p are both rounded to the same grid there, the difference is what matters
    let z = ((k - nf * p) + 0.5) / sigma;
    let dens = (-0.5 * z * z).exp() / (2.0 * std::f64::consts::PI).sqrt();
    (norm_cdf(z) - dens * (z * z - 1.0) * (1.0 - 2.0 * p) / (6.0 * sigma)).clamp(0.0, 1.0)
}

pub fn t_cdf(nu: f64, t: f64) -> f64 {
    if t == 0.0 { return 0.5; }
    let x = nu / (nu + t * t);
    let tail = 0.5 * beta_i(nu / 2.0, 0.5, x);
    if t > 0.0 { 1.0 - tail } else { tail }
}
pub fn poisson_cdf(lam: f64, k: f64) -> f64 { if k < 0.0 { 0.0 } else if k.floor() + 1.0 >= 1e7 || lam >= 1e8 { gamma_q_large(k.floor() + 1.0, lam) } else { 1.0 - gamma_p(k.floor() + 1.0, lam) } }

/// Binomial CDF by the textbook mass recurrence from the nearer end (exact to rounding when the mass at that end does not underflow)
pub fn binom_cdf_rec(n: u64, p: f64, k: f64) -> f64 {
    if k < 0.0 { return 0.0; }
    if k >= n as f64 { return 1.0; }
    let k = k.floor() as u64;
    let nf = n as f64;
    // lower sum from 0
    let mut pm = (nf * (-p).ln_1p()).exp();
    let ratio = p / (1.0 - p);
    let mut s = pm; let mut sc = 0.0; // Kahan
    for j in 0..k { pm *= (nf - j as f64) / (j as f64 + 1.0) * ratio; let y = pm - sc; let t = s + y; sc = (t - s) - y; s = t; }
    s.min(1.0)
}
pub fn binom_cdf(n: u64, p: f64, k: f64) -> f64 {
    if k < 0.0 { return 0.0; }
    if k >= n as f64 { return 1.0; }
    if p <= 0.0 { return 1.0; }
    if p >= 1.0 { return 0.0; }
    let nf = n as f64;
    if nf * p <= 60.0 { return binom_cdf_rec(n, p, k); }
    if nf * (1.0 - p) <= 60.0 { // P(X <= k) = P(n - X >= n - k) = 1 - P(Y <= n-k-1), Y ~ B(n, 1-p)
        return (1.0 - binom_cdf_rec(n, 1.0 - p, nf - k.floor() - 1.0)).max(0.0); }
    if nf * p * (1.0 - p) >= 1e7 { return binom_cdf_large(n, p, k); }
    let k = k.floor();
    beta_i(nf - k, k + 1.0, 1.0 - p)
}

/// composite Simpson on [a, b] with 2m panels
pub fn simpson(f: &dyn Fn(f64) -> f64, a: f64, b: f64, m: usize) -> f64 {
    let n = 2 * m; let h = (b - a) / n as f64;
    let mut s = f(a) + f(b);
    for i in 1..n { s += f(a + h * i as f64) * if i % 2 == 1 { 4.0 } else { 2.0 }; }
    s * h / 3.0
}

/// Cross-check of the reference CDFs against numerical integration of the textbook densities (increments over interior
/// intervals, so integrable end-point singularities are avoided). Returns the list of disagreements (empty = consistent).
pub fn selftest() -> Vec<String> {
    let mut bad = vec![];
    let mut chk = |name: String, got: f64, want: f64| { if !((got - want).abs() <= 2e-8) { bad.push(format!("{}: reference {:e} vs integral {:e}", name, got, want)); } };
    let pi = std::f64::consts::PI;
    for &(lo, hi) in &[(-3.0, -1.0), (-1.0, 0.5), (0.5, 4.0)] {
        chk(format!("normal[{},{}]", lo, hi), norm_cdf(hi) - norm_cdf(lo), simpson(&|x| (-0.5 * x * x).exp() / (2.0 * pi).sqrt(), lo, hi, 4000));
    }
    for &a in &[0.1, 0.2, 1.0 / 3.0, 0.5, 0.9, 1.0, 2.5, 10.0, 100.0, 1000.5] {
        let sd = (a as f64).sqrt();
        let pts = [(a - 2.0 * sd).max(a * 0.05).max(1e-2), a.max(0.05), a + sd, a + 3.0 * sd];
        for w in pts.windows(2) { if w[1] > w[0] {
            let f = |x: f64| ((a - 1.0) * x.ln() - x - lgamma(a)).exp();
            chk(format!("gamma(a={})[{},{}]", a, w[0], w[1]), gamma_p(a, w[1]) - gamma_p(a, w[0]), simpson(&f, w[0], w[1], 20000)); } }
    }
    for &(a, b) in &[(2.0, 4.0), (0.5, 0.5), (0.2, 3.0), (3.0, 0.2), (0.2, 0.2), (0.9, 50.0), (100.0, 200.0), (1.0, 1.0)] {
        let mean: f64 = a / (a + b);
        let pts = [(mean * 0.3).max(1e-3), mean * 0.8, mean, (mean + (1.0 - mean) * 0.3).min(0.999), (mean + (1.0 - mean) * 0.7).min(0.9995)];
        for w in pts.windows(2) { if w[1] > w[0] {
            let f = |x: f64| ((a - 1.0) * x.ln() + (b - 1.0) * (-x).ln_1p() + lgamma(a + b) - lgamma(a) - lgamma(b)).exp();
            chk(format!("beta({},{})[{},{}]", a, b, w[0], w[1]), beta_i(a, b, w[1]) - beta_i(a, b, w[0]), simpson(&f, w[0], w[1], 20000)); } }
    }
    for &nu in &[0.5, 1.0, 1.5, 2.0, 3.0, 10.0, 100.0] {
        for &(lo, hi) in &[(-5.0, -1.0), (-1.0, 0.7), (0.7, 6.0)] {
            let f = |x: f64| (lgamma((nu + 1.0) / 2.0) - lgamma(nu / 2.0)).exp() / (nu * pi).sqrt() * (1.0 + x * x / nu).powf(-(nu + 1.0) / 2.0);
            chk(format!("t(nu={})[{},{}]", nu, lo, hi), t_cdf(nu, hi) - t_cdf(nu, lo), simpson(&f, lo, hi, 20000)); }
    }
    for &lam in &[0.1, 5.0, 9.99, 12.0, 42.0, 200.0, 1000.0] {
        let mut s = 0.0; let kmax = (lam + 10.0 * (lam as f64).sqrt() + 20.0) as i64;
        for k in 0..=kmax { s += (k as f64 * (lam as f64).ln() - lam - lgamma(k as f64 + 1.0)).exp();
            if k % 7 == 0 || k == kmax { chk(format!("poisson(lam={}) k={}", lam, k), poisson_cdf(lam, k as f64), s); } }
    }
    for &(n, p) in &[(15u64, 0.3), (70, 0.5), (1000, 0.03), (1000, 0.5), (1000, 0.97), (100, 0.31), (1000, 0.6), (100000, 0.4)] {
        let mut s = 0.0;
        for k in 0..=n { let kf = k as f64; let nf = n as f64;
            s += (lgamma(nf + 1.0) - lgamma(kf + 1.0) - lgamma(nf - kf + 1.0) + kf * (p as f64).ln() + (nf - kf) * (-(p as f64)).ln_1p()).exp();
            if k % 13 == 0 || k == n { chk(format!("binomial({},{}) k={}", n, p, k), binom_cdf(n, p, kf), s); chk(format!("binomial-betai({},{}) k={}", n, p, k), if k < n { beta_i(nf - kf, kf + 1.0, 1.0 - p) } else { 1.0 }, s); } }
    }
    // the large-parameter references against the direct ones where both are accurate
    for &a in &[1e5f64, 1e6] { for &z in &[-5.0, -3.0, -1.0, -0.2, 0.0, 0.3, 1.0, 2.5, 4.5] {
        let x = a + z * a.sqrt();
        chk(format!("temme(a={}) z={}", a, z), 1.0 - gamma_q_large(a, x), gamma_p(a, x)); } }
    for &(n, p) in &[(100_000_000u64, 0.3), (200_000_000, 0.5), (1_000_000_000, 0.97)] { for &z in &[-5.0, -2.0, -0.5, 0.0, 1.0, 3.0] {
        let nf = n as f64; let k = (nf * p + z * (nf * p * (1.0 - p)).sqrt()).floor();
        let direct = beta_i(nf - k, k + 1.0, 1.0 - p);
        if !((binom_cdf_large(n, p, k) - direct).abs() <= 2e-6) { bad.push(format!("binomial-large({},{}) k={}: {:e} vs beta_i {:e}", n, p, k, binom_cdf_large(n, p, k), direct)); } } }
    bad
}
