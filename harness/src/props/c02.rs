//! C02 — densities, mass functions, moments of the 13 univariate laws and the multivariate normal.
use crate::libm::{self, reference};
use crate::util::*;
use compute::distributions::*;
use compute::linalg::{Matrix, Vector};
use std::f64::consts::PI;
#[path = "mvn_covs.rs"]
mod mvn_covs;

/// A distribution with its parameters (mirrors `Inductive dist` of Model/Dists.v).
#[derive(Clone, Copy, Debug)]
pub enum D {
    Bernoulli(f64), Beta(f64, f64), Binomial(u64, f64), ChiSquared(usize), DiscreteUniform(i64, i64),
    Exponential(f64), Gamma(f64, f64), Gumbel(f64, f64), Normal(f64, f64), Pareto(f64, f64), Poisson(f64),
    T(f64), Uniform(f64, f64),
}
use D::*;

impl D {
    fn name(&self) -> &'static str {
        match self { Bernoulli(..) => "bernoulli", Beta(..) => "beta", Binomial(..) => "binomial", ChiSquared(..) => "chisq",
            DiscreteUniform(..) => "duniform", Exponential(..) => "exponential", Gamma(..) => "gamma", Gumbel(..) => "gumbel",
            Normal(..) => "normal", Pareto(..) => "pareto", Poisson(..) => "poisson", T(..) => "t", Uniform(..) => "uniform" }
    }
    fn discrete(&self) -> bool { matches!(self, Bernoulli(..) | Binomial(..) | DiscreteUniform(..) | Poisson(..)) }
    fn tm(&self) -> Tm {
        match *self {
            Bernoulli(p) => app("DBernoulli", vec![Tm::F(p)]),
            Beta(a, b) => app("DBeta", vec![Tm::F(a), Tm::F(b)]),
            Binomial(n, p) => app("DBinomial", vec![Tm::Z(n as i64), Tm::F(p)]),
            ChiSquared(k) => app("DChiSquared", vec![Tm::Z(k as i64)]),
            DiscreteUniform(a, b) => app("DDiscreteUniform", vec![Tm::Z(a), Tm::Z(b)]),
            Exponential(l) => app("DExponential", vec![Tm::F(l)]),
            Gamma(a, b) => app("DGamma", vec![Tm::F(a), Tm::F(b)]),
            Gumbel(m, b) => app("DGumbel", vec![Tm::F(m), Tm::F(b)]),
            Normal(m, s) => app("DNormal", vec![Tm::F(m), Tm::F(s)]),
            Pareto(a, m) => app("DPareto", vec![Tm::F(a), Tm::F(m)]),
            Poisson(l) => app("DPoisson", vec![Tm::F(l)]),
            T(n) => app("DT", vec![Tm::F(n)]),
            Uniform(a, b) => app("DUniform", vec![Tm::F(a), Tm::F(b)]),
        }
    }
    fn show(&self) -> String { format!("{:?}", self) }
    /// x lies strictly outside the support of a continuous law (the density there is exactly 0, not merely tiny)
    fn strictly_outside_support(&self, x: f64) -> bool {
        match *self { Gamma(..) | ChiSquared(..) | Exponential(..) => x < 0.0, Beta(..) => x < 0.0 || x > 1.0, Pareto(_, m) => x < m,
            Uniform(a, b) => x < a || x > b, _ => false }
    }
    /// `update` takes every parameter as an f64: integer parameters survive the round trip exactly below 2^53
    fn params_exact(&self) -> bool {
        match *self { Binomial(n, _) => n < (1u64 << 53), ChiSquared(k) => (k as u64) < (1u64 << 53),
            DiscreteUniform(a, b) => a.unsigned_abs() < (1u64 << 53) && b.unsigned_abs() < (1u64 << 53), _ => true }
    }

    // ---- the implementation, through the public API (constructors may panic)
    pub fn pdf(&self, x: f64) -> f64 {
        match *self {
            Beta(a, b) => compute::distributions::Beta::new(a, b).pdf(x),
            ChiSquared(k) => compute::distributions::ChiSquared::new(k).pdf(x),
            Exponential(l) => compute::distributions::Exponential::new(l).pdf(x),
            Gamma(a, b) => compute::distributions::Gamma::new(a, b).pdf(x),
            Gumbel(m, b) => compute::distributions::Gumbel::new(m, b).pdf(x),
            Normal(m, s) => compute::distributions::Normal::new(m, s).pdf(x),
            Pareto(a, m) => compute::distributions::Pareto::new(a, m).pdf(x),
            T(n) => compute::distributions::T::new(n).pdf(x),
            Uniform(a, b) => compute::distributions::Uniform::new(a, b).pdf(x),
            _ => panic!("not continuous"),
        }
    }
    pub fn ln_pdf(&self, x: f64) -> f64 {
        match *self {
            Beta(a, b) => compute::distributions::Beta::new(a, b).ln_pdf(x),
            ChiSquared(k) => compute::distributions::ChiSquared::new(k).ln_pdf(x),
            Exponential(l) => compute::distributions::Exponential::new(l).ln_pdf(x),
            Gamma(a, b) => compute::distributions::Gamma::new(a, b).ln_pdf(x),
            Gumbel(m, b) => compute::distributions::Gumbel::new(m, b).ln_pdf(x),
            Normal(m, s) => compute::distributions::Normal::new(m, s).ln_pdf(x),
            Pareto(a, m) => compute::distributions::Pareto::new(a, m).ln_pdf(x),
            T(n) => compute::distributions::T::new(n).ln_pdf(x),
            Uniform(a, b) => compute::distributions::Uniform::new(a, b).ln_pdf(x),
            _ => panic!("not continuous"),
        }
    }
    pub fn pmf(&self, k: i64) -> f64 {
        match *self {
            Bernoulli(p) => compute::distributions::Bernoulli::new(p).pmf(k),
            Binomial(n, p) => compute::distributions::Binomial::new(n, p).pmf(k),
            DiscreteUniform(a, b) => compute::distributions::DiscreteUniform::new(a, b).pmf(k),
            Poisson(l) => compute::distributions::Poisson::new(l).pmf(k),
            _ => panic!("not discrete"),
        }
    }
    // ---- the same parameter setting reached through `update` from another valid one (oracle only: "every valid parameter
    //      setting" does not depend on how the object got there; a cached normaliser must follow the parameters)
    pub fn pdf_upd(&self, x: f64) -> (f64, f64) {
        use compute::distributions as cd;
        macro_rules! via { ($o:expr, $p:expr) => {{ let mut d = $o; d.update(&$p); (d.pdf(x), d.ln_pdf(x)) }} }
        match *self {
            Beta(a, b) => via!(cd::Beta::new(2.5, 1.5), [a, b]), ChiSquared(k) => via!(cd::ChiSquared::new(7), [k as f64]),
            Exponential(l) => via!(cd::Exponential::new(2.5), [l]), Gamma(a, b) => via!(cd::Gamma::new(2.5, 1.5), [a, b]),
            Gumbel(m, b) => via!(cd::Gumbel::new(1.0, 2.0), [m, b]), Normal(m, sd) => via!(cd::Normal::new(1.0, 2.0), [m, sd]),
            Pareto(a, m) => via!(cd::Pareto::new(3.0, 2.0), [a, m]), T(n) => via!(cd::T::new(5.0), [n]),
            Uniform(a, b) => via!(cd::Uniform::new(-1.0, 1.0), [a, b]),
            _ => panic!("not continuous"),
        }
    }
    pub fn pmf_upd(&self, k: i64) -> f64 {
        use compute::distributions as cd;
        macro_rules! via { ($o:expr, $p:expr) => {{ let mut d = $o; d.update(&$p); d.pmf(k) }} }
        match *self {
            Bernoulli(p) => via!(cd::Bernoulli::new(0.3), [p]), Binomial(n, p) => via!(cd::Binomial::new(12, 0.3), [n as f64, p]),
            DiscreteUniform(a, b) => via!(cd::DiscreteUniform::new(-3, 4), [a as f64, b as f64]), Poisson(l) => via!(cd::Poisson::new(3.5), [l]),
            _ => panic!("not discrete"),
        }
    }
    pub fn mean(&self) -> f64 {
        match *self {
            Bernoulli(p) => compute::distributions::Bernoulli::new(p).mean(),
            Beta(a, b) => compute::distributions::Beta::new(a, b).mean(),
            Binomial(n, p) => compute::distributions::Binomial::new(n, p).mean(),
            ChiSquared(k) => compute::distributions::ChiSquared::new(k).mean(),
            DiscreteUniform(a, b) => compute::distributions::DiscreteUniform::new(a, b).mean(),
            Exponential(l) => compute::distributions::Exponential::new(l).mean(),
            Gamma(a, b) => compute::distributions::Gamma::new(a, b).mean(),
            Gumbel(m, b) => compute::distributions::Gumbel::new(m, b).mean(),
            Normal(m, s) => compute::distributions::Normal::new(m, s).mean(),
            Pareto(a, m) => compute::distributions::Pareto::new(a, m).mean(),
            Poisson(l) => compute::distributions::Poisson::new(l).mean(),
            T(n) => compute::distributions::T::new(n).mean(),
            Uniform(a, b) => compute::distributions::Uniform::new(a, b).mean(),
        }
    }
    pub fn var(&self) -> f64 {
        match *self {
            Bernoulli(p) => compute::distributions::Bernoulli::new(p).var(),
            Beta(a, b) => compute::distributions::Beta::new(a, b).var(),
            Binomial(n, p) => compute::distributions::Binomial::new(n, p).var(),
            ChiSquared(k) => compute::distributions::ChiSquared::new(k).var(),
            DiscreteUniform(a, b) => compute::distributions::DiscreteUniform::new(a, b).var(),
            Exponential(l) => compute::distributions::Exponential::new(l).var(),
            Gamma(a, b) => compute::distributions::Gamma::new(a, b).var(),
            Gumbel(m, b) => compute::distributions::Gumbel::new(m, b).var(),
            Normal(m, s) => compute::distributions::Normal::new(m, s).var(),
            Pareto(a, m) => compute::distributions::Pareto::new(a, m).var(),
            Poisson(l) => compute::distributions::Poisson::new(l).var(),
            T(n) => compute::distributions::T::new(n).var(),
            Uniform(a, b) => compute::distributions::Uniform::new(a, b).var(),
        }
    }

    // ---- the textbook formulas (independent: glibc lgamma/erf, log space)
    /// textbook density at x (continuous laws)
    fn ref_pdf(&self, x: f64) -> f64 {
        let lg = reference::lgamma;
        match *self {
            Normal(m, s) => { let z = (x - m) / s; (-0.5 * z * z).exp() / (s * (2.0 * PI).sqrt()) }
            Gamma(a, b) => if x <= 0.0 { 0.0 } else { (a * b.ln() - lg(a) + (a - 1.0) * x.ln() - b * x).exp() },
            ChiSquared(k) => { let h = k as f64 / 2.0;
                if x < 0.0 || (x == 0.0 && k == 1) { 0.0 } else if x == 0.0 { if k == 2 { 0.5 } else { 0.0 } }
                else { (-h * (2f64).ln() - lg(h) + (h - 1.0) * x.ln() - x / 2.0).exp() } }
            Beta(a, b) => if !(0.0..=1.0).contains(&x) { 0.0 }
                else if x == 0.0 { if a < 1.0 { f64::INFINITY } else if a == 1.0 { b } else { 0.0 } }
                else if x == 1.0 { if b < 1.0 { f64::INFINITY } else if b == 1.0 { a } else { 0.0 } }
                else { ((a - 1.0) * x.ln() + (b - 1.0) * (-x).ln_1p() - (lg(a) + lg(b) - lg(a + b))).exp() },
            T(n) => (lg((n + 1.0) / 2.0) - lg(n / 2.0) - 0.5 * (n * PI).ln() - (n + 1.0) / 2.0 * (x * x / n).ln_1p()).exp(),
            Pareto(a, m) => if x < m { 0.0 } else { a / x * (a * (m / x).ln()).exp() },
            Gumbel(m, b) => { let z = (x - m) / b; (-(z + (-z).exp())).exp() / b }
            Exponential(l) => if x < 0.0 { 0.0 } else { l * (-l * x).exp() },
            Uniform(a, b) => if x < a || x > b { 0.0 } else { 1.0 / (b - a) },
            _ => panic!("not continuous"),
        }
    }
    /// textbook mass at k (discrete laws)
    fn ref_pmf(&self, k: i64) -> f64 {
        let lg = reference::lgamma;
        match *self {
            Bernoulli(p) => if k == 0 { 1.0 - p } else if k == 1 { p } else { 0.0 },
            DiscreteUniform(a, b) => if k < a || k > b { 0.0 } else { 1.0 / ((b - a + 1) as f64) },
            Binomial(n, p) => {
                if k < 0 || k as u64 > n { return 0.0; }
                let (kf, nf) = (k as f64, n as f64);
                if p == 0.0 { return if k == 0 { 1.0 } else { 0.0 }; }
                if p == 1.0 { return if k as u64 == n { 1.0 } else { 0.0 }; }
                (lg(nf + 1.0) - lg(kf + 1.0) - lg(nf - kf + 1.0) + kf * p.ln() + (nf - kf) * (-p).ln_1p()).exp()
            }
            Poisson(l) => if k < 0 { 0.0 } else { let kf = k as f64; (kf * l.ln() - l - lg(kf + 1.0)).exp() },
            _ => panic!("not discrete"),
        }
    }
    /// textbook mean / variance (None where the moment is infinite or undefined)
    fn ref_mean(&self) -> Option<f64> {
        Some(match *self {
            Bernoulli(p) => p, Beta(a, b) => a / (a + b), Binomial(n, p) => n as f64 * p, ChiSquared(k) => k as f64,
            DiscreteUniform(a, b) => (a as f64 + b as f64) / 2.0, Exponential(l) => 1.0 / l, Gamma(a, b) => a / b,
            Gumbel(m, b) => m + b * 0.577_215_664_901_532_9, Normal(m, _) => m,
            Pareto(a, m) => if a > 1.0 { a * m / (a - 1.0) } else { return None },
            Poisson(l) => l, T(n) => if n > 1.0 { 0.0 } else { return None }, Uniform(a, b) => (a + b) / 2.0,
        })
    }
    fn ref_var(&self) -> Option<f64> {
        Some(match *self {
            Bernoulli(p) => p * (1.0 - p), Beta(a, b) => a * b / ((a + b) * (a + b) * (a + b + 1.0)),
            Binomial(n, p) => n as f64 * p * (1.0 - p), ChiSquared(k) => 2.0 * k as f64,
            DiscreteUniform(a, b) => { let n = (b - a + 1) as f64; (n * n - 1.0) / 12.0 }
            Exponential(l) => 1.0 / (l * l), Gamma(a, b) => a / (b * b), Gumbel(_, b) => PI * PI / 6.0 * b * b,
            Normal(_, s) => s * s,
            Pareto(a, m) => if a > 2.0 { m * m * a / ((a - 1.0) * (a - 1.0) * (a - 2.0)) } else { return None },
            Poisson(l) => l, T(n) => if n > 2.0 { n / (n - 2.0) } else { return None },
            Uniform(a, b) => (b - a) * (b - a) / 12.0,
        })
    }
    /// a length scale of the law (for absolute floors) and a centre
    fn scale(&self) -> f64 {
        match *self { Normal(_, s) => s, Gamma(a, b) => (a.sqrt()).max(1.0) / b, ChiSquared(k) => (2.0 * k as f64).sqrt(), Beta(..) => 1.0,
            T(_) => 1.0, Pareto(_, m) => m, Gumbel(_, b) => b, Exponential(l) => 1.0 / l, Uniform(a, b) => b - a, _ => 1.0 }
    }
}

// ------------------------------------------------------------------------------------------------
// tanh-sinh quadrature on (a,b); the integrand sees x and its exact distances to both endpoints, and
// returns three values at once (mass, first and second moment integrands)
fn tanh_sinh(a: f64, b: f64, f: &dyn Fn(f64, f64, f64) -> [f64; 3]) -> [f64; 3] {
    let c = (b - a) / 2.0;
    let mut prev = [f64::NAN; 3];
    let mut res = [0.0; 3];
    for level in 4..=9 {
        let h = 1.0 / (1u64 << level) as f64;
        let mut s = [0.0f64; 3];
        let kmax = (6.2 / h) as i64;
        for k in -kmax..=kmax {
            let t = k as f64 * h;
            let u = PI / 2.0 * t.abs().sinh();
            let q = (-2.0 * u).exp();
            let delta = 2.0 * q / (1.0 + q); // 1 - |w|
            let w = PI / 2.0 * t.cosh() * 4.0 * q / ((1.0 + q) * (1.0 + q));
            if !(delta > 0.0) || w == 0.0 { continue; }
            let (x, da, db) = if k < 0 { (a + c * delta, c * delta, 2.0 * c - c * delta) } else { (b - c * delta, 2.0 * c - c * delta, c * delta) };
            if !(x > a && x < b) { continue; }
            let v = f(x, da, db);
            for j in 0..3 { if v[j].is_finite() { s[j] += v[j] * w; } else { s[j] = f64::NAN; } }
        }
        for j in 0..3 { res[j] = s[j] * c * h; }
        let conv = (0..3).all(|j| (res[j] - prev[j]).abs() <= 1e-12 * res[j].abs().max(1e-300) + 1e-300);
        if conv { break; }
        prev = res;
    }
    res
}

/// (mass, E[X - c0], E[(X - c0)^2]) of the IMPLEMENTATION's density by numerical integration, pieces chosen per law
fn integrate_impl(d: &D, c0: f64) -> [f64; 3] {
    let g = |x: f64, jac: f64| -> [f64; 3] { let p = d.pdf(x) * jac; [p, (x - c0) * p, (x - c0) * (x - c0) * p] };
    let mut tot = [0.0; 3];
    let mut add = |r: [f64; 3]| { for j in 0..3 { tot[j] += r[j]; } };
    match *d {
        Normal(m, s) => { for w in [(-40.0, -8.0), (-8.0, 0.0), (0.0, 8.0), (8.0, 40.0)] { add(tanh_sinh(m + w.0 * s, m + w.1 * s, &|x, _, _| g(x, 1.0))); } }
        Gumbel(m, b) => { for w in [(-8.0, 0.0), (0.0, 6.0), (6.0, 60.0)] { add(tanh_sinh(m + w.0 * b, m + w.1 * b, &|x, _, _| g(x, 1.0))); } }
        Exponential(l) => { for w in [(0.0, 3.0), (3.0, 70.0)] { add(tanh_sinh(w.0 / l, w.1 / l, &|x, _, _| g(x, 1.0))); } }
        Uniform(a, b) => add(tanh_sinh(a, b, &|x, _, _| g(x, 1.0))),
        Gamma(..) | ChiSquared(..) => {
            let (a, b) = match *d { Gamma(a, b) => (a, b), ChiSquared(k) => (k as f64 / 2.0, 0.5), _ => unreachable!() };
            let mode = ((a - 1.0).max(0.0)) / b; let sd = a.sqrt() / b;
            let mut cuts = vec![0.0];
            if mode > 0.0 { if mode - 3.0 * sd > 0.0 { cuts.push(mode - 3.0 * sd); } cuts.push(mode); }
            cuts.push(mode + 3.0 * sd + 1.0 / b); cuts.push(mode + 12.0 * sd + 10.0 / b); cuts.push(mode + 30.0 * sd + 40.0 / b);
            for w in cuts.windows(2) { add(tanh_sinh(w[0], w[1], &|_x, da, _| { let x = w[0] + da; g(if w[0] == 0.0 { da } else { x }, 1.0) })); }
        }
        Beta(..) => { for w in [(0.0, 0.5), (0.5, 1.0)] { add(tanh_sinh(w.0, w.1, &|x, da, _| g(if w.0 == 0.0 { da } else { x }, 1.0))); } }
        T(_) => {
            // x = s / (1 - s^2), s in (-1, 1): dx/ds = (1 + s^2) / (1 - s^2)^2, with 1 - s^2 from the exact endpoint distance
            for w in [(-1.0, 0.0), (0.0, 1.0)] {
                add(tanh_sinh(w.0, w.1, &|s, da, db| { let e = if w.0 < 0.0 { da } else { db }; let om = e * (2.0 - e); g(s / om, (1.0 + s * s) / (om * om)) }));
            }
        }
        Pareto(_, m) => {
            // x = m / u, u in (0, 1): dx = m / u^2 du
            add(tanh_sinh(0.0, 1.0, &|_u, da, _| { let u = da; if u < 1e-100 { [0.0; 3] } else { g(m / u, m / (u * u)) } }));
        }
        _ => panic!("not continuous"),
    }
    tot
}

// ------------------------------------------------------------------------------------------------
fn logu(r: &mut Rng, lo: f64, hi: f64) -> f64 { (r.uniform(lo.ln(), hi.ln())).exp() }

/// parameter grids of the property: shape <1, =1, >1; dof 1..200; rates 1e-3..1e3; n up to 1000; locations up to +-1e3
fn param_grid(r: &mut Rng, extra: usize) -> Vec<D> {
    let mut v = vec![];
    let shapes = [0.2, 0.5, 0.9, 1.0, 1.5, 2.0, 3.5, 10.0, 30.0];
    let rates = [1e-3, 0.05, 0.5, 1.0, 2.0, 37.0, 1e3];
    let locs = [0.0, 1.0, -2.5, 1e3, -1e3, 37.25];
    let scales = [1e-3, 0.1, 1.0, 4.0, 250.0];
    for &m in &locs { for &s in &scales { v.push(Normal(m, s)); v.push(Gumbel(m, s)); } }
    for &a in &shapes { for &b in &rates { v.push(Gamma(a, b)); } }
    for &a in &[60.0, 100.0, 150.0] { for &b in &rates { v.push(Gamma(a, b)); } }
    for &a in &shapes { for &b in &shapes { v.push(Beta(a, b)); } }
    for k in (1..=12).chain([15, 20, 30, 50, 64, 100, 150, 199, 200]) { v.push(ChiSquared(k)); }
    for n in [1.0, 1.5, 2.0, 2.5, 3.0, 4.0, 5.0, 7.5, 10.0, 30.0, 100.0, 200.0] { v.push(T(n)); }
    for &a in &[0.5, 1.0, 1.5, 2.0, 2.5, 3.0, 5.0, 20.0] { for &m in &[1e-3, 0.5, 1.0, 7.0, 1e3] { v.push(Pareto(a, m)); } }
    for &l in &rates { v.push(Exponential(l)); }
    for &l in &[1e-3, 0.05, 0.5, 1.0, 2.0, 9.5, 10.0, 37.0, 100.0, 200.0, 1e3] { v.push(Poisson(l)); }
    // rates where exp(-lambda) is subnormal or 0 while the masses in the lower tail are still normal doubles
    for &l in &[700.0, 720.0, 744.0, 765.0, 800.0] { v.push(Poisson(l)); }
    for &(a, b) in &[(0.0, 1.0), (-2.0, 6.0), (1e3, 1e3 + 1e-3), (-1e3, 1e3), (0.25, 0.5)] { v.push(Uniform(a, b)); }
    for &p in &[0.0, 1e-3, 0.3, 0.5, 0.9, 1.0] { v.push(Bernoulli(p)); }
    for &n in &[0u64, 1, 2, 5, 15, 40, 62, 67, 68, 70, 100, 333, 1000] { for &p in &[0.0, 1e-3, 0.3, 0.5, 0.9, 1.0] { v.push(Binomial(n, p)); } }
    for &(a, b) in &[(0, 1), (0, 0), (-2, 6), (1, 6), (-7, -3), (0, 2), (-1000, 1000), (5, 1000)] { v.push(DiscreteUniform(a, b)); }
    for _ in 0..extra {
        v.push(Normal(r.uniform(-1e3, 1e3), logu(r, 1e-3, 1e3)));
        v.push(Gumbel(r.uniform(-1e3, 1e3), logu(r, 1e-3, 1e3)));
        v.push(Gamma(logu(r, 0.2, 40.0), logu(r, 1e-3, 1e3)));
        v.push(Beta(logu(r, 0.2, 40.0), logu(r, 0.2, 40.0)));
        v.push(ChiSquared(1 + r.below(200) as usize));
        v.push(T(if r.coin(0.5) { (1 + r.below(200)) as f64 } else { logu(r, 1.0, 200.0) }));
        v.push(Pareto(logu(r, 0.3, 30.0), logu(r, 1e-3, 1e3)));
        v.push(Exponential(logu(r, 1e-3, 1e3)));
        v.push(Poisson(logu(r, 1e-3, 1e3)));
        let a = r.uniform(-1e3, 1e3); v.push(Uniform(a, a + logu(r, 1e-3, 1e3)));
        v.push(Bernoulli(r.unit()));
        v.push(Binomial(r.below(1001), if r.coin(0.2) { logu(r, 1e-3, 0.5) } else { r.unit() }));
        let lo = r.range(-1000, 1000); v.push(DiscreteUniform(lo, lo + r.below(60) as i64));
    }
    v
}

/// evaluation points for a continuous law: across the support, on its boundary, outside, far tails
fn points_cont(d: &D, r: &mut Rng, n: usize) -> Vec<f64> {
    let mut p = vec![];
    match *d {
        Normal(m, s) | Gumbel(m, s) => { for z in [0.0, 1.0, -1.0, 3.0, -3.0, 8.0, -4.0, 20.0, 30.0, -50.0, 50.0, -800.0, 800.0, -1e4, 1e4] { p.push(m + z * s); } for _ in 0..n { p.push(m + r.uniform(-6.0, 8.0) * s); } }
        Gamma(..) | ChiSquared(..) => {
            let (a, b) = match *d { Gamma(a, b) => (a, b), ChiSquared(k) => (k as f64 / 2.0, 0.5), _ => unreachable!() };
            let (mean, sd) = (a / b, a.sqrt() / b);
            p.extend([0.0, -0.0, -1.0 / b, -1e3, mean, mean + 10.0 * sd, mean + 30.0 * sd, 1e-9 / b, 1e-3 / b]);
            // far tails, as far as the Normal's 1e4 standard deviations: the density there is tiny (or rounds to 0) but never inf / NaN
            for z in [60.0, 100.0, 300.0, 1e3, 1e4] { p.push(mean + z * sd); }
            for _ in 0..n { p.push((mean + r.uniform(-4.0, 8.0) * sd).abs()); p.push(mean * logu(r, 1e-4, 1.0)); }
        }
        Beta(..) => { p.extend([0.0, 1.0, -0.5, 1.5, 0.5, 1e-9, 1.0 - 1e-9, -1e-300, 1.0 + 1e-15, 1e-100, 1e-300, 1.0 - 1e-16]); for _ in 0..2 * n { p.push(r.unit()); } }
        T(nu) => { let s = if nu > 2.0 { (nu / (nu - 2.0)).sqrt() } else { 3.0 }; p.extend([0.0, 1.0, -1.0, 5.0 * s, -30.0 * s, 1e3, -1e6, 1e30, -1e100]); for _ in 0..2 * n { p.push(r.uniform(-8.0, 8.0) * s); } }
        Pareto(a, m) => { p.extend([m, m * (1.0 - 1e-12), m / 2.0, 0.0, -m, m * 2.0, m * 1e3, m * (1.0 + 1e-9), m * 1e30, m * 1e100]); for _ in 0..2 * n { p.push(m * (r.uniform(0.0, 12.0 / a.min(4.0))).exp()); } }
        Exponential(l) => { p.extend([0.0, -0.0, -1.0 / l, -1e3, 1.0 / l, 30.0 / l, 300.0 / l, 1e3 / l, 1e4 / l]); for _ in 0..2 * n { p.push(r.uniform(0.0, 12.0) / l); } }
        Uniform(a, b) => { p.extend([a, b, (a + b) / 2.0, a - (b - a), b + (b - a), a - 1e3, b + 1e3]); for _ in 0..n { p.push(r.uniform(a, b)); } }
        _ => panic!("not continuous"),
    }
    p
}
fn points_disc(d: &D, r: &mut Rng, n: usize) -> Vec<i64> {
    let mut p: Vec<i64> = vec![-1, 0, 1, 2, -1000];
    match *d {
        Bernoulli(_) => { p.push(i32::MAX as i64); }
        Binomial(nn, pp) => { let nn = nn as i64; p.extend([nn, nn + 1, nn - 1, nn / 2, nn + 1000, (nn as f64 * pp) as i64]);
            let sd = ((nn as f64) * pp * (1.0 - pp)).sqrt().max(1.0);
            for _ in 0..n { p.push(r.range(0, nn.max(1))); p.push((nn as f64 * pp + r.uniform(-8.0, 8.0) * sd) as i64); } }
        DiscreteUniform(a, b) => { p.extend([a, b, a - 1, b + 1, (a + b) / 2, i32::MAX as i64]); for _ in 0..n { p.push(r.range(a - 3, b + 3)); } }
        Poisson(l) => { let sd = l.sqrt().max(1.0); p.extend([l as i64, (l + 10.0 * sd) as i64, (l + 30.0 * sd) as i64, 170, 171, 172]);
            // the far lower tail (small counts under a large rate) and the neighbourhood of k = 20
            p.extend([3, 5, 10, 19, 20, 21, 22, 40, (l - 10.0 * sd).max(0.0) as i64, (l - 20.0 * sd).max(0.0) as i64]);
            for _ in 0..2 * n { p.push(((l + r.uniform(-8.0, 12.0) * sd).max(0.0)) as i64); } }
        _ => panic!("not discrete"),
    }
    p
}

pub fn oracle(tier: &str, seed: u64) -> (u64, Vec<Finding>) {
    let thorough = tier == "thorough";
    let mut r = Rng::new(seed ^ 0xC02);
    let mut tried = 0u64;
    let mut worst: std::collections::BTreeMap<String, (f64, String, String)> = Default::default();
    let mut fail = |class: String, sev: f64, what: String, input: String| {
        let sev = if sev.is_nan() { f64::MAX } else { sev };
        let e = worst.entry(class).or_insert((-1.0, String::new(), String::new()));
        if sev > e.0 { *e = (sev, what, input); }
    };
    let grid = param_grid(&mut r, if thorough { 400 } else { 40 });
    let npts = if thorough { 40 } else { 12 };
    for d in &grid {
        let nm = d.name();
        // ---------- pointwise: textbook formula, non-negativity, 0 outside the support without failing, ln_pdf = ln pdf
        if d.discrete() {
            for k in points_disc(d, &mut r, npts) {
                tried += 1;
                let want = d.ref_pmf(k);
                let via = tried % 2 == 1 && d.params_exact();
                crumb(&format!("{} k={}{}", d.show(), k, if via { " (object reached through update from another setting)" } else { "" }));
                match catch(|| if via { d.pmf_upd(k) } else { d.pmf(k) }) {
                    Err(_) => fail(format!("{}:pmf-fails", nm), 1.0, format!("{}.pmf({}) panics; the mass there is {:e}", d.show(), k, want), format!("{} k={}", d.show(), k)),
                    Ok(got) => {
                        let err = (got - want).abs();
                        if !(got >= 0.0) { fail(format!("{}:pmf-negative-or-nan", nm), 1.0, format!("{}.pmf({}) = {:e} (textbook {:e})", d.show(), k, got, want), format!("{} k={}", d.show(), k)); }
                        // (absolute floor 1e-300: a mass that is a normal double is demanded to 1e-9 relative; below that the reference itself underflows)
                        else if !(err <= 1e-9 * want + 1e-300) {
                            let class = if want == 0.0 { "pmf-nonzero-outside-support" } else { "pmf-differs-from-textbook" };
                            fail(format!("{}:{}", nm, class), err / want.max(1e-300), format!("{}.pmf({}) = {:e}, textbook mass {:e}", d.show(), k, got, want), format!("{} k={}", d.show(), k));
                        }
                    }
                }
            }
        } else {
            let atol = 1e-200 / d.scale();
            for x in points_cont(d, &mut r, npts) {
                tried += 1;
                let want = d.ref_pdf(x);
                let via = tried % 2 == 1 && d.params_exact();
                crumb(&format!("{} x={:e}{}", d.show(), x, if via { " (object reached through update from another setting)" } else { "" }));
                match catch(|| if via { d.pdf_upd(x) } else { (d.pdf(x), d.ln_pdf(x)) }) {
                    Err(_) => fail(format!("{}:pdf-fails", nm), 1.0, format!("{}.pdf({:e}) panics; the density there is {:e}", d.show(), x, want), format!("{} x={:e}", d.show(), x)),
                    Ok((got, lgot)) => {
                        let err = (got - want).abs();
                        if !(got >= 0.0) { fail(format!("{}:pdf-negative-or-nan", nm), 1.0, format!("{}.pdf({:e}) = {:e} (textbook {:e})", d.show(), x, got, want), format!("{} x={:e}", d.show(), x)); }
                        else if !(err <= 1e-9 * want + atol || (want == f64::INFINITY && got == f64::INFINITY)) {
                            let class = if want == 0.0 { "pdf-nonzero-outside-support" } else { "pdf-differs-from-textbook" };
                            fail(format!("{}:{}", nm, class), err / want.max(1e-300), format!("{}.pdf({:e}) = {:e}, textbook density {:e}", d.show(), x, got, want), format!("{} x={:e}", d.show(), x));
                        }
                        // log-density = ln(density): compared with the log of the textbook density where that is comfortably normal
                        if want.is_finite() && want > 1e-90 / d.scale() {
                            let lw = want.ln();
                            if !((lgot - lw).abs() <= 1e-9 * lw.abs().max(1.0)) {
                                fail(format!("{}:ln_pdf-is-not-ln-of-pdf", nm), (lgot - lw).abs(), format!("{}.ln_pdf({:e}) = {:e}, ln of the textbook density {:e}", d.show(), x, lgot, lw), format!("{} x={:e}", d.show(), x));
                            }
                        } else if want == 0.0 && d.strictly_outside_support(x) && !(lgot == f64::NEG_INFINITY) {
                            // (only where the density is EXACTLY 0, i.e. outside the support: a reference density that merely underflows, e.g. 50 standard
                            //  deviations out, says nothing about the logarithm, and a directly computed log-density is right to be finite there)
                            fail(format!("{}:ln_pdf-is-not-ln-of-pdf", nm), 1.0, format!("{}.ln_pdf({:e}) = {:e} where the density is 0", d.show(), x, lgot), format!("{} x={:e}", d.show(), x));
                        }
                    }
                }
                if let Normal(m, s) = *d {
                    tried += 1;
                    let z = (x - m) / s;
                    let want = 0.5 * reference::erfc(-z / (2f64).sqrt());
                    let got = compute::distributions::Normal::new(m, s).cdf(x);
                    if !((got - want).abs() <= 1e-7) { fail("normal:cdf-is-not-integral-of-pdf".into(), (got - want).abs(), format!("{}.cdf({:e}) = {:e}, integral of the density up to x = {:e}", d.show(), x, got, want), format!("{} x={:e}", d.show(), x)); }
                }
            }
        }
        // ---------- reported mean / variance against the textbook table
        tried += 2;
        crumb(&d.show());
        let (gm, gv) = (d.mean(), d.var());
        let sc = d.scale();
        match d.ref_mean() {
            Some(w) => if !((gm - w).abs() <= 1e-12 * w.abs() + 1e-12 * sc.min(1.0)) { fail(format!("{}:mean-differs-from-textbook", nm), 1.0, format!("{}.mean() = {:e}, textbook mean {:e}", d.show(), gm, w), d.show()); },
            None => if gm.is_finite() { fail(format!("{}:mean-finite-where-undefined", nm), 1.0, format!("{}.mean() = {:e} but the first moment is infinite or undefined", d.show(), gm), d.show()); },
        }
        match d.ref_var() {
            Some(w) => if !((gv - w).abs() <= 1e-12 * w.abs()) { fail(format!("{}:var-differs-from-textbook", nm), 1.0, format!("{}.var() = {:e}, textbook variance {:e}", d.show(), gv, w), d.show()); },
            None => if gv.is_finite() { fail(format!("{}:var-finite-where-undefined", nm), 1.0, format!("{}.var() = {:e} but the second central moment is infinite or undefined", d.show(), gv), d.show()); },
        }
        // ---------- total mass and the first two moments of the implementation's own density / mass function
        let (mass, m1, m2, tol, has1, has2): (f64, f64, f64, f64, bool, bool) = if d.discrete() {
            let (lo, hi) = match *d { Bernoulli(_) => (-2, 3), Binomial(n, _) => (-3, n as i64 + 3), DiscreteUniform(a, b) => (a - 3, b + 3),
                Poisson(l) => (-3, (l + 45.0 * l.sqrt() + 60.0) as i64), _ => unreachable!() };
            let c0 = gm;
            let (mut s0, mut s1, mut s2) = (0.0, 0.0, 0.0);
            let mut broke = false;
            for k in lo..=hi { tried += 1; crumb(&format!("{} k={}", d.show(), k)); match catch(|| d.pmf(k)) { Ok(p) => { s0 += p; s1 += (k as f64 - c0) * p; s2 += (k as f64 - c0) * (k as f64 - c0) * p; } Err(_) => { broke = true; } } }
            if broke { (f64::NAN, f64::NAN, f64::NAN, 1e-9, true, true) } else { (s0, s1, s2, 1e-9, true, true) }
        } else {
            // laws and parameter ranges where double-precision quadrature through the public API reaches 1e-7
            let ok = match *d { Beta(a, b) => a >= 0.3 && b >= 1.0, Gamma(a, _) => a >= 0.3, _ => true };
            if !ok { continue; }
            let (has1, has2) = match *d { T(n) => (n >= 2.0, n >= 3.0), Pareto(a, _) => (a >= 1.5, a >= 2.5), _ => (true, true) };
            let c0 = if has1 { gm } else { match *d { Pareto(_, m) => m, _ => 0.0 } };
            crumb(&format!("{} (pdf on a quadrature grid over the support)", d.show()));
            let res = match catch(|| integrate_impl(d, c0)) { Ok(v) => v, Err(_) => [f64::NAN; 3] };
            tried += 1;
            (res[0], res[1], res[2], 1e-7, has1, has2)
        };
        if !((mass - 1.0).abs() <= tol) { fail(format!("{}:total-mass-not-1", nm), (mass - 1.0).abs(), format!("{}: total mass of the implemented density/mass function = {:.12e}", d.show(), mass), d.show()); continue; }
        // m1 = E[X - mean()], m2 = E[(X - mean())^2]
        let sd = d.ref_var().map(|v| v.sqrt()).unwrap_or(sc).max(1e-300);
        if has1 && d.ref_mean().is_some() && !(m1.abs() <= tol * (sd + gm.abs() * 1e-3)) {
            fail(format!("{}:mean-is-not-first-moment", nm), m1.abs() / sd, format!("{}: mean() = {:e} but the first moment of the implemented density/mass function is {:e}", d.show(), gm, gm + m1), d.show());
        }
        if has2 && has1 && d.ref_var().is_some() {
            let v = m2 - m1 * m1;
            if !((v - gv).abs() <= 10.0 * tol * v.abs().max(gv.abs()) + 1e-300) {
                fail(format!("{}:var-is-not-second-central-moment", nm), ((v - gv) / v).abs(), format!("{}: var() = {:e} but the second central moment of the implemented density/mass function is {:e}", d.show(), gv, v), d.show());
            }
        }
    }
    // ---------- multivariate normal: dimension 1..6, random SPD covariance
    let nm = if thorough { 300 } else { 60 };
    for it in 0..nm {
        let n = 1 + (it % 6) as usize;
        let a: Vec<f64> = (0..n * n).map(|_| r.uniform(-1.0, 1.0)).collect();
        let mut c = vec![0.0; n * n];
        for i in 0..n { for j in 0..n { let mut s = 0.0; for k in 0..n { s += a[i * n + k] * a[j * n + k]; } c[i * n + j] = s + if i == j { 0.5 + n as f64 * 0.25 } else { 0.0 }; } }
        for i in 0..n { for j in 0..i { c[i * n + j] = c[j * n + i]; } }
        let sc = logu(&mut r, 1e-2, 1e2);
        for v in c.iter_mut() { *v *= sc; }
        let mu: Vec<f64> = (0..n).map(|_| r.uniform(-1e3, 1e3) * if it % 2 == 0 { 1e-3 } else { 1.0 }).collect();
        // own Cholesky: log det and the quadratic form by forward substitution
        let mut l = vec![0.0; n * n];
        for i in 0..n { for j in 0..=i { let mut s = c[i * n + j]; for k in 0..j { s -= l[i * n + k] * l[j * n + k]; } l[i * n + j] = if i == j { s.sqrt() } else { s / l[j * n + j] }; } }
        let logdet: f64 = (0..n).map(|i| 2.0 * l[i * n + i].ln()).sum();
        crumb(&format!("n={} mean={:?} cov={:?}", n, mu, c));
        let mvn = match catch(|| MVN::new(Vector::new(mu.clone()), Matrix::new(c.clone(), n as i32, n as i32))) { Ok(m) => m,
            Err(e) => { fail("mvn:constructor-fails-on-spd".into(), 1.0, format!("MVN::new panics on a symmetric positive definite covariance: {}", e), format!("n={} mean={:?} cov={:?}", n, mu, c)); continue; } };
        for j in 0..8 {
            tried += 1;
            let x: Vec<f64> = (0..n).map(|i| mu[i] + r.uniform(-3.0, 3.0) * c[i * n + i].sqrt() * if j == 0 { 0.0 } else { 1.0 }).collect();
            let dx: Vec<f64> = (0..n).map(|i| x[i] - mu[i]).collect();
            let mut y = vec![0.0; n];
            for i in 0..n { let mut s = dx[i]; for k in 0..i { s -= l[i * n + k] * y[k]; } y[i] = s / l[i * n + i]; }
            let qf: f64 = y.iter().map(|v| v * v).sum();
            let lw = -0.5 * (logdet + qf + n as f64 * (2.0 * PI).ln());
            let want = lw.exp();
            let inp = format!("n={} mean={:?} cov={:?} x={:?}", n, mu, c, x);
            crumb(&inp);
            match catch(|| ((&mvn).pdf(&x[..]), (&mvn).ln_pdf(&x[..]))) {
                Err(e) => fail("mvn:pdf-fails".into(), 1.0, format!("MVN pdf panics on an SPD covariance ({})", e), inp),
                Ok((got, lgot)) => {
                    if !((got - want).abs() <= 1e-9 * want) { fail("mvn:pdf-differs-from-textbook".into(), ((got - want) / want).abs(), format!("MVN pdf = {:e}, textbook density {:e} (dimension {})", got, want, n), inp.clone()); }
                    if !((lgot - lw).abs() <= 1e-9 * lw.abs().max(1.0)) { fail("mvn:ln_pdf-is-not-ln-of-pdf".into(), (lgot - lw).abs(), format!("MVN ln_pdf = {:e}, log of the textbook density {:e}", lgot, lw), inp.clone()); }
                }
            }
        }
        tried += 1;
        let (gm, gv) = ((&mvn).mean().to_vec(), (&mvn).var().data.to_vec());
        if gm != mu || gv != c { fail("mvn:moments-differ-from-parameters".into(), 1.0, "MVN mean()/var() do not return the mean vector / covariance matrix".into(), format!("n={} mean={:?} cov={:?}", n, mu, c)); }
    }
    let out = worst.into_iter().map(|(class, (_, what, input))| Finding { class, what, input }).collect();
    (tried, out)
}

// ------------------------------------------------------------------------------------------------
fn one(f: impl FnOnce() -> f64) -> (libm::Table, Tm) {
    libm::start();
    let r = catch(f);
    let t = libm::stop();
    (t, outcome_list(&r.map(|x| vec![x])))
}

pub fn gen(tier: &str, seed: u64, outdir: &str) {
    let thorough = tier == "thorough";
    let mut r = Rng::new(seed ^ 0x2C02);
    let mut cs = Cases::new("C02");
    let mut grid = param_grid(&mut r, if thorough { 150 } else { 6 });
    // special parameter values and the malformed stream (constructors panic)
    let bad = [Bernoulli(-0.1), Bernoulli(1.5), Bernoulli(f64::NAN), Beta(0.0, 1.0), Beta(1.0, -1.0), Beta(-2.0, 3.0), Binomial(5, 1.2), Binomial(5, -0.5),
        Binomial(3, f64::NAN), ChiSquared(0), DiscreteUniform(3, 2), DiscreteUniform(0, -1), Exponential(0.0), Exponential(-1.0), Gamma(0.0, 1.0), Gamma(1.0, 0.0),
        Gamma(-1.0, -1.0), Gumbel(0.0, 0.0), Gumbel(1.0, -2.0), Normal(0.0, -1.0), Normal(5.0, -1e-300), Pareto(0.0, 1.0), Pareto(1.0, 0.0), Pareto(-1.0, 2.0),
        Poisson(0.0), Poisson(-3.0), T(0.0), T(-1.0), Uniform(1.0, 0.0), Uniform(0.0, -1e-300)];
    let odd = [Normal(0.0, 0.0), Normal(f64::NAN, 1.0), Normal(0.0, f64::INFINITY), Uniform(2.0, 2.0), Beta(f64::NAN, 1.0), Gamma(f64::INFINITY, 1.0), Exponential(f64::INFINITY),
        Gumbel(f64::INFINITY, 1.0), Pareto(f64::NAN, 1.0), Poisson(f64::NAN), T(f64::NAN), T(f64::INFINITY), Bernoulli(-0.0), Binomial(0, 0.0), Exponential(5e-324), Gamma(170.0, 1.0), Gamma(180.0, 1.0),
        ChiSquared(343), T(400.0), Beta(100.0, 100.0), Poisson(5e-324)];
    let nvalid = grid.len();
    grid.extend(bad); grid.extend(odd);
    let npts = if thorough { 6 } else { 1 };
    let specials = [0.0, -0.0, 1.0, -1.0, f64::INFINITY, f64::NEG_INFINITY, f64::NAN, 5e-324, -5e-324, 1e300, -1e300, 0.5];
    for (idx, d) in grid.iter().enumerate() {
        let valid = idx < nvalid;
        let nmv = d.name();
        let tag = |what: &str| if valid { format!("{}/{}", nmv, what) } else { format!("{}/{}/odd-or-invalid-parameters", nmv, what) };
        let dc = *d;
        let (t, e) = one(move || dc.mean());
        cs.push(app("CMean", vec![libm_table(&t), d.tm(), e]), &tag("mean"), true);
        let (t, e) = one(move || dc.var());
        cs.push(app("CVar", vec![libm_table(&t), d.tm(), e]), &tag("var"), true);
        if d.discrete() {
            let mut ks = if valid { points_disc(d, &mut r, npts) } else { vec![0, 1, -1, 3] };
            ks.truncate(if valid { 40 } else { 4 });
            for k in ks {
                // a Poisson mass at a huge count walks the whole factorial: keep the counts the property speaks about
                if let Poisson(_) = *d { if k > 100_000 { continue; } }
                let (t, e) = one(move || dc.pmf(k));
                let inside = dc.ref_pmf_is_inside(k);
                cs.push(app("CPmf", vec![libm_table(&t), d.tm(), Tm::Z(k), e]), &tag(if inside { "pmf/inside" } else { "pmf/outside" }), inside && k > 1);
            }
        } else {
            let mut xs = if valid { points_cont(d, &mut r, npts) } else { vec![0.5, 2.0, -1.0] };
            if valid && idx % 3 == 0 { xs.extend(specials); }
            for x in xs {
                let (t, e) = one(move || dc.pdf(x));
                let inside = valid && dc.ref_pdf(x) > 0.0;
                cs.push(app("CPdf", vec![libm_table(&t), d.tm(), Tm::F(x), e]), &tag(if inside { "pdf/inside" } else { "pdf/outside-or-special" }), inside && x != 0.0 && x != 1.0);
                // where pdf returns the constant 0 the compiler folds `0f64.ln()` to -inf and libm is never called:
                // libm's own answer for ln(pdf(x)) is added to the recorded table (a duplicate entry is dropped)
                let (t, e) = one(move || { let v = dc.ln_pdf(x); let p = std::hint::black_box(dc.pdf(x)); std::hint::black_box(p.ln()); v });
                cs.push(app("CLnPdf", vec![libm_table(&t), d.tm(), Tm::F(x), e]), &tag("ln_pdf"), inside && x != 0.0 && x != 1.0);
                // erf(NaN) recurses without bound (C09, outside every quantifier): a NaN argument would abort the harness
                if let Normal(m, s) = *d { if ((x - m) / (s * 2f64.sqrt())).is_nan() { continue; }
                    let (t, e) = one(move || compute::distributions::Normal::new(m, s).cdf(x));
                    cs.push(app("CCdf", vec![libm_table(&t), d.tm(), Tm::F(x), e]), &tag("cdf"), x != m);
                }
            }
        }
    }
    // ---------- multivariate normal: pdf / ln_pdf from the cached inverse and determinant
    let nmv = if thorough { 600 } else { 90 };
    for it in 0..nmv {
        let n = match it % 10 { 0..=5 => 1 + (it % 10) as usize, 6 => 8, 7 => 9, 8 => 12, _ => 1 + r.below(6) as usize };
        let kind = if it % 15 == 14 { 1 + (it / 15) % 3 } else { 0 }; // 0 SPD; 1 non-positive diagonal; 2 not symmetric; 3 point of the wrong length
        let a: Vec<f64> = (0..n * n).map(|_| r.uniform(-1.0, 1.0)).collect();
        let mut c = vec![0.0; n * n];
        for i in 0..n { for j in 0..n { let mut s = 0.0; for k in 0..n { s += a[i * n + k] * a[j * n + k]; } c[i * n + j] = s + if i == j { 0.5 + n as f64 * 0.25 } else { 0.0 }; } }
        for i in 0..n { for j in 0..i { c[i * n + j] = c[j * n + i]; } }
        let sc = logu(&mut r, 1e-2, 1e2);
        for v in c.iter_mut() { *v *= sc; }
        if kind == 1 { let i = r.below(n as u64) as usize; c[i * n + i] = if r.coin(0.5) { 0.0 } else { -c[i * n + i] }; }
        if kind == 2 && n >= 2 { c[1] += 1e-3 * sc; }
        let mu: Vec<f64> = (0..n).map(|_| if it % 2 == 0 { r.uniform(-1.0, 1.0) } else { r.uniform(-1e3, 1e3) }).collect();
        let cm = Matrix::new(c.clone(), n as i32, n as i32);
        let (cinv, cdet) = match catch(|| ((&cm).inv().data.to_vec(), (&cm).det())) { Ok(v) => v, Err(_) => continue };
        let built = catch(|| MVN::new(Vector::new(mu.clone()), Matrix::new(c.clone(), n as i32, n as i32)));
        for j in 0..3 {
            let mut x: Vec<f64> = (0..n).map(|i| mu[i] + r.uniform(-3.0, 3.0) * c[i * n + i].abs().sqrt() * if j == 0 { 0.0 } else { 1.0 }).collect();
            if kind == 3 { if j == 1 { x.push(0.5); } else if j == 2 && n >= 2 { x.pop(); } }
            if j == 2 && it % 7 == 0 { x[0] = [f64::NAN, f64::INFINITY, 1e300, -0.0][(it / 7) % 4]; }
            let tag = match kind { 0 => if n >= 8 { "mvn/spd/dimension>=8" } else { "mvn/spd/dimension1-6" }, 1 => "mvn/non-positive-diagonal", 2 => "mvn/not-symmetric", _ => "mvn/point-of-wrong-length" };
            let args = |t: &libm::Table, e: Tm| vec![libm_table(t), Tm::Nat(n as u64), fl(&c), fl(&cinv), Tm::F(cdet), fl(&mu), fl(&x), e];
            let (t, e) = one(|| match &built { Ok(m) => m.pdf(&x[..]), Err(_) => panic!("constructor") });
            cs.push(app("CMvnPdf", args(&t, e)), &format!("{}/pdf", tag), kind == 0 && n >= 2 && j > 0);
            // `(2. * PI).ln()` is folded at compile time: libm's own answer is added to the recorded table
            let (t, e) = one(|| { std::hint::black_box(std::hint::black_box(2.0 * PI).ln()); match &built { Ok(m) => m.ln_pdf(&x[..]), Err(_) => panic!("constructor") } });
            cs.push(app("CMvnLnPdf", args(&t, e)), &format!("{}/ln_pdf", tag), kind == 0 && n >= 2 && j > 0);
        }
    }
    // ---------- multivariate normal END TO END: MVN::new (Cholesky, inverse, determinant: computed by the models of C01 / C11 on the Coq
    // side, nothing recorded but libm) followed by pdf / ln_pdf.  Own generator state: the cases above do not move.
    {
        let mut r = Rng::new(seed ^ 0x2C02_E2E);
        let dims: Vec<usize> = if thorough { (1..=12).collect() } else { (1..=6).collect() };
        let reps = if thorough { 5 } else { 2 };
        // the symmetric positive definite kinds (0..=5 and 16) are drawn twice as often as the others
        let kinds: Vec<usize> = (0..mvn_covs::KINDS + 2).chain((0..=5).chain(16..17)).collect();
        for rep in 0..reps { for &n in &dims { for &kind in &kinds {
            // kinds KINDS, KINDS+1: a valid covariance with a mean / a point of the wrong length
            let cv = mvn_covs::covariance(&mut r, n, if kind >= mvn_covs::KINDS { 0 } else { kind });
            let nmu = if kind == mvn_covs::KINDS { if r.coin(0.5) { n + 1 } else { n - 1 } } else { n };
            let mu: Vec<f64> = (0..nmu).map(|_| if rep % 2 == 0 { r.uniform(-1.0, 1.0) } else { r.uniform(-1e3, 1e3) }).collect();
            let tag = if kind == mvn_covs::KINDS { "rejected/mean-of-wrong-length" } else if kind == mvn_covs::KINDS + 1 { "rejected/point-of-wrong-length" } else { cv.tag };
            for j in 0..3 {
                let sd = |i: usize| if i < cv.rows && i < cv.cols { cv.data[i * cv.cols + i].abs().sqrt() } else { 1.0 };
                let mut x: Vec<f64> = (0..n).map(|i| mu.get(i).copied().unwrap_or(0.0) + if j == 0 { 0.0 } else { r.uniform(-3.0, 3.0) * sd(i) }).collect();
                if kind == mvn_covs::KINDS + 1 { if j == 1 || n == 1 { x.push(0.5); } else { x.pop(); } }
                if j == 2 && (rep + n + kind) % 9 == 0 { x[0] = *r.pick(&[f64::NAN, f64::INFINITY, 1e300, -0.0]); }
                let args = |t: &libm::Table, e: Tm| vec![libm_table(t), Tm::Nat(cv.rows as u64), Tm::Nat(cv.cols as u64), fl(&cv.data), fl(&mu), fl(&x), e];
                let build = || MVN::new(Vector::new(mu.clone()), Matrix::new(cv.data.clone(), cv.rows as i32, cv.cols as i32));
                let nontrivial = cv.spd && kind < mvn_covs::KINDS && n >= 2 && j > 0;
                let (t, e) = one(|| { let m = build(); (&m).pdf(&x[..]) });
                cs.push(app("CMvnPdfE", args(&t, e)), &format!("mvn-end-to-end/{}/pdf", tag), nontrivial);
                // `(2. * PI).ln()` is folded at compile time: libm's own answer is added to the recorded table
                let (t, e) = one(|| { std::hint::black_box(std::hint::black_box(2.0 * PI).ln()); let m = build(); (&m).ln_pdf(&x[..]) });
                cs.push(app("CMvnLnPdfE", args(&t, e)), &format!("mvn-end-to-end/{}/ln_pdf", tag), nontrivial);
            }
        } } }
    }
    cs.write(outdir, 400, "13 univariate laws on the property's parameter grids (shape <1, =1, >1; dof 1..200; rates 1e-3..1e3; binomial n <= 1000; locations to +-1e3) plus random parameters, odd parameters (NaN, inf, degenerate) and invalid parameters (constructor panics); pdf, ln_pdf, (Normal) cdf at points across the support, on its boundary, outside it, in the far tails and at special values (+-0, +-inf, NaN, subnormal, 1e300); pmf at counts inside, at the edges of and outside the support (negative, too large, i32::MAX); mean and var of every parameter set; every case carries the libm calls the implementation made; multivariate normal of dimension 1..6, 8, 9, 12 on random SPD covariances (cached inverse and determinant recomputed with Matrix::inv / Matrix::det and passed to the model), plus covariances with a non-positive diagonal entry, non-symmetric ones and points of the wrong length (panics), NaN/inf coordinates; multivariate normal END TO END (MVN::new + pdf / ln_pdf, the Cholesky factor, inverse and determinant computed by the models of C01 / C11, nothing recorded but libm): dimensions 1..6 (thorough: 1..12), random / diagonal / small-integer SPD covariances, ill-conditioned ones (badly scaled, Hilbert, nearly singular, equicorrelated), mirrored entries 1..3 ulp apart and asymmetries at tiny / huge scale (relative tolerance of is_symmetric), and rejected inputs (non-positive diagonal, not symmetric, indefinite with positive diagonal, singular positive semi-definite, NaN / inf entry, not square, zero matrix, mean or point of the wrong length); non-trivial = point strictly inside the support and off 0/1, a moment, or an MVN point off the mean in dimension >= 2; distinct by hash of the case term");
}

impl D {
    fn ref_pmf_is_inside(&self, k: i64) -> bool {
        match *self { Bernoulli(_) => k == 0 || k == 1, Binomial(n, _) => k >= 0 && k as u64 <= n, DiscreteUniform(a, b) => a <= k && k <= b, Poisson(_) => k >= 0, _ => false }
    }
}
