//! C16 — linear interpolation: case generation for the Coq correspondence and the failure-search oracle.
#![allow(unused)]
use crate::util::*;
use compute::functions::{interp1d_linear, interp1d_linear_unchecked, ExtrapolationMode};

#[derive(Clone, Copy, Debug, PartialEq)]
enum Mode { Panic, Fill(f64, f64), Extrap }
impl Mode {
    fn real(&self) -> ExtrapolationMode {
        match *self { Mode::Panic => ExtrapolationMode::Panic, Mode::Fill(l, r) => ExtrapolationMode::Fill(l, r), Mode::Extrap => ExtrapolationMode::Extrapolate }
    }
    fn tm(&self) -> Tm {
        match *self { Mode::Panic => Tm::Raw("MPanic".into()), Mode::Fill(l, r) => app("MFill", vec![Tm::F(l), Tm::F(r)]), Mode::Extrap => Tm::Raw("MExtrap".into()) }
    }
    fn name(&self) -> &'static str { match self { Mode::Panic => "panic", Mode::Fill(..) => "fill", Mode::Extrap => "extrapolate" } }
}

fn up(x: f64) -> f64 {
    if x.is_nan() || x == f64::INFINITY { return x; }
    if x == 0.0 { return f64::from_bits(1); }
    let b = x.to_bits();
    f64::from_bits(if x > 0.0 { b + 1 } else { b - 1 })
}
fn down(x: f64) -> f64 { -up(-x) }

fn run(checked: bool, x: &[f64], y: &[f64], t: &[f64], m: Mode) -> Result<Vec<f64>, String> {
    catch(|| if checked { interp1d_linear(x, y, t, m.real()).v } else { interp1d_linear_unchecked(x, y, t, m.real()).v })
}

/// strictly increasing abscissae: start anywhere, spacings 10^u with u in [-lg, lg] (ratios up to 10^(2 lg))
fn knots(r: &mut Rng, n: usize, lg: f64, integer: bool) -> Vec<f64> {
    let mut x = Vec::with_capacity(n);
    let mut c = if integer { r.small_int(20) } else { r.uniform(-50.0, 50.0) };
    for _ in 0..n {
        x.push(c);
        let mut nx;
        loop {
            let step = if integer { 1.0 + r.below(4) as f64 } else { 10f64.powf(r.uniform(-lg, lg)) };
            nx = c + step;
            if nx > c { break; }
        }
        c = nx;
    }
    x
}
fn ordinates(r: &mut Rng, n: usize, kind: u64) -> Vec<f64> {
    (0..n).map(|_| match kind {
        0 => r.small_int(9),
        1 => r.uniform(-4.0, 4.0),
        2 => r.uniform(-1.0, 1.0) * 10f64.powi(r.range(-300, 300) as i32),
        3 => *r.pick(&[0.0, -0.0, 1.0, -1.0, 5e-324, -5e-324, 2.2250738585072014e-308, 1e-310, 1.5, -2.5]),
        _ => if r.coin(0.5) { r.uniform(-4.0, 4.0) } else { r.small_int(3) },
    }).collect()
}
/// targets inside the data range only: knots, midpoints, +-1 ulp (towards the inside), random interior points
fn inner_targets(r: &mut Rng, x: &[f64], k: usize) -> Vec<f64> {
    let n = x.len();
    (0..k).map(|_| {
        let j = r.below(n as u64 - 1) as usize;
        match r.below(6) {
            0 => x[r.below(n as u64) as usize],
            1 => x[j] + (x[j + 1] - x[j]) / 2.0,
            2 => up(x[j]),
            3 => down(x[j + 1]),
            4 => x[j] + (x[j + 1] - x[j]) * r.unit(),
            _ => x[j + 1],
        }.max(x[0]).min(x[n - 1])
    }).collect()
}
fn below_target(r: &mut Rng, x: &[f64]) -> f64 {
    let w = x[x.len() - 1] - x[0];
    match r.below(4) { 0 => down(x[0]), 1 => x[0] - w * r.unit() - 1e-3, 2 => x[0] - 1e6 * (1.0 + r.unit()), _ => x[0] - 1.0 }
}
fn above_target(r: &mut Rng, x: &[f64]) -> f64 {
    let n = x.len(); let w = x[n - 1] - x[0];
    match r.below(4) { 0 => up(x[n - 1]), 1 => x[n - 1] + w * r.unit() + 1e-3, 2 => x[n - 1] + 1e6 * (1.0 + r.unit()), _ => x[n - 1] + 1.0 }
}
fn modes(r: &mut Rng) -> [Mode; 3] {
    let fills = [(0.0, 0.0), (-1.0, 1.0), (f64::NAN, f64::NAN), (f64::NEG_INFINITY, f64::INFINITY), (-0.0, 7.5), (r.uniform(-9.0, 9.0), r.uniform(-9.0, 9.0))];
    let (l, rr) = *r.pick(&fills);
    [Mode::Panic, Mode::Fill(l, rr), Mode::Extrap]
}


// ---- extended regimes of the failure search (coverage audit: every range the quantifier names, to its stated end) ----
const FMAX: f64 = f64::MAX;
/// 2^k exactly
fn pow2(k: i32) -> f64 { 2f64.powi(k) }
/// strictly increasing abscissae of the extended regimes (`reg`):
///  1 plain spacings 10^[-3,3] (used with forced knot counts 200 / 199 / 2 / 3)
///  2 spacings drawn from {1e-3, 1e3} only: neighbouring spacings in the ratio 1e6 exactly, at every position
///  3 neighbouring doubles (1..3 ulp apart): +-1 ulp around a knot IS the next knot or leaves the range
///  4 plain spacings, whole vector scaled by 2^k (k = -1060 .. 1000: subnormal, tiny, huge abscissae; widths never overflow)
///  5 mirrored: all abscissae negative, magnitudes decreasing
fn knots_ext(r: &mut Rng, n: usize, reg: u64) -> Vec<f64> {
    let mut x: Vec<f64> = match reg {
        2 => { let mut c = r.uniform(-50.0, 50.0); let mut v = vec![]; let mut big = r.coin(0.5);
               for _ in 0..n { v.push(c); let nx = c + if big { 1e3 } else { 1e-3 }; if r.coin(0.8) { big = !big; } c = if nx > c { nx } else { up(c) }; } v }
        3 => { let start = match r.below(5) { 0 => r.uniform(-50.0, 50.0), 1 => down(down(pow2(r.range(-3, 10) as i32))), 2 => -up(up(pow2(r.range(-3, 10) as i32))), 3 => -3.0 * 5e-324, _ => r.uniform(-1.0, 1.0) * 10f64.powi(r.range(-300, 300) as i32) };
               let mut c = start; let mut v = vec![]; for _ in 0..n { v.push(c); for _ in 0..1 + r.below(3) { c = up(c); } } v }
        4 => { let k = *r.pick(&[-1060, -1022, -1000, -500, -60, 60, 500, 1000]); let s = pow2(k); let ig = r.coin(0.2); knots(r, n, 3.0, ig).iter().map(|v| v * s).collect() }
        5 => { let mut v: Vec<f64> = knots(r, n, 3.0, false).iter().map(|v| -(v.abs() + 1.0)).collect(); v.sort_by(|a, b| a.partial_cmp(b).unwrap()); v }
        _ => { let ig = r.coin(0.3); knots(r, n, 3.0, ig) }
    };
    // scaling into the subnormal range (or the mirror) can merge neighbours: keep the strictly increasing subsequence, refill to >= 2 knots
    x.dedup();
    let mut out: Vec<f64> = vec![]; for v in x { if out.last().map_or(true, |l| v > *l) { out.push(v); } }
    while out.len() < 2 { let l = *out.last().unwrap_or(&0.0); out.push(up(l)); }
    out
}
/// ordinates of the extended regimes: the kinds 0..4 of `ordinates` plus
///  5 arbitrary finite magnitudes up to the largest double (mixed signs), 6 one constant (any magnitude), 7 same sign, within a few ulp .. 1e-3 of +-MAX,
///  8 every ordinate +-MAX / +-MAX/2 / 0
fn ordinates_ext(r: &mut Rng, n: usize, kind: u64) -> Vec<f64> {
    match kind {
        5 => (0..n).map(|_| r.uniform(-1.0, 1.0) * if r.coin(0.5) { FMAX } else { 10f64.powi(r.range(300, 308) as i32) }).map(|v| if v.is_finite() { v } else { FMAX }).collect(),
        6 => { let c = match r.below(5) { 0 => FMAX, 1 => -FMAX, 2 => 5e-324, 3 => r.uniform(-4.0, 4.0), _ => r.uniform(-1.0, 1.0) * 10f64.powi(r.range(-308, 308) as i32) }; vec![c; n] }
        7 => { let sg = if r.coin(0.5) { 1.0 } else { -1.0 }; (0..n).map(|_| sg * match r.below(3) { 0 => FMAX, 1 => f64::from_bits(FMAX.to_bits() - r.below(4)), _ => FMAX * (1.0 - 1e-3 * r.unit()) }).collect() }
        8 => (0..n).map(|_| *r.pick(&[FMAX, -FMAX, FMAX / 2.0, -FMAX / 2.0, 0.0, -0.0])).collect(),
        k => ordinates(r, n, k),
    }
}
/// targets beyond the ends at the vector's own scale (the plain generators use the absolute offsets 1e-3, 1, 1e6): 1 or 2 ulp, a fraction of the
/// span, 1e6 and 1e12 mean spacings, the largest finite double
fn beyond_ext(r: &mut Rng, x: &[f64], above: bool) -> f64 {
    let n = x.len(); let w = x[n - 1] - x[0]; let s = w / (n - 1) as f64;
    let e = if above { x[n - 1] } else { x[0] }; let sg = if above { 1.0 } else { -1.0 };
    let step = |v: f64| if above { up(v) } else { down(v) };
    let t = match r.below(7) { 0 => step(e), 1 => step(step(e)), 2 => e + sg * w * r.unit(), 3 => e + sg * s * 1e6 * (1.0 + r.unit()), 4 => e + sg * s * 1e12, 5 => sg * FMAX, _ => e + sg * s };
    if t.is_finite() { t } else { sg * FMAX }
}

fn push(cs: &mut Cases, checked: bool, x: &[f64], y: &[f64], t: &[f64], m: Mode, tag: &str, nt: bool) {
    let res = run(checked, x, y, t, m);
    let tag = format!("{}/{}/{}/{}", tag, if checked { "checked" } else { "unchecked" }, m.name(), if res.is_ok() { "value" } else { "panic" });
    cs.push(app("CInterp", vec![Tm::B(checked), fl(x), fl(y), fl(t), m.tm(), outcome_list(&res)]), &tag, nt);
}

pub fn gen(tier: &str, seed: u64, outdir: &str) {
    let mut r = Rng::new(seed);
    let mut cs = Cases::new("C16");
    let thorough = tier == "thorough";
    // 1. every knot count 2..=nsmall (all residues mod 8, twice), every mode, both variants:
    //    (a) targets inside only, (b) with one target below, (c) with one target above, (d) a sweep of all
    //    knots, midpoints and +-1 ulp neighbours in order
    let nsmall = if thorough { 40 } else { 18 };
    let reps = if thorough { 16 } else { 3 };
    for n in 2..=nsmall { for rep in 0..reps { for checked in [false, true] {
        let integer = (n + rep) % 3 == 0;
        let x = knots(&mut r, n, 3.0, integer);
        let y = ordinates(&mut r, n, (n as u64 + rep as u64) % 5);
        let ms = modes(&mut r);
        for m in ms {
            let k = 1 + r.below(6) as usize;
            let t = inner_targets(&mut r, &x, k);
            let strictly_inside = t.iter().any(|v| !x.contains(v));
            push(&mut cs, checked, &x, &y, &t, m, "small/inside", strictly_inside);
            let mut tb = t.clone(); let p = r.below(tb.len() as u64 + 1) as usize; tb.insert(p, below_target(&mut r, &x));
            push(&mut cs, checked, &x, &y, &tb, m, "small/below", true);
            let mut ta = t.clone(); let p = r.below(ta.len() as u64 + 1) as usize; ta.insert(p, above_target(&mut r, &x));
            push(&mut cs, checked, &x, &y, &ta, m, "small/above", true);
            if m != Mode::Panic {
                let mut tt = vec![below_target(&mut r, &x), above_target(&mut r, &x)];
                tt.extend_from_slice(&t); tt.push(above_target(&mut r, &x)); tt.push(below_target(&mut r, &x));
                push(&mut cs, checked, &x, &y, &tt, m, "small/both-ends", true);
            }
        }
        // the full sweep (in range: panic mode returns a value too)
        let mut sweep = vec![];
        for j in 0..n { if j > 0 { sweep.push(down(x[j])); } sweep.push(x[j]); if j + 1 < n { sweep.push(up(x[j])); sweep.push(x[j] + (x[j + 1] - x[j]) / 2.0); } }
        push(&mut cs, checked, &x, &y, &sweep, ms[(n + rep) % 3], "small/sweep", true);
    }}}
    // 2. larger knot vectors up to 200, spacing ratios up to 1e6
    let nlarge = if thorough { 800 } else { 36 };
    for it in 0..nlarge {
        let n = if it % 6 == 0 { 200 - (it / 6) % 8 } else { 19 + r.below(182) as usize };
        let x = knots(&mut r, n, 3.0, false);
        let yk = r.below(5); let y = ordinates(&mut r, n, yk);
        let checked = r.coin(0.5);
        let m = modes(&mut r)[it % 3];
        let kk = 4 + r.below(8) as usize; let mut t = inner_targets(&mut r, &x, kk);
        if m != Mode::Panic || r.coin(0.3) {
            if r.coin(0.6) { let p = r.below(t.len() as u64 + 1) as usize; t.insert(p, below_target(&mut r, &x)); }
            if r.coin(0.6) { let p = r.below(t.len() as u64 + 1) as usize; t.insert(p, above_target(&mut r, &x)); }
        }
        push(&mut cs, checked, &x, &y, &t, m, "large", true);
    }
    // 3. special values: NaN / infinite targets, NaN / infinite ordinates and abscissae, huge spans (overflowing
    //    differences), subnormal spacings, empty target list
    let nspec = if thorough { 4000 } else { 200 };
    let specials = [f64::NAN, f64::INFINITY, f64::NEG_INFINITY, 0.0, -0.0, 5e-324, -5e-324, 1.7976931348623157e308, -1.7976931348623157e308, 1e308, -1e308, 2.2250738585072014e-308];
    for it in 0..nspec {
        let n = 2 + r.below(7) as usize;
        let mut x = match it % 4 {
            0 => knots(&mut r, n, 3.0, true),
            1 => { let mut v: Vec<f64> = (0..n).map(|_| r.uniform(-1.0, 1.0) * 1.7e308).collect(); v.sort_by(|a, b| a.partial_cmp(b).unwrap()); v }
            2 => { let b = r.range(0, 40) as f64 * 5e-324; (0..n).map(|i| b + (i as f64) * 5e-324 * (1 + r.below(3)) as f64).collect() }
            _ => knots(&mut r, n, 1.0, false),
        };
        if it % 4 == 2 { x.sort_by(|a, b| a.partial_cmp(b).unwrap()); }
        let yk = r.below(5); let mut y = ordinates(&mut r, n, yk);
        if r.coin(0.3) { let p = r.below(n as u64) as usize; y[p] = *r.pick(&specials); }
        if r.coin(0.2) { let p = r.below(n as u64) as usize; x[p] = *r.pick(&specials); }
        let k = r.below(5) as usize;
        let mut t: Vec<f64> = (0..k).map(|_| match r.below(4) { 0 => *r.pick(&specials), 1 => x[r.below(n as u64) as usize], 2 => r.uniform(-60.0, 60.0), _ => { let j = r.below(n as u64 - 1) as usize; x[j] + (x[j + 1] - x[j]) / 2.0 } }).collect();
        let m = modes(&mut r)[r.below(3) as usize];
        push(&mut cs, r.coin(0.5), &x, &y, &t, m, "special", true);
    }
    // 4. malformed stream: arbitrary lengths (0, 1, mismatched), unsorted / repeated abscissae
    let nbad = if thorough { 8000 } else { 500 };
    for it in 0..nbad {
        let nx = r.below(7) as usize;
        let ny = if r.coin(0.6) { nx } else { r.below(7) as usize };
        let x: Vec<f64> = match it % 3 {
            0 => (0..nx).map(|_| r.small_int(4)).collect(),
            1 => { let mut v = knots(&mut r, nx, 1.0, true); if nx >= 2 && r.coin(0.7) { let i = r.below(nx as u64) as usize; let j = r.below(nx as u64) as usize; v.swap(i, j); } v }
            _ => { let mut v = knots(&mut r, nx, 1.0, true); if nx >= 2 && r.coin(0.7) { let i = 1 + r.below(nx as u64 - 1) as usize; v[i] = v[i - 1]; } v }
        };
        let y = ordinates(&mut r, ny, 0);
        let k = r.below(4) as usize;
        let t: Vec<f64> = (0..k).map(|_| if r.coin(0.5) { r.small_int(8) } else { r.uniform(-8.0, 8.0) }).collect();
        let m = modes(&mut r)[r.below(3) as usize];
        let checked = r.coin(0.5);
        let res = run(checked, &x, &y, &t, m);
        push(&mut cs, checked, &x, &y, &t, m, "malformed-stream", res.is_err() || nx != ny);
    }
    // 5. the extended regimes of the failure search (coverage audit): knot counts 200 / 199 / 2 / 3, neighbouring spacings in the ratio 1e6 exactly,
    //    neighbouring doubles as abscissae, abscissae scaled by 2^-1060 .. 2^1000, all-negative abscissae; ordinates up to +-MAX, constant, signed
    //    zeros / subnormals; fill values at any magnitude; targets 1 and 2 ulp beyond the ends, 1e6 and 1e12 mean spacings away, +-MAX
    let next = if thorough { 3000 } else { 240 };
    for it in 0..next {
        let reg = 1 + (it % 5) as u64;
        let n = match (it / 5) % 12 { 0 => 200, 1 => 199, 2 => 2, 3 => 3, 4 => 2 + r.below(199) as usize, _ => 2 + r.below(12) as usize };
        let x = knots_ext(&mut r, n, reg);
        let n = x.len();
        let yk = *r.pick(&[0, 1, 2, 3, 4, 5, 5, 6, 7, 8]);
        let y = ordinates_ext(&mut r, n, yk);
        let m0 = modes(&mut r);
        let m = match it % 3 { 0 => m0[0], 1 => if r.coin(0.5) { m0[1] } else { Mode::Fill(r.uniform(-1.0, 1.0) * 10f64.powi(r.range(-320, 308) as i32), *r.pick(&[FMAX, -FMAX, 5e-324, 1.0, -0.0])) }, _ => m0[2] };
        let kk = 2 + r.below(6) as usize; let mut t = inner_targets(&mut r, &x, kk);
        t.push(x[0]); t.push(x[n - 1]); t.push(up(x[0])); t.push(down(x[n - 1]));
        if m != Mode::Panic || it % 2 == 0 {
            for above in [false, true] { let c = 1 + r.below(2); for _ in 0..c { let p = r.below(t.len() as u64 + 1) as usize; let v = beyond_ext(&mut r, &x, above); t.insert(p, v); } }
        }
        push(&mut cs, r.coin(0.5), &x, &y, &t, m, "extended", true);
    }
    cs.write(outdir, 150,
             "extended regimes (knot counts 200/199/2/3, spacings {1e-3,1e3}, neighbouring doubles, abscissae scaled by 2^-1060..2^1000, all-negative; ordinates up to +-MAX / constant / zeros and subnormals; fills at any magnitude; targets 1-2 ulp, 1e6 and 1e12 spacings and +-MAX beyond the ends); every knot count 2..18 x 3 (quick) / 2..40 x 16 (thorough) and random counts up to 200, strictly increasing abscissae with spacings 10^[-3,3] (ratios up to 1e6) or integer grids, ordinates: small integers / uniform / 1e+-300 magnitudes / signed zeros and subnormals; targets at knots, midpoints, +-1 ulp around every knot, random interior points, beyond both ends (1 ulp, within a span, 1e6 away); all three modes (several fill pairs incl. NaN/inf/-0), checked and unchecked variants; special values (NaN, +-inf, +-0, subnormal, +-max) in targets, ordinates and abscissae, overflowing spans, subnormal spacings, empty target lists; a malformed stream (lengths 0..6 independently, unsorted and repeated abscissae); non-trivial = a target strictly inside a segment or outside the range, or a rejected call; distinct by hash of the case term");
}

// ---------------------------------------------------------------------------------------------
// failure-search oracle: the property's statement against the implementation only
const EPS: f64 = f64::EPSILON;
fn line(x0: f64, y0: f64, x1: f64, y1: f64, t: f64) -> (f64, f64) { line_(x0, y0, x1, y1, t, false) }
/// `inside`: the target lies in the segment [x0, x1] (the chord value is then between the ordinates, hence finite, also when y1 - y0 overflows)
fn line_(x0: f64, y0: f64, x1: f64, y1: f64, t: f64, inside: bool) -> (f64, f64) {
    // the straight line through (x0,y0), (x1,y1) at t, and the rounding allowance granted to a binary64 evaluation
    let r = (t - x0) / (x1 - x0);
    if inside && !(y1 - y0).is_finite() && y0.is_finite() && y1.is_finite() && r >= 0.0 && r <= 1.0 {
        // in-segment target, ordinates of opposite sign whose difference overflows: the chord value itself is between the ordinates, hence finite;
        // evaluate the same line on ordinates scaled by 1/4 (exact) and scale back (exact: |v| <= max|y|)
        let (a, b) = (y0 / 4.0, y1 / 4.0);
        let v = (a + r * (b - a)) * 4.0;
        let tol = (32.0 * EPS * (1.0 + r.abs()) * (a.abs() + b.abs())) * 4.0;
        return (v, tol);
    }
    let v = y0 + r * (y1 - y0);
    // proved for in-segment targets (C16_line_error_binary64, u = EPS/2): |v - line| <= 3u max(|y0|,|y1|) + (4u + 2^-1075)|y1 - y0| + 2^-1073
    // <= (7u + 2^-1075)(|y0| + |y1|) + 2^-1073; the allowance below (64u(1 + |r|)(|y0| + |y1|) + 64 * 2^-1074) also covers the few roundings of
    // the reference `v` itself and the extrapolation formulas (|r| > 1), and is never tighter than what is proved
    let tol = if (y0.abs() + y1.abs()).is_finite() { 32.0 * EPS * (1.0 + r.abs()) * (y0.abs() + y1.abs()) + 64.0 * 5e-324 }
              else { (32.0 * EPS * (1.0 + r.abs()) * (y0.abs() / 4.0 + y1.abs() / 4.0)) * 4.0 }; // |y0| + |y1| overflows: same allowance, evaluated without the overflow
    (v, tol)
}
fn jf(v: &[f64]) -> String { json_floats(v) }
fn describe(checked: bool, x: &[f64], y: &[f64], t: &[f64], m: Mode) -> String {
    format!("{}(x={}, y={}, tgt={}, mode={:?})", if checked { "interp1d_linear" } else { "interp1d_linear_unchecked" }, jf(x), jf(y), jf(t), m)
}
/// oracle evaluation of the implementation: leaves a breadcrumb with the input first (crash / hang attribution)
fn orun(checked: bool, x: &[f64], y: &[f64], t: &[f64], m: Mode) -> Result<Vec<f64>, String> {
    crumb(&describe(checked, x, y, t, m));
    run(checked, x, y, t, m)
}

pub fn oracle(tier: &str, seed: u64) -> (u64, Vec<Finding>) {
    let mut r = Rng::new(seed ^ 0xC16);
    let mut out: Vec<Finding> = vec![]; let mut tried = 0u64;
    let iters = if tier == "thorough" { 30000 } else { 3000 };
    // the extended regimes (`reg` > 0) run AFTER the original iterations, so the original evaluation points are unchanged
    let extra = if tier == "thorough" { 20000 } else { 2000 };
    for it in 0..iters + extra {
        let reg: u64 = if it < iters { 0 } else { 1 + ((it - iters) % 5) as u64 };
        let (x, y, checked, ms);
        if reg == 0 {
            let n = if it % 10 == 9 { 2 + r.below(199) as usize } else { 2 + r.below(12) as usize };
            let integer = r.coin(0.3);
            x = knots(&mut r, n, 3.0, integer);
            let yk = if integer { 0 } else { 1 + r.below(2) };
            y = ordinates(&mut r, n, yk);
            checked = r.coin(0.5);
            let m0 = modes(&mut r);
            let (fl_, fr_) = (r.uniform(-9.0, 9.0), r.uniform(-9.0, 9.0));
            ms = [m0[0], Mode::Fill(fl_, fr_), m0[2]];
        } else {
            // knot counts: the stated maximum 200 and 199, the minimum 2, 3, every count in between; small counts most of the time
            let e = (it - iters) / 5;
            let n = match e % 20 { 0 => 200, 1 => 199, 2 => 2, 3 => 3, 4 | 5 => 2 + r.below(199) as usize, _ => 2 + r.below(12) as usize };
            x = knots_ext(&mut r, n, reg);
            let n = x.len();
            let yk = *r.pick(&[0, 1, 2, 3, 4, 5, 5, 6, 7, 8]);
            y = ordinates_ext(&mut r, n, yk);
            checked = r.coin(0.5);
            // fill pairs: the special ones (NaN, infinities, signed zeros) half of the time, else random at any magnitude
            let m0 = modes(&mut r);
            let f = if r.coin(0.5) { m0[1] } else { Mode::Fill(r.uniform(-1.0, 1.0) * 10f64.powi(r.range(-320, 308) as i32), *r.pick(&[FMAX, -FMAX, 5e-324, 1.0, -0.0])) };
            ms = [m0[0], f, m0[2]];
        }
        let n = x.len();
        let name = if checked { "interp1d_linear" } else { "interp1d_linear_unchecked" };
        for m in ms {
            let inp = |t: &[f64]| describe(checked, &x, &y, t, m);
            // (a) at every knot (one call with all knots as targets): the ordinate, exactly
            tried += 1;
            match orun(checked, &x, &y, &x, m) {
                Err(e) => out.push(Finding { class: format!("in-range:panics mode={}", m.name()), what: format!("targets at the knots panicked: {}", e), input: inp(&x) }),
                Ok(v) => {
                    if v.len() != n { out.push(Finding { class: "result-length".into(), what: format!("{} results for {} targets", v.len(), n), input: inp(&x) }); }
                    else if let Some(j) = (0..n).find(|&j| v[j] != y[j]) {
                        out.push(Finding { class: format!("knot:wrong-ordinate mode={}", m.name()), what: format!("at knot {} (x={:e}) returned {:e}, ordinate is {:e}", j, x[j], v[j], y[j]), input: inp(&x) });
                    }
                }
            }
            // (a') a knot at zero: the targets +0.0 and -0.0 are that knot whichever zero the abscissa vector holds (first, last or an interior
            //      knot moved to zero by a shift of the whole vector); seeded change C16-11 ordered the zeros by total_cmp
            {
                let j0 = match tried % 3 { 0 => 0, 1 => n - 1, _ => r.below(n as u64) as usize };
                let zero = if tried % 2 == 0 { 0.0f64 } else { -0.0f64 };
                let xz: Vec<f64> = x.iter().enumerate().map(|(i, v)| if i == j0 { zero } else { v - x[j0] }).collect();
                if xz.iter().all(|v| v.is_finite()) && xz.windows(2).all(|w| w[0] < w[1]) && y[j0] == y[j0] {
                    for t in [0.0f64, -0.0f64] {
                        tried += 1;
                        match orun(checked, &xz, &y, &[t], m) {
                            Err(e) => out.push(Finding { class: format!("in-range:panics mode={}", m.name()), what: format!("target {:?} at the knot {:?} (knot {} of {}) panicked: {}", t, xz[j0], j0, n, e), input: describe(checked, &xz, &y, &[t], m) }),
                            Ok(v) => if v.len() != 1 || v[0] != y[j0] {
                                out.push(Finding { class: format!("knot:wrong-ordinate mode={}", m.name()), what: format!("target {:?} at knot {} (x={:?}) returned {:?}, ordinate is {:e}", t, j0, xz[j0], v, y[j0]), input: describe(checked, &xz, &y, &[t], m) });
                            }
                        }
                    }
                }
            }
            // (b) inside segments: on the line, between the ordinates
            let j = r.below(n as u64 - 1) as usize;
            // extended regimes: also the FIRST and the LAST segment (a random segment of 200 is almost never one of them)
            let js = if reg == 0 { vec![j] } else { vec![j, 0, n - 2] };
            for j in js {
            let ts = [x[j] + (x[j + 1] - x[j]) / 2.0, up(x[j]), down(x[j + 1]), x[j] + (x[j + 1] - x[j]) * r.unit()];
            for t in ts {
                if !(x[j] <= t && t <= x[j + 1]) { continue; }
                tried += 1;
                match orun(checked, &x, &y, &[t], m) {
                    Err(e) => out.push(Finding { class: format!("in-range:panics mode={}", m.name()), what: format!("target {:e} inside segment {} panicked: {}", t, j, e), input: inp(&[t]) }),
                    Ok(v) => {
                        if v.len() != 1 { out.push(Finding { class: "result-length".into(), what: format!("{} results for 1 target", v.len()), input: inp(&[t]) }); continue; }
                        let (w, tol) = line_(x[j], y[j], x[j + 1], y[j + 1], t, true);
                        if !(w.is_finite() && tol.is_finite()) { continue; }
                        if !((v[0] - w).abs() <= tol) { out.push(Finding { class: "inside:off-line".into(), what: format!("returned {:e}, the chord of segment {} gives {:e}", v[0], j, w), input: inp(&[t]) }); }
                        // "between the ordinates" holds on binary64 only up to rounding. Proved (C16_between_up_to_rounding_binary64, for every
                        // finite in-range target and finite result, u = 2^-53 = EPS/2):  lo - 3u|lo| - 2^-1073 <= v <= hi + 3u|hi| + 2^-1073.
                        // The allowance below, 2*EPS*|.| + 1e-322 = 4u|.| + ~10*2^-1073, is wider than the proved bound (never tighter).
                        let (lo, hi) = (y[j].min(y[j + 1]), y[j].max(y[j + 1]));
                        if !(v[0] >= lo - 2.0 * EPS * lo.abs() - 1e-322 && v[0] <= hi + 2.0 * EPS * hi.abs() + 1e-322) {
                            out.push(Finding { class: "inside:not-between-ordinates".into(), what: format!("returned {:e}, outside [{:e}, {:e}] by more than 2 ulp (4 units roundoff; 3 are proved attainable at most)", v[0], lo, hi), input: inp(&[t]) });
                        }
                    }
                }
            }
            }
            // (c) outside the range, per mode
            for (above, ext) in [(false, false), (true, false), (false, true), (true, true)] {
                if ext && reg == 0 { continue; }
                let t = if ext { beyond_ext(&mut r, &x, above) } else if above { above_target(&mut r, &x) } else { below_target(&mut r, &x) };
                if !(if above { t > x[n - 1] } else { t < x[0] }) { continue; }
                let side = if above { "above" } else { "below" };
                tried += 1;
                let got = orun(checked, &x, &y, &[t], m);
                match (m, &got) {
                    (Mode::Panic, Ok(v)) => out.push(Finding { class: format!("{}:panic-mode-returns-value", side), what: format!("target {:e} is {} the range [{:e}, {:e}] but panic mode returned {:?}", t, side, x[0], x[n - 1], v), input: inp(&[t]) }),
                    (Mode::Panic, Err(_)) => {}
                    (_, Err(e)) => out.push(Finding { class: format!("{}:{}-mode-panics", side, m.name()), what: format!("panicked: {}", e), input: inp(&[t]) }),
                    (Mode::Fill(l, rr), Ok(v)) => {
                        let want = if above { rr } else { l };
                        if v.len() != 1 || v[0].to_bits() != want.to_bits() { out.push(Finding { class: format!("{}:fill-wrong-value", side), what: format!("target {:e} is {} the range; returned {:?}, the {} fill value is {:e}", t, side, v, if above { "right" } else { "left" }, want), input: inp(&[t]) }); }
                    }
                    (Mode::Extrap, Ok(v)) => {
                        let (a, b) = if above { (n - 2, n - 1) } else { (0, 1) };
                        // demanded where the segment's rise y1 - y0 and the line's value at the target are binary64 numbers (the reference is then finite)
                        let (w, tol) = line(x[a], y[a], x[b], y[b], t);
                        if !(w.is_finite() && tol.is_finite()) { continue; }
                        // the allowance around the reference reaches beyond the largest double: the line's value may round to an infinity of that sign
                        // (y = [0, MAX], x = [-2, 1], target 1 + 2^-52: the exact value MAX (1 + 7.4e-17) is above MAX + ulp/2)
                        if !(w.abs() + tol <= FMAX) && v.len() == 1 && v[0].is_infinite() && (v[0] > 0.0) == (w > 0.0) { continue; }
                        if v.len() != 1 || !((v[0] - w).abs() <= tol) { out.push(Finding { class: format!("{}:extrapolate-off-line", side), what: format!("returned {:?}, the continued {} segment gives {:e}", v, if above { "last" } else { "first" }, w), input: inp(&[t]) }); }
                    }
                }
            }
        }
        // (e) a target list in arbitrary order (descending knots, then a shuffled mix of knots, interior points and out-of-range
        //     points): the property is per target, so every entry must equal what a call with that single target returns
        {
            let m = ms[(it % 2 + 1) as usize]; // Fill or Extrapolate: out-of-range targets return values
            let mut ts: Vec<f64> = x.iter().rev().cloned().collect();
            for _ in 0..n.min(12) {
                let j = r.below(n as u64 - 1) as usize;
                ts.push(match r.below(4) { 0 => x[j], 1 => x[j] + (x[j + 1] - x[j]) * r.unit(), 2 => if reg > 0 && r.coin(0.5) { beyond_ext(&mut r, &x, false) } else { below_target(&mut r, &x) }, _ => if reg > 0 && r.coin(0.5) { beyond_ext(&mut r, &x, true) } else { above_target(&mut r, &x) } });
            }
            for i in (1..ts.len()).rev() { let k = r.below(i as u64 + 1) as usize; if i >= n { ts.swap(i, k.max(n).min(i)); } }
            tried += 1;
            {
                // both variants on the whole list, every mode (Panic included: the same outcome, value or panic)
                for mm in ms {
                    tried += 1;
                    let (a, b) = (orun(true, &x, &y, &ts, mm), orun(false, &x, &y, &ts, mm));
                    let same = match (&a, &b) { (Ok(u), Ok(v)) => u.len() == v.len() && u.iter().zip(v.iter()).all(|(p, q)| p.to_bits() == q.to_bits()), (Err(_), Err(_)) => true, _ => false };
                    if !same { out.push(Finding { class: "checked-differs-from-unchecked".into(), what: format!("checked {:?} vs unchecked {:?} on strictly increasing abscissae", a, b), input: describe(true, &x, &y, &ts, mm) }); }
                }
                // an empty target list: one result per target, i.e. the empty vector, in every mode (no target is out of range)
                for mm in ms { for ck in [false, true] {
                    tried += 1;
                    match orun(ck, &x, &y, &[], mm) {
                        Ok(v) if v.is_empty() => {}
                        Ok(v) => out.push(Finding { class: "result-length".into(), what: format!("{} results for 0 targets", v.len()), input: describe(ck, &x, &y, &[], mm) }),
                        Err(e) => out.push(Finding { class: format!("in-range:panics mode={}", mm.name()), what: format!("an empty target list panicked: {}", e), input: describe(ck, &x, &y, &[], mm) }),
                    }
                }}
            }
            if let Ok(all) = orun(checked, &x, &y, &ts, m) {
                if all.len() != ts.len() { out.push(Finding { class: "result-length".into(), what: format!("{} results for {} targets", all.len(), ts.len()), input: describe(checked, &x, &y, &ts, m) }); }
                else {
                    for (i, t) in ts.iter().enumerate() {
                        if !t.is_finite() { continue; }
                        if let Ok(one) = orun(checked, &x, &y, &[*t], m) {
                            if one.len() == 1 && one[0].to_bits() != all[i].to_bits() && !(one[0].is_nan() && all[i].is_nan()) {
                                out.push(Finding { class: "targets:order-dependent".into(), what: format!("target {:e} at position {} of an unordered target list returned {:e}, alone it returns {:e} (knots must be reproduced and interior targets lie on their chord whatever the other targets are)", t, i, all[i], one[0]), input: describe(checked, &x, &y, &ts, m) });
                                break;
                            }
                        }
                    }
                }
            }
        }
        // (f) panic mode with several targets: ONE out-of-range target anywhere in the list (first, last or in the middle, after or before
        //     in-range ones, in any order) makes the call panic
        if n >= 2 {
            let mut ts: Vec<f64> = (0..1 + r.below(4)).map(|_| { let j = r.below(n as u64 - 1) as usize; x[j] + (x[j + 1] - x[j]) * r.unit() }).collect();
            let bad = if reg > 0 && r.coin(0.5) { let ab = r.coin(0.5); beyond_ext(&mut r, &x, ab) } else if r.coin(0.5) { above_target(&mut r, &x) } else { below_target(&mut r, &x) };
            if bad > x[n - 1] || bad < x[0] {
                let pos = r.below(ts.len() as u64 + 1) as usize; ts.insert(pos, bad);
                tried += 1;
                if let Ok(v) = orun(checked, &x, &y, &ts, Mode::Panic) {
                    out.push(Finding { class: "multi-target:panic-mode-returns-value".into(), what: format!("target {:e} (position {} of {}) is outside [{:e}, {:e}] but panic mode returned {:?}", bad, pos, ts.len(), x[0], x[n - 1], v), input: describe(checked, &x, &y, &ts, Mode::Panic) });
                }
            }
        }
        // (g) the checked variant rejects abscissae that are out of order by ANY amount: two neighbouring knots one ulp apart exchanged, or a
        //     whole grid at a tiny scale (1e-18) with two knots exchanged
        if n >= 3 {
            let mut xt = x.clone();
            let i = 1 + r.below(n as u64 - 2) as usize;
            if r.coin(0.5) { xt[i] = f64::from_bits(xt[i - 1].to_bits().wrapping_add(if xt[i - 1] >= 0.0 { 1 } else { u64::MAX })); if xt[i] > xt[i - 1] && xt[i] < xt[(i + 1).min(n - 1)] { xt.swap(i - 1, i); } else { xt = x.clone(); xt.swap(i - 1, i); for v in xt.iter_mut() { *v *= 1e-18; } } }
            else { xt.swap(i - 1, i); for v in xt.iter_mut() { *v *= 1e-18; } }
            if (0..n - 1).any(|j| xt[j + 1] < xt[j]) {
                tried += 1;
                let t = [xt[0]];
                if let Ok(v) = orun(true, &xt, &y, &t, Mode::Extrap) {
                    out.push(Finding { class: "checked:unsorted-accepted".into(), what: format!("abscissae with a descent (possibly of one ulp, or at a tiny scale) were accepted, returned {:?}", v), input: format!("interpolate checked x={} y={} tgt={}", jf(&xt), jf(&y), jf(&t)) });
                }
            }
        }
        // (d) rejection: unsorted abscissae (checked variant), mismatched lengths (both variants)
        if n >= 2 {
            let mut xu = x.clone();
            let i = r.below(n as u64 - 1) as usize;
            let k = i + 1 + r.below((n - 1 - i) as u64) as usize;
            xu.swap(i, k); // x strictly increasing, i < k: now xu[i] > xu[i+1] or ... some descent exists
            tried += 1;
            let t = [x[0] + (x[n - 1] - x[0]) / 2.0];
            for m in [Mode::Extrap, Mode::Fill(0.0, 0.0)] {
                if let Ok(v) = orun(true, &xu, &y, &t, m) {
                    out.push(Finding { class: "checked:unsorted-accepted".into(), what: format!("abscissae with a descent at some position were accepted, returned {:?}", v), input: format!("interp1d_linear(x={}, y={}, tgt={}, mode={:?})", jf(&xu), jf(&y), jf(&t), m) });
                }
            }
            let ny = if r.coin(0.5) { n + 1 + r.below(3) as usize } else { n - 1 - r.below(n as u64 - 1).min(1) as usize };
            let yy = ordinates(&mut r, ny, 0);
            for ck in [false, true] {
                tried += 1;
                if let Ok(v) = orun(ck, &x, &yy, &t, Mode::Extrap) {
                    out.push(Finding { class: "length-mismatch-accepted".into(), what: format!("{} abscissae with {} ordinates accepted, returned {:?}", n, ny, v), input: format!("checked={} x={} y={} tgt={}", ck, jf(&x), jf(&yy), jf(&t)) });
                }
            }
            if reg > 0 {
                // a descent at the FIRST or at the LAST pair only (the ends of the sortedness loop), every mode, also with no target
                for (i, k) in [(0usize, 1usize), (n - 2, n - 1)] {
                    let mut xe = x.clone(); xe.swap(i, k);
                    let m2 = ms[r.below(3) as usize];
                    for tt in [&t[..], &[][..]] {
                        tried += 1;
                        if let Ok(v) = orun(true, &xe, &y, tt, m2) {
                            out.push(Finding { class: "checked:unsorted-accepted".into(), what: format!("abscissae with a descent at the pair ({}, {}) of {} were accepted, returned {:?}", i, k, n, v), input: format!("interp1d_linear(x={}, y={}, tgt={}, mode={:?})", jf(&xe), jf(&y), jf(tt), m2) });
                        }
                    }
                }
                // any mismatch is refused before a target is looked at: no ordinates at all, far too many, every mode, also with no target
                let ny2 = if r.coin(0.5) { 0 } else { 2 * n + 1 };
                let yy2 = ordinates(&mut r, ny2, 0);
                let m2 = ms[r.below(3) as usize];
                for ck in [false, true] { for tt in [&t[..], &[][..]] {
                    tried += 1;
                    if let Ok(v) = orun(ck, &x, &yy2, tt, m2) {
                        out.push(Finding { class: "length-mismatch-accepted".into(), what: format!("{} abscissae with {} ordinates accepted, returned {:?}", n, ny2, v), input: format!("checked={} x={} y={} tgt={} mode={:?}", ck, jf(&x), jf(&yy2), jf(tt), m2) });
                    }
                }}
            }
            // sorted input is accepted by the checked variant and agrees with the unchecked one
            tried += 1;
            let a = orun(true, &x, &y, &t, Mode::Extrap); let b = orun(false, &x, &y, &t, Mode::Extrap);
            let same = match (&a, &b) { (Ok(u), Ok(v)) => u.len() == v.len() && u.iter().zip(v.iter()).all(|(p, q)| p.to_bits() == q.to_bits()), (Err(_), Err(_)) => true, _ => false };
            if !same { out.push(Finding { class: "checked-differs-from-unchecked".into(), what: format!("checked {:?} vs unchecked {:?} on strictly increasing abscissae", a, b), input: format!("x={} y={} tgt={}", jf(&x), jf(&y), jf(&t)) }); }
        }
        if out.len() > 60 { break; }
    }
    (tried, out)
}
