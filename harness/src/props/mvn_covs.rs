//! Covariance generators for the END-TO-END multivariate-normal cases of C02 (pdf / ln_pdf) and C03 (sample / sample_n):
//! nothing of MVN::new is recorded there, the Cholesky factor, the inverse and the determinant are computed by the Coq models
//! of C01 / C11.  Shared by props/c02.rs and props/c03.rs (`#[path = "mvn_covs.rs"] mod mvn_covs;`).
use crate::util::Rng;

/// number of covariance kinds produced by `covariance`
pub const KINDS: usize = 17;

pub struct Cov { pub rows: usize, pub cols: usize, pub data: Vec<f64>, pub tag: &'static str, pub spd: bool }

fn logu(r: &mut Rng, lo: f64, hi: f64) -> f64 { (r.uniform(lo.ln(), hi.ln())).exp() }

/// B = A A^T + shift I, exactly symmetric (lower triangle mirrored)
fn gram(r: &mut Rng, n: usize, shift: f64) -> Vec<f64> {
    let a: Vec<f64> = (0..n * n).map(|_| r.uniform(-1.0, 1.0)).collect();
    let mut c = vec![0.0; n * n];
    for i in 0..n { for j in 0..=i { let mut s = 0.0; for k in 0..n { s += a[i * n + k] * a[j * n + k]; }
        c[i * n + j] = s + if i == j { shift } else { 0.0 }; c[j * n + i] = c[i * n + j]; } }
    c
}

/// the covariance of kind `kind` (0..KINDS) and order `n` >= 1
pub fn covariance(r: &mut Rng, n: usize, kind: usize) -> Cov {
    let sq = |data: Vec<f64>, tag: &'static str, ok: bool| Cov { rows: n, cols: n, data, tag, spd: ok };
    match kind % KINDS {
        // ---- symmetric positive definite
        0 => { let sc = logu(r, 1e-2, 1e2); let mut c = gram(r, n, 0.5 + 0.25 * n as f64); for v in c.iter_mut() { *v *= sc; } sq(c, "spd/random", true) }
        1 => { let mut c = vec![0.0; n * n]; for i in 0..n { c[i * n + i] = logu(r, 1e-6, 1e6); } sq(c, "spd/diagonal", true) }
        2 => { // D B D with D = diag(1e-4 .. 1e4): condition number up to 1e16 by scaling alone
            let b = gram(r, n, 0.5); let d: Vec<f64> = (0..n).map(|_| logu(r, 1e-4, 1e4)).collect();
            let mut c = vec![0.0; n * n];
            for i in 0..n { for j in 0..=i { c[i * n + j] = d[i] * b[i * n + j] * d[j]; c[j * n + i] = c[i * n + j]; } }
            sq(c, "spd/ill-conditioned/badly-scaled", true) }
        3 => { // Hilbert matrix: condition number ~ e^(3.5 n); beyond order ~12 binary64 Cholesky meets a non-positive pivot
            let mut c = vec![0.0; n * n]; for i in 0..n { for j in 0..n { c[i * n + j] = 1.0 / (i + j + 1) as f64; } }
            sq(c, "spd/ill-conditioned/hilbert", true) }
        4 => { let sh = if r.coin(0.5) { 1e-10 } else { 1e-6 }; sq(gram(r, n, sh), "spd/ill-conditioned/nearly-singular", true) }
        5 => { // equicorrelated, rho close to 1
            let rho = 1.0 - logu(r, 1e-9, 1e-2); let s = logu(r, 1e-3, 1e3);
            let mut c = vec![0.0; n * n]; for i in 0..n { for j in 0..n { c[i * n + j] = s * if i == j { 1.0 } else { rho }; } }
            sq(c, "spd/ill-conditioned/equicorrelated", true) }
        6 => { // mirrored entries differing by 1..3 ulp: inside / at / outside the relative tolerance of is_symmetric
            let mut c = gram(r, n, 0.5 + 0.25 * n as f64);
            if n >= 2 { let (i, j) = (r.below(n as u64) as usize, r.below(n as u64) as usize); let (i, j) = if i == j { (0, 1) } else { (i, j) };
                let k = 1 + r.below(3); c[i * n + j] = f64::from_bits(c[i * n + j].to_bits().wrapping_add(k)); }
            sq(c, "near-symmetric/1-3ulp", false) }
        7 => { // tiny entries: asymmetric far beyond the RELATIVE tolerance although |x - y| < 2^-52
            let mut c = gram(r, n, 0.5 + 0.25 * n as f64); for v in c.iter_mut() { *v *= 1e-20; }
            if n >= 2 { c[1] *= 1.0 + logu(r, 1e-12, 1e-3); }
            sq(c, "near-symmetric/tiny-scale", n < 2) }
        8 => { // huge entries: symmetric within the relative tolerance although |x - y| >> 2^-52
            let mut c = gram(r, n, 0.5 + 0.25 * n as f64); for v in c.iter_mut() { *v *= 1e12; }
            if n >= 2 { c[n] = f64::from_bits(c[n].to_bits() + 1); }
            sq(c, "near-symmetric/huge-scale", false) }
        // ---- rejected by the constructor
        9 => { let mut c = gram(r, n, 1.0); let i = r.below(n as u64) as usize; c[i * n + i] = if r.coin(0.5) { 0.0 } else { -c[i * n + i] }; sq(c, "rejected/non-positive-diagonal", false) }
        10 => { let mut c = gram(r, n, 1.0); if n >= 2 { c[1] += 1e-3; } else { c[0] = -1.0; } sq(c, "rejected/not-symmetric", false) }
        11 => { // symmetric, positive diagonal, indefinite: passes is_positive_definite(), a Cholesky pivot is not positive
            let mut c = vec![0.0; n * n]; for i in 0..n { for j in 0..n { c[i * n + j] = if i == j { 1.0 } else { 2.0 + ((i + j) % 3) as f64 }; } }
            if n == 1 { c[0] = -2.0; }
            sq(c, "rejected/indefinite", false) }
        12 => { // rank one: v v^T, singular positive semi-definite (a pivot is 0 or a rounding residue of either sign)
            let v: Vec<f64> = (0..n).map(|_| r.range(1, 9) as f64 * if r.coin(0.3) { 0.1 } else { 1.0 }).collect();
            let mut c = vec![0.0; n * n]; for i in 0..n { for j in 0..n { c[i * n + j] = v[i] * v[j]; } }
            if n == 1 { c[0] = 0.0; }
            sq(c, "rejected-or-degenerate/singular-psd", false) }
        13 => { let mut c = gram(r, n, 1.0); let k = r.below((n * n) as u64) as usize; let v = *r.pick(&[f64::NAN, f64::INFINITY, f64::NEG_INFINITY]);
            let (i, j) = (k / n, k % n); c[i * n + j] = v; c[j * n + i] = v; sq(c, "rejected/nan-or-inf-entry", false) }
        14 => { // not square: n x (n+1) and (n+1) x n
            let wide = r.coin(0.5); let (rows, cols) = if wide { (n, n + 1) } else { (n + 1, n) };
            Cov { rows, cols, data: (0..rows * cols).map(|_| r.uniform(0.5, 1.5)).collect(), tag: "rejected/not-square", spd: false } }
        15 => sq(vec![0.0; n * n], "rejected/zero-matrix", false),
        // ---- exactly representable small integers: every operation of the factorisations is exact for small orders
        _ => { let a: Vec<f64> = (0..n * n).map(|_| r.range(-2, 2) as f64).collect();
            let mut c = vec![0.0; n * n];
            for i in 0..n { for j in 0..n { let mut s = 0.0; for k in 0..n { s += a[i * n + k] * a[j * n + k]; } c[i * n + j] = s + if i == j { 1.0 } else { 0.0 }; } }
            sq(c, "spd/small-integers", true) }
    }
}
