//! C05 — matrix products: case generation for the Coq correspondence and the failure-search oracle.
use crate::util::*;
use compute::linalg::{matmul, matmul_blocked, xtx, Dot, Matrix, Vector};

/// small integers, sometimes (one operand in six) scaled as a whole by a power of two between 2^-70 and 2^70: every product and partial sum
/// stays exact, while magnitudes leave the neighbourhood of 1 (entries far below machine epsilon are still entries)
fn ints(r: &mut Rng, n: usize) -> Vec<f64> {
    let c = if r.coin(1.0 / 6.0) { (2.0f64).powi(r.range(-70, 70) as i32) } else { 1.0 };
    (0..n).map(|_| r.small_int(9) * c).collect()
}
fn reals(r: &mut Rng, n: usize) -> Vec<f64> { (0..n).map(|_| r.uniform(-4.0, 4.0)).collect() }

fn shapes(ta: bool, tb: bool, m: usize, l: usize, n: usize) -> (usize, usize, usize, usize) {
    // (rows_a, cols_a, rows_b, cols_b) so that op(A) is m x l and op(B) is l x n
    let (ra, ca) = if ta { (l, m) } else { (m, l) };
    let (rb, cb) = if tb { (n, l) } else { (l, n) };
    (ra, ca, rb, cb)
}

fn mat_out(m: &Matrix) -> Vec<f64> {
    let mut v = vec![m.nrows as f64, m.ncols as f64];
    v.extend_from_slice(&m.data);
    v
}

const KINDS: [&str; 4] = ["DotNN", "DotNT", "DotTN", "DotTT"];

/// the 16 Matrix.Matrix impls: kind k (0 dot, 1 dot_t, 2 t_dot, 3 t_dot_t) x ownership form (0 (&M, M), 1 (&M, &M), 2 (&&M, M), 3 (&&M, &M))
fn call_mm(k: usize, form: u64, s: &Matrix, o: &Matrix) -> Matrix {
    match (k, form) {
        (0, 0) => Dot::<Matrix, Matrix>::dot(s, o.clone()), (0, 1) => Dot::<&Matrix, Matrix>::dot(s, o), (0, 2) => Dot::<Matrix, Matrix>::dot(&s, o.clone()), (0, _) => Dot::<&Matrix, Matrix>::dot(&s, o),
        (1, 0) => Dot::<Matrix, Matrix>::dot_t(s, o.clone()), (1, 1) => Dot::<&Matrix, Matrix>::dot_t(s, o), (1, 2) => Dot::<Matrix, Matrix>::dot_t(&s, o.clone()), (1, _) => Dot::<&Matrix, Matrix>::dot_t(&s, o),
        (2, 0) => Dot::<Matrix, Matrix>::t_dot(s, o.clone()), (2, 1) => Dot::<&Matrix, Matrix>::t_dot(s, o), (2, 2) => Dot::<Matrix, Matrix>::t_dot(&s, o.clone()), (2, _) => Dot::<&Matrix, Matrix>::t_dot(&s, o),
        (_, 0) => Dot::<Matrix, Matrix>::t_dot_t(s, o.clone()), (_, 1) => Dot::<&Matrix, Matrix>::t_dot_t(s, o), (_, 2) => Dot::<Matrix, Matrix>::t_dot_t(&s, o.clone()), (_, _) => Dot::<&Matrix, Matrix>::t_dot_t(&s, o),
    }
}
fn call_mv(k: usize, form: u64, s: &Matrix, vv: &Vector) -> Vector {
    match (k, form) {
        (0, 0) => Dot::<Vector, Vector>::dot(s, vv.clone()), (0, 1) => Dot::<&Vector, Vector>::dot(s, vv), (0, 2) => Dot::<Vector, Vector>::dot(&s, vv.clone()), (0, _) => Dot::<&Vector, Vector>::dot(&s, vv),
        (1, 0) => Dot::<Vector, Vector>::dot_t(s, vv.clone()), (1, 1) => Dot::<&Vector, Vector>::dot_t(s, vv), (1, 2) => Dot::<Vector, Vector>::dot_t(&s, vv.clone()), (1, _) => Dot::<&Vector, Vector>::dot_t(&s, vv),
        (2, 0) => Dot::<Vector, Vector>::t_dot(s, vv.clone()), (2, 1) => Dot::<&Vector, Vector>::t_dot(s, vv), (2, 2) => Dot::<Vector, Vector>::t_dot(&s, vv.clone()), (2, _) => Dot::<&Vector, Vector>::t_dot(&s, vv),
        (_, 0) => Dot::<Vector, Vector>::t_dot_t(s, vv.clone()), (_, 1) => Dot::<&Vector, Vector>::t_dot_t(s, vv), (_, 2) => Dot::<Vector, Vector>::t_dot_t(&s, vv.clone()), (_, _) => Dot::<&Vector, Vector>::t_dot_t(&s, vv),
    }
}
fn call_vm(k: usize, form: u64, vv: &Vector, o: &Matrix) -> Vector {
    match (k, form) {
        (0, 0) => Dot::<Matrix, Vector>::dot(vv, o.clone()), (0, 1) => Dot::<&Matrix, Vector>::dot(vv, o), (0, 2) => Dot::<Matrix, Vector>::dot(&vv, o.clone()), (0, _) => Dot::<&Matrix, Vector>::dot(&vv, o),
        (1, 0) => Dot::<Matrix, Vector>::dot_t(vv, o.clone()), (1, 1) => Dot::<&Matrix, Vector>::dot_t(vv, o), (1, 2) => Dot::<Matrix, Vector>::dot_t(&vv, o.clone()), (1, _) => Dot::<&Matrix, Vector>::dot_t(&vv, o),
        (2, 0) => Dot::<Matrix, Vector>::t_dot(vv, o.clone()), (2, 1) => Dot::<&Matrix, Vector>::t_dot(vv, o), (2, 2) => Dot::<Matrix, Vector>::t_dot(&vv, o.clone()), (2, _) => Dot::<&Matrix, Vector>::t_dot(&vv, o),
        (_, 0) => Dot::<Matrix, Vector>::t_dot_t(vv, o.clone()), (_, 1) => Dot::<&Matrix, Vector>::t_dot_t(vv, o), (_, 2) => Dot::<Matrix, Vector>::t_dot_t(&vv, o.clone()), (_, _) => Dot::<&Matrix, Vector>::t_dot_t(&vv, o),
    }
}
fn call_vv(k: usize, form: u64, a: &Vector, b: &Vector) -> f64 {
    match (k, form) {
        (0, 0) => Dot::<Vector, f64>::dot(a, b.clone()), (0, 1) => Dot::<&Vector, f64>::dot(a, b), (0, 2) => Dot::<Vector, f64>::dot(&a, b.clone()), (0, _) => Dot::<&Vector, f64>::dot(&a, b),
        (1, 0) => Dot::<Vector, f64>::dot_t(a, b.clone()), (1, 1) => Dot::<&Vector, f64>::dot_t(a, b), (1, 2) => Dot::<Vector, f64>::dot_t(&a, b.clone()), (1, _) => Dot::<&Vector, f64>::dot_t(&a, b),
        (2, 0) => Dot::<Vector, f64>::t_dot(a, b.clone()), (2, 1) => Dot::<&Vector, f64>::t_dot(a, b), (2, 2) => Dot::<Vector, f64>::t_dot(&a, b.clone()), (2, _) => Dot::<&Vector, f64>::t_dot(&a, b),
        (_, 0) => Dot::<Vector, f64>::t_dot_t(a, b.clone()), (_, 1) => Dot::<&Vector, f64>::t_dot_t(a, b), (_, 2) => Dot::<Vector, f64>::t_dot_t(&a, b.clone()), (_, _) => Dot::<&Vector, f64>::t_dot_t(&a, b),
    }
}

pub fn gen(tier: &str, seed: u64, outdir: &str) {
    let mut r = Rng::new(seed);
    let mut cs = Cases::new("C05");
    let thorough = tier == "thorough";
    let maxd = if thorough { 9 } else { 5 };
    // 1. every shape m,l,n in 1..=maxd x 4 flags, integer entries
    for m in 1..=maxd { for l in 1..=maxd { for n in 1..=maxd { for f in 0..4 {
        let (ta, tb) = (f & 1 == 1, f & 2 == 2);
        let (ra, ca, rb, cb) = shapes(ta, tb, m, l, n);
        let a = ints(&mut r, ra * ca); let b = ints(&mut r, rb * cb);
        let res = catch(|| matmul(&a, &b, ra, rb, ta, tb));
        let nt = (m >= 2 && l >= 2 && n >= 2) || ta || tb;
        cs.push(app("CMatmul", vec![fl(&a), fl(&b), Tm::Nat(ra as u64), Tm::Nat(rb as u64), Tm::B(ta), Tm::B(tb), outcome_list(&res)]),
                &format!("matmul/flags{}", f), nt);
        // blocked: a few block sizes per shape (all of 1..=2*max in thorough for small shapes)
        let maxb = 2 * m.max(l).max(n);
        let bss: Vec<usize> = if thorough && m.max(l).max(n) <= 5 { (1..=maxb).collect() }
                              else { vec![1 + r.below(maxb as u64) as usize, 1 + r.below(3) as usize] };
        for bs in bss {
            let res = catch(|| matmul_blocked(&a, &b, ra, rb, ta, tb, bs));
            cs.push(app("CBlocked", vec![fl(&a), fl(&b), Tm::Nat(ra as u64), Tm::Nat(rb as u64), Tm::B(ta), Tm::B(tb), Tm::Nat(bs as u64), outcome_list(&res)]),
                    &format!("blocked/flags{}", f), nt);
        }
    }}}}
    // 2. random real entries, larger shapes
    let nreal = if thorough { 400 } else { 60 };
    let maxr = if thorough { 64 } else { 20 };
    for _ in 0..nreal {
        let (m, l, n) = (1 + r.below(maxr) as usize, 1 + r.below(maxr) as usize, 1 + r.below(maxr) as usize);
        let (ta, tb) = (r.coin(0.5), r.coin(0.5));
        let (ra, ca, rb, cb) = shapes(ta, tb, m, l, n);
        let a = reals(&mut r, ra * ca); let b = reals(&mut r, rb * cb);
        let res = catch(|| matmul(&a, &b, ra, rb, ta, tb));
        cs.push(app("CMatmul", vec![fl(&a), fl(&b), Tm::Nat(ra as u64), Tm::Nat(rb as u64), Tm::B(ta), Tm::B(tb), outcome_list(&res)]), "matmul/real", true);
        let bs = 1 + r.below(2 * m.max(l).max(n) as u64) as usize;
        let res = catch(|| matmul_blocked(&a, &b, ra, rb, ta, tb, bs));
        cs.push(app("CBlocked", vec![fl(&a), fl(&b), Tm::Nat(ra as u64), Tm::Nat(rb as u64), Tm::B(ta), Tm::B(tb), Tm::Nat(bs as u64), outcome_list(&res)]), "blocked/real", true);
        if r.coin(0.3) {
            let res = catch(|| xtx(&a, ra));
            cs.push(app("CXtx", vec![fl(&a), Tm::Nat(ra as u64), outcome_list(&res)]), "xtx", true);
        }
    }
    // 3. malformed stream: arbitrary lengths / row counts / block size 0
    let nbad = if thorough { 1500 } else { 300 };
    for _ in 0..nbad {
        let la = r.below(13) as usize; let lb = r.below(13) as usize;
        let ra = r.below(5) as usize; let rb = r.below(5) as usize;
        let (ta, tb) = (r.coin(0.5), r.coin(0.5));
        let a = ints(&mut r, la); let b = ints(&mut r, lb);
        let res = catch(|| matmul(&a, &b, ra, rb, ta, tb));
        let tag = if res.is_ok() { "malformed-stream/value" } else { "malformed-stream/panic" };
        cs.push(app("CMatmul", vec![fl(&a), fl(&b), Tm::Nat(ra as u64), Tm::Nat(rb as u64), Tm::B(ta), Tm::B(tb), outcome_list(&res)]), tag, res.is_err());
        let bs = r.below(4) as usize;
        let res = catch(|| matmul_blocked(&a, &b, ra, rb, ta, tb, bs));
        cs.push(app("CBlocked", vec![fl(&a), fl(&b), Tm::Nat(ra as u64), Tm::Nat(rb as u64), Tm::B(ta), Tm::B(tb), Tm::Nat(bs as u64), outcome_list(&res)]), tag, res.is_err());
    }
    // 4. the Dot trait: 4 kinds x {MM, MV, VM, VV} x 4 ownership forms
    let ndot = if thorough { 600 } else { 120 };
    for it in 0..ndot {
        let k = it % 4;
        let conform = r.coin(0.75);
        let (m, l, n) = (1 + r.below(5) as usize, 1 + r.below(5) as usize, 1 + r.below(5) as usize);
        let (ta, tb) = (k & 2 == 2, k & 1 == 1);
        // --- matrix . matrix
        let (sr, sc, mut or, oc) = shapes(ta, tb, m, l, n);
        if !conform { or += 1 + r.below(2) as usize; }
        let sd = ints(&mut r, sr * sc); let od = ints(&mut r, or * oc);
        for form in 0..4 {
            let s = Matrix::new(sd.clone(), sr as i32, sc as i32); let o = Matrix::new(od.clone(), or as i32, oc as i32);
            let res = catch(|| { let m = match (k, form) {
                (0, 0) => Dot::<Matrix, Matrix>::dot(&s, o.clone()), (0, 1) => Dot::<&Matrix, Matrix>::dot(&s, &o), (0, 2) => Dot::<Matrix, Matrix>::dot(&&s, o.clone()), (0, _) => Dot::<&Matrix, Matrix>::dot(&&s, &o),
                (1, 0) => Dot::<Matrix, Matrix>::dot_t(&s, o.clone()), (1, 1) => Dot::<&Matrix, Matrix>::dot_t(&s, &o), (1, 2) => Dot::<Matrix, Matrix>::dot_t(&&s, o.clone()), (1, _) => Dot::<&Matrix, Matrix>::dot_t(&&s, &o),
                (2, 0) => Dot::<Matrix, Matrix>::t_dot(&s, o.clone()), (2, 1) => Dot::<&Matrix, Matrix>::t_dot(&s, &o), (2, 2) => Dot::<Matrix, Matrix>::t_dot(&&s, o.clone()), (2, _) => Dot::<&Matrix, Matrix>::t_dot(&&s, &o),
                (_, 0) => Dot::<Matrix, Matrix>::t_dot_t(&s, o.clone()), (_, 1) => Dot::<&Matrix, Matrix>::t_dot_t(&s, &o), (_, 2) => Dot::<Matrix, Matrix>::t_dot_t(&&s, o.clone()), (_, _) => Dot::<&Matrix, Matrix>::t_dot_t(&&s, &o),
            }; mat_out(&m) });
            cs.push(app("CDotMM", vec![Tm::Raw(KINDS[k].into()), Tm::Nat(form), Tm::Nat(sr as u64), Tm::Nat(sc as u64), fl(&sd), Tm::Nat(or as u64), Tm::Nat(oc as u64), fl(&od), outcome_list(&res)]),
                    &format!("dot/MM/{}", KINDS[k]), true);
        }
        // --- matrix . vector (vector as a column); transpose flag on the vector is ignored
        let (sr, sc) = if ta { (l, m) } else { (m, l) };
        let vl = if conform { l } else { l + 1 + r.below(2) as usize };
        let sd = ints(&mut r, sr * sc); let v = ints(&mut r, vl);
        for form in 0..4 {
            let s = Matrix::new(sd.clone(), sr as i32, sc as i32); let vv = Vector::new(v.clone());
            let res = catch(|| { let x: Vector = match (k, form) {
                (0, 0) => Dot::<Vector, Vector>::dot(&s, vv.clone()), (0, 1) => Dot::<&Vector, Vector>::dot(&s, &vv), (0, 2) => Dot::<Vector, Vector>::dot(&&s, vv.clone()), (0, _) => Dot::<&Vector, Vector>::dot(&&s, &vv),
                (1, 0) => Dot::<Vector, Vector>::dot_t(&s, vv.clone()), (1, 1) => Dot::<&Vector, Vector>::dot_t(&s, &vv), (1, 2) => Dot::<Vector, Vector>::dot_t(&&s, vv.clone()), (1, _) => Dot::<&Vector, Vector>::dot_t(&&s, &vv),
                (2, 0) => Dot::<Vector, Vector>::t_dot(&s, vv.clone()), (2, 1) => Dot::<&Vector, Vector>::t_dot(&s, &vv), (2, 2) => Dot::<Vector, Vector>::t_dot(&&s, vv.clone()), (2, _) => Dot::<&Vector, Vector>::t_dot(&&s, &vv),
                (_, 0) => Dot::<Vector, Vector>::t_dot_t(&s, vv.clone()), (_, 1) => Dot::<&Vector, Vector>::t_dot_t(&s, &vv), (_, 2) => Dot::<Vector, Vector>::t_dot_t(&&s, vv.clone()), (_, _) => Dot::<&Vector, Vector>::t_dot_t(&&s, &vv),
            }; x.v });
            cs.push(app("CDotMV", vec![Tm::Raw(KINDS[k].into()), Tm::Nat(form), Tm::Nat(sr as u64), Tm::Nat(sc as u64), fl(&sd), fl(&v), outcome_list(&res)]),
                    &format!("dot/MV/{}", KINDS[k]), true);
        }
        // --- vector . matrix (vector as a row)
        let (or, oc) = if tb { (n, l) } else { (l, n) };
        let od = ints(&mut r, or * oc);
        for form in 0..4 {
            let o = Matrix::new(od.clone(), or as i32, oc as i32); let vv = Vector::new(v.clone());
            let res = catch(|| { let x: Vector = match (k, form) {
                (0, 0) => Dot::<Matrix, Vector>::dot(&vv, o.clone()), (0, 1) => Dot::<&Matrix, Vector>::dot(&vv, &o), (0, 2) => Dot::<Matrix, Vector>::dot(&&vv, o.clone()), (0, _) => Dot::<&Matrix, Vector>::dot(&&vv, &o),
                (1, 0) => Dot::<Matrix, Vector>::dot_t(&vv, o.clone()), (1, 1) => Dot::<&Matrix, Vector>::dot_t(&vv, &o), (1, 2) => Dot::<Matrix, Vector>::dot_t(&&vv, o.clone()), (1, _) => Dot::<&Matrix, Vector>::dot_t(&&vv, &o),
                (2, 0) => Dot::<Matrix, Vector>::t_dot(&vv, o.clone()), (2, 1) => Dot::<&Matrix, Vector>::t_dot(&vv, &o), (2, 2) => Dot::<Matrix, Vector>::t_dot(&&vv, o.clone()), (2, _) => Dot::<&Matrix, Vector>::t_dot(&&vv, &o),
                (_, 0) => Dot::<Matrix, Vector>::t_dot_t(&vv, o.clone()), (_, 1) => Dot::<&Matrix, Vector>::t_dot_t(&vv, &o), (_, 2) => Dot::<Matrix, Vector>::t_dot_t(&&vv, o.clone()), (_, _) => Dot::<&Matrix, Vector>::t_dot_t(&&vv, &o),
            }; x.v });
            cs.push(app("CDotVM", vec![Tm::Raw(KINDS[k].into()), Tm::Nat(form), fl(&v), Tm::Nat(or as u64), Tm::Nat(oc as u64), fl(&od), outcome_list(&res)]),
                    &format!("dot/VM/{}", KINDS[k]), true);
        }
        // --- vector . vector
        let wl = if conform { vl } else { vl + 1 };
        let vlen = if it % 7 == 0 { 8 + r.below(20) as usize } else { vl };
        let v = reals(&mut r, vlen); let w = reals(&mut r, if conform { vlen } else { wl.max(vlen + 1) });
        for form in 0..4 {
            let a = Vector::new(v.clone()); let b = Vector::new(w.clone());
            let res = catch(|| match (k, form) {
                (0, 0) => Dot::<Vector, f64>::dot(&a, b.clone()), (0, 1) => Dot::<&Vector, f64>::dot(&a, &b), (0, 2) => Dot::<Vector, f64>::dot(&&a, b.clone()), (0, _) => Dot::<&Vector, f64>::dot(&&a, &b),
                (1, 0) => Dot::<Vector, f64>::dot_t(&a, b.clone()), (1, 1) => Dot::<&Vector, f64>::dot_t(&a, &b), (1, 2) => Dot::<Vector, f64>::dot_t(&&a, b.clone()), (1, _) => Dot::<&Vector, f64>::dot_t(&&a, &b),
                (2, 0) => Dot::<Vector, f64>::t_dot(&a, b.clone()), (2, 1) => Dot::<&Vector, f64>::t_dot(&a, &b), (2, 2) => Dot::<Vector, f64>::t_dot(&&a, b.clone()), (2, _) => Dot::<&Vector, f64>::t_dot(&&a, &b),
                (_, 0) => Dot::<Vector, f64>::t_dot_t(&a, b.clone()), (_, 1) => Dot::<&Vector, f64>::t_dot_t(&a, &b), (_, 2) => Dot::<Vector, f64>::t_dot_t(&&a, b.clone()), (_, _) => Dot::<&Vector, f64>::t_dot_t(&&a, &b),
            }).map(|x| vec![x]);
            cs.push(app("CDotVV", vec![Tm::Raw(KINDS[k].into()), Tm::Nat(form), fl(&v), fl(&w), outcome_list(&res)]),
                    &format!("dot/VV/{}", KINDS[k]), vlen >= 2);
        }
    }
    // 5. (coverage audit) what sections 1-4 do not draw: xtx on every small integer shape; block sizes beyond 2*max; entries of very different
    //    magnitude (products that underflow, sums that cancel); the Dot trait on larger operands with real entries, mismatches in both directions,
    //    the 0x0 matrix; Vector.Vector at every length 0..=40 (every residue mod 8 around the unrolled part)
    for k in 1..=maxd { for c in 1..=maxd {
        let x = ints(&mut r, k * c);
        let res = catch(|| xtx(&x, k));
        cs.push(app("CXtx", vec![fl(&x), Tm::Nat(k as u64), outcome_list(&res)]), "xtx/int", k >= 2 && c >= 2);
    }}
    let nwide = if thorough { 150 } else { 30 };
    let maxw = if thorough { 40 } else { 12 };
    for it in 0..nwide {
        let (m, l, n) = (1 + r.below(maxw) as usize, 1 + r.below(maxw) as usize, 1 + r.below(maxw) as usize);
        let (ta, tb) = (it & 1 == 1, it & 2 == 2);
        let (ra, ca, rb, cb) = shapes(ta, tb, m, l, n);
        let a = wide(&mut r, ra * ca); let b = wide(&mut r, rb * cb);
        let res = catch(|| matmul(&a, &b, ra, rb, ta, tb));
        cs.push(app("CMatmul", vec![fl(&a), fl(&b), Tm::Nat(ra as u64), Tm::Nat(rb as u64), Tm::B(ta), Tm::B(tb), outcome_list(&res)]), "matmul/wide", true);
        let maxb = 2 * m.max(l).max(n);
        let bs = *r.pick(&[m, l, n, maxb, maxb + 1, maxb + 7, 1000]);
        let res = catch(|| matmul_blocked(&a, &b, ra, rb, ta, tb, bs));
        cs.push(app("CBlocked", vec![fl(&a), fl(&b), Tm::Nat(ra as u64), Tm::Nat(rb as u64), Tm::B(ta), Tm::B(tb), Tm::Nat(bs as u64), outcome_list(&res)]), "blocked/wide", true);
    }
    let nbig = if thorough { 160 } else { 24 };
    let maxg = if thorough { 48 } else { 16 };
    for it in 0..nbig {
        let k = it % 4; let (ta, tb) = (k & 2 == 2, k & 1 == 1);
        let (m, l, n) = (1 + r.below(maxg) as usize, 1 + r.below(maxg) as usize, 1 + r.below(maxg) as usize);
        let delta: i64 = match it % 5 { 3 => 1, 4 => -1, _ => 0 };   // inner dimension of the right operand off by one, either direction
        let l2 = ((l as i64 + delta).max(1)) as usize;
        let cls = (it / 4) as u64 % 2 + 1;
        // Matrix . Matrix
        let (sr, sc) = if ta { (l, m) } else { (m, l) }; let (or, oc) = if tb { (n, l2) } else { (l2, n) };
        let sd = entries(&mut r, cls, sr * sc); let od = entries(&mut r, cls, or * oc);
        let s = Matrix::new(sd.clone(), sr as i32, sc as i32); let o = Matrix::new(od.clone(), or as i32, oc as i32);
        let form = r.below(4);
        let res = catch(|| mat_out(&call_mm(k, form, &s, &o)));
        cs.push(app("CDotMM", vec![Tm::Raw(KINDS[k].into()), Tm::Nat(form), Tm::Nat(sr as u64), Tm::Nat(sc as u64), fl(&sd), Tm::Nat(or as u64), Tm::Nat(oc as u64), fl(&od), outcome_list(&res)]),
                &format!("dot-large/MM/{}", KINDS[k]), true);
        // Matrix . Vector and Vector . Matrix
        let v = entries(&mut r, cls, l2); let vv = Vector::new(v.clone());
        let form = r.below(4);
        let res = catch(|| call_mv(k, form, &s, &vv).v);
        cs.push(app("CDotMV", vec![Tm::Raw(KINDS[k].into()), Tm::Nat(form), Tm::Nat(sr as u64), Tm::Nat(sc as u64), fl(&sd), fl(&v), outcome_list(&res)]),
                &format!("dot-large/MV/{}", KINDS[k]), true);
        let (or, oc) = if tb { (n, l) } else { (l, n) };
        let od = entries(&mut r, cls, or * oc); let o = Matrix::new(od.clone(), or as i32, oc as i32);
        let form = r.below(4);
        let res = catch(|| call_vm(k, form, &vv, &o).v);
        cs.push(app("CDotVM", vec![Tm::Raw(KINDS[k].into()), Tm::Nat(form), fl(&v), Tm::Nat(or as u64), Tm::Nat(oc as u64), fl(&od), outcome_list(&res)]),
                &format!("dot-large/VM/{}", KINDS[k]), true);
    }
    for len in 0..=40usize { for cls in 1..=2u64 {
        let k = (len + cls as usize) % 4; let form = r.below(4);
        let wl = if len % 5 == 4 { len + 1 } else { len };
        let v = entries(&mut r, cls, len); let w = entries(&mut r, cls, wl);
        let (a, b) = (Vector::new(v.clone()), Vector::new(w.clone()));
        let res = catch(|| call_vv(k, form, &a, &b)).map(|x| vec![x]);
        cs.push(app("CDotVV", vec![Tm::Raw(KINDS[k].into()), Tm::Nat(form), fl(&v), fl(&w), outcome_list(&res)]), &format!("dot-len/VV/{}", KINDS[k]), len >= 2);
    }}
    // special values (+-0, +-inf, NaN, the smallest subnormal, the largest finite number): the model must reproduce signed zeros, inf - inf and 0 * inf bit for bit
    let nspec = if thorough { 300 } else { 40 };
    for it in 0..nspec {
        const SPECIAL: [f64; 10] = [0.0, -0.0, f64::INFINITY, f64::NEG_INFINITY, f64::NAN, 5e-324, -5e-324, f64::MAX, -f64::MAX, 1.0];
        let mut sp = |r: &mut Rng, n: usize| -> Vec<f64> { (0..n).map(|_| if r.coin(0.5) { *r.pick(&SPECIAL) } else { r.small_int(3) }).collect() };
        let (m, l, n) = (1 + r.below(5) as usize, 1 + r.below(5) as usize, 1 + r.below(5) as usize);
        let (ta, tb) = (it & 1 == 1, it & 2 == 2);
        let (ra, ca, rb, cb) = shapes(ta, tb, m, l, n);
        let a = sp(&mut r, ra * ca); let b = sp(&mut r, rb * cb);
        let res = catch(|| matmul(&a, &b, ra, rb, ta, tb));
        cs.push(app("CMatmul", vec![fl(&a), fl(&b), Tm::Nat(ra as u64), Tm::Nat(rb as u64), Tm::B(ta), Tm::B(tb), outcome_list(&res)]), "matmul/special-values", true);
        let bs = 1 + r.below(2 * m.max(l).max(n) as u64) as usize;
        let res = catch(|| matmul_blocked(&a, &b, ra, rb, ta, tb, bs));
        cs.push(app("CBlocked", vec![fl(&a), fl(&b), Tm::Nat(ra as u64), Tm::Nat(rb as u64), Tm::B(ta), Tm::B(tb), Tm::Nat(bs as u64), outcome_list(&res)]), "blocked/special-values", true);
        let (x, y) = (sp(&mut r, 8 + l), sp(&mut r, 8 + l));
        let res = catch(|| call_vv(it % 4, 1, &Vector::new(x.clone()), &Vector::new(y.clone()))).map(|v| vec![v]);
        cs.push(app("CDotVV", vec![Tm::Raw(KINDS[it % 4].into()), Tm::Nat(1), fl(&x), fl(&y), outcome_list(&res)]), "dot/VV/special-values", true);
    }
    // the 0x0 matrix (accepted by Matrix::new since the reshape repair) and an empty vector: every product with them panics
    for k in 0..4usize {
        let e = Matrix::new(Vec::<f64>::new(), 0, 0); let one = Matrix::new(vec![1.0, 2.0], 1, 2);
        let res = catch(|| mat_out(&call_mm(k, 1, &e, &e)));
        cs.push(app("CDotMM", vec![Tm::Raw(KINDS[k].into()), Tm::Nat(1), Tm::Nat(0), Tm::Nat(0), fl(&[]), Tm::Nat(0), Tm::Nat(0), fl(&[]), outcome_list(&res)]), "dot-empty", true);
        let ev = Vector::new(Vec::<f64>::new());
        let res = catch(|| call_mv(k, 1, &one, &ev).v);
        cs.push(app("CDotMV", vec![Tm::Raw(KINDS[k].into()), Tm::Nat(1), Tm::Nat(1), Tm::Nat(2), fl(&[1.0, 2.0]), fl(&[]), outcome_list(&res)]), "dot-empty", true);
        let res = catch(|| call_vm(k, 1, &ev, &one).v);
        cs.push(app("CDotVM", vec![Tm::Raw(KINDS[k].into()), Tm::Nat(1), fl(&[]), Tm::Nat(1), Tm::Nat(2), fl(&[1.0, 2.0]), outcome_list(&res)]), "dot-empty", true);
    }
    cs.write(outdir, 400,
             "exhaustive shapes m,l,n in 1..=5 (quick) / 1..=9 (thorough) x 4 transpose flags with integer entries for matmul and matmul_blocked (random / all block sizes), random real shapes, a malformed stream (arbitrary lengths, row counts, block size 0), the 16 Dot impl families x 4 ownership forms (small integer operands, then larger real operands with mismatches in both directions and the 0x0 matrix), xtx on every small integer shape, entries of very different magnitude (underflowing products) with block sizes beyond 2*max, Vector.Vector at every length 0..=40, special values (signed zeros, infinities, NaN, extreme magnitudes); non-trivial = all three dimensions >= 2 or a transpose flag set (products), a panic (malformed stream), any Dot-trait case; distinct by hash of the case term");
}

// ---------------------------------------------------------------------------------------------
// failure-search oracle: the property's statement against the implementation only
fn naive(a: &[f64], b: &[f64], ra: usize, ca: usize, rb: usize, cb: usize, ta: bool, tb: bool) -> Option<(Vec<f64>, Vec<f64>, usize, usize)> {
    let (m, l) = if ta { (ca, ra) } else { (ra, ca) };
    let (l2, n) = if tb { (cb, rb) } else { (rb, cb) };
    if l != l2 { return None; }
    let ga = |i: usize, k: usize| if ta { a[k * ca + i] } else { a[i * ca + k] };
    let gb = |k: usize, j: usize| if tb { b[j * cb + k] } else { b[k * cb + j] };
    let mut c = vec![0.0; m * n]; let mut mag = vec![0.0; m * n];
    for i in 0..m { for j in 0..n { for k in 0..l { c[i * n + j] += ga(i, k) * gb(k, j); mag[i * n + j] += (ga(i, k) * gb(k, j)).abs(); } } }
    Some((c, mag, m, n))
}
fn close(got: &[f64], want: &[f64], mag: &[f64], l: usize) -> bool {
    got.len() == want.len() && got.iter().zip(want).zip(mag).all(|((g, w), m)| (g - w).abs() <= 2.0 * (l as f64 + 2.0) * f64::EPSILON * m)
}

pub fn oracle(tier: &str, seed: u64) -> (u64, Vec<Finding>) {
    let mut r = Rng::new(seed ^ 0xC05);
    let mut out = vec![]; let mut tried = 0u64;
    let iters = if tier == "thorough" { 20000 } else { 3000 };
    for it in 0..iters {
        let big = it % 10 == 0;
        let md = if big { 24 } else { 6 };
        let (m, l, n) = (1 + r.below(md) as usize, 1 + r.below(md) as usize, 1 + r.below(md) as usize);
        let (ta, tb) = (r.coin(0.5), r.coin(0.5));
        let (ra, ca, mut rb, mut cb) = shapes(ta, tb, m, l, n);
        let conform = r.coin(0.8);
        if !conform { if tb { cb += 1 + r.below(2) as usize } else { rb += 1 + r.below(2) as usize } }
        let integer = r.coin(0.6);
        let a = if integer { ints(&mut r, ra * ca) } else { reals(&mut r, ra * ca) };
        let b = if integer { ints(&mut r, rb * cb) } else { reals(&mut r, rb * cb) };
        let bs = 1 + r.below(2 * m.max(l).max(n) as u64) as usize;
        let want = naive(&a, &b, ra, ca, rb, cb, ta, tb);
        let input = format!("a={} b={} rows_a={} rows_b={} transpose_a={} transpose_b={} bsize={}", json_floats(&a), json_floats(&b), ra, rb, ta, tb, bs);
        crumb(&input);
        for (name, got) in [("matmul", catch(|| matmul(&a, &b, ra, rb, ta, tb))), ("matmul_blocked", catch(|| matmul_blocked(&a, &b, ra, rb, ta, tb, bs)))] {
            tried += 1;
            match (&want, &got) {
                (None, Ok(v)) => out.push(Finding { class: format!("{}:nonconformable-accepted", name), what: format!("{} returned {} values for non-conformable shapes (must panic)", name, v.len()), input: input.clone() }),
                (Some((w, mag, _, _)), Ok(v)) => {
                    let ok = if integer { v == w } else { close(v, w, mag, l) };
                    if !ok { out.push(Finding { class: format!("{}:wrong-entry flags=({},{})", name, ta, tb), what: format!("{} returned {:?}, definition gives {:?}", name, v, w), input: input.clone() }); }
                }
                (Some(_), Err(e)) => out.push(Finding { class: format!("{}:conformable-panics flags=({},{})", name, ta, tb), what: format!("{} panicked on conformable shapes: {}", name, e), input: input.clone() }),
                (None, Err(_)) => {}
            }
        }
        // Dot trait (borrowed forms) against the same definition
        if it % 3 == 0 && ra * ca > 0 && rb * cb > 0 {
            let s = Matrix::new(a.clone(), ra as i32, ca as i32); let o = Matrix::new(b.clone(), rb as i32, cb as i32);
            let got = catch(|| { let m = match (ta, tb) { (false, false) => s.dot(&o), (false, true) => s.dot_t(&o), (true, false) => s.t_dot(&o), (true, true) => s.t_dot_t(&o) }; (m.nrows, m.ncols, m.data.v.clone()) });
            tried += 1;
            match (&want, &got) {
                (None, Ok(_)) => out.push(Finding { class: "Dot:nonconformable-accepted".into(), what: "Matrix.dot family returned a value for non-conformable shapes".into(), input: input.clone() }),
                (Some((w, mag, mm, nn)), Ok((gr, gc, v))) => {
                    let ok = gr == mm && gc == nn && if integer { v == w } else { close(v, w, mag, l) };
                    if !ok { out.push(Finding { class: format!("Dot:wrong flags=({},{})", ta, tb), what: format!("Matrix dot family returned {}x{} {:?}, definition gives {}x{} {:?}", gr, gc, v, mm, nn, w), input: input.clone() }); }
                }
                (Some(_), Err(e)) => out.push(Finding { class: format!("Dot:conformable-panics flags=({},{})", ta, tb), what: format!("panicked: {}", e), input: input.clone() }),
                _ => {}
            }
        }
        // Matrix.Vector / Vector.Matrix / Vector.Vector: conformable lengths give the definition, every other length panics
        if it % 4 == 0 {
            let (rr, cc) = (1 + r.below(5) as usize, 1 + r.below(5) as usize);
            let md = ints(&mut r, rr * cc);
            let mm = Matrix::new(md.clone(), rr as i32, cc as i32);
            for t in [false, true] {
                let inner = if t { rr } else { cc }; let outer = if t { cc } else { rr };
                for vl in [inner, inner + 1, 2 * inner, 3 * inner, inner.saturating_sub(1).max(1)] {
                    let v = ints(&mut r, vl); let vv = Vector::new(v.clone());
                    tried += 2;
                    let inp = format!("matrix={}x{} {} vector={} transpose_matrix={}", rr, cc, json_floats(&md), json_floats(&v), t);
                    crumb(&inp);
                    // M.v
                    let got = catch(|| if t { mm.t_dot(&vv).v } else { mm.dot(&vv).v });
                    let want: Option<Vec<f64>> = if vl == inner { Some((0..outer).map(|i| (0..inner).map(|k| (if t { md[k * cc + i] } else { md[i * cc + k] }) * v[k]).sum::<f64>() + 0.0).collect()) } else { None };
                    match (&want, &got) {
                        (None, Ok(g)) => out.push(Finding { class: "Dot-MV:nonconformable-accepted".into(), what: format!("Matrix.Vector product returned {:?} for a vector of length {} against inner dimension {} (must panic)", g, vl, inner), input: inp.clone() }),
                        (Some(w), Ok(g)) => if g != w { out.push(Finding { class: "Dot-MV:wrong".into(), what: format!("Matrix.Vector product returned {:?}, definition gives {:?}", g, w), input: inp.clone() }) },
                        (Some(_), Err(e)) => out.push(Finding { class: "Dot-MV:conformable-panics".into(), what: format!("panicked: {}", e), input: inp.clone() }),
                        _ => {}
                    }
                    // v.M  (vector as a row): inner dimension is the matrix's row count (or column count when the matrix is transposed)
                    let inner2 = if t { cc } else { rr }; let outer2 = if t { rr } else { cc };
                    let got = catch(|| if t { vv.dot_t(&mm).v } else { vv.dot(&mm).v });
                    let want: Option<Vec<f64>> = if vl == inner2 { Some((0..outer2).map(|j| (0..inner2).map(|k| v[k] * (if t { md[j * cc + k] } else { md[k * cc + j] })).sum::<f64>() + 0.0).collect()) } else { None };
                    match (&want, &got) {
                        (None, Ok(g)) => out.push(Finding { class: "Dot-VM:nonconformable-accepted".into(), what: format!("Vector.Matrix product returned {:?} for a vector of length {} against inner dimension {} (must panic)", g, vl, inner2), input: inp.clone() }),
                        (Some(w), Ok(g)) => if g != w { out.push(Finding { class: "Dot-VM:wrong".into(), what: format!("Vector.Matrix product returned {:?}, definition gives {:?}", g, w), input: inp.clone() }) },
                        (Some(_), Err(e)) => out.push(Finding { class: "Dot-VM:conformable-panics".into(), what: format!("panicked: {}", e), input: inp.clone() }),
                        _ => {}
                    }
                }
            }
            let (a1, b1) = (ints(&mut r, rr), ints(&mut r, cc));
            tried += 1;
            let got = catch(|| Vector::new(a1.clone()).dot(&Vector::new(b1.clone())));
            if rr != cc && got.is_ok() { out.push(Finding { class: "Dot-VV:nonconformable-accepted".into(), what: "Vector.Vector product of different lengths returned a value".into(), input: format!("{} . {}", json_floats(&a1), json_floats(&b1)) }); }
            if rr == cc { let w: f64 = a1.iter().zip(&b1).map(|(x, y)| x * y).sum::<f64>() + 0.0; if got != Ok(w) { out.push(Finding { class: "Dot-VV:wrong".into(), what: format!("got {:?}, definition {:e}", got, w), input: format!("{} . {}", json_floats(&a1), json_floats(&b1)) }); } }
        }
        if out.len() > 40 { break; }
    }
    if out.len() <= 40 { oracle_wide(tier, seed, &mut tried, &mut out); }
    (tried, out)
}

// ---------------------------------------------------------------------------------------------
// second part of the failure search (coverage audit): the same demands (equality on integer-valued entries, the
// gamma_l allowance on reals, a panic on every non-conformable call) evaluated on the rest of the quantifier: every shape
// m,l,n in 1..=9 x 4 flags x every block size 1..=2*max (and block sizes beyond), real shapes up to 64, magnitudes far
// from 1, xtx, shape mismatches in both directions and slices that are no matrix at all, all 64 impls of the Dot trait
// (16 methods x 4 ownership forms) with matrices up to 64 and vectors of every length residue mod 8.

/// entries of very different magnitude (log-uniform in 1e-150 .. 1e150, either sign, one in ten exactly zero): no product
/// and no sum of up to 64 products overflows; products may underflow (the reference then underflows in the same way)
fn wide(r: &mut Rng, n: usize) -> Vec<f64> {
    (0..n).map(|_| if r.coin(0.1) { 0.0 } else { let e = r.uniform(-150.0, 150.0); let s = if r.coin(0.5) { -1.0 } else { 1.0 }; s * r.uniform(1.0, 10.0) * (10.0f64).powf(e) }).collect()
}
/// entry class 0: small integers (exact), 1: reals in (-4,4), 2: wide magnitudes
fn entries(r: &mut Rng, class: u64, n: usize) -> Vec<f64> { match class { 0 => ints(r, n), 1 => reals(r, n), _ => wide(r, n) } }

/// one slice-level call judged against the definition (`want` = None: the call is not conformable and must panic)
fn judge(name: &str, want: &Option<(Vec<f64>, Vec<f64>, usize, usize)>, got: &Result<Vec<f64>, String>, integer: bool, l: usize, ta: bool, tb: bool, input: &str, out: &mut Vec<Finding>) {
    match (want, got) {
        (None, Ok(v)) => out.push(Finding { class: format!("{}:nonconformable-accepted", name), what: format!("{} returned {} values for non-conformable shapes (must panic)", name, v.len()), input: input.to_string() }),
        (Some((w, mag, _, _)), Ok(v)) => {
            let ok = if integer { v == w } else { close(v, w, mag, l) };
            if !ok { out.push(Finding { class: format!("{}:wrong-entry flags=({},{})", name, ta, tb), what: format!("{} returned {:?}, definition gives {:?}", name, v, w), input: input.to_string() }); }
        }
        (Some(_), Err(e)) => out.push(Finding { class: format!("{}:conformable-panics flags=({},{})", name, ta, tb), what: format!("{} panicked on conformable shapes: {}", name, e), input: input.to_string() }),
        (None, Err(_)) => {}
    }
}
fn short(v: &[f64]) -> String { json_floats(v) }

fn oracle_wide(tier: &str, seed: u64, tried: &mut u64, out: &mut Vec<Finding>) {
    let thorough = tier == "thorough";
    let mut r = Rng::new(seed ^ 0xC05_0002);
    // W1. every shape m,l,n in 1..=9 x 4 flags (the quantifier's exhaustive part), integer entries, equality; the blocked variant at
    //     EVERY block size 1..=2*max and at block sizes beyond every dimension (the statement says every block size >= 1)
    for m in 1..=9usize { for l in 1..=9usize { for n in 1..=9usize { for f in 0..4 {
        let (ta, tb) = (f & 1 == 1, f & 2 == 2);
        let (ra, ca, rb, cb) = shapes(ta, tb, m, l, n);
        let a = ints(&mut r, ra * ca); let b = ints(&mut r, rb * cb);
        let want = naive(&a, &b, ra, ca, rb, cb, ta, tb);
        let input = format!("a={} b={} rows_a={} rows_b={} transpose_a={} transpose_b={}", json_floats(&a), json_floats(&b), ra, rb, ta, tb);
        crumb(&input);
        *tried += 1;
        judge("matmul", &want, &catch(|| matmul(&a, &b, ra, rb, ta, tb)), true, l, ta, tb, &input, out);
        let maxb = 2 * m.max(l).max(n);
        for bs in (1..=maxb).chain([maxb + 1, 1000, usize::MAX / 2, usize::MAX]) {
            let inp = format!("{} bsize={}", input, bs);
            crumb(&inp);
            *tried += 1;
            judge("matmul_blocked", &want, &catch(|| matmul_blocked(&a, &b, ra, rb, ta, tb, bs)), true, l, ta, tb, &inp, out);
        }
        if out.len() > 40 { return; }
    }}}}
    // W2. xtx = X^T X for every shape k x c in 1..=9 (integer entries: equal to the definition and exactly symmetric)
    for k in 1..=9usize { for c in 1..=9usize {
        let x = ints(&mut r, k * c);
        let want = naive(&x, &x, k, c, k, c, true, false);
        let input = format!("xtx x={} k={}", json_floats(&x), k);
        crumb(&input);
        *tried += 1;
        let got = catch(|| xtx(&x, k));
        judge("xtx", &want, &got, true, k, true, false, &input, out);
        if let Ok(g) = &got { if g.len() == c * c && (0..c).any(|i| (0..c).any(|j| g[i * c + j] != g[j * c + i])) {
            out.push(Finding { class: "xtx:not-symmetric".into(), what: format!("xtx returned {:?}, not a symmetric matrix", g), input: input.clone() }); } }
        // a slice whose length is no multiple of k is no matrix with k rows: must panic
        if k >= 2 { let mut y = x.clone(); y.push(1.0); *tried += 1;
            let inp = format!("xtx x={} k={}", json_floats(&y), k); crumb(&inp);
            judge("xtx", &None, &catch(|| xtx(&y, k)), true, k, true, false, &inp, out); }
    }}
    // W3. shapes up to 64 (the quantifier's random part; the first loop stops at 24), three entry classes, flags, block sizes 1..=2*max and the
    //     dimensions themselves, shape mismatches in both directions; the same operands through the Dot trait (a random impl) and through xtx
    let n3 = if thorough { 500 } else { 45 };
    for it in 0..n3 {
        let dim = |r: &mut Rng| if r.coin(0.7) { 25 + r.below(40) as usize } else { 1 + r.below(64) as usize };
        let (m, l, n) = match it % 8 { 0 => (64, 64, 64), 1 => (1, 64, 1), 2 => (64, 1, 64), _ => (dim(&mut r), dim(&mut r), dim(&mut r)) };
        let f = it % 4; let (ta, tb) = (f & 1 == 1, f & 2 == 2);
        let (ra, ca, mut rb, mut cb) = shapes(ta, tb, m, l, n);
        if it % 8 > 2 && r.coin(0.15) { // inner dimension of b off by one or two, in either direction
            let d = 1 + r.below(2) as usize; let inner = if tb { &mut cb } else { &mut rb };
            if r.coin(0.5) && *inner > d { *inner -= d } else { *inner += d }
        }
        let class = (it / 4) as u64 % 3;
        let a = entries(&mut r, class, ra * ca); let b = entries(&mut r, class, rb * cb);
        let want = naive(&a, &b, ra, ca, rb, cb, ta, tb);
        let maxd = m.max(l).max(n);
        let bs = match r.below(5) { 0 => m, 1 => l, 2 => n, 3 => 2 * maxd, _ => 1 + r.below(2 * maxd as u64) as usize };
        let input = format!("a={} b={} rows_a={} rows_b={} transpose_a={} transpose_b={} bsize={}", short(&a), short(&b), ra, rb, ta, tb, bs);
        crumb(&input);
        *tried += 2;
        judge("matmul", &want, &catch(|| matmul(&a, &b, ra, rb, ta, tb)), class == 0, l, ta, tb, &input, out);
        judge("matmul_blocked", &want, &catch(|| matmul_blocked(&a, &b, ra, rb, ta, tb, bs)), class == 0, l, ta, tb, &input, out);
        // Dot trait, one of the 4 ownership forms of the method with these flags (kind index: 0 dot, 1 dot_t, 2 t_dot, 3 t_dot_t)
        let k = (if ta { 2 } else { 0 }) + (if tb { 1 } else { 0 }); let form = r.below(4);
        let s = Matrix::new(a.clone(), ra as i32, ca as i32); let o = Matrix::new(b.clone(), rb as i32, cb as i32);
        *tried += 1;
        let got = catch(|| { let p = call_mm(k, form, &s, &o); (p.nrows, p.ncols, p.data.v.clone()) });
        judge_mm(k, form, &want, &got, class == 0, l, &input, out);
        // xtx of a
        let wx = naive(&a, &a, ra, ca, ra, ca, true, false);
        *tried += 1;
        let inp = format!("xtx x={} k={}", short(&a), ra); crumb(&inp);
        let gx = catch(|| xtx(&a, ra));
        judge("xtx", &wx, &gx, class == 0, ra, true, false, &inp, out);
        if let (Ok(g), Some((_, mag, _, _))) = (&gx, &wx) { if g.len() == ca * ca && (0..ca).any(|i| (0..ca).any(|j| (g[i * ca + j] - g[j * ca + i]).abs() > 2.0 * (ra as f64 + 2.0) * f64::EPSILON * mag[i * ca + j])) {
            out.push(Finding { class: "xtx:not-symmetric".into(), what: "xtx returned a matrix that is not symmetric".into(), input: inp.clone() }); } }
        if out.len() > 40 { return; }
    }
    // W4. slices that need not be matrices at all: arbitrary lengths and row counts (>= 1), flags, block sizes; conformable exactly when both
    //     lengths are multiples of the row counts and the inner dimensions agree
    let n4 = if thorough { 12000 } else { 1500 };
    for _ in 0..n4 {
        let (la, lb) = (1 + r.below(30) as usize, 1 + r.below(30) as usize);
        let (ra, rb) = (1 + r.below(6) as usize, 1 + r.below(6) as usize);
        let (ta, tb) = (r.coin(0.5), r.coin(0.5));
        let a = ints(&mut r, la); let b = ints(&mut r, lb);
        let bs = 1 + r.below(8) as usize;
        let want = if la % ra == 0 && lb % rb == 0 { naive(&a, &b, ra, la / ra, rb, lb / rb, ta, tb) } else { None };
        let input = format!("a={} b={} rows_a={} rows_b={} transpose_a={} transpose_b={} bsize={}", json_floats(&a), json_floats(&b), ra, rb, ta, tb, bs);
        crumb(&input);
        *tried += 2;
        let l = if ta { ra } else { la / ra };
        judge("matmul", &want, &catch(|| matmul(&a, &b, ra, rb, ta, tb)), true, l, ta, tb, &input, out);
        judge("matmul_blocked", &want, &catch(|| matmul_blocked(&a, &b, ra, rb, ta, tb, bs)), true, l, ta, tb, &input, out);
        if out.len() > 40 { return; }
    }
    // W5. the Dot trait: all 16 methods x 4 ownership forms of Matrix.Matrix, Matrix.Vector, Vector.Matrix, Vector.Vector
    let n5 = if thorough { 2500 } else { 260 };
    for it in 0..n5 {
        let dim = |r: &mut Rng| match r.below(10) { 0 => 1, 1 => 10 + r.below(55) as usize, _ => 1 + r.below(9) as usize };
        let (m, l, n) = (dim(&mut r), dim(&mut r), dim(&mut r));
        let class = (it / 3) as u64 % 3; let integer = class == 0;
        let conform = it % 3 != 2;
        for k in 0..4usize {
            let (ta, tb) = (k & 2 == 2, k & 1 == 1);
            // --- Matrix . Matrix
            let (sr, sc, mut or, mut oc) = shapes(ta, tb, m, l, n);
            if !conform { let d = 1 + r.below(2) as usize; let inner = if tb { &mut oc } else { &mut or };
                          if r.coin(0.5) && *inner > d { *inner -= d } else { *inner += d } }
            let sd = entries(&mut r, class, sr * sc); let od = entries(&mut r, class, or * oc);
            let want = naive(&sd, &od, sr, sc, or, oc, ta, tb);
            let s = Matrix::new(sd.clone(), sr as i32, sc as i32); let o = Matrix::new(od.clone(), or as i32, oc as i32);
            let input = format!("self={}x{} {} other={}x{} {}", sr, sc, short(&sd), or, oc, short(&od));
            for form in 0..4u64 {
                crumb(&format!("Matrix.{}(Matrix) form {} {}", KINDS[k], form, input));
                *tried += 1;
                let got = catch(|| { let p = call_mm(k, form, &s, &o); (p.nrows, p.ncols, p.data.v.clone()) });
                judge_mm(k, form, &want, &got, integer, l, &input, out);
            }
            // --- Matrix . Vector (the vector is a column; a transpose flag on the vector does nothing): op(M) is m x l
            let (sr, sc) = if ta { (l, m) } else { (m, l) };
            let sd = entries(&mut r, class, sr * sc);
            let s = Matrix::new(sd.clone(), sr as i32, sc as i32);
            let vl = if conform { l } else { *r.pick(&[l + 1, l.saturating_sub(1), 2 * l, l * m, if m != l { m } else { l + 2 }, 0]) };
            let vl = if !conform && vl == l { l + 1 } else { vl };
            let v = entries(&mut r, class, vl); let vv = Vector::new(v.clone());
            let want: Option<(Vec<f64>, Vec<f64>)> = if vl == l { Some((0..m).map(|i| { let (mut c, mut g) = (0.0, 0.0); for q in 0..l { let x = if ta { sd[q * sc + i] } else { sd[i * sc + q] }; c += x * v[q]; g += (x * v[q]).abs(); } (c, g) }).unzip()) } else { None };
            let input = format!("matrix={}x{} {} vector={}", sr, sc, short(&sd), short(&v));
            for form in 0..4u64 {
                crumb(&format!("Matrix.{}(Vector) form {} {}", KINDS[k], form, input));
                *tried += 1;
                let got = catch(|| call_mv(k, form, &s, &vv).v);
                judge_v("Dot-MV", "Matrix.Vector", k, form, &want, &got, integer, l, &input, out);
            }
            // --- Vector . Matrix (the vector is a row): op(O) is l x n
            let (or, oc) = if tb { (n, l) } else { (l, n) };
            let od = entries(&mut r, class, or * oc);
            let o = Matrix::new(od.clone(), or as i32, oc as i32);
            let vl = if conform { l } else { *r.pick(&[l + 1, l.saturating_sub(1), 2 * l, l * n, if n != l { n } else { l + 2 }, 0]) };
            let vl = if !conform && vl == l { l + 1 } else { vl };
            let v = entries(&mut r, class, vl); let vv = Vector::new(v.clone());
            let want: Option<(Vec<f64>, Vec<f64>)> = if vl == l { Some((0..n).map(|j| { let (mut c, mut g) = (0.0, 0.0); for q in 0..l { let x = if tb { od[j * oc + q] } else { od[q * oc + j] }; c += v[q] * x; g += (v[q] * x).abs(); } (c, g) }).unzip()) } else { None };
            let input = format!("vector={} matrix={}x{} {}", short(&v), or, oc, short(&od));
            for form in 0..4u64 {
                crumb(&format!("Vector.{}(Matrix) form {} {}", KINDS[k], form, input));
                *tried += 1;
                let got = catch(|| call_vm(k, form, &vv, &o).v);
                judge_v("Dot-VM", "Vector.Matrix", k, form, &want, &got, integer, l, &input, out);
            }
            // --- Vector . Vector: every length 0..=40 in turn (every residue mod 8, below and above the 8-way unrolled part), then up to 64
            let len = if it < 41 { it } else { r.below(65) as usize };
            let wl = if conform { len } else if r.coin(0.5) && len > 0 { len - 1 } else { len + 1 + r.below(8) as usize };
            let x = entries(&mut r, class, len); let y = entries(&mut r, class, wl);
            let want: Option<(Vec<f64>, Vec<f64>)> = if wl == len { let (mut c, mut g) = (0.0, 0.0); for q in 0..len { c += x[q] * y[q]; g += (x[q] * y[q]).abs(); } Some((vec![c], vec![g])) } else { None };
            let (xv, yv) = (Vector::new(x.clone()), Vector::new(y.clone()));
            let input = format!("{} . {}", short(&x), short(&y));
            for form in 0..4u64 {
                crumb(&format!("Vector.{}(Vector) form {} {}", KINDS[k], form, input));
                *tried += 1;
                let got = catch(|| vec![call_vv(k, form, &xv, &yv)]);
                judge_v("Dot-VV", "Vector.Vector", k, form, &want, &got, integer, len, &input, out);
            }
        }
        if out.len() > 40 { return; }
    }
}

const METHODS: [&str; 4] = ["dot", "dot_t", "t_dot", "t_dot_t"];
const FORMS: [&str; 4] = ["(&T).m(U)", "(&T).m(&U)", "(&&T).m(U)", "(&&T).m(&U)"];

fn judge_mm(k: usize, form: u64, want: &Option<(Vec<f64>, Vec<f64>, usize, usize)>, got: &Result<(usize, usize, Vec<f64>), String>, integer: bool, l: usize, input: &str, out: &mut Vec<Finding>) {
    let input = format!("Matrix.{}(Matrix) form {} {}", METHODS[k], FORMS[form as usize], input);
    let (ta, tb) = (k & 2 == 2, k & 1 == 1);
    match (want, got) {
        (None, Ok(_)) => out.push(Finding { class: "Dot:nonconformable-accepted".into(), what: "Matrix dot family returned a value for non-conformable shapes".into(), input }),
        (Some((w, mag, mm, nn)), Ok((gr, gc, v))) => {
            let ok = gr == mm && gc == nn && if integer { v == w } else { close(v, w, mag, l) };
            if !ok { out.push(Finding { class: format!("Dot:wrong flags=({},{})", ta, tb), what: format!("Matrix dot family returned {}x{} {:?}, definition gives {}x{} {:?}", gr, gc, v, mm, nn, w), input }); }
        }
        (Some(_), Err(e)) => out.push(Finding { class: format!("Dot:conformable-panics flags=({},{})", ta, tb), what: format!("panicked: {}", e), input }),
        _ => {}
    }
}
fn judge_v(class: &str, name: &str, k: usize, form: u64, want: &Option<(Vec<f64>, Vec<f64>)>, got: &Result<Vec<f64>, String>, integer: bool, l: usize, input: &str, out: &mut Vec<Finding>) {
    let input = format!("{} method {} form {} {}", name, METHODS[k], FORMS[form as usize], input);
    match (want, got) {
        (None, Ok(g)) => out.push(Finding { class: format!("{}:nonconformable-accepted", class), what: format!("{} product returned {:?} for operands whose inner dimensions differ (must panic)", name, g), input }),
        (Some((w, mag)), Ok(g)) => {
            let ok = if integer { g == w } else { close(g, w, mag, l) };
            if !ok { out.push(Finding { class: format!("{}:wrong", class), what: format!("{} product returned {:?}, definition gives {:?}", name, g, w), input }); }
        }
        (Some(_), Err(e)) => out.push(Finding { class: format!("{}:conformable-panics", class), what: format!("panicked: {}", e), input }),
        _ => {}
    }
}
