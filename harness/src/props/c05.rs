//! C05 — matrix products: case generation for the Coq correspondence and the failure-search oracle.
use crate::util::*;
use compute::linalg::{matmul, matmul_blocked, xtx, Dot, Matrix, Vector};

/// small integers, sometimes (one operand in six) scaled as a whole by a power of two between 2^-70 and 2^70: every product and partial sum
/// stays exact, while magnitudes leave the neighbourhood of 1 (entries far below machine epsilon are still entries)
fn ints(r: &mut Rng, n: usize) -> Vec<f64> {
    let c = if r.coin(1.0 / 6.0) { (2.0f64).powi(r.range(-70, 70) as i32) } else { 1.0 };
    (0..n).map(|_| r.small_int(9) * c).collect()
}
fn reals(r: &mut Rng, n: usize) -> Vec<f64> { (0..n).map(|_| r.uniform(-4.0, 4.0)).collect() }

fn shapes(ta: bool, tb: bool, m: usize, l: usize, n: usize) -> (usize, usize, usize, usize) {
    // (rows_a, cols_a, rows_b, cols_b) so that op(A) is m x l and op(B) is l x n
    let (ra, ca) = if ta { (l, m) } else { (m, l) };
    let (rb, cb) = if tb { (n, l) } else { (l, n) };
    (ra, ca, rb, cb)
}

fn mat_out(m: &Matrix) -> Vec<f64> {
    let mut v = vec![m.nrows as f64, m.ncols as f64];
    v.extend_from_slice(&m.data);
    v
}

const KINDS: [&str; 4] = ["DotNN", "DotNT", "DotTN", "DotTT"];

pub fn gen(tier: &str, seed: u64, outdir: &str) {
    let mut r = Rng::new(seed);
    let mut cs = Cases::new("C05");
    let thorough = tier == "thorough";
    let maxd = if thorough { 9 } else { 5 };
    // 1. every shape m,l,n in 1..=maxd x 4 flags, integer entries
    for m in 1..=maxd { for l in 1..=maxd { for n in 1..=maxd { for f in 0..4 {
        let (ta, tb) = (f & 1 == 1, f & 2 == 2);
        let (ra, ca, rb, cb) = shapes(ta, tb, m, l, n);
        let a = ints(&mut r, ra * ca); let b = ints(&mut r, rb * cb);
        let res = catch(|| matmul(&a, &b, ra, rb, ta, tb));
        let nt = (m >= 2 && l >= 2 && n >= 2) || ta || tb;
        cs.push(app("CMatmul", vec![fl(&a), fl(&b), Tm::Nat(ra as u64), Tm::Nat(rb as u64), Tm::B(ta), Tm::B(tb), outcome_list(&res)]),
                &format!("matmul/flags{}", f), nt);
        // blocked: a few block sizes per shape (all of 1..=2*max in thorough for small shapes)
        let maxb = 2 * m.max(l).max(n);
        let bss: Vec<usize> = if thorough && m.max(l).max(n) <= 5 { (1..=maxb).collect() }
                              else { vec![1 + r.below(maxb as u64) as usize, 1 + r.below(3) as usize] };
        for bs in bss {
            let res = catch(|| matmul_blocked(&a, &b, ra, rb, ta, tb, bs));
            cs.push(app("CBlocked", vec![fl(&a), fl(&b), Tm::Nat(ra as u64), Tm::Nat(rb as u64), Tm::B(ta), Tm::B(tb), Tm::Nat(bs as u64), outcome_list(&res)]),
                    &format!("blocked/flags{}", f), nt);
        }
    }}}}
    // 2. random real entries, larger shapes
    let nreal = if thorough { 400 } else { 60 };
    let maxr = if thorough { 64 } else { 20 };
    for _ in 0..nreal {
        let (m, l, n) = (1 + r.below(maxr) as usize, 1 + r.below(maxr) as usize, 1 + r.below(maxr) as usize);
        let (ta, tb) = (r.coin(0.5), r.coin(0.5));
        let (ra, ca, rb, cb) = shapes(ta, tb, m, l, n);
        let a = reals(&mut r, ra * ca); let b = reals(&mut r, rb * cb);
        let res = catch(|| matmul(&a, &b, ra, rb, ta, tb));
        cs.push(app("CMatmul", vec![fl(&a), fl(&b), Tm::Nat(ra as u64), Tm::Nat(rb as u64), Tm::B(ta), Tm::B(tb), outcome_list(&res)]), "matmul/real", true);
        let bs = 1 + r.below(2 * m.max(l).max(n) as u64) as usize;
        let res = catch(|| matmul_blocked(&a, &b, ra, rb, ta, tb, bs));
        cs.push(app("CBlocked", vec![fl(&a), fl(&b), Tm::Nat(ra as u64), Tm::Nat(rb as u64), Tm::B(ta), Tm::B(tb), Tm::Nat(bs as u64), outcome_list(&res)]), "blocked/real", true);
        if r.coin(0.3) {
            let res = catch(|| xtx(&a, ra));
            cs.push(app("CXtx", vec![fl(&a), Tm::Nat(ra as u64), outcome_list(&res)]), "xtx", true);
        }
    }
    // 3. malformed stream: arbitrary lengths / row counts / block size 0
    let nbad = if thorough { 1500 } else { 300 };
    for _ in 0..nbad {
        let la = r.below(13) as usize; let lb = r.below(13) as usize;
        let ra = r.below(5) as usize; let rb = r.below(5) as usize;
        let (ta, tb) = (r.coin(0.5), r.coin(0.5));
        let a = ints(&mut r, la); let b = ints(&mut r, lb);
        let res = catch(|| matmul(&a, &b, ra, rb, ta, tb));
        let tag = if res.is_ok() { "malformed-stream/value" } else { "malformed-stream/panic" };
        cs.push(app("CMatmul", vec![fl(&a), fl(&b), Tm::Nat(ra as u64), Tm::Nat(rb as u64), Tm::B(ta), Tm::B(tb), outcome_list(&res)]), tag, res.is_err());
        let bs = r.below(4) as usize;
        let res = catch(|| matmul_blocked(&a, &b, ra, rb, ta, tb, bs));
        cs.push(app("CBlocked", vec![fl(&a), fl(&b), Tm::Nat(ra as u64), Tm::Nat(rb as u64), Tm::B(ta), Tm::B(tb), Tm::Nat(bs as u64), outcome_list(&res)]), tag, res.is_err());
    }
    // 4. the Dot trait: 4 kinds x {MM, MV, VM, VV} x 4 ownership forms
    let ndot = if thorough { 600 } else { 120 };
    for it in 0..ndot {
        let k = it % 4;
        let conform = r.coin(0.75);
        let (m, l, n) = (1 + r.below(5) as usize, 1 + r.below(5) as usize, 1 + r.below(5) as usize);
        let (ta, tb) = (k & 2 == 2, k & 1 == 1);
        // --- matrix . matrix
        let (sr, sc, mut or, oc) = shapes(ta, tb, m, l, n);
        if !conform { or += 1 + r.below(2) as usize; }
        let sd = ints(&mut r, sr * sc); let od = ints(&mut r, or * oc);
        for form in 0..4 {
            let s = Matrix::new(sd.clone(), sr as i32, sc as i32); let o = Matrix::new(od.clone(), or as i32, oc as i32);
            let res = catch(|| { let m = match (k, form) {
                (0, 0) => Dot::<Matrix, Matrix>::dot(&s, o.clone()), (0, 1) => Dot::<&Matrix, Matrix>::dot(&s, &o), (0, 2) => Dot::<Matrix, Matrix>::dot(&&s, o.clone()), (0, _) => Dot::<&Matrix, Matrix>::dot(&&s, &o),
                (1, 0) => Dot::<Matrix, Matrix>::dot_t(&s, o.clone()), (1, 1) => Dot::<&Matrix, Matrix>::dot_t(&s, &o), (1, 2) => Dot::<Matrix, Matrix>::dot_t(&&s, o.clone()), (1, _) => Dot::<&Matrix, Matrix>::dot_t(&&s, &o),
                (2, 0) => Dot::<Matrix, Matrix>::t_dot(&s, o.clone()), (2, 1) => Dot::<&Matrix, Matrix>::t_dot(&s, &o), (2, 2) => Dot::<Matrix, Matrix>::t_dot(&&s, o.clone()), (2, _) => Dot::<&Matrix, Matrix>::t_dot(&&s, &o),
                (_, 0) => Dot::<Matrix, Matrix>::t_dot_t(&s, o.clone()), (_, 1) => Dot::<&Matrix, Matrix>::t_dot_t(&s, &o), (_, 2) => Dot::<Matrix, Matrix>::t_dot_t(&&s, o.clone()), (_, _) => Dot::<&Matrix, Matrix>::t_dot_t(&&s, &o),
            }; mat_out(&m) });
            cs.push(app("CDotMM", vec![Tm::Raw(KINDS[k].into()), Tm::Nat(form), Tm::Nat(sr as u64), Tm::Nat(sc as u64), fl(&sd), Tm::Nat(or as u64), Tm::Nat(oc as u64), fl(&od), outcome_list(&res)]),
                    &format!("dot/MM/{}", KINDS[k]), true);
        }
        // --- matrix . vector (vector as a column); transpose flag on the vector is ignored
        let (sr, sc) = if ta { (l, m) } else { (m, l) };
        let vl = if conform { l } else { l + 1 + r.below(2) as usize };
        let sd = ints(&mut r, sr * sc); let v = ints(&mut r, vl);
        for form in 0..4 {
            let s = Matrix::new(sd.clone(), sr as i32, sc as i32); let vv = Vector::new(v.clone());
            let res = catch(|| { let x: Vector = match (k, form) {
                (0, 0) => Dot::<Vector, Vector>::dot(&s, vv.clone()), (0, 1) => Dot::<&Vector, Vector>::dot(&s, &vv), (0, 2) => Dot::<Vector, Vector>::dot(&&s, vv.clone()), (0, _) => Dot::<&Vector, Vector>::dot(&&s, &vv),
                (1, 0) => Dot::<Vector, Vector>::dot_t(&s, vv.clone()), (1, 1) => Dot::<&Vector, Vector>::dot_t(&s, &vv), (1, 2) => Dot::<Vector, Vector>::dot_t(&&s, vv.clone()), (1, _) => Dot::<&Vector, Vector>::dot_t(&&s, &vv),
                (2, 0) => Dot::<Vector, Vector>::t_dot(&s, vv.clone()), (2, 1) => Dot::<&Vector, Vector>::t_dot(&s, &vv), (2, 2) => Dot::<Vector, Vector>::t_dot(&&s, vv.clone()), (2, _) => Dot::<&Vector, Vector>::t_dot(&&s, &vv),
                (_, 0) => Dot::<Vector, Vector>::t_dot_t(&s, vv.clone()), (_, 1) => Dot::<&Vector, Vector>::t_dot_t(&s, &vv), (_, 2) => Dot::<Vector, Vector>::t_dot_t(&&s, vv.clone()), (_, _) => Dot::<&Vector, Vector>::t_dot_t(&&s, &vv),
            }; x.v });
            cs.push(app("CDotMV", vec![Tm::Raw(KINDS[k].into()), Tm::Nat(form), Tm::Nat(sr as u64), Tm::Nat(sc as u64), fl(&sd), fl(&v), outcome_list(&res)]),
                    &format!("dot/MV/{}", KINDS[k]), true);
        }
        // --- vector . matrix (vector as a row)
        let (or, oc) = if tb { (n, l) } else { (l, n) };
        let od = ints(&mut r, or * oc);
        for form in 0..4 {
            let o = Matrix::new(od.clone(), or as i32, oc as i32); let vv = Vector::new(v.clone());
            let res = catch(|| { let x: Vector = match (k, form) {
                (0, 0) => Dot::<Matrix, Vector>::dot(&vv, o.clone()), (0, 1) => Dot::<&Matrix, Vector>::dot(&vv, &o), (0, 2) => Dot::<Matrix, Vector>::dot(&&vv, o.clone()), (0, _) => Dot::<&Matrix, Vector>::dot(&&vv, &o),
                (1, 0) => Dot::<Matrix, Vector>::dot_t(&vv, o.clone()), (1, 1) => Dot::<&Matrix, Vector>::dot_t(&vv, &o), (1, 2) => Dot::<Matrix, Vector>::dot_t(&&vv, o.clone()), (1, _) => Dot::<&Matrix, Vector>::dot_t(&&vv, &o),
                (2, 0) => Dot::<Matrix, Vector>::t_dot(&vv, o.clone()), (2, 1) => Dot::<&Matrix, Vector>::t_dot(&vv, &o), (2, 2) => Dot::<Matrix, Vector>::t_dot(&&vv, o.clone()), (2, _) => Dot::<&Matrix, Vector>::t_dot(&&vv, &o),
                (_, 0) => Dot::<Matrix, Vector>::t_dot_t(&vv, o.clone()), (_, 1) => Dot::<&Matrix, Vector>::t_dot_t(&vv, &o), (_, 2) => Dot::<Matrix, Vector>::t_dot_t(&&vv, o.clone()), (_, _) => Dot::<&Matrix, Vector>::t_dot_t(&&vv, &o),
            }; x.v });
            cs.push(app("CDotVM", vec![Tm::Raw(KINDS[k].into()), Tm::Nat(form), fl(&v), Tm::Nat(or as u64), Tm::Nat(oc as u64), fl(&od), outcome_list(&res)]),
                    &format!("dot/VM/{}", KINDS[k]), true);
        }
        // --- vector . vector
        let wl = if conform { vl } else { vl + 1 };
        let vlen = if it % 7 == 0 { 8 + r.below(20) as usize } else { vl };
        let v = reals(&mut r, vlen); let w = reals(&mut r, if conform { vlen } else { wl.max(vlen + 1) });
        for form in 0..4 {
            let a = Vector::new(v.clone()); let b = Vector::new(w.clone());
            let res = catch(|| match (k, form) {
                (0, 0) => Dot::<Vector, f64>::dot(&a, b.clone()), (0, 1) => Dot::<&Vector, f64>::dot(&a, &b), (0, 2) => Dot::<Vector, f64>::dot(&&a, b.clone()), (0, _) => Dot::<&Vector, f64>::dot(&&a, &b),
                (1, 0) => Dot::<Vector, f64>::dot_t(&a, b.clone()), (1, 1) => Dot::<&Vector, f64>::dot_t(&a, &b), (1, 2) => Dot::<Vector, f64>::dot_t(&&a, b.clone()), (1, _) => Dot::<&Vector, f64>::dot_t(&&a, &b),
                (2, 0) => Dot::<Vector, f64>::t_dot(&a, b.clone()), (2, 1) => Dot::<&Vector, f64>::t_dot(&a, &b), (2, 2) => Dot::<Vector, f64>::t_dot(&&a, b.clone()), (2, _) => Dot::<&Vector, f64>::t_dot(&&a, &b),
                (_, 0) => Dot::<Vector, f64>::t_dot_t(&a, b.clone()), (_, 1) => Dot::<&Vector, f64>::t_dot_t(&a, &b), (_, 2) => Dot::<Vector, f64>::t_dot_t(&&a, b.clone()), (_, _) => Dot::<&Vector, f64>::t_dot_t(&&a, &b),
            }).map(|x| vec![x]);
            cs.push(app("CDotVV", vec![Tm::Raw(KINDS[k].into()), Tm::Nat(form), fl(&v), fl(&w), outcome_list(&res)]),
                    &format!("dot/VV/{}", KINDS[k]), vlen >= 2);
        }
    }
    cs.write(outdir, 400,
             "exhaustive shapes m,l,n in 1..=5 (quick) / 1..=9 (thorough) x 4 transpose flags with integer entries for matmul and matmul_blocked (random / all block sizes), random real shapes, a malformed stream (arbitrary lengths, row counts, block size 0), and the 16 Dot impl families x 4 ownership forms; non-trivial = all three dimensions >= 2 or a transpose flag set (products), a panic (malformed stream), any Dot-trait case; distinct by hash of the case term");
}

// ---------------------------------------------------------------------------------------------
// failure-search oracle: the property's statement against the implementation only
fn naive(a: &[f64], b: &[f64], ra: usize, ca: usize, rb: usize, cb: usize, ta: bool, tb: bool) -> Option<(Vec<f64>, Vec<f64>, usize, usize)> {
    let (m, l) = if ta { (ca, ra) } else { (ra, ca) };
    let (l2, n) = if tb { (cb, rb) } else { (rb, cb) };
    if l != l2 { return None; }
    let ga = |i: usize, k: usize| if ta { a[k * ca + i] } else { a[i * ca + k] };
    let gb = |k: usize, j: usize| if tb { b[j * cb + k] } else { b[k * cb + j] };
    let mut c = vec![0.0; m * n]; let mut mag = vec![0.0; m * n];
    for i in 0..m { for j in 0..n { for k in 0..l { c[i * n + j] += ga(i, k) * gb(k, j); mag[i * n + j] += (ga(i, k) * gb(k, j)).abs(); } } }
    Some((c, mag, m, n))
}
fn close(got: &[f64], want: &[f64], mag: &[f64], l: usize) -> bool {
    got.len() == want.len() && got.iter().zip(want).zip(mag).all(|((g, w), m)| (g - w).abs() <= 2.0 * (l as f64 + 2.0) * f64::EPSILON * m)
}

pub fn oracle(tier: &str, seed: u64) -> (u64, Vec<Finding>) {
    let mut r = Rng::new(seed ^ 0xC05);
    let mut out = vec![]; let mut tried = 0u64;
    let iters = if tier == "thorough" { 20000 } else { 3000 };
    for it in 0..iters {
        let big = it % 10 == 0;
        let md = if big { 24 } else { 6 };
        let (m, l, n) = (1 + r.below(md) as usize, 1 + r.below(md) as usize, 1 + r.below(md) as usize);
        let (ta, tb) = (r.coin(0.5), r.coin(0.5));
        let (ra, ca, mut rb, mut cb) = shapes(ta, tb, m, l, n);
        let conform = r.coin(0.8);
        if !conform { if tb { cb += 1 + r.below(2) as usize } else { rb += 1 + r.below(2) as usize } }
        let integer = r.coin(0.6);
        let a = if integer { ints(&mut r, ra * ca) } else { reals(&mut r, ra * ca) };
        let b = if integer { ints(&mut r, rb * cb) } else { reals(&mut r, rb * cb) };
        let bs = 1 + r.below(2 * m.max(l).max(n) as u64) as usize;
        let want = naive(&a, &b, ra, ca, rb, cb, ta, tb);
        let input = format!("a={} b={} rows_a={} rows_b={} transpose_a={} transpose_b={} bsize={}", json_floats(&a), json_floats(&b), ra, rb, ta, tb, bs);
        crumb(&input);
        for (name, got) in [("matmul", catch(|| matmul(&a, &b, ra, rb, ta, tb))), ("matmul_blocked", catch(|| matmul_blocked(&a, &b, ra, rb, ta, tb, bs)))] {
            tried += 1;
            match (&want, &got) {
                (None, Ok(v)) => out.push(Finding { class: format!("{}:nonconformable-accepted", name), what: format!("{} returned {} values for non-conformable shapes (must panic)", name, v.len()), input: input.clone() }),
                (Some((w, mag, _, _)), Ok(v)) => {
                    let ok = if integer { v == w } else { close(v, w, mag, l) };
                    if !ok { out.push(Finding { class: format!("{}:wrong-entry flags=({},{})", name, ta, tb), what: format!("{} returned {:?}, definition gives {:?}", name, v, w), input: input.clone() }); }
                }
                (Some(_), Err(e)) => out.push(Finding { class: format!("{}:conformable-panics flags=({},{})", name, ta, tb), what: format!("{} panicked on conformable shapes: {}", name, e), input: input.clone() }),
                (None, Err(_)) => {}
            }
        }
        // Dot trait (borrowed forms) against the same definition
        if it % 3 == 0 && ra * ca > 0 && rb * cb > 0 {
            let s = Matrix::new(a.clone(), ra as i32, ca as i32); let o = Matrix::new(b.clone(), rb as i32, cb as i32);
            let got = catch(|| { let m = match (ta, tb) { (false, false) => s.dot(&o), (false, true) => s.dot_t(&o), (true, false) => s.t_dot(&o), (true, true) => s.t_dot_t(&o) }; (m.nrows, m.ncols, m.data.v.clone()) });
            tried += 1;
            match (&want, &got) {
                (None, Ok(_)) => out.push(Finding { class: "Dot:nonconformable-accepted".into(), what: "Matrix.dot family returned a value for non-conformable shapes".into(), input: input.clone() }),
                (Some((w, mag, mm, nn)), Ok((gr, gc, v))) => {
                    let ok = gr == mm && gc == nn && if integer { v == w } else { close(v, w, mag, l) };
                    if !ok { out.push(Finding { class: format!("Dot:wrong flags=({},{})", ta, tb), what: format!("Matrix dot family returned {}x{} {:?}, definition gives {}x{} {:?}", gr, gc, v, mm, nn, w), input: input.clone() }); }
                }
                (Some(_), Err(e)) => out.push(Finding { class: format!("Dot:conformable-panics flags=({},{})", ta, tb), what: format!("panicked: {}", e), input: input.clone() }),
                _ => {}
            }
        }
        // Matrix.Vector / Vector.Matrix / Vector.Vector: conformable lengths give the definition, every other length panics
        if it % 4 == 0 {
            let (rr, cc) = (1 + r.below(5) as usize, 1 + r.below(5) as usize);
            let md = ints(&mut r, rr * cc);
            let mm = Matrix::new(md.clone(), rr as i32, cc as i32);
            for t in [false, true] {
                let inner = if t { rr } else { cc }; let outer = if t { cc } else { rr };
                for vl in [inner, inner + 1, 2 * inner, 3 * inner, inner.saturating_sub(1).max(1)] {
                    let v = ints(&mut r, vl); let vv = Vector::new(v.clone());
                    tried += 2;
                    let inp = format!("matrix={}x{} {} vector={} transpose_matrix={}", rr, cc, json_floats(&md), json_floats(&v), t);
                    crumb(&inp);
                    // M.v
                    let got = catch(|| if t { mm.t_dot(&vv).v } else { mm.dot(&vv).v });
                    let want: Option<Vec<f64>> = if vl == inner { Some((0..outer).map(|i| (0..inner).map(|k| (if t { md[k * cc + i] } else { md[i * cc + k] }) * v[k]).sum::<f64>() + 0.0).collect()) } else { None };
                    match (&want, &got) {
                        (None, Ok(g)) => out.push(Finding { class: "Dot-MV:nonconformable-accepted".into(), what: format!("Matrix.Vector product returned {:?} for a vector of length {} against inner dimension {} (must panic)", g, vl, inner), input: inp.clone() }),
                        (Some(w), Ok(g)) => if g != w { out.push(Finding { class: "Dot-MV:wrong".into(), what: format!("Matrix.Vector product returned {:?}, definition gives {:?}", g, w), input: inp.clone() }) },
                        (Some(_), Err(e)) => out.push(Finding { class: "Dot-MV:conformable-panics".into(), what: format!("panicked: {}", e), input: inp.clone() }),
                        _ => {}
                    }
                    // v.M  (vector as a row): inner dimension is the matrix's row count (or column count when the matrix is transposed)
                    let inner2 = if t { cc } else { rr }; let outer2 = if t { rr } else { cc };
                    let got = catch(|| if t { vv.dot_t(&mm).v } else { vv.dot(&mm).v });
                    let want: Option<Vec<f64>> = if vl == inner2 { Some((0..outer2).map(|j| (0..inner2).map(|k| v[k] * (if t { md[j * cc + k] } else { md[k * cc + j] })).sum::<f64>() + 0.0).collect()) } else { None };
                    match (&want, &got) {
                        (None, Ok(g)) => out.push(Finding { class: "Dot-VM:nonconformable-accepted".into(), what: format!("Vector.Matrix product returned {:?} for a vector of length {} against inner dimension {} (must panic)", g, vl, inner2), input: inp.clone() }),
                        (Some(w), Ok(g)) => if g != w { out.push(Finding { class: "Dot-VM:wrong".into(), what: format!("Vector.Matrix product returned {:?}, definition gives {:?}", g, w), input: inp.clone() }) },
                        (Some(_), Err(e)) => out.push(Finding { class: "Dot-VM:conformable-panics".into(), what: format!("panicked: {}", e), input: inp.clone() }),
                        _ => {}
                    }
                }
            }
            let (a1, b1) = (ints(&mut r, rr), ints(&mut r, cc));
            tried += 1;
            let got = catch(|| Vector::new(a1.clone()).dot(&Vector::new(b1.clone())));
            if rr != cc && got.is_ok() { out.push(Finding { class: "Dot-VV:nonconformable-accepted".into(), what: "Vector.Vector product of different lengths returned a value".into(), input: format!("{} . {}", json_floats(&a1), json_floats(&b1)) }); }
            if rr == cc { let w: f64 = a1.iter().zip(&b1).map(|(x, y)| x * y).sum::<f64>() + 0.0; if got != Ok(w) { out.push(Finding { class: "Dot-VV:wrong".into(), what: format!("got {:?}, definition {:e}", got, w), input: format!("{} . {}", json_floats(&a1), json_floats(&b1)) }); } }
        }
        if out.len() > 40 { break; }
    }
    (tried, out)
}
