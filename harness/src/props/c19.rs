//! C19 — resampling (bootstrap, jackknife, shuffle, shuffle_two) and the `alea` generator behind it
//! (DiscreteUniform sampling; every `alea` function the crate calls: u64, f64, the integer range samplers).
//! `gen`: the implementation is run after `alea::set_seed(seed)`; the Coq side runs the executable wyrand/Lemire
//! model of `Base/Rng.v` from the same seed and must reproduce outputs AND the final generator state bit for bit.
//! `oracle`: the property statement as executable checks of the implementation only (no model).
use crate::util::*;
use compute::distributions::{DiscreteUniform, Distribution, Distribution1D};
use compute::validation::{bootstrap, jackknife, shuffle, shuffle_two};

const SPECIALS: [f64; 10] = [0.0, -0.0, f64::INFINITY, f64::NEG_INFINITY, f64::NAN, 5e-324, -5e-324, 2.2250738585072014e-308, f64::MAX, f64::MIN_POSITIVE / 2.0];

/// data vectors: distinct, repeated, special values
fn data(r: &mut Rng, n: usize, kind: u64) -> Vec<f64> {
    match kind % 4 {
        0 => (0..n).map(|i| i as f64 + 0.5).collect(),                        // distinct
        1 => (0..n).map(|_| r.small_int(2)).collect(),                         // heavy repeats
        2 => (0..n).map(|_| if r.coin(0.4) { *r.pick(&SPECIALS) } else { r.uniform(-10.0, 10.0) }).collect(),
        _ => (0..n).map(|_| r.uniform(-1e6, 1e6)).collect(),
    }
}

/// nested output -> flat list: count, then every row as (len, elements...)
fn flat(rows: &[Vec<f64>]) -> Vec<f64> {
    let mut v = vec![rows.len() as f64];
    for row in rows { v.push(row.len() as f64); v.extend_from_slice(row); }
    v
}

fn seeded<R>(seed: u64, f: impl FnOnce() -> R) -> (Result<R, String>, u64) {
    alea::set_seed(seed);
    let res = catch(f);
    (res, alea::get_seed())
}

fn a_seed(r: &mut Rng, i: u64) -> u64 {
    match i % 7 { 0 => 0, 1 => 1, 2 => u64::MAX, 3 => r.below(1000), _ => r.next() }
}

pub fn gen(tier: &str, seed: u64, outdir: &str) {
    let thorough = tier == "thorough";
    let mut r = Rng::new(seed ^ 0xC19);
    let mut cs = Cases::new("C19");
    let k = if thorough { 12 } else { 1 };

    // 1. raw generator: u64() and f64() streams
    for i in 0..(40 * k) {
        let sd = a_seed(&mut r, i);
        let n = 1 + r.below(40) as usize;
        alea::set_seed(sd);
        let us: Vec<u64> = (0..n).map(|_| alea::u64()).collect();
        let st = alea::get_seed();
        cs.push(app("CU64", vec![Tm::N(sd), Tm::L(us.iter().map(|u| Tm::N(*u)).collect()), Tm::N(st)]), "alea/u64", true);
        alea::set_seed(sd);
        let fs: Vec<f64> = (0..n).map(|_| alea::f64()).collect();
        let st = alea::get_seed();
        cs.push(app("CF64", vec![Tm::N(sd), fl(&fs), Tm::N(st)]), "alea/f64", true);
    }

    // 2. alea's range samplers called directly (incl. the max > min assertion and retrying moduli)
    for i in 0..(120 * k) {
        let sd = a_seed(&mut r, i);
        let n = 1 + r.below(12) as usize;
        // u64_less_than: small moduli, powers of two, moduli above 2^63 (retry probability up to 1/2), 0 and 1
        let m: u64 = match i % 8 { 0 => r.below(3), 1 => 1 + r.below(2000), 2 => 1u64 << r.below(64), 3 => (1u64 << 63) + r.below(1u64 << 62), 4 => u64::MAX - r.below(5), 5 => (1u64 << 63) + 1 + r.below(1000), 6 => r.next(), _ => (r.next() >> r.below(64)).max(1) };
        alea::set_seed(sd);
        let before = alea::get_seed();
        let us: Vec<u64> = (0..n).map(|_| alea::u64_less_than(m)).collect();
        let st = alea::get_seed();
        let retried = st.wrapping_sub(before) != 0xa0761d6478bd642fu64.wrapping_mul(n as u64);
        cs.push(app("CLess", vec![Tm::N(sd), Tm::N(m), Tm::L(us.iter().map(|u| Tm::N(*u)).collect()), Tm::N(st)]),
                if retried { "alea/u64_less_than/retry" } else { "alea/u64_less_than" }, true);
        // i64_in_range / u64_in_range with valid and degenerate / reversed bounds (wrapping arithmetic, release build)
        let (lo, hi): (i64, i64) = match i % 6 { 0 => { let a = r.range(-50, 50); (a, a) } 1 => { let a = r.range(-50, 50); (a, a - 1 - r.below(4) as i64) }
            2 => { let a = r.range(-1000, 1000); (a, a + 1 + r.below(3000) as i64) } 3 => (i64::MIN / 2 - r.below(1 << 60) as i64, i64::MAX / 2 + r.below(1 << 60) as i64),
            4 => (r.next() as i64 >> 1, i64::MAX - r.below(3) as i64), _ => { let a = r.next() as i64; let b = r.next() as i64; (a.min(b), a.max(b)) } };
        let (res, st) = seeded(sd, || (0..n).map(|_| alea::i64_in_range(lo, hi)).collect::<Vec<i64>>());
        let e = match &res { Ok(v) => app("Val", vec![Tm::L(v.iter().map(|z| Tm::Z(*z)).collect())]), Err(_) => Tm::Raw("Panic".into()) };
        cs.push(app("CIRange", vec![Tm::N(sd), Tm::Z(lo), Tm::Z(hi), Tm::Nat(n as u64), e, Tm::N(st)]), if res.is_ok() { "alea/i64_in_range" } else { "alea/i64_in_range/panic" }, true);
        let (ulo, uhi) = (lo as u64 ^ (1 << 63), hi as u64 ^ (1 << 63));
        let (res, st) = seeded(sd, || (0..n).map(|_| alea::u64_in_range(ulo, uhi)).collect::<Vec<u64>>());
        let e = match &res { Ok(v) => app("Val", vec![Tm::L(v.iter().map(|z| Tm::N(*z)).collect())]), Err(_) => Tm::Raw("Panic".into()) };
        cs.push(app("CURange", vec![Tm::N(sd), Tm::N(ulo), Tm::N(uhi), Tm::Nat(n as u64), e, Tm::N(st)]), if res.is_ok() { "alea/u64_in_range" } else { "alea/u64_in_range/panic" }, true);
    }

    // 3. DiscreteUniform::new(lo, hi).sample_n(n): valid, degenerate (D11), reversed (constructor panics), huge spans
    for i in 0..(150 * k) {
        let sd = a_seed(&mut r, i);
        let n = 1 + r.below(16) as usize;
        let (lo, hi): (i64, i64) = match i % 7 { 0 => { let a = r.range(-50, 50); (a, a) } 1 => { let a = r.range(-50, 50); (a, a - 1 - r.below(4) as i64) }
            2 => (0, r.below(2000) as i64), 3 => { let a = r.range(-1000, 1000); (a, a + r.below(3000) as i64) }
            4 => (i64::MIN / 2 - r.below(1 << 60) as i64, i64::MAX / 2 + r.below(1 << 60) as i64),
            5 => (-(1i64 << 52) - r.below(1 << 20) as i64, (1i64 << 52) + r.below(1 << 20) as i64), _ => (i64::MIN + r.below(3) as i64, i64::MAX - r.below(3) as i64) };   // incl. the full range: span wraps to 0, always `lower`
        alea::set_seed(sd);
        let before = alea::get_seed();
        let (res, st) = seeded(sd, || DiscreteUniform::new(lo, hi).sample_n(n).to_vec());
        let retried = res.is_ok() && st.wrapping_sub(before) != 0xa0761d6478bd642fu64.wrapping_mul(n as u64);
        let tag = if res.is_err() { "du/panic" } else if lo == hi { "du/degenerate" } else if retried { "du/retry" } else { "du/valid" };
        cs.push(app("CDU", vec![Tm::N(sd), Tm::Z(lo), Tm::Z(hi), Tm::Nat(n as u64), outcome_list(&res), Tm::N(st)]), tag, true);
    }

    // 4. resampling: every length 0..=maxl (all residues), then larger lengths up to 2000
    let maxl = if thorough { 64 } else { 24 };
    let mut lens: Vec<usize> = (0..=maxl).collect();
    for _ in 0..(6 * k) { lens.push(40 + r.below(260) as usize); }
    lens.push(2000); if thorough { lens.push(1999); lens.push(1024); }
    // spread the heavy lengths over the shards (shard text stays below ~1.5 MB)
    for i in (1..lens.len()).rev() { let j = r.below(i as u64 + 1) as usize; lens.swap(i, j); }
    let reps = if thorough { 4 } else { 2 };
    for (li, &n) in lens.iter().enumerate() {
        for rep in 0..reps {
            if n > 300 && rep > 0 { continue; }
            let sd = a_seed(&mut r, (li * reps + rep) as u64);
            let kind = r.below(4);
            let d = data(&mut r, n, kind);
            // at most ~4000 output values per case: 200 resamples only for short data, 1-2 for 2000 elements
            let cap = (4000 / n.max(1)).clamp(1, 200);
            let nb = if n > 300 { cap } else if n > 40 { 1 + r.below(cap.min(4) as u64) as usize } else if rep == 0 { r.below(4) as usize } else { 1 + r.below(if thorough { cap as u64 } else { 30 }) as usize };
            let nt = n >= 2;
            let (res, st) = seeded(sd, || flat(&bootstrap(&d, nb)));
            cs.push(app("CBoot", vec![Tm::N(sd), fl(&d), Tm::Nat(nb as u64), outcome_list(&res), Tm::N(st)]), &format!("bootstrap/{}", if res.is_ok() { if n == 1 { "len1" } else { "ok" } } else { "panic" }), nt);
            if n <= 64 || (n <= 100 && rep == 0) {   // output is n(n-1) values: larger n only in the oracle
                let res = catch(|| flat(&jackknife(&d)));
                cs.push(app("CJack", vec![fl(&d), outcome_list(&res)]), "jackknife", nt);
            }
            let (res, st) = seeded(sd, || shuffle(&d));
            cs.push(app("CShuf", vec![Tm::N(sd), fl(&d), outcome_list(&res), Tm::N(st)]), &format!("shuffle/{}", if res.is_ok() { if n == 1 { "len1" } else { "ok" } } else { "panic" }), nt);
            let kind2 = r.below(4);
            let d2 = data(&mut r, n, kind2);
            let (res, st) = seeded(sd, || { let (a, b) = shuffle_two(&d, &d2); let mut v = a; v.extend_from_slice(&b); v });
            cs.push(app("CShuf2", vec![Tm::N(sd), fl(&d), fl(&d2), outcome_list(&res), Tm::N(st)]), &format!("shuffle_two/{}", if res.is_ok() { if n == 1 { "len1" } else { "ok" } } else { "panic" }), nt);
        }
    }
    // 4b. corners of the stated ranges: exactly 200 resamples (the stated maximum) and exactly 1, on one value repeated, on zeros of
    // both signs and NaN only, on special values only; from the seeds whose first 64-bit word is 0 and the other edge seeds
    let corner: [(usize, usize); 8] = [(1, 200), (2, 200), (3, 200), (20, 200), (7, 1), (64, 1), (5, 199), (33, 2)];
    for (i, &(n, nb)) in corner.iter().enumerate() {
        let sd = EDGE_SEEDS[(i + 5) % EDGE_SEEDS.len()];
        let d = data_o(&mut r, n, 4 + (i as u64 % 3));
        let nt = n >= 2;
        let (res, st) = seeded(sd, || flat(&bootstrap(&d, nb)));
        cs.push(app("CBoot", vec![Tm::N(sd), fl(&d), Tm::Nat(nb as u64), outcome_list(&res), Tm::N(st)]), &format!("bootstrap/{}", if res.is_ok() { if n == 1 { "len1" } else { "ok" } } else { "panic" }), nt);
        let (res, st) = seeded(sd, || shuffle(&d));
        cs.push(app("CShuf", vec![Tm::N(sd), fl(&d), outcome_list(&res), Tm::N(st)]), &format!("shuffle/{}", if res.is_ok() { if n == 1 { "len1" } else { "ok" } } else { "panic" }), nt);
        let d2 = data_o(&mut r, n, 5 + (i as u64 % 2));
        let (res, st) = seeded(sd, || { let (a, b) = shuffle_two(&d, &d2); let mut v = a; v.extend_from_slice(&b); v });
        cs.push(app("CShuf2", vec![Tm::N(sd), fl(&d), fl(&d2), outcome_list(&res), Tm::N(st)]), &format!("shuffle_two/{}", if res.is_ok() { if n == 1 { "len1" } else { "ok" } } else { "panic" }), nt);
    }
    // 5. malformed stream: shuffle_two with different lengths
    for i in 0..(30 * k) {
        let sd = a_seed(&mut r, i);
        let (n1, n2) = (r.below(8) as usize, r.below(8) as usize);
        let (d1, d2) = (data(&mut r, n1, i), data(&mut r, n2, i + 1));
        let (res, st) = seeded(sd, || { let (a, b) = shuffle_two(&d1, &d2); let mut v = a; v.extend_from_slice(&b); v });
        cs.push(app("CShuf2", vec![Tm::N(sd), fl(&d1), fl(&d2), outcome_list(&res), Tm::N(st)]), if res.is_ok() { "malformed-stream/value" } else { "malformed-stream/panic" }, res.is_err());
    }
    cs.write(outdir, if thorough { 32 } else { 30 }, "a case is non-trivial when the data length is >= 2, or the case exercises the generator directly (range sampler, Lemire retry, assertion)");
}

// ------------------------------------------------------------------------------------------------
// failure-search oracle: the property statement on the implementation

fn bits(v: &[f64]) -> Vec<u64> { v.iter().map(|x| if x.is_nan() { 0x7ff8_0000_0000_0000 } else { x.to_bits() }).collect() }
fn sorted(mut v: Vec<u64>) -> Vec<u64> { v.sort_unstable(); v }
fn len_class(n: usize) -> &'static str { if n == 1 { "len=1" } else { "len>=2" } }

/// upper quantile of chi-square with `df` degrees of freedom at normal deviate z (Wilson-Hilferty), made generous
fn chi2_crit(df: f64, z: f64) -> f64 { let a = 2.0 / (9.0 * df); df * (1.0 - a + z * a.sqrt()).powi(3) * 1.05 + 5.0 }

/// oracle data vectors: the four kinds of `data` plus one value repeated n times (possibly a special), zeros of both signs
/// and NaN only (the sign of a zero is part of the element), special values only
fn data_o(r: &mut Rng, n: usize, kind: u64) -> Vec<f64> {
    match kind % 7 {
        4 => { let c = if r.coin(0.5) { *r.pick(&SPECIALS) } else { r.uniform(-10.0, 10.0) }; vec![c; n] }
        5 => (0..n).map(|_| *r.pick(&[0.0, -0.0, f64::NAN])).collect(),
        6 => (0..n).map(|_| *r.pick(&SPECIALS)).collect(),
        k => data(r, n, k),
    }
}

/// wyrand's increment; the seeds `ZERO_OUT_1/2` make the first state 0 resp. equal to the xor constant, so that the first 64-bit word is 0
const WY_INC: u64 = 0xa0761d6478bd642f;
const ZERO_OUT_1: u64 = 0u64.wrapping_sub(WY_INC);
const ZERO_OUT_2: u64 = 0xe7037ed1a0b428dbu64.wrapping_sub(WY_INC);
const EDGE_SEEDS: [u64; 8] = [0, 1, u64::MAX, 1 << 63, (1 << 63) - 1, ZERO_OUT_1, ZERO_OUT_2, WY_INC];

/// `stream`: Some(seed) = the stream started by `alea::set_seed(seed)`; None = the thread's stream as it stands (no reseeding)
fn on_stream<R>(stream: Option<u64>, f: impl FnOnce() -> R) -> Result<R, String> {
    if let Some(sd) = stream { alea::set_seed(sd); }
    catch(f)
}

/// the four clauses of the statement on one (stream, data, n_bootstrap)
fn check_point(stream: Option<u64>, sdesc: &str, d: &[f64], kind: u64, nb: usize, out: &mut Vec<Finding>, tried: &mut u64) {
    let n = d.len();
    let input = format!("{} data={} n_bootstrap={}", sdesc, json_floats(d), nb);
    let input = if input.len() > 1200 { format!("{} data=[{} values, kind {}] n_bootstrap={}", sdesc, n, kind, nb) } else { input };
    let dbits = bits(d);
    let dset: std::collections::HashSet<u64> = dbits.iter().cloned().collect();
    // bootstrap: count, lengths, membership
    *tried += 1;
    crumb(&format!("bootstrap {}", input));
    match on_stream(stream, || bootstrap(d, nb)) {
        Err(e) => out.push(Finding { class: format!("bootstrap:panics {}", len_class(n)), what: format!("bootstrap panicked on a length-{} vector: {}", n, e), input: input.clone() }),
        Ok(rs) => {
            if rs.len() != nb { out.push(Finding { class: "bootstrap:wrong-count".into(), what: format!("{} resamples returned, {} requested", rs.len(), nb), input: input.clone() }); }
            for row in &rs {
                if row.len() != n { out.push(Finding { class: "bootstrap:wrong-length".into(), what: format!("resample of length {} from data of length {}", row.len(), n), input: input.clone() }); break; }
                if bits(row).iter().any(|b| !dset.contains(b)) { out.push(Finding { class: "bootstrap:invented-element".into(), what: "a resample contains a value that is not in the data".into(), input: input.clone() }); break; }
            }
        }
    }
    // jackknife = the n leave-one-out vectors in order
    *tried += 1;
    crumb(&format!("jackknife {}", input));
    match catch(|| jackknife(d)) {
        Err(e) => out.push(Finding { class: format!("jackknife:panics {}", len_class(n)), what: format!("jackknife panicked: {}", e), input: input.clone() }),
        Ok(js) => {
            let mut ok = js.len() == n;
            if ok { for (i, v) in js.iter().enumerate() {
                let g = bits(v);
                if g.len() != n - 1 || g[..i] != dbits[..i] || g[i..] != dbits[i + 1..] { ok = false; break; }
            } }
            if !ok { out.push(Finding { class: "jackknife:not-leave-one-out".into(), what: "jackknife did not return the n leave-one-out vectors in order".into(), input: input.clone() }); }
        }
    }
    // shuffle: same multiset
    *tried += 1;
    crumb(&format!("shuffle {}", input));
    match on_stream(stream, || shuffle(d)) {
        Err(e) => out.push(Finding { class: format!("shuffle:panics {}", len_class(n)), what: format!("shuffle panicked on a length-{} vector: {}", n, e), input: input.clone() }),
        Ok(v) => if sorted(bits(&v)) != sorted(dbits.clone()) { out.push(Finding { class: "shuffle:not-a-permutation".into(), what: "shuffle changed the multiset of values".into(), input: input.clone() }); }
    }
    // shuffle_two: one common permutation (first array distinct, so the permutation is recoverable)
    *tried += 1;
    let a: Vec<f64> = (0..n).map(|i| i as f64).collect();
    crumb(&format!("shuffle_two arr1=[0,1,..,{}] arr2=data {}", n as i64 - 1, input));
    match on_stream(stream, || shuffle_two(&a, d)) {
        Err(e) => out.push(Finding { class: format!("shuffle_two:panics {}", len_class(n)), what: format!("shuffle_two panicked on length-{} vectors: {}", n, e), input: input.clone() }),
        Ok((pa, pb)) => {
            let mut seen = vec![false; n];
            let mut ok = pa.len() == n && pb.len() == n;
            if ok { for j in 0..n { let i = pa[j] as usize; if pa[j] != i as f64 || i >= n || seen[i] { ok = false; break; } seen[i] = true; if bits(&[pb[j]]) != bits(&[d[i]]) { ok = false; break; } } }
            if !ok { out.push(Finding { class: "shuffle_two:unpaired".into(), what: "shuffle_two did not apply one common permutation to both arrays".into(), input: input.clone() }); }
        }
    }
    // the pairing clause with the data in the FIRST argument too (both argument orders, both arrays with repeats / specials):
    // the positions are recovered from the second, distinct, array
    *tried += 1;
    crumb(&format!("shuffle_two arr1=data arr2=[0,1,..,{}] {}", n as i64 - 1, input));
    match on_stream(stream, || shuffle_two(d, &a)) {
        Err(e) => out.push(Finding { class: format!("shuffle_two:panics {}", len_class(n)), what: format!("shuffle_two panicked on length-{} vectors: {}", n, e), input: input.clone() }),
        Ok((pb, pa)) => {
            let mut seen = vec![false; n];
            let mut ok = pa.len() == n && pb.len() == n;
            if ok { for j in 0..n { let i = pa[j] as usize; if pa[j] != i as f64 || i >= n || seen[i] { ok = false; break; } seen[i] = true; if bits(&[pb[j]]) != bits(&[d[i]]) { ok = false; break; } } }
            if !ok { out.push(Finding { class: "shuffle_two:unpaired".into(), what: "shuffle_two did not apply one common permutation to both arrays (data in the first argument)".into(), input: input.clone() }); }
        }
    }
}

/// DiscreteUniform sampling: support, integrality, degenerate interval
fn check_du(sd: u64, lo: i64, hi: i64, m: usize, out: &mut Vec<Finding>, tried: &mut u64) {
    *tried += 1;
    crumb(&format!("DiscreteUniform::new(lower, upper).sample_n({}) seed={} lower={} upper={}", m, sd, lo, hi));
    match seeded(sd, || DiscreteUniform::new(lo, hi).sample_n(m).to_vec()).0 {
        Err(e) => out.push(Finding { class: format!("discreteuniform:sample-panics {}", if lo == hi { "lower=upper" } else { "lower<upper" }), what: format!("DiscreteUniform::new({}, {}).sample() panicked: {}", lo, hi, e), input: format!("seed={} lower={} upper={} n={}", sd, lo, hi, m) }),
        Ok(v) => if v.len() != m || v.iter().any(|x| *x < lo as f64 || *x > hi as f64 || x.fract() != 0.0) { out.push(Finding { class: "discreteuniform:sample-out-of-support".into(), what: format!("sample outside {}..={}: {:?}", lo, hi, &v[..v.len().min(40)]), input: format!("seed={} lower={} upper={} n={}", sd, lo, hi, m) }); }
    }
}

pub fn oracle(tier: &str, seed: u64) -> (u64, Vec<Finding>) {
    let thorough = tier == "thorough";
    let mut r = Rng::new(seed ^ 0x0C19);
    let mut out: Vec<Finding> = vec![]; let mut tried = 0u64;
    let nseeds = if thorough { 10000 } else { 100 };
    let mut lens: Vec<usize> = (1..=12).collect();
    lens.extend_from_slice(&[16, 17, 31, 64, 100, 257]);
    if thorough { lens.extend_from_slice(&[500, 1000, 2000]); } else { lens.push(2000); }
    // lengths around the powers of two and the stated maximum, each visited at least once per run (in rotation over the seeds)
    const EDGE_LENS: [usize; 22] = [13, 14, 15, 32, 33, 63, 65, 127, 128, 129, 255, 256, 511, 512, 513, 1023, 1024, 1025, 1998, 1999, 2000, 1];
    for s in 0..nseeds {
        // every seed: the small lengths in rotation; the large ones on a few seeds only
        let mut todo: Vec<usize> = if s < 3 { lens.clone() } else { vec![lens[s % 12], lens[(s * 7 + 3) % lens.len().min(17)]] };
        todo.retain(|n| !(*n > 300 && s >= 3));
        let base = todo.len();
        // coverage of the stated range 1..2000: a random length of the middle range every seed, a random long one every
        // fourth seed, the edge lengths in rotation
        todo.push(13 + r.below(288) as usize);
        if s % 4 == 1 { todo.push(301 + r.below(1700) as usize); }
        if s % 4 == 3 { todo.push(EDGE_LENS[(s / 4) % EDGE_LENS.len()]); }
        for (ti, &n) in todo.iter().enumerate() {
            let sd = if s % 2 == 0 { r.next() } else if s % 16 == 15 { EDGE_SEEDS[(s / 16 + ti) % EDGE_SEEDS.len()] } else { s as u64 };
            let kind = r.below(7);
            let d = data_o(&mut r, n, kind);
            // 1..200 resamples: both ends of the stated range on every length class; the full range on every tenth seed
            let nb = if ti < base {
                if n > 300 { 2 } else { 1 + r.below(if s % 10 == 0 { 200 } else { 8 }) as usize }
            } else {
                match (s + ti) % 4 { 0 => 200, 1 => 1, 2 => 1 + r.below(200) as usize, _ => 2 + r.below(7) as usize }
            };
            check_point(Some(sd), &format!("seed={}", sd), &d, kind, nb, &mut out, &mut tried);
        }
        let lo = r.range(-100, 100); let hi = lo + if s % 3 == 0 { 0 } else { r.below(50) as i64 };
        check_du(r.next(), lo, hi, 20, &mut out, &mut tried);
        // the index distribution the four functions use: 0..=n-1 for n up to the stated maximum, and n draws from it
        let n = match s % 5 { 0 => 1, 1 => 2000, 2 => 1 + r.below(2000) as usize, 3 => 1usize << r.below(11), _ => 1 + r.below(64) as usize };
        let sd = if s % 8 == 7 { EDGE_SEEDS[(s / 8) % EDGE_SEEDS.len()] } else { r.next() };
        check_du(sd, 0, n as i64 - 1, n.min(if s % 5 == 1 { 2000 } else { 200 }), &mut out, &mut tried);
    }
    // every edge seed (0, 1, 2^64-1, 2^63, the two seeds whose first 64-bit word is 0, ...) on the first lengths, a middle
    // one and the stated maximum, with 1 and with 200 resamples (the corner length 2000 x 200 resamples included)
    for (si, &sd) in EDGE_SEEDS.iter().enumerate() {
        for (li, &n) in [1usize, 2, 3, 4, 7, 64, 1999, 2000].iter().enumerate() {
            if n > 300 && !(thorough || si % 4 == li % 4) { continue; }
            for &nb in &[1usize, 200] {
                let kind = r.below(7);
                let d = data_o(&mut r, n, kind);
                check_point(Some(sd), &format!("seed={}", sd), &d, kind, nb, &mut out, &mut tried);
            }
        }
    }
    // "every random stream": a stream that is seeded ONCE and then continued from call to call without reseeding, on another
    // thread than the one used so far (alea's state is thread-local; the clock-derived default seed of a new thread is just
    // another odd seed and is not used here: every evaluation point must be reproducible from `seed`)
    let fresh = std::thread::spawn(move || {
        let mut r = Rng::new(seed ^ 0x19C0);
        let mut out: Vec<Finding> = vec![]; let mut tried = 0u64;
        alea::set_seed(r.next() | 1);
        for &n in &[1usize, 2, 3, 5, 8, 33, 300, 2000] {
            for &nb in &[1usize, 3, 200] {
                let kind = r.below(7);
                let d = data_o(&mut r, n, kind);
                let st = alea::get_seed();
                check_point(None, &format!("stream=continued-without-reseeding state-before-bootstrap={}", st), &d, kind, nb, &mut out, &mut tried);
            }
        }
        (tried, out)
    }).join();
    match fresh {
        Ok((t, o)) => { tried += t; out.extend(o); }
        Err(_) => out.push(Finding { class: "bootstrap:panics len>=2".into(), what: "the resampling functions aborted the thread of the continued stream".into(), input: "stream=continued-without-reseeding".into() }),
    }
    // every position equally likely: chi-square of positional frequencies at alpha = 1e-12 (z = 7.03; 7.5 used)
    const SIZES: [usize; 12] = [2, 3, 5, 7, 10, 16, 33, 100, 257, 1000, 1999, 2000];
    let rounds = if thorough { 48 } else { 12 };
    for t in 0..rounds {
        let n = SIZES[t % SIZES.len()];
        let nb = 200; let reps = (20000 / (n * nb)).max(1) * 10;
        let d: Vec<f64> = (0..n).map(|i| i as f64).collect();
        let sd = if t / SIZES.len() == 1 { EDGE_SEEDS[t % EDGE_SEEDS.len()] } else { r.next() };
        alea::set_seed(sd);
        tried += 1;
        crumb(&format!("bootstrap positional frequencies seed={} n={} n_bootstrap={} repetitions={}", sd, n, nb, reps));
        // c: how often each data position is drawn; per output slot as well when the table is small (n <= 16)
        let slots = n <= 16;
        let res = catch(|| { let mut c = vec![0u64; n]; let mut cs = vec![0u64; if slots { n * n } else { 0 }]; let mut tot = 0u64;
            for _ in 0..reps { for row in bootstrap(&d, nb) { for (i, x) in row.iter().enumerate() { c[*x as usize] += 1; if slots { cs[i * n + *x as usize] += 1; } tot += 1; } } } (c, cs, tot) });
        if let Ok((c, cs, tot)) = res {
            let e = tot as f64 / n as f64;
            let chi: f64 = c.iter().map(|o| (*o as f64 - e) * (*o as f64 - e) / e).sum();
            if chi > chi2_crit((n - 1) as f64, 7.5) { out.push(Finding { class: "bootstrap:positions-not-uniform".into(), what: format!("chi-square {} over {} draws of {} positions exceeds the 1e-12 critical value", chi, tot, n), input: format!("seed={} n={} n_bootstrap={} repetitions={}", sd, n, nb, reps) }); }
            if slots {
                // the same demand slot by slot: in every output slot every data position is equally likely (n slots x (n-1) df)
                let e = tot as f64 / (n * n) as f64;
                let chi: f64 = cs.iter().map(|o| (*o as f64 - e) * (*o as f64 - e) / e).sum();
                if chi > chi2_crit((n * (n - 1)) as f64, 7.5) { out.push(Finding { class: "bootstrap:positions-not-uniform".into(), what: format!("chi-square {} of the (output slot, data position) table over {} draws of {} positions exceeds the 1e-12 critical value", chi, tot, n), input: format!("seed={} n={} n_bootstrap={} repetitions={}", sd, n, nb, reps) }); }
            }
        }
    }
    (tried, out)
}
