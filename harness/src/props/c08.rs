//! C08 — descriptive statistics equal their textbook definitions: case generation for the Coq
//! correspondence (free functions, Vector and Matrix methods, four covariance algorithms, extrema
//! and their indices, histogram bin centres) and the failure-search oracle (exact i128 rational
//! arithmetic on dyadic data, naive reference loops for extrema, midpoints for bin centres).
use crate::util::*;
use compute::linalg::{Matrix, Vector};
use compute::statistics::*;

const SFN: [&str; 10] = ["Mean", "WMean", "Var", "SVar", "Std", "SStd", "Min", "Max", "ArgMin", "ArgMax"];
const COVK: [&str; 4] = ["CovPop", "CovSample", "CovOnepass", "CovOnline"];
const COVK_FN: [&str; 4] = ["covariance", "sample_covariance", "sample_covariance_onepass", "sample_covariance_online"];

// ---------------------------------------------------------------------------------------------
// data classes of the property
const SCALE: f64 = 1024.0; // dyadic data: every value is k/1024 with k an integer (exact in i128)

fn dyadic(x: f64) -> f64 { (x * SCALE).round() / SCALE }

/// class 0 small integers, 1 gaussian (dyadic), 2 heavily offset gaussian, 3 constant, 4 sorted, 5 reversed,
/// 6 ties and signed zeros, 7 the combination (heavily offset AND sorted / reversed AND with ties), 8 offset at the stated limit
/// mean/sd = 1e8; all values are exact multiples of 1/1024 below 2^38 in magnitude
fn data_class(r: &mut Rng, class: u64, n: usize) -> Vec<f64> {
    match class {
        0 => (0..n).map(|_| r.small_int(9)).collect(),
        1 => (0..n).map(|_| dyadic(3.0 * r.normal())).collect(),
        2 => {
            let off = *r.pick(&[1.0e3, 1.0e5, 1.0e6, 1.0e7, 1.0e8, -1.0e8, 123456789.0]);
            (0..n).map(|_| off + dyadic(r.normal())).collect()
        }
        3 => { let c = if r.coin(0.5) { r.small_int(50) } else { dyadic(100.0 * r.normal()) }; vec![c; n] }
        4 | 5 => {
            let mut v: Vec<f64> = (0..n).map(|_| dyadic(5.0 * r.normal())).collect();
            v.sort_by(|a, b| a.partial_cmp(b).unwrap());
            if class == 5 { v.reverse(); }
            v
        }
        6 => (0..n).map(|_| *r.pick(&[0.0, -0.0, 1.0, -1.0, 2.0, -2.0, 0.5, 0.0, -0.0])).collect(),
        7 => {
            let off = *r.pick(&[1.0e5, 1.0e8, -1.0e8, 123456789.0]);
            let mut v: Vec<f64> = (0..n).map(|_| off + *r.pick(&[0.0, 1.0, -1.0, 2.0, -2.0, 0.5, 0.25, 0.0])).collect();
            v.sort_by(|a, b| a.partial_cmp(b).unwrap());
            if r.coin(0.5) { v.reverse(); }
            v
        }
        _ => { let off = if r.coin(0.5) { 1.0e8 } else { -1.0e8 }; (0..n).map(|_| off + dyadic(r.normal())).collect() }
    }
}
const CLASS_NAMES: [&str; 9] = ["small-int", "gaussian", "offset", "constant", "sorted", "reversed", "ties-zeros", "offset-sorted-ties", "offset-1e8"];
const NCLASS: u64 = 9;

fn reals(r: &mut Rng, n: usize) -> Vec<f64> { (0..n).map(|_| r.uniform(-4.0, 4.0) * if r.coin(0.1) { 1.0e3 } else { 1.0 }).collect() }

fn specials(r: &mut Rng, n: usize) -> Vec<f64> {
    const SP: [f64; 14] = [0.0, -0.0, f64::INFINITY, f64::NEG_INFINITY, f64::NAN, f64::MAX, f64::MIN, f64::MIN_POSITIVE,
                           4.9e-324, -4.9e-324, 1.0, -1.0, 1.0e308, -1.0e308];
    (0..n).map(|_| if r.coin(0.6) { *r.pick(&SP) } else { r.uniform(-2.0, 2.0) }).collect()
}

fn nontrivial(d: &[f64]) -> bool { d.len() >= 3 && d.iter().any(|x| x.to_bits() != d[0].to_bits()) }

// ---------------------------------------------------------------------------------------------
// the implementation, by function index and calling form (0 free function, 1 Vector method, 2 Matrix method)
fn run_stat(f: usize, form: usize, rows: usize, d: &[f64]) -> Result<Vec<f64>, String> {
    catch(|| match form {
        0 => match f {
            0 => vec![mean(d)], 1 => vec![welford_mean(d)], 2 => vec![var(d)], 3 => vec![sample_var(d)],
            4 => vec![std(d)], 5 => vec![sample_std(d)], 6 => vec![min(d)], 7 => vec![max(d)],
            8 => vec![argmin(d) as f64], _ => vec![argmax(d) as f64],
        },
        1 => { let v = Vector::new(d.to_vec()); match f {
            0 => vec![v.mean()], 1 => vec![welford_mean(&v)], 2 => vec![v.var()], 3 => vec![v.sample_var()],
            4 => vec![v.std()], 5 => vec![v.sample_std()], 6 => vec![v.min()], 7 => vec![v.max()],
            8 => vec![v.argmin() as f64], _ => vec![v.argmax() as f64],
        } }
        _ => { let m = Matrix::new(d.to_vec(), rows as i32, (d.len() / rows) as i32); match f {
            0 => vec![m.mean()], 1 => vec![welford_mean(&m.data)], 2 => vec![m.var()], 3 => vec![m.sample_var()],
            4 => vec![m.std()], 5 => vec![m.sample_std()], 6 => vec![m.min()], 7 => vec![m.max()],
            8 => { let (i, j) = m.argmin(); vec![i as f64, j as f64] }
            _ => { let (i, j) = m.argmax(); vec![i as f64, j as f64] }
        } }
    })
}
fn run_cov(k: usize, x: &[f64], y: &[f64]) -> Result<Vec<f64>, String> {
    catch(|| vec![match k { 0 => covariance(x, y), 1 => sample_covariance(x, y), 2 => sample_covariance_onepass(x, y), _ => sample_covariance_online(x, y) }])
}
fn run_hist(e: &[f64]) -> Result<Vec<f64>, String> { catch(|| hist_bin_centers(e).v) }

fn push_stats(cs: &mut Cases, r: &mut Rng, d: &[f64], tag: &str) {
    let nt = nontrivial(d);
    for f in 0..10 {
        let res = run_stat(f, 0, 1, d);
        cs.push(app("CStat", vec![Tm::Raw(SFN[f].into()), Tm::Nat(0), Tm::Nat(1), fl(d), outcome_list(&res)]), &format!("{}/{}", SFN[f], tag), nt);
    }
    // one Vector-method and one Matrix-method call per data set (all ten over the stream)
    let f = r.below(10) as usize;
    let res = run_stat(f, 1, 1, d);
    cs.push(app("CStat", vec![Tm::Raw(SFN[f].into()), Tm::Nat(1), Tm::Nat(1), fl(d), outcome_list(&res)]), &format!("Vector::{}", SFN[f]), nt);
    if !d.is_empty() {
        let divs: Vec<usize> = (1..=d.len().min(12)).filter(|k| d.len() % k == 0).collect();
        let rows = *r.pick(&divs);
        let f = r.below(10) as usize;
        let res = run_stat(f, 2, rows, d);
        cs.push(app("CStat", vec![Tm::Raw(SFN[f].into()), Tm::Nat(2), Tm::Nat(rows as u64), fl(d), outcome_list(&res)]), &format!("Matrix::{}", SFN[f]), nt);
    }
}
fn push_cov(cs: &mut Cases, x: &[f64], y: &[f64], tag: &str) {
    let nt = x.len() == y.len() && nontrivial(x) && nontrivial(y);
    for k in 0..4 {
        let res = run_cov(k, x, y);
        let t = if res.is_err() { format!("{}/panic", COVK[k]) } else { format!("{}/{}", COVK[k], tag) };
        cs.push(app("CCov", vec![Tm::Raw(COVK[k].into()), fl(x), fl(y), outcome_list(&res)]), &t, nt || res.is_err());
    }
}
fn push_hist(cs: &mut Cases, e: &[f64], tag: &str) {
    let res = run_hist(e);
    let t = if res.is_err() { "hist/panic".to_string() } else { format!("hist/{}", tag) };
    cs.push(app("CHist", vec![fl(e), outcome_list(&res)]), &t, e.len() >= 3 || res.is_err());
}

fn edges(r: &mut Rng, n: usize, uniform: bool) -> Vec<f64> {
    if uniform {
        let lo = r.small_int(50); let h = *r.pick(&[0.25, 0.5, 1.0, 3.0, 0.1]);
        (0..n).map(|i| lo + h * i as f64).collect()
    } else {
        let mut e = r.small_int(50); let mut v = vec![];
        for _ in 0..n { v.push(e); e += dyadic(r.uniform(0.01, 8.0)); }
        v
    }
}

pub fn gen(tier: &str, seed: u64, outdir: &str) {
    let mut r = Rng::new(seed);
    let mut cs = Cases::new("C08");
    let thorough = tier == "thorough";
    // 1. every length 0..=L (all residues mod 8 of the unrolled sum), every data class
    let maxl = if thorough { 72 } else { 26 };
    for n in 0..=maxl {
        for class in 0..8u64 {
            if !thorough && n > 10 && (n as u64 + class) % 3 != 0 { continue; }
            let d = data_class(&mut r, class, n);
            push_stats(&mut cs, &mut r, &d, CLASS_NAMES[class as usize]);
            let cy = if r.coin(0.5) { class } else { r.below(8) };
            let y = data_class(&mut r, cy, n);
            push_cov(&mut cs, &d, &y, CLASS_NAMES[class as usize]);
            // special pairs: a vector with itself, with its negation
            if (n as u64 + class) % 4 == 0 {
                push_cov(&mut cs, &d, &d, "self");
                let neg: Vec<f64> = d.iter().map(|v| -v).collect();
                push_cov(&mut cs, &d, &neg, "negated");
            }
        }
        // the same kinds of data at very small and very large scales (variance scales quadratically: 2^-60 .. 2^-400 and back)
        if n >= 1 {
            let c = (2.0f64).powi(*r.pick(&[-200, -100, -40, -30, 30, 100, 200]));
            let k1 = r.below(7); let d: Vec<f64> = data_class(&mut r, k1, n).iter().map(|v| v * c).collect();
            push_stats(&mut cs, &mut r, &d, "scaled");
            let k2 = r.below(7); let y: Vec<f64> = data_class(&mut r, k2, n).iter().map(|v| v * c).collect();
            push_cov(&mut cs, &d, &y, "scaled");
        }
        let d = reals(&mut r, n);
        push_stats(&mut cs, &mut r, &d, "real");
        let y = reals(&mut r, n);
        push_cov(&mut cs, &d, &y, "real");
        let d = specials(&mut r, n);
        push_stats(&mut cs, &mut r, &d, "special");
        let y = specials(&mut r, n);
        push_cov(&mut cs, &d, &y, "special");
        push_hist(&mut cs, &edges(&mut r, n, true), "uniform");
        push_hist(&mut cs, &edges(&mut r, n, false), "nonuniform");
        push_hist(&mut cs, &reals(&mut r, n), "unsorted-real");
        push_hist(&mut cs, &specials(&mut r, n), "special");
    }
    // 2. longer vectors (each case repeats its data: a few functions per data set, all of them over the stream)
    let lens: Vec<usize> = if thorough { vec![100, 257, 1000, 1023, 4096, 10000, 9999, 5003, 777, 2500] } else { vec![100, 257, 1000, 10000] };
    let mut fi = 0usize;
    for (i, &n) in lens.iter().enumerate() {
        for rep in 0..2 {
            let class = ((i + rep) % 7) as u64;
            let d = if rep == 1 && i % 2 == 0 { reals(&mut r, n) } else { data_class(&mut r, class, n) };
            let tag = if rep == 1 && i % 2 == 0 { "real-long".to_string() } else { format!("{}-long", CLASS_NAMES[class as usize]) };
            let nf = if n <= 1023 { 10 } else { 2 };
            for _ in 0..nf {
                let f = fi % 10; let form = (fi / 10) % 3; fi += 1;
                let rows = if form == 2 { *r.pick(&(1..=16usize).filter(|k| n % k == 0).collect::<Vec<_>>()) } else { 1 };
                let res = run_stat(f, form, rows, &d);
                cs.push(app("CStat", vec![Tm::Raw(SFN[f].into()), Tm::Nat(form as u64), Tm::Nat(rows as u64), fl(&d), outcome_list(&res)]), &format!("{}/{}", SFN[f], tag), true);
            }
            let y = data_class(&mut r, 2, n);
            let ks: Vec<usize> = if n <= 1023 { vec![0, 1, 2, 3] } else { vec![(i + rep) % 4] };
            for k in ks {
                let res = run_cov(k, &d, &y);
                cs.push(app("CCov", vec![Tm::Raw(COVK[k].into()), fl(&d), fl(&y), outcome_list(&res)]), &format!("{}/{}", COVK[k], tag), true);
            }
            push_hist(&mut cs, &edges(&mut r, n.min(2000), rep == 0), "long");
        }
    }
    // 3. extrema: ties at the extremum, extremum first/last, signed zeros, +-inf, NaN at every position
    let next = if thorough { 1500 } else { 250 };
    for it in 0..next {
        let n = 1 + r.below(12) as usize;
        let mut d: Vec<f64> = (0..n).map(|_| r.small_int(3)).collect();
        match it % 6 {
            0 => { let i = r.below(n as u64) as usize; d[i] = f64::NAN; }
            1 => { for x in d.iter_mut() { if *x == 0.0 && r.coin(0.5) { *x = -0.0; } } }
            2 => { let i = r.below(n as u64) as usize; d[i] = if r.coin(0.5) { f64::INFINITY } else { f64::NEG_INFINITY }; }
            3 => { let i = r.below(n as u64) as usize; d[i] = if r.coin(0.5) { f64::MAX } else { f64::MIN };
                   let j = r.below(n as u64) as usize; if j != i { d[j] = if r.coin(0.5) { f64::INFINITY } else { f64::NEG_INFINITY }; } }
            4 => { d = (0..n).map(|_| *r.pick(&[0.0, -0.0])).collect(); }
            _ => {}
        }
        let nt = nontrivial(&d);
        for f in 6..10 {
            for form in 0..3 {
                let rows = if form == 2 { let divs: Vec<usize> = (1..=n).filter(|k| n % k == 0).collect(); *r.pick(&divs) } else { 1 };
                let res = run_stat(f, form, rows, &d);
                cs.push(app("CStat", vec![Tm::Raw(SFN[f].into()), Tm::Nat(form as u64), Tm::Nat(rows as u64), fl(&d), outcome_list(&res)]),
                        &format!("extrema/{}/form{}/kind{}", SFN[f], form, it % 6), nt);
            }
        }
    }
    // 4. malformed stream: covariance of vectors of different lengths (must panic), short edge lists
    let nbad = if thorough { 600 } else { 120 };
    for _ in 0..nbad {
        let (n, m) = (r.below(12) as usize, r.below(12) as usize);
        let x = data_class(&mut r, 0, n); let y = data_class(&mut r, 0, m);
        push_cov(&mut cs, &x, &y, "malformed-stream");
    }
    // keep every shard below ~1.5 MB: at most one big case (a vector of >= 4096 values) per shard
    let per = 400usize;
    let (big, rest): (Vec<String>, Vec<String>) = cs.cases.drain(..).partition(|c| c.len() > 60_000);
    let (mid, small): (Vec<String>, Vec<String>) = rest.into_iter().partition(|c| c.len() > 12_000);
    let (mut big, mut mid) = (big.into_iter(), mid.into_iter());
    let mut ordered = Vec::with_capacity(small.len() + 256);
    for (i, c) in small.into_iter().enumerate() {
        if ordered.len() % per == 0 { if let Some(b) = big.next() { ordered.push(b); } }
        if i % 50 == 25 { if let Some(b) = mid.next() { ordered.push(b); } }
        ordered.push(c);
    }
    for b in mid { ordered.push(b); }
    for b in big { while ordered.len() % per != 0 { ordered.push("(CHist [] Panic)".to_string()); } ordered.push(b); }
    cs.cases = ordered;
    cs.write(outdir, per,
             "every length 0..=26 (quick) / 0..=72 (thorough), hence every residue mod 8 of the unrolled sum, x data classes {small integers, gaussian, offset up to 1e8, constant, sorted, reversed, ties with signed zeros, offset + sorted/reversed + ties combined, uniform reals, special values (+-0, +-inf, NaN, subnormals, +-MAX)} for the ten scalar statistics (free function; one random Vector method and one random Matrix method per data set), the four covariance algorithms on paired vectors (also a vector with itself and with its negation), bin centres of uniform / non-uniform / unsorted / special edges; longer vectors up to the stated maximum 10000 (both tiers; 4 lengths quick, 10 thorough); an extrema stream (NaN, signed zeros, infinities, +-MAX, ties at every position) x 3 calling forms; a malformed stream (covariance of unequal lengths, fewer than 2 edges); non-trivial = length >= 3 and non-constant data (both vectors for covariance), or a panic; distinct by hash of the case term");
}

// ---------------------------------------------------------------------------------------------
// failure-search oracle: the property's statement against the implementation only.
// Exact sums over dyadic data x = k/scale (scale a power of two) in i128.  The second central moments are shift
// invariant in exact arithmetic, so the integers are centred on the first datum before they are squared: this keeps
// the exact reference inside i128 for data with full 53-bit mantissas and for offsets of 1e8 on a 2^-26 grid.
struct Ex { n: i128, s1: i128, s2: i128 }
fn ints_of(d: &[f64], scale: f64) -> Option<Vec<i128>> {
    d.iter().map(|x| { let k = x * scale; if k.is_finite() && k == k.round() && k.abs() < 4.0e18 { Some(k as i128) } else { None } }).collect()
}
/// the integers relative to the first one; None when the spread is too wide for the exact sums (n <= 1e4, |k - k0| < 2^48)
fn centred(k: &[i128]) -> Option<Vec<i128>> {
    if k.is_empty() { return Some(vec![]); }
    let k0 = k[0];
    k.iter().map(|a| { let c = a - k0; if c.abs() < (1i128 << 48) { Some(c) } else { None } }).collect()
}
fn ex(k: &[i128]) -> Ex { Ex { n: k.len() as i128, s1: k.iter().sum(), s2: k.iter().map(|a| a * a).sum() } }
fn ratio(p: i128, q: i128) -> f64 { p as f64 / q as f64 }

/// error a numerically stable algorithm may commit on a second central moment of scale `scale` when the
/// mean/spread ratio is `kappa`: c.(n + 2).eps.(1 + kappa).scale (Chan-Golub-LeVeque bound for Welford / two-pass)
fn tol(n: usize, kappa: f64, scale: f64) -> f64 { 16.0 * (n as f64 + 2.0) * f64::EPSILON * (1.0 + kappa) * scale + 1.0e-300 }

fn finding(out: &mut Vec<Finding>, class: &str, what: String, input: String) {
    if out.iter().filter(|f| f.class == class).count() < 3 { out.push(Finding { class: class.into(), what, input }); }
}

/// data with (nearly) full mantissas on the grid 2^-g: kind 0 gaussian (sd 3), kind 1 gaussian (sd 1) offset by +-1e8 / 123456789 / 1e7
/// (exactly representable on the grid 2^-26), kind 2 sorted gaussian, kind 3 a constant
fn data_fine(r: &mut Rng, kind: u64, n: usize, g: i32) -> Vec<f64> {
    let s = (2.0f64).powi(g);
    let fine = |v: f64| (v * s).round() / s;
    match kind {
        0 => (0..n).map(|_| fine(3.0 * r.normal())).collect(),
        1 => { let off = *r.pick(&[1.0e8, -1.0e8, 123456789.0, 1.0e7, 99999999.0]); (0..n).map(|_| off + fine(r.normal())).collect() }
        2 => { let mut v: Vec<f64> = (0..n).map(|_| fine(5.0 * r.normal())).collect(); v.sort_by(|a, b| a.partial_cmp(b).unwrap()); v }
        _ => { let c = fine(7.0 * r.normal()); vec![c; n] }
    }
}

/// how the second vector of a pair is made
#[derive(Clone, Copy, PartialEq)]
enum Pair { Class, Same, Negated, Linear, ConstY, ConstX }

/// first-occurrence extrema against naive loops, free functions and Vector / Matrix methods (finite data; +0 and -0 compare equal)
fn check_extrema(out: &mut Vec<Finding>, tried: &mut u64, x: &[f64], rows: usize, input: &str, forms: bool) {
    let n = x.len();
    let mut lo = 0usize; let mut hi = 0usize;
    for i in 1..n { if x[i] < x[lo] { lo = i; } if x[i] > x[hi] { hi = i; } }
    *tried += 4;
    crumb(input);
    let (gmin, gmax, gamin, gamax) = (min(x), max(x), argmin(x), argmax(x));
    if !(gmin == x[lo]) { finding(out, "min:wrong", format!("min returned {:e}, the minimum is {:e}", gmin, x[lo]), input.to_string()); }
    if !(gmax == x[hi]) { finding(out, "max:wrong", format!("max returned {:e}, the maximum is {:e}", gmax, x[hi]), input.to_string()); }
    if gamin != lo { finding(out, "argmin:not-first-minimum", format!("argmin returned {}, the first index of the minimum is {}", gamin, lo), input.to_string()); }
    if gamax != hi { finding(out, "argmax:not-first-maximum", format!("argmax returned {}, the first index of the maximum is {}", gamax, hi), input.to_string()); }
    if forms {
        let cols = n / rows;
        let inp = format!("{} rows={}", input, rows);
        crumb(&inp);
        let m = Matrix::new(x.to_vec(), rows as i32, cols as i32);
        *tried += 2;
        if m.argmin() != (lo / cols, lo % cols) { finding(out, "Matrix::argmin:wrong", format!("returned {:?}, first minimum at {:?}", m.argmin(), (lo / cols, lo % cols)), inp.clone()); }
        if m.argmax() != (hi / cols, hi % cols) { finding(out, "Matrix::argmax:wrong", format!("returned {:?}, first maximum at {:?}", m.argmax(), (hi / cols, hi % cols)), inp.clone()); }
        let v = Vector::new(x.to_vec());
        *tried += 6;
        if !(v.min() == x[lo]) { finding(out, "Vector::min:wrong", format!("returned {:e}, the minimum is {:e}", v.min(), x[lo]), input.to_string()); }
        if !(v.max() == x[hi]) { finding(out, "Vector::max:wrong", format!("returned {:e}, the maximum is {:e}", v.max(), x[hi]), input.to_string()); }
        if v.argmin() != lo { finding(out, "Vector::argmin:not-first-minimum", format!("returned {}, the first index of the minimum is {}", v.argmin(), lo), input.to_string()); }
        if v.argmax() != hi { finding(out, "Vector::argmax:not-first-maximum", format!("returned {}, the first index of the maximum is {}", v.argmax(), hi), input.to_string()); }
        if !(m.min() == x[lo]) { finding(out, "Matrix::min:wrong", format!("returned {:e}, the minimum is {:e}", m.min(), x[lo]), inp.clone()); }
        if !(m.max() == x[hi]) { finding(out, "Matrix::max:wrong", format!("returned {:e}, the maximum is {:e}", m.max(), x[hi]), inp.clone()); }
    }
}

/// bin centres against the midpoints of consecutive edges (the allowance 8.ne.eps.max|edge| of the first version, unchanged)
fn check_hist(out: &mut Vec<Finding>, tried: &mut u64, e: &[f64], class: &str) {
    let ne = e.len();
    *tried += 1;
    let emax = e.iter().fold(0.0f64, |a, b| a.max(b.abs()));
    let inp = format!("edges={}", json_floats(e));
    crumb(&inp);
    match run_hist(e) {
        Ok(c) => {
            let bad = c.len() != ne - 1 || (0..ne - 1).any(|i| !((c[i] - (e[i] + e[i + 1]) / 2.0).abs() <= 8.0 * (ne as f64) * f64::EPSILON * emax));
            if bad {
                let want: Vec<f64> = (0..ne - 1).map(|i| (e[i] + e[i + 1]) / 2.0).collect();
                let k = (0..(ne - 1).min(c.len())).find(|&i| !((c[i] - want[i]).abs() <= 8.0 * (ne as f64) * f64::EPSILON * emax)).unwrap_or(0);
                let show = |v: &[f64]| if v.len() <= 48 { format!("{:?}", v) } else { format!("{} values, [{}] = {:e}", v.len(), k, v.get(k).copied().unwrap_or(f64::NAN)) };
                finding(out, class, format!("returned {}, the midpoints are {}", show(&c), show(&want)), inp);
            }
        }
        Err(er) => finding(out, "hist_bin_centers:panics", format!("panicked on {} edges: {}", ne, er), inp),
    }
}

/// one data set (and its partner for the covariances) against every clause of the statement.  `all` = run every
/// sub-check (the scheduled evaluation points); otherwise the sub-checks rotate with the iteration number.
fn eval_pair(r: &mut Rng, out: &mut Vec<Finding>, tried: &mut u64, it: usize, all: bool, scale: f64, x: &[f64], y: &[f64]) {
    let n = x.len();
    let (kx, ky) = match (ints_of(x, scale).and_then(|k| centred(&k)), ints_of(y, scale).and_then(|k| centred(&k))) { (Some(a), Some(b)) => (a, b), _ => return };
    let (ex_x, ex_y) = (ex(&kx), ex(&ky));
    let nn = n as i128;
    let sc = scale as i128; let s2c = sc * sc;
    let sxy: i128 = kx.iter().zip(&ky).map(|(a, b)| a * b).sum();
    let input = format!("x={}", json_floats(x));
    let input2 = format!("x={} y={}", json_floats(x), json_floats(y));
    // exact definitions (the integers are centred on the first datum: x = x[0] + k/scale)
    let mean_x = x[0] + ratio(ex_x.s1, nn * sc);
    let m2x = nn * ex_x.s2 - ex_x.s1 * ex_x.s1;           // n^2 * scale^2 * var
    let m2y = nn * ex_y.s2 - ex_y.s1 * ex_y.s1;
    let cxy = nn * sxy - ex_x.s1 * ex_y.s1;               // n^2 * scale^2 * cov
    let var_x = ratio(m2x, nn * nn * s2c);
    let var_y = ratio(m2y, nn * nn * s2c);
    let sd_x = var_x.sqrt(); let sd_y = var_y.sqrt();
    let maxabs = x.iter().fold(0.0f64, |a, b| a.max(b.abs()));
    let kappa_x = if sd_x > 0.0 { mean_x.abs() / sd_x } else { 0.0 };
    let mean_y = y[0] + ratio(ex_y.s1, nn * sc);
    let kappa_y = if sd_y > 0.0 { mean_y.abs() / sd_y } else { 0.0 };
    // the Matrix forms: rows x cols = n, rows a divisor of n (1 x n, n x 1 and everything between)
    let rows = { let divs: Vec<usize> = (1..=n.min(16)).filter(|k| n % k == 0).collect(); if all && r.coin(0.3) { n } else { *r.pick(&divs) } };
    let cols = n / rows;
    // --- exact scaling by a power of two: every operation of every algorithm commutes with it (no rounding changes, far from
    //     overflow/underflow), so mean scales by c, std by |c|, variances and covariances by c^2, bit for bit, at EVERY scale;
    //     the extrema scale by c and their indices do not move
    if (all || it % 3 == 0) && n >= 2 {
        let k = *r.pick(&[-400i32, -200, -100, -40, -30, -12, 30, 100, 200, 400]);
        let c = (2.0f64).powi(k); let c2 = (2.0f64).powi(2 * k);
        let xs: Vec<f64> = x.iter().map(|v| v * c).collect(); let ys: Vec<f64> = y.iter().map(|v| v * c).collect();
        let inp = format!("x={} y={} both scaled by 2^{}", json_floats(x), json_floats(y), k);
        crumb(&inp);
        let same = |a: f64, b: f64| a == b || (a.is_nan() && b.is_nan());
        for (name, a, b) in [("mean", mean(&xs), mean(x) * c), ("welford_mean", welford_mean(&xs), welford_mean(x) * c),
                             ("var", var(&xs), var(x) * c2), ("sample_var", sample_var(&xs), sample_var(x) * c2),
                             ("std", std(&xs), std(x) * c), ("sample_std", sample_std(&xs), sample_std(x) * c),
                             ("covariance", covariance(&xs, &ys), covariance(x, y) * c2), ("sample_covariance", sample_covariance(&xs, &ys), sample_covariance(x, y) * c2),
                             ("sample_covariance_onepass", sample_covariance_onepass(&xs, &ys), sample_covariance_onepass(x, y) * c2),
                             ("sample_covariance_online", sample_covariance_online(&xs, &ys), sample_covariance_online(x, y) * c2),
                             ("min", min(&xs), min(x) * c), ("max", max(&xs), max(x) * c),
                             ("argmin", argmin(&xs) as f64, argmin(x) as f64), ("argmax", argmax(&xs) as f64, argmax(x) as f64)] {
            *tried += 1;
            if !same(a, b) { out.push(Finding { class: format!("{}:not-scale-equivariant", name), what: format!("{}(2^{} x) = {:e} but 2^({}) * {}(x) = {:e}: scaling the data by a power of two must scale the statistic exactly (variance quadratically)", name, k, a, if name.contains("var") { 2 * k } else { k }, name, b), input: inp.clone() }); }
        }
        // bilinearity: different (and negative) factors on the two vectors
        let (ka, kb) = (*r.pick(&[-200i32, -100, -30, -12, 0, 12, 30, 100, 200]), *r.pick(&[-200i32, -100, -30, -12, 0, 12, 30, 100, 200]));
        let (a, b) = ((2.0f64).powi(ka), -(2.0f64).powi(kb));
        let xs: Vec<f64> = x.iter().map(|v| v * a).collect(); let ys: Vec<f64> = y.iter().map(|v| v * b).collect();
        let inp = format!("x={} scaled by 2^{}, y={} scaled by -2^{}", json_floats(x), ka, json_floats(y), kb);
        crumb(&inp);
        for k in 0..4 {
            *tried += 1;
            if let (Ok(p), Ok(q)) = (run_cov(k, &xs, &ys), run_cov(k, x, y)) {
                if !same(p[0], q[0] * a * b) { finding(out, &format!("{}:not-bilinear", COVK_FN[k]), format!("cov(2^{} x, -2^{} y) = {:e} but -2^{} cov(x, y) = {:e}", ka, kb, p[0], ka + kb, q[0] * a * b), inp.clone()); }
            }
        }
    }
    // --- means
    crumb(&input);
    for (name, got) in [("mean", mean(x)), ("welford_mean", welford_mean(x)), ("Vector::mean", Vector::new(x.to_vec()).mean()),
                        ("Matrix::mean", Matrix::new(x.to_vec(), rows as i32, cols as i32).mean())] {
        *tried += 1;
        if !((got - mean_x).abs() <= 4.0 * (n as f64 + 2.0) * f64::EPSILON * maxabs + 1e-300) {
            finding(out, &format!("{}:wrong", name), format!("{} returned {:e}, the mean is {:e}", name, got, mean_x), input.clone());
        }
    }
    // --- variances
    // a constant data set has variance exactly 0 in exact arithmetic; a stable algorithm may return rounding noise of
    // size eps^2.mean^2 at most (the mean itself is known to relative eps)
    let t = tol(n, kappa_x, var_x) + 4.0 * (n as f64) * (f64::EPSILON * maxabs).powi(2);
    let (vx, mx) = (Vector::new(x.to_vec()), Matrix::new(x.to_vec(), rows as i32, cols as i32));
    for (name, got) in [("var", var(x)), ("Vector::var", vx.var()), ("Matrix::var", mx.var())] {
        *tried += 1;
        if !((got - var_x).abs() <= t) { finding(out, &format!("{}:wrong", name), format!("{} returned {:e}, definition gives {:e}", name, got, var_x), input.clone()); }
    }
    for (name, got) in [("std", std(x)), ("Vector::std", vx.std()), ("Matrix::std", mx.std())] {
        *tried += 1;
        if !((got - sd_x).abs() <= t.sqrt().max(t / sd_x.max(1e-300))) { finding(out, &format!("{}:wrong", name), format!("{} returned {:e}, definition gives {:e}", name, got, sd_x), input.clone()); }
    }
    if n >= 2 {
        let svar = ratio(m2x, nn * (nn - 1) * s2c);
        for (name, got) in [("sample_var", sample_var(x)), ("Vector::sample_var", vx.sample_var()), ("Matrix::sample_var", mx.sample_var())] {
            *tried += 1;
            if !((got - svar).abs() <= 2.0 * t) { finding(out, &format!("{}:wrong", name), format!("{} returned {:e}, definition gives {:e}", name, got, svar), input.clone()); }
        }
        for (name, got) in [("sample_std", sample_std(x)), ("Vector::sample_std", vx.sample_std()), ("Matrix::sample_std", mx.sample_std())] {
            *tried += 1;
            if !((got - svar.sqrt()).abs() <= (2.0 * t).sqrt().max(2.0 * t / svar.sqrt().max(1e-300))) { finding(out, &format!("{}:wrong", name), format!("{} returned {:e}, definition gives {:e}", name, got, svar.sqrt()), input.clone()); }
        }
    }
    // --- covariances: definition, agreement of the algorithms, cov(x,x) = var
    let cov = ratio(cxy, nn * nn * s2c);
    let scale_xy = sd_x * sd_y; // >= |cov| (Cauchy-Schwarz), the size of the summed terms
    let maxy = y.iter().fold(0.0f64, |a, b| a.max(b.abs()));
    let tc_of = |kap: f64, mxa: f64, mya: f64| tol(n, kap, scale_xy) + 4.0 * (n as f64) * (f64::EPSILON * mxa) * (f64::EPSILON * mya)
        + 8.0 * (n as f64 + 2.0) * f64::EPSILON * (f64::EPSILON * mxa * sd_y + f64::EPSILON * mya * sd_x);
    let tc = tc_of(kappa_x.max(kappa_y), maxabs, maxy);
    // --- shift invariance (an exact shift keeps the data on the grid) and exact quadratic scaling
    if all || it % 3 == 0 {
        let c = *r.pick(&[1.0e4, 1.0e6, 1.0e8, -1.0e8, 3.0]);
        let d = *r.pick(&[0.0, 1.0e8, -1.0e6, 3.0, c]);
        let xs: Vec<f64> = x.iter().map(|v| v + c).collect();
        let ys: Vec<f64> = y.iter().map(|v| v + d).collect();
        if ints_of(&xs, scale).is_some() && xs.iter().zip(x).all(|(a, b)| a - c == *b) {
            *tried += 1;
            crumb(&format!("x={}", json_floats(&xs)));
            let sd = var_x.sqrt();
            let kap = if sd > 0.0 { (mean_x + c).abs() / sd } else { 0.0 };
            let t2 = tol(n, kap, var_x) + 4.0 * (n as f64) * (f64::EPSILON * (maxabs + c.abs())).powi(2);
            let got = var(&xs);
            if !((got - var_x).abs() <= t2) { finding(out, "var:not-shift-invariant", format!("var(x + {:e}) = {:e} but var(x) = {:e}", c, got, var_x), input.clone()); }
            // the covariances of the shifted pair against the (unchanged) exact covariance, same allowance formula at the shifted means
            if n >= 2 && ints_of(&ys, scale).is_some() && ys.iter().zip(y).all(|(a, b)| a - d == *b) {
                let kapy = if sd_y > 0.0 { (mean_y + d).abs() / sd_y } else { 0.0 };
                let tcs = tc_of(kap.max(kapy), maxabs + c.abs(), maxy + d.abs());
                let dx0 = x.iter().fold(0.0f64, |a, b| a.max((b - x[0]).abs())); let dy0 = y.iter().fold(0.0f64, |a, b| a.max((b - y[0]).abs()));
                let inp = format!("x={} + {:e}, y={} + {:e}", json_floats(x), c, json_floats(y), d);
                crumb(&inp);
                for k in 0..4 {
                    *tried += 1;
                    let want = if k == 0 { cov } else { ratio(cxy, nn * (nn - 1) * s2c) };
                    let allow = match k { 0 => tcs, 2 => 2.0 * tcs + 32.0 * (n as f64 + 2.0) * f64::EPSILON * dx0 * dy0, _ => 2.0 * tcs };
                    match run_cov(k, &xs, &ys) {
                        Ok(g) => if !((g[0] - want).abs() <= allow) { finding(out, &format!("{}:not-shift-invariant", COVK_FN[k]), format!("after the shift it returned {:e}, the covariance (unchanged by a shift) is {:e}", g[0], want), inp.clone()); },
                        Err(e) => finding(out, &format!("{}:panics", COVK_FN[k]), format!("panicked on equal-length vectors: {}", e), inp.clone()),
                    }
                }
            }
        }
        let xs: Vec<f64> = x.iter().map(|v| v * 4.0).collect();
        *tried += 1;
        crumb(&format!("x={}", json_floats(&xs)));
        if var(&xs) != 16.0 * var(x) { finding(out, "var:not-quadratic-in-scale", format!("var(4x) = {:e} but 16 var(x) = {:e}", var(&xs), 16.0 * var(x)), input.clone()); }
    }
    *tried += 1;
    crumb(&input2);
    let got = covariance(x, y);
    if !((got - cov).abs() <= tc) { finding(out, "covariance:wrong", format!("covariance returned {:e}, definition gives {:e}", got, cov), input2.clone()); }
    if n >= 2 {
        let scov = ratio(cxy, nn * (nn - 1) * s2c);
        // the shifted one-pass algorithm works on x - x[0]: its stable bound carries the spread of the shifted data
        let dx0 = x.iter().fold(0.0f64, |a, b| a.max((b - x[0]).abs())); let dy0 = y.iter().fold(0.0f64, |a, b| a.max((b - y[0]).abs()));
        let t1 = 2.0 * tc + 32.0 * (n as f64 + 2.0) * f64::EPSILON * dx0 * dy0;
        for (k, name) in [(1usize, "sample_covariance"), (2, "sample_covariance_onepass"), (3, "sample_covariance_online")] {
            *tried += 1;
            let got = run_cov(k, x, y).map(|v| v[0]);
            match got {
                Ok(g) => if !((g - scov).abs() <= if k == 2 { t1 } else { 2.0 * tc }) {
                    finding(out, &format!("{}:wrong", name), format!("{} returned {:e}, the sample covariance is {:e} (population covariance {:e})", name, g, scov, cov), input2.clone());
                },
                Err(e) => finding(out, &format!("{}:panics", name), format!("panicked on equal-length vectors: {}", e), input2.clone()),
            }
        }
        *tried += 1;
        crumb(&input);
        let (a, b) = (sample_covariance(x, x), sample_var(x));
        if !((a - b).abs() <= 4.0 * t) { finding(out, "sample_covariance:xx-differs-from-sample_var", format!("sample_covariance(x,x) = {:e}, sample_var(x) = {:e}", a, b), input.clone()); }
    }
    // --- rejection half: unequal lengths must panic (second vector longer, shorter, empty; first vector empty)
    if all || it % 10 == 0 {
        let extra = 1 + r.below(3) as usize;
        let y2 = data_class(r, 0, n + extra);
        let shorter = n - (1 + r.below(n as u64) as usize).min(n);
        let y3 = data_class(r, 0, shorter);
        for (a, b) in [(x, &y2[..]), (x, &y3[..]), (&y2[..], x), (&y3[..], x), (x, &[][..]), (&[][..], x)] {
            let inp = format!("x={} y={}", json_floats(a), json_floats(b));
            crumb(&inp);
            for k in 0..4 { *tried += 1; if run_cov(k, a, b).is_ok() { finding(out, &format!("{}:unequal-lengths-accepted", COVK[k]), "returned a value for vectors of different lengths".into(), inp.clone()); } }
        }
    }
    // --- extrema and first-occurrence indices
    check_extrema(out, tried, x, rows, &input, all || it % 4 == 0);
}

/// the second vector of a pair
fn partner(r: &mut Rng, pair: Pair, x: &[f64], mk: &mut dyn FnMut(&mut Rng, usize) -> Vec<f64>) -> (Vec<f64>, Vec<f64>) {
    let n = x.len();
    match pair {
        Pair::Class => (x.to_vec(), mk(r, n)),
        Pair::Same => (x.to_vec(), x.to_vec()),
        Pair::Negated => (x.to_vec(), x.iter().map(|v| -v).collect()),
        Pair::Linear => { let a = *r.pick(&[3.0, -2.0, 5.0, 1.0]); let b = r.small_int(50); (x.to_vec(), x.iter().map(|v| a * v + b).collect()) }
        Pair::ConstY => (x.to_vec(), vec![r.small_int(50); n]),
        Pair::ConstX => (vec![x[0]; n], mk(r, n)),
    }
}

pub fn oracle(tier: &str, seed: u64) -> (u64, Vec<Finding>) {
    let mut r = Rng::new(seed ^ 0xC08);
    let mut out = vec![]; let mut tried = 0u64;
    let thorough = tier == "thorough";
    let iters = if thorough { 12000 } else { 2500 };
    // 1. random search: every data class of the statement (and their combination), random lengths 1..1e4
    for it in 0..iters {
        let n = if it % 50 == 49 { 1 + r.below(10000) as usize } else if it % 5 == 0 { 1 + r.below(200) as usize } else { 1 + r.below(24) as usize };
        let class = r.below(NCLASS);
        let x = data_class(&mut r, class, n);
        let cy = if r.coin(0.5) { class } else { r.below(NCLASS) };
        let y = data_class(&mut r, cy, n);
        eval_pair(&mut r, &mut out, &mut tried, it, false, SCALE, &x, &y);
        // --- histogram bin centres: midpoints of consecutive edges, uniform and non-uniform
        if it % 2 == 0 {
            let ne = 2 + r.below(40) as usize;
            let uniform = r.coin(0.4);
            let e = edges(&mut r, ne, uniform);
            check_hist(&mut out, &mut tried, &e, if uniform { "hist_bin_centers:wrong-uniform" } else { "hist_bin_centers:wrong-nonuniform" });
        }
        if out.len() > 30 { return (tried, out); }
    }
    // 2. the same clauses on data with full mantissas (grid 2^-40 around 0, grid 2^-26 around +-1e8): the dyadic classes above have
    //    at most ~37 significant bits, so many of their products and sums are exact
    for it in 0..iters / 4 {
        let n = if it % 25 == 24 { 1 + r.below(10000) as usize } else if it % 5 == 0 { 1 + r.below(200) as usize } else { 1 + r.below(24) as usize };
        let offset = it % 3 == 0;
        let g = if offset { 26 } else { 40 };
        let kx = if offset { 1 } else { *r.pick(&[0u64, 0, 2, 3]) };
        let x = data_fine(&mut r, kx, n, g);
        let ky = if r.coin(0.5) { kx } else { *r.pick(&[0u64, 2, 3]) };
        let y = data_fine(&mut r, ky, n, g);
        eval_pair(&mut r, &mut out, &mut tried, it, it % 4 == 0, (2.0f64).powi(g), &x, &y);
        if out.len() > 30 { return (tried, out); }
    }
    // 3. scheduled evaluation points: the ends of the stated length range (1, 2, 1e4), the lengths around the 8-way unrolling of the sum,
    //    every class at every one of them, with every sub-check; then special pairs (y = x, y = -x, y = a x + b, a constant partner)
    let lens: Vec<usize> = if thorough { vec![1, 2, 3, 7, 8, 9, 15, 16, 17, 63, 64, 65, 1000, 4095, 4096, 4097, 9999, 10000] } else { vec![1, 2, 3, 7, 8, 9, 16, 17, 4096, 9999, 10000] };
    for (li, &n) in lens.iter().enumerate() {
        for class in 0..NCLASS + 2 {
            let reps = if n <= 100 { 2 } else { 1 };
            for rep in 0..reps {
                let (scale, x, y) = if class < NCLASS {
                    let x = data_class(&mut r, class, n);
                    let cy = if rep == 0 { class } else { (class + 1 + li as u64) % NCLASS };
                    (SCALE, x, data_class(&mut r, cy, n))
                } else {
                    let g = if class == NCLASS { 40 } else { 26 };
                    let k = if class == NCLASS { 0 } else { 1 };
                    ((2.0f64).powi(g), data_fine(&mut r, k, n, g), data_fine(&mut r, if rep == 0 { k } else { 2 }, n, g))
                };
                eval_pair(&mut r, &mut out, &mut tried, li, true, scale, &x, &y);
                if out.len() > 30 { return (tried, out); }
            }
        }
    }
    let plens: Vec<usize> = if thorough { vec![2, 3, 5, 8, 24, 200, 1000, 10000] } else { vec![2, 3, 8, 24, 200, 10000] };
    for &n in &plens {
        for class in 0..NCLASS {
            for pair in [Pair::Same, Pair::Negated, Pair::Linear, Pair::ConstY, Pair::ConstX] {
                if n >= 1000 && (class + pair as u64) % 3 != 0 { continue; }
                let x0 = data_class(&mut r, class, n);
                let (x, y) = partner(&mut r, pair, &x0, &mut |r: &mut Rng, n: usize| data_class(r, class, n));
                eval_pair(&mut r, &mut out, &mut tried, n, true, SCALE, &x, &y);
                if out.len() > 30 { return (tried, out); }
            }
        }
    }
    // 4. constant data of any magnitude (not on a grid: the definitions are known without exact arithmetic: mean = c, every second moment = 0),
    //    as large as the sum n.c cannot overflow (the mean divides the sum) and down to the subnormals
    for &n in &[1usize, 2, 3, 8, 9, 100, 10000] {
        let big = f64::MAX / (2.0 * n as f64);
        for &c0 in &[0.1, 1.0 / 3.0, 100000000.1, 1.0e15 + 0.5, 1.0e100, 1.0e300, big, f64::MIN_POSITIVE, 4.9e-324, 1.7e-310, 0.0] {
            for &c in &[c0, -c0] {
                let x = vec![c; n];
                let input = format!("x = {} copies of {:e}", n, c);
                crumb(&input);
                let (vx, mx) = (Vector::new(x.clone()), Matrix::new(x.clone(), 1, n as i32));
                for (name, got) in [("mean", mean(&x)), ("welford_mean", welford_mean(&x)), ("Vector::mean", vx.mean()), ("Matrix::mean", mx.mean())] {
                    tried += 1;
                    if !((got - c).abs() <= 4.0 * (n as f64 + 2.0) * f64::EPSILON * c.abs() + 1e-300) { finding(&mut out, &format!("{}:wrong", name), format!("{} returned {:e}, the mean is {:e}", name, got, c), input.clone()); }
                }
                let t = tol(n, 0.0, 0.0) + 4.0 * (n as f64) * (f64::EPSILON * c.abs()).powi(2);
                let mut second: Vec<(&str, f64, f64)> = vec![("var", var(&x), t), ("std", std(&x), t.sqrt()), ("Vector::var", vx.var(), t), ("Matrix::std", mx.std(), t.sqrt())];
                if n >= 2 { second.extend([("sample_var", sample_var(&x), 2.0 * t), ("sample_std", sample_std(&x), (2.0 * t).sqrt()), ("Vector::sample_std", vx.sample_std(), (2.0 * t).sqrt()), ("Matrix::sample_var", mx.sample_var(), 2.0 * t)]); }
                for (name, got, allow) in second {
                    tried += 1;
                    if !(got.abs() <= allow) { finding(&mut out, &format!("{}:wrong", name), format!("{} returned {:e} on constant data, definition gives 0", name, got), input.clone()); }
                }
                // the covariance of a constant with anything is 0
                let cy = r.below(NCLASS); let y = data_class(&mut r, cy, n);
                let ky = centred(&ints_of(&y, SCALE).unwrap()).unwrap(); let e = ex(&ky);
                let sd_y = ratio(n as i128 * e.s2 - e.s1 * e.s1, (n * n) as i128 * (SCALE as i128) * (SCALE as i128)).sqrt();
                let maxy = y.iter().fold(0.0f64, |a, b| a.max(b.abs()));
                let tc = tol(n, 0.0, 0.0) + 4.0 * (n as f64) * (f64::EPSILON * c.abs()) * (f64::EPSILON * maxy) + 8.0 * (n as f64 + 2.0) * f64::EPSILON * (f64::EPSILON * c.abs() * sd_y);
                let inp = format!("{} y={}", input, json_floats(&y));
                crumb(&inp);
                for k in 0..4 {
                    if k > 0 && n < 2 { continue; }
                    for (a, b, side) in [(&x, &y, "cov(const, y)"), (&y, &x, "cov(y, const)")] {
                        tried += 1;
                        match run_cov(k, a, b) {
                            Ok(g) => if !(g[0].abs() <= if k == 0 { tc } else { 2.0 * tc }) { finding(&mut out, &format!("{}:wrong", COVK_FN[k]), format!("{} = {:e}, the covariance with a constant is 0", side, g[0]), inp.clone()); },
                            Err(er) => finding(&mut out, &format!("{}:panics", COVK_FN[k]), format!("panicked on equal-length vectors: {}", er), inp.clone()),
                        }
                    }
                }
                check_extrema(&mut out, &mut tried, &x, 1, &input, true);
            }
        }
        // constant +-f64::MAX: the Welford moments never form n.c (proved +0 in Coq); the extrema seeds are +-f64::MAX themselves
        for &c in &[f64::MAX, -f64::MAX] {
            let x = vec![c; n];
            let input = format!("x = {} copies of {:e}", n, c);
            crumb(&input);
            tried += 2;
            if !(welford_mean(&x) == c) { finding(&mut out, "welford_mean:wrong", format!("returned {:e}, the mean is {:e}", welford_mean(&x), c), input.clone()); }
            if !(var(&x) == 0.0 && std(&x) == 0.0) { finding(&mut out, "var:wrong", format!("var returned {:e} on constant data, definition gives 0", var(&x)), input.clone()); }
            check_extrema(&mut out, &mut tried, &x, 1, &input, true);
        }
    }
    // 5. extrema on finite data of extreme magnitude (+-f64::MAX is the seed of argmin / argmax), ties of the extremum at the first and the last index
    const EXT: [f64; 14] = [f64::MAX, -f64::MAX, f64::MIN_POSITIVE, -f64::MIN_POSITIVE, 4.9e-324, -4.9e-324, 0.0, -0.0, 1.0, -1.0, 1.0e308, -1.0e308, 1.7976931348623155e308, -1.7976931348623155e308];
    for it in 0..(if thorough { 4000 } else { 800 }) {
        let n = if it % 100 == 99 { 10000 } else { 1 + r.below(12) as usize };
        let mut x: Vec<f64> = (0..n).map(|_| if r.coin(0.7) { *r.pick(&EXT) } else { r.small_int(3) }).collect();
        match (if n == 10000 { it / 100 } else { it }) % 8 {
            0 => { x[0] = f64::MAX; } 1 => { x[0] = -f64::MAX; } 2 => { x[n - 1] = f64::MAX; } 3 => { x[n - 1] = -f64::MAX; }
            4 => { let (lo, hi) = (min(&x), max(&x)); x[0] = lo; x[n - 1] = lo; if n > 2 { x[1] = hi; x[n - 2] = hi; } }   // ties at both ends
            5 => { let c = *r.pick(&EXT); for v in x.iter_mut().skip(1) { *v = c; } }                                       // all equal but the first
            _ => {}
        }
        let divs: Vec<usize> = (1..=n.min(16)).filter(|k| n % k == 0).collect();
        let rows = if r.coin(0.2) { n } else { *r.pick(&divs) };
        let input = format!("x={}", json_floats(&x));
        check_extrema(&mut out, &mut tried, &x, rows, &input, true);
        if out.len() > 30 { return (tried, out); }
    }
    // 6. bin edges: exactly two edges, thousands of edges, far from the origin, negative, decreasing, zero-width bins, scaled by 2^+-400,
    //    as large as the sum of two edges cannot overflow; fewer than two edges are refused
    for it in 0..(if thorough { 1500 } else { 300 }) {
        let ne = match it % 10 { 0 => 2, 1 => 3, 2 => if it % 100 == 2 { 10001 } else { 1000 }, _ => 2 + r.below(60) as usize };
        let uniform = r.coin(0.4);
        let mut e = edges(&mut r, ne, uniform);
        let mut class = if uniform { "hist_bin_centers:wrong-uniform" } else { "hist_bin_centers:wrong-nonuniform" };
        match (it / 10) % 6 {
            0 => { let off = *r.pick(&[1.0e6, -1.0e6, 1.0e8, -123456789.0, 1.0e12]); for v in e.iter_mut() { *v += off; } }
            1 => { e.reverse(); class = "hist_bin_centers:wrong-nonuniform"; }
            2 => { for i in 1..ne { if r.coin(0.3) { e[i] = e[i - 1]; } } class = "hist_bin_centers:wrong-nonuniform"; }
            3 => { let c = (2.0f64).powi(*r.pick(&[-400, -100, 100, 400, 900])); for v in e.iter_mut() { *v *= c; } }
            4 => { let top = e.iter().fold(0.0f64, |a, b| a.max(b.abs())).max(1.0); let c = (f64::MAX / 2.0) / top; for v in e.iter_mut() { *v *= c; } }
            _ => { for v in e.iter_mut() { *v = -*v; } class = "hist_bin_centers:wrong-nonuniform"; }
        }
        check_hist(&mut out, &mut tried, &e, class);
        if out.len() > 30 { return (tried, out); }
    }
    for e in [vec![], vec![0.0], vec![3.5], vec![f64::MAX]] {
        tried += 1;
        let inp = format!("edges={}", json_floats(&e));
        crumb(&inp);
        if run_hist(&e).is_ok() { finding(&mut out, "hist_bin_centers:fewer-than-two-edges-accepted", format!("returned a value for {} edge(s)", e.len()), inp); }
    }
    (tried, out)
}
