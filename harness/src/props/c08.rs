//! C08 — descriptive statistics equal their textbook definitions: case generation for the Coq
//! correspondence (free functions, Vector and Matrix methods, four covariance algorithms, extrema
//! and their indices, histogram bin centres) and the failure-search oracle (exact i128 rational
//! arithmetic on dyadic data, naive reference loops for extrema, midpoints for bin centres).
use crate::util::*;
use compute::linalg::{Matrix, Vector};
use compute::statistics::*;

const SFN: [&str; 10] = ["Mean", "WMean", "Var", "SVar", "Std", "SStd", "Min", "Max", "ArgMin", "ArgMax"];
const COVK: [&str; 4] = ["CovPop", "CovSample", "CovOnepass", "CovOnline"];

// ---------------------------------------------------------------------------------------------
// data classes of the property
const SCALE: f64 = 1024.0; // dyadic data: every value is k/1024 with k an integer (exact in i128)

fn dyadic(x: f64) -> f64 { (x * SCALE).round() / SCALE }

/// class 0 small integers, 1 gaussian (dyadic), 2 heavily offset gaussian, 3 constant, 4 sorted, 5 reversed,
/// 6 ties and signed zeros; all values are exact multiples of 1/1024 below 2^38 in magnitude
fn data_class(r: &mut Rng, class: u64, n: usize) -> Vec<f64> {
    match class {
        0 => (0..n).map(|_| r.small_int(9)).collect(),
        1 => (0..n).map(|_| dyadic(3.0 * r.normal())).collect(),
        2 => {
            let off = *r.pick(&[1.0e3, 1.0e5, 1.0e6, 1.0e7, 1.0e8, -1.0e8, 123456789.0]);
            (0..n).map(|_| off + dyadic(r.normal())).collect()
        }
        3 => { let c = if r.coin(0.5) { r.small_int(50) } else { dyadic(100.0 * r.normal()) }; vec![c; n] }
        4 | 5 => {
            let mut v: Vec<f64> = (0..n).map(|_| dyadic(5.0 * r.normal())).collect();
            v.sort_by(|a, b| a.partial_cmp(b).unwrap());
            if class == 5 { v.reverse(); }
            v
        }
        _ => (0..n).map(|_| *r.pick(&[0.0, -0.0, 1.0, -1.0, 2.0, -2.0, 0.5, 0.0, -0.0])).collect(),
    }
}
const CLASS_NAMES: [&str; 7] = ["small-int", "gaussian", "offset", "constant", "sorted", "reversed", "ties-zeros"];

fn reals(r: &mut Rng, n: usize) -> Vec<f64> { (0..n).map(|_| r.uniform(-4.0, 4.0) * if r.coin(0.1) { 1.0e3 } else { 1.0 }).collect() }

fn specials(r: &mut Rng, n: usize) -> Vec<f64> {
    const SP: [f64; 14] = [0.0, -0.0, f64::INFINITY, f64::NEG_INFINITY, f64::NAN, f64::MAX, f64::MIN, f64::MIN_POSITIVE,
                           4.9e-324, -4.9e-324, 1.0, -1.0, 1.0e308, -1.0e308];
    (0..n).map(|_| if r.coin(0.6) { *r.pick(&SP) } else { r.uniform(-2.0, 2.0) }).collect()
}

fn nontrivial(d: &[f64]) -> bool { d.len() >= 3 && d.iter().any(|x| x.to_bits() != d[0].to_bits()) }

// ---------------------------------------------------------------------------------------------
// the implementation, by function index and calling form (0 free function, 1 Vector method, 2 Matrix method)
fn run_stat(f: usize, form: usize, rows: usize, d: &[f64]) -> Result<Vec<f64>, String> {
    catch(|| match form {
        0 => match f {
            0 => vec![mean(d)], 1 => vec![welford_mean(d)], 2 => vec![var(d)], 3 => vec![sample_var(d)],
            4 => vec![std(d)], 5 => vec![sample_std(d)], 6 => vec![min(d)], 7 => vec![max(d)],
            8 => vec![argmin(d) as f64], _ => vec![argmax(d) as f64],
        },
        1 => { let v = Vector::new(d.to_vec()); match f {
            0 => vec![v.mean()], 1 => vec![welford_mean(&v)], 2 => vec![v.var()], 3 => vec![v.sample_var()],
            4 => vec![v.std()], 5 => vec![v.sample_std()], 6 => vec![v.min()], 7 => vec![v.max()],
            8 => vec![v.argmin() as f64], _ => vec![v.argmax() as f64],
        } }
        _ => { let m = Matrix::new(d.to_vec(), rows as i32, (d.len() / rows) as i32); match f {
            0 => vec![m.mean()], 1 => vec![welford_mean(&m.data)], 2 => vec![m.var()], 3 => vec![m.sample_var()],
            4 => vec![m.std()], 5 => vec![m.sample_std()], 6 => vec![m.min()], 7 => vec![m.max()],
            8 => { let (i, j) = m.argmin(); vec![i as f64, j as f64] }
            _ => { let (i, j) = m.argmax(); vec![i as f64, j as f64] }
        } }
    })
}
fn run_cov(k: usize, x: &[f64], y: &[f64]) -> Result<Vec<f64>, String> {
    catch(|| vec![match k { 0 => covariance(x, y), 1 => sample_covariance(x, y), 2 => sample_covariance_onepass(x, y), _ => sample_covariance_online(x, y) }])
}
fn run_hist(e: &[f64]) -> Result<Vec<f64>, String> { catch(|| hist_bin_centers(e).v) }

fn push_stats(cs: &mut Cases, r: &mut Rng, d: &[f64], tag: &str) {
    let nt = nontrivial(d);
    for f in 0..10 {
        let res = run_stat(f, 0, 1, d);
        cs.push(app("CStat", vec![Tm::Raw(SFN[f].into()), Tm::Nat(0), Tm::Nat(1), fl(d), outcome_list(&res)]), &format!("{}/{}", SFN[f], tag), nt);
    }
    // one Vector-method and one Matrix-method call per data set (all ten over the stream)
    let f = r.below(10) as usize;
    let res = run_stat(f, 1, 1, d);
    cs.push(app("CStat", vec![Tm::Raw(SFN[f].into()), Tm::Nat(1), Tm::Nat(1), fl(d), outcome_list(&res)]), &format!("Vector::{}", SFN[f]), nt);
    if !d.is_empty() {
        let divs: Vec<usize> = (1..=d.len().min(12)).filter(|k| d.len() % k == 0).collect();
        let rows = *r.pick(&divs);
        let f = r.below(10) as usize;
        let res = run_stat(f, 2, rows, d);
        cs.push(app("CStat", vec![Tm::Raw(SFN[f].into()), Tm::Nat(2), Tm::Nat(rows as u64), fl(d), outcome_list(&res)]), &format!("Matrix::{}", SFN[f]), nt);
    }
}
fn push_cov(cs: &mut Cases, x: &[f64], y: &[f64], tag: &str) {
    let nt = x.len() == y.len() && nontrivial(x) && nontrivial(y);
    for k in 0..4 {
        let res = run_cov(k, x, y);
        let t = if res.is_err() { format!("{}/panic", COVK[k]) } else { format!("{}/{}", COVK[k], tag) };
        cs.push(app("CCov", vec![Tm::Raw(COVK[k].into()), fl(x), fl(y), outcome_list(&res)]), &t, nt || res.is_err());
    }
}
fn push_hist(cs: &mut Cases, e: &[f64], tag: &str) {
    let res = run_hist(e);
    let t = if res.is_err() { "hist/panic".to_string() } else { format!("hist/{}", tag) };
    cs.push(app("CHist", vec![fl(e), outcome_list(&res)]), &t, e.len() >= 3 || res.is_err());
}

fn edges(r: &mut Rng, n: usize, uniform: bool) -> Vec<f64> {
    if uniform {
        let lo = r.small_int(50); let h = *r.pick(&[0.25, 0.5, 1.0, 3.0, 0.1]);
        (0..n).map(|i| lo + h * i as f64).collect()
    } else {
        let mut e = r.small_int(50); let mut v = vec![];
        for _ in 0..n { v.push(e); e += dyadic(r.uniform(0.01, 8.0)); }
        v
    }
}

pub fn gen(tier: &str, seed: u64, outdir: &str) {
    let mut r = Rng::new(seed);
    let mut cs = Cases::new("C08");
    let thorough = tier == "thorough";
    // 1. every length 0..=L (all residues mod 8 of the unrolled sum), every data class
    let maxl = if thorough { 72 } else { 26 };
    for n in 0..=maxl {
        for class in 0..7u64 {
            if !thorough && n > 10 && (n as u64 + class) % 3 != 0 { continue; }
            let d = data_class(&mut r, class, n);
            push_stats(&mut cs, &mut r, &d, CLASS_NAMES[class as usize]);
            let cy = if r.coin(0.5) { class } else { r.below(7) };
            let y = data_class(&mut r, cy, n);
            push_cov(&mut cs, &d, &y, CLASS_NAMES[class as usize]);
        }
        // the same kinds of data at very small and very large scales (variance scales quadratically: 2^-60 .. 2^-400 and back)
        if n >= 1 {
            let c = (2.0f64).powi(*r.pick(&[-200, -100, -40, -30, 30, 100, 200]));
            let k1 = r.below(7); let d: Vec<f64> = data_class(&mut r, k1, n).iter().map(|v| v * c).collect();
            push_stats(&mut cs, &mut r, &d, "scaled");
            let k2 = r.below(7); let y: Vec<f64> = data_class(&mut r, k2, n).iter().map(|v| v * c).collect();
            push_cov(&mut cs, &d, &y, "scaled");
        }
        let d = reals(&mut r, n);
        push_stats(&mut cs, &mut r, &d, "real");
        let y = reals(&mut r, n);
        push_cov(&mut cs, &d, &y, "real");
        let d = specials(&mut r, n);
        push_stats(&mut cs, &mut r, &d, "special");
        let y = specials(&mut r, n);
        push_cov(&mut cs, &d, &y, "special");
        push_hist(&mut cs, &edges(&mut r, n, true), "uniform");
        push_hist(&mut cs, &edges(&mut r, n, false), "nonuniform");
        push_hist(&mut cs, &reals(&mut r, n), "unsorted-real");
        push_hist(&mut cs, &specials(&mut r, n), "special");
    }
    // 2. longer vectors (each case repeats its data: a few functions per data set, all of them over the stream)
    let lens: Vec<usize> = if thorough { vec![100, 257, 1000, 1023, 4096, 10000, 9999, 5003, 777, 2500] } else { vec![100, 257, 1000] };
    let mut fi = 0usize;
    for (i, &n) in lens.iter().enumerate() {
        for rep in 0..2 {
            let class = ((i + rep) % 7) as u64;
            let d = if rep == 1 && i % 2 == 0 { reals(&mut r, n) } else { data_class(&mut r, class, n) };
            let tag = if rep == 1 && i % 2 == 0 { "real-long".to_string() } else { format!("{}-long", CLASS_NAMES[class as usize]) };
            let nf = if n <= 1023 { 10 } else { 2 };
            for _ in 0..nf {
                let f = fi % 10; let form = (fi / 10) % 3; fi += 1;
                let rows = if form == 2 { *r.pick(&(1..=16usize).filter(|k| n % k == 0).collect::<Vec<_>>()) } else { 1 };
                let res = run_stat(f, form, rows, &d);
                cs.push(app("CStat", vec![Tm::Raw(SFN[f].into()), Tm::Nat(form as u64), Tm::Nat(rows as u64), fl(&d), outcome_list(&res)]), &format!("{}/{}", SFN[f], tag), true);
            }
            let y = data_class(&mut r, 2, n);
            let ks: Vec<usize> = if n <= 1023 { vec![0, 1, 2, 3] } else { vec![(i + rep) % 4] };
            for k in ks {
                let res = run_cov(k, &d, &y);
                cs.push(app("CCov", vec![Tm::Raw(COVK[k].into()), fl(&d), fl(&y), outcome_list(&res)]), &format!("{}/{}", COVK[k], tag), true);
            }
            push_hist(&mut cs, &edges(&mut r, n.min(2000), rep == 0), "long");
        }
    }
    // 3. extrema: ties at the extremum, extremum first/last, signed zeros, +-inf, NaN at every position
    let next = if thorough { 1500 } else { 250 };
    for it in 0..next {
        let n = 1 + r.below(12) as usize;
        let mut d: Vec<f64> = (0..n).map(|_| r.small_int(3)).collect();
        match it % 6 {
            0 => { let i = r.below(n as u64) as usize; d[i] = f64::NAN; }
            1 => { for x in d.iter_mut() { if *x == 0.0 && r.coin(0.5) { *x = -0.0; } } }
            2 => { let i = r.below(n as u64) as usize; d[i] = if r.coin(0.5) { f64::INFINITY } else { f64::NEG_INFINITY }; }
            3 => { let i = r.below(n as u64) as usize; d[i] = if r.coin(0.5) { f64::MAX } else { f64::MIN };
                   let j = r.below(n as u64) as usize; if j != i { d[j] = if r.coin(0.5) { f64::INFINITY } else { f64::NEG_INFINITY }; } }
            4 => { d = (0..n).map(|_| *r.pick(&[0.0, -0.0])).collect(); }
            _ => {}
        }
        let nt = nontrivial(&d);
        for f in 6..10 {
            for form in 0..3 {
                let rows = if form == 2 { let divs: Vec<usize> = (1..=n).filter(|k| n % k == 0).collect(); *r.pick(&divs) } else { 1 };
                let res = run_stat(f, form, rows, &d);
                cs.push(app("CStat", vec![Tm::Raw(SFN[f].into()), Tm::Nat(form as u64), Tm::Nat(rows as u64), fl(&d), outcome_list(&res)]),
                        &format!("extrema/{}/form{}/kind{}", SFN[f], form, it % 6), nt);
            }
        }
    }
    // 4. malformed stream: covariance of vectors of different lengths (must panic), short edge lists
    let nbad = if thorough { 600 } else { 120 };
    for _ in 0..nbad {
        let (n, m) = (r.below(12) as usize, r.below(12) as usize);
        let x = data_class(&mut r, 0, n); let y = data_class(&mut r, 0, m);
        push_cov(&mut cs, &x, &y, "malformed-stream");
    }
    // keep every shard below ~1.5 MB: at most one big case (a vector of >= 4096 values) per shard
    let per = 400usize;
    let (big, rest): (Vec<String>, Vec<String>) = cs.cases.drain(..).partition(|c| c.len() > 60_000);
    let (mid, small): (Vec<String>, Vec<String>) = rest.into_iter().partition(|c| c.len() > 12_000);
    let (mut big, mut mid) = (big.into_iter(), mid.into_iter());
    let mut ordered = Vec::with_capacity(small.len() + 256);
    for (i, c) in small.into_iter().enumerate() {
        if ordered.len() % per == 0 { if let Some(b) = big.next() { ordered.push(b); } }
        if i % 50 == 25 { if let Some(b) = mid.next() { ordered.push(b); } }
        ordered.push(c);
    }
    for b in mid { ordered.push(b); }
    for b in big { while ordered.len() % per != 0 { ordered.push("(CHist [] Panic)".to_string()); } ordered.push(b); }
    cs.cases = ordered;
    cs.write(outdir, per,
             "every length 0..=26 (quick) / 0..=72 (thorough), hence every residue mod 8 of the unrolled sum, x data classes {small integers, gaussian, offset up to 1e8, constant, sorted, reversed, ties with signed zeros, uniform reals, special values (+-0, +-inf, NaN, subnormals, +-MAX)} for the ten scalar statistics (free function; one random Vector method and one random Matrix method per data set), the four covariance algorithms on paired vectors, bin centres of uniform / non-uniform / unsorted / special edges; longer vectors up to 1000 (quick) / 10000 (thorough); an extrema stream (NaN, signed zeros, infinities, +-MAX, ties at every position) x 3 calling forms; a malformed stream (covariance of unequal lengths, fewer than 2 edges); non-trivial = length >= 3 and non-constant data (both vectors for covariance), or a panic; distinct by hash of the case term");
}

// ---------------------------------------------------------------------------------------------
// failure-search oracle: the property's statement against the implementation only.
// Exact sums over dyadic data x = k/1024 in i128.
struct Ex { n: i128, s1: i128, s2: i128 }
fn ints_of(d: &[f64]) -> Option<Vec<i128>> {
    d.iter().map(|x| { let k = x * SCALE; if k.is_finite() && k == k.round() && k.abs() < 1.0e15 { Some(k as i128) } else { None } }).collect()
}
fn ex(k: &[i128]) -> Ex { Ex { n: k.len() as i128, s1: k.iter().sum(), s2: k.iter().map(|a| a * a).sum() } }
fn ratio(p: i128, q: i128) -> f64 { p as f64 / q as f64 }
const S2: i128 = 1024 * 1024;

/// error a numerically stable algorithm may commit on a second central moment of scale `scale` when the
/// mean/spread ratio is `kappa`: c.(n + 2).eps.(1 + kappa).scale (Chan-Golub-LeVeque bound for Welford / two-pass)
fn tol(n: usize, kappa: f64, scale: f64) -> f64 { 16.0 * (n as f64 + 2.0) * f64::EPSILON * (1.0 + kappa) * scale + 1.0e-300 }

fn finding(out: &mut Vec<Finding>, class: &str, what: String, input: String) {
    if out.iter().filter(|f| f.class == class).count() < 3 { out.push(Finding { class: class.into(), what, input }); }
}

pub fn oracle(tier: &str, seed: u64) -> (u64, Vec<Finding>) {
    let mut r = Rng::new(seed ^ 0xC08);
    let mut out = vec![]; let mut tried = 0u64;
    let iters = if tier == "thorough" { 12000 } else { 2500 };
    for it in 0..iters {
        let n = if it % 50 == 49 { 1 + r.below(10000) as usize } else if it % 5 == 0 { 1 + r.below(200) as usize } else { 1 + r.below(24) as usize };
        let class = r.below(7);
        let x = data_class(&mut r, class, n);
        let cy = if r.coin(0.5) { class } else { r.below(7) };
        let y = data_class(&mut r, cy, n);
        let (kx, ky) = (ints_of(&x).unwrap(), ints_of(&y).unwrap());
        let (ex_x, ex_y) = (ex(&kx), ex(&ky));
        let nn = n as i128;
        let sxy: i128 = kx.iter().zip(&ky).map(|(a, b)| a * b).sum();
        let input = format!("x={}", json_floats(&x));
        let input2 = format!("x={} y={}", json_floats(&x), json_floats(&y));
        // exact definitions
        let mean_x = ratio(ex_x.s1, nn * 1024);
        let m2x = nn * ex_x.s2 - ex_x.s1 * ex_x.s1;           // n^2 * 1024^2 * var
        let m2y = nn * ex_y.s2 - ex_y.s1 * ex_y.s1;
        let cxy = nn * sxy - ex_x.s1 * ex_y.s1;               // n^2 * 1024^2 * cov
        let var_x = ratio(m2x, nn * nn * S2);
        let var_y = ratio(m2y, nn * nn * S2);
        let sd_x = var_x.sqrt(); let sd_y = var_y.sqrt();
        let maxabs = x.iter().fold(0.0f64, |a, b| a.max(b.abs()));
        let kappa_x = if sd_x > 0.0 { mean_x.abs() / sd_x } else { 0.0 };
        let mean_y = ratio(ex_y.s1, nn * 1024);
        let kappa_y = if sd_y > 0.0 { mean_y.abs() / sd_y } else { 0.0 };
        // --- exact scaling by a power of two: every operation of every algorithm commutes with it (no rounding changes, far from
        //     overflow/underflow), so mean scales by c, std by |c|, variances and covariances by c^2, bit for bit, at EVERY scale
        if it % 3 == 0 && n >= 2 {
            let k = *r.pick(&[-200i32, -100, -40, -30, -12, 30, 100, 200]);
            let c = (2.0f64).powi(k); let c2 = (2.0f64).powi(2 * k);
            let xs: Vec<f64> = x.iter().map(|v| v * c).collect(); let ys: Vec<f64> = y.iter().map(|v| v * c).collect();
            let inp = format!("x={} scaled by 2^{}", json_floats(&x), k);
            crumb(&inp); tried += 1;
            let same = |a: f64, b: f64| a == b || (a.is_nan() && b.is_nan());
            for (name, a, b) in [("mean", mean(&xs), mean(&x) * c), ("welford_mean", welford_mean(&xs), welford_mean(&x) * c),
                                 ("var", var(&xs), var(&x) * c2), ("sample_var", sample_var(&xs), sample_var(&x) * c2),
                                 ("std", std(&xs), std(&x) * c), ("sample_std", sample_std(&xs), sample_std(&x) * c),
                                 ("covariance", covariance(&xs, &ys), covariance(&x, &y) * c2), ("sample_covariance", sample_covariance(&xs, &ys), sample_covariance(&x, &y) * c2)] {
                if !same(a, b) { out.push(Finding { class: format!("{}:not-scale-equivariant", name), what: format!("{}(2^{} x) = {:e} but 2^({}) * {}(x) = {:e}: scaling the data by a power of two must scale the statistic exactly (variance quadratically)", name, k, a, if name.contains("var") { 2 * k } else { k }, name, b), input: inp.clone() }); }
            }
        }
        // --- means
        crumb(&input);
        for (name, got) in [("mean", mean(&x)), ("welford_mean", welford_mean(&x)), ("Vector::mean", Vector::new(x.clone()).mean())] {
            tried += 1;
            if !((got - mean_x).abs() <= 4.0 * (n as f64 + 2.0) * f64::EPSILON * maxabs + 1e-300) {
                finding(&mut out, &format!("{}:wrong", name), format!("{} returned {:e}, the mean is {:e}", name, got, mean_x), input.clone());
            }
        }
        // --- variances
        // a constant data set has variance exactly 0 in exact arithmetic; a stable algorithm may return rounding noise of
        // size eps^2.mean^2 at most (the mean itself is known to relative eps)
        let t = tol(n, kappa_x, var_x) + 4.0 * (n as f64) * (f64::EPSILON * maxabs).powi(2);
        tried += 2;
        let got = var(&x);
        if !((got - var_x).abs() <= t) { finding(&mut out, "var:wrong", format!("var returned {:e}, definition gives {:e}", got, var_x), input.clone()); }
        let got = std(&x);
        if !((got - sd_x).abs() <= t.sqrt().max(t / sd_x.max(1e-300))) { finding(&mut out, "std:wrong", format!("std returned {:e}, definition gives {:e}", got, sd_x), input.clone()); }
        if n >= 2 {
            let svar = ratio(m2x, nn * (nn - 1) * S2);
            tried += 3;
            let got = sample_var(&x);
            if !((got - svar).abs() <= 2.0 * t) { finding(&mut out, "sample_var:wrong", format!("sample_var returned {:e}, definition gives {:e}", got, svar), input.clone()); }
            let got = sample_std(&x);
            if !((got - svar.sqrt()).abs() <= (2.0 * t).sqrt().max(2.0 * t / svar.sqrt().max(1e-300))) { finding(&mut out, "sample_std:wrong", format!("sample_std returned {:e}, definition gives {:e}", got, svar.sqrt()), input.clone()); }
            let got = Matrix::new(x.clone(), 1, n as i32).sample_var();
            if !((got - svar).abs() <= 2.0 * t) { finding(&mut out, "Matrix::sample_var:wrong", format!("returned {:e}, definition gives {:e}", got, svar), input.clone()); }
        }
        // --- shift invariance (exact integer shift keeps the data dyadic) and power-of-two scaling (exact)
        if it % 3 == 0 {
            let c = *r.pick(&[1.0e4, 1.0e6, 1.0e8, -1.0e8, 3.0]);
            let xs: Vec<f64> = x.iter().map(|v| v + c).collect();
            if ints_of(&xs).is_some() && xs.iter().zip(&x).all(|(a, b)| a - c == *b) {
                tried += 1;
                crumb(&format!("x={}", json_floats(&xs)));
                let sd = var_x.sqrt();
                let kap = if sd > 0.0 { (mean_x + c).abs() / sd } else { 0.0 };
                let t2 = tol(n, kap, var_x) + 4.0 * (n as f64) * (f64::EPSILON * (maxabs + c.abs())).powi(2);
                let got = var(&xs);
                if !((got - var_x).abs() <= t2) { finding(&mut out, "var:not-shift-invariant", format!("var(x + {:e}) = {:e} but var(x) = {:e}", c, got, var_x), input.clone()); }
            }
            let xs: Vec<f64> = x.iter().map(|v| v * 4.0).collect();
            tried += 1;
            crumb(&format!("x={}", json_floats(&xs)));
            if var(&xs) != 16.0 * var(&x) { finding(&mut out, "var:not-quadratic-in-scale", format!("var(4x) = {:e} but 16 var(x) = {:e}", var(&xs), 16.0 * var(&x)), input.clone()); }
        }
        // --- covariances: definition, agreement of the algorithms, cov(x,x) = var
        let cov = ratio(cxy, nn * nn * S2);
        let scale = sd_x * sd_y; // >= |cov| (Cauchy-Schwarz), the size of the summed terms
        let maxy = y.iter().fold(0.0f64, |a, b| a.max(b.abs()));
        let tc = tol(n, kappa_x.max(kappa_y), scale) + 4.0 * (n as f64) * (f64::EPSILON * maxabs) * (f64::EPSILON * maxy)
            + 8.0 * (n as f64 + 2.0) * f64::EPSILON * (f64::EPSILON * maxabs * sd_y + f64::EPSILON * maxy * sd_x);
        tried += 1;
        crumb(&input2);
        let got = covariance(&x, &y);
        if !((got - cov).abs() <= tc) { finding(&mut out, "covariance:wrong", format!("covariance returned {:e}, definition gives {:e}", got, cov), input2.clone()); }
        if n >= 2 {
            let scov = ratio(cxy, nn * (nn - 1) * S2);
            // the shifted one-pass algorithm works on x - x[0]: its stable bound carries the spread of the shifted data
            let dx0 = x.iter().fold(0.0f64, |a, b| a.max((b - x[0]).abs())); let dy0 = y.iter().fold(0.0f64, |a, b| a.max((b - y[0]).abs()));
            let t1 = 2.0 * tc + 32.0 * (n as f64 + 2.0) * f64::EPSILON * dx0 * dy0;
            for (k, name) in [(1usize, "sample_covariance"), (2, "sample_covariance_onepass"), (3, "sample_covariance_online")] {
                tried += 1;
                let got = run_cov(k, &x, &y).map(|v| v[0]);
                match got {
                    Ok(g) => if !((g - scov).abs() <= if k == 2 { t1 } else { 2.0 * tc }) {
                        finding(&mut out, &format!("{}:wrong", name), format!("{} returned {:e}, the sample covariance is {:e} (population covariance {:e})", name, g, scov, cov), input2.clone());
                    },
                    Err(e) => finding(&mut out, &format!("{}:panics", name), format!("panicked on equal-length vectors: {}", e), input2.clone()),
                }
            }
            tried += 1;
            crumb(&input);
            let (a, b) = (sample_covariance(&x, &x), sample_var(&x));
            if !((a - b).abs() <= 4.0 * t) { finding(&mut out, "sample_covariance:xx-differs-from-sample_var", format!("sample_covariance(x,x) = {:e}, sample_var(x) = {:e}", a, b), input.clone()); }
        }
        // --- rejection half: unequal lengths must panic
        if it % 10 == 0 {
            let extra = 1 + r.below(3) as usize;
            let y2 = data_class(&mut r, 0, n + extra);
            let inp = format!("x={} y={}", json_floats(&x), json_floats(&y2));
            crumb(&inp);
            for k in 0..4 { tried += 1; if run_cov(k, &x, &y2).is_ok() { finding(&mut out, &format!("{}:unequal-lengths-accepted", COVK[k]), "returned a value for vectors of different lengths".into(), inp.clone()); } }
        }
        // --- extrema and first-occurrence indices (finite data; +0 and -0 compare equal)
        {
            let mut lo = 0usize; let mut hi = 0usize;
            for i in 1..n { if x[i] < x[lo] { lo = i; } if x[i] > x[hi] { hi = i; } }
            tried += 4;
            crumb(&input);
            let (gmin, gmax, gamin, gamax) = (min(&x), max(&x), argmin(&x), argmax(&x));
            if !(gmin == x[lo]) { finding(&mut out, "min:wrong", format!("min returned {:e}, the minimum is {:e}", gmin, x[lo]), input.clone()); }
            if !(gmax == x[hi]) { finding(&mut out, "max:wrong", format!("max returned {:e}, the maximum is {:e}", gmax, x[hi]), input.clone()); }
            if gamin != lo { finding(&mut out, "argmin:not-first-minimum", format!("argmin returned {}, the first index of the minimum is {}", gamin, lo), input.clone()); }
            if gamax != hi { finding(&mut out, "argmax:not-first-maximum", format!("argmax returned {}, the first index of the maximum is {}", gamax, hi), input.clone()); }
            if it % 4 == 0 {
                let divs: Vec<usize> = (1..=n.min(16)).filter(|k| n % k == 0).collect();
                let rows = *r.pick(&divs); let cols = n / rows;
                crumb(&format!("{} rows={}", input, rows));
                let m = Matrix::new(x.clone(), rows as i32, cols as i32);
                tried += 2;
                if m.argmin() != (lo / cols, lo % cols) { finding(&mut out, "Matrix::argmin:wrong", format!("returned {:?}, first minimum at {:?}", m.argmin(), (lo / cols, lo % cols)), format!("{} rows={}", input, rows)); }
                if m.argmax() != (hi / cols, hi % cols) { finding(&mut out, "Matrix::argmax:wrong", format!("returned {:?}, first maximum at {:?}", m.argmax(), (hi / cols, hi % cols)), format!("{} rows={}", input, rows)); }
            }
        }
        // --- histogram bin centres: midpoints of consecutive edges, uniform and non-uniform
        if it % 2 == 0 {
            let ne = 2 + r.below(40) as usize;
            let uniform = r.coin(0.4);
            let e = edges(&mut r, ne, uniform);
            tried += 1;
            let emax = e.iter().fold(0.0f64, |a, b| a.max(b.abs()));
            crumb(&format!("edges={}", json_floats(&e)));
            match run_hist(&e) {
                Ok(c) => {
                    let bad = c.len() != ne - 1 || (0..ne - 1).any(|i| !((c[i] - (e[i] + e[i + 1]) / 2.0).abs() <= 8.0 * (ne as f64) * f64::EPSILON * emax));
                    if bad {
                        let want: Vec<f64> = (0..ne - 1).map(|i| (e[i] + e[i + 1]) / 2.0).collect();
                        finding(&mut out, if uniform { "hist_bin_centers:wrong-uniform" } else { "hist_bin_centers:wrong-nonuniform" },
                                format!("returned {:?}, the midpoints are {:?}", c, want), format!("edges={}", json_floats(&e)));
                    }
                }
                Err(er) => finding(&mut out, "hist_bin_centers:panics", format!("panicked on {} edges: {}", ne, er), format!("edges={}", json_floats(&e))),
            }
        }
        if out.len() > 30 { break; }
    }
    (tried, out)
}
