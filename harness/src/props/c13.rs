//! C13 — autocovariance / autocorrelation, differencing, AR fit (Yule-Walker) and forecasting:
//! case generation for the Coq correspondence and the failure-search oracle.
//!
//! The inner linear solve of `AR::fit` (`invert_matrix`) is NOT modelled here: exactly like a libm call it is
//! recorded.  The harness recomputes the argument `AR::fit` passes to it with the crate's own public functions
//! (`mean`, `acf`, `toeplitz`), calls the crate's public `invert_matrix` on it and puts (argument bits, result bits)
//! into the case; `Corr/C13.v` instantiates the model's `inv` parameter by that one-entry table (the model's
//! argument must be bit-equal to the recorded one; a miss is a disagreement).
//!
//! End-to-end family (`CFitE`, `CFitPredictE`): the same fits WITHOUT any record; the Coq side computes the inner
//! solve with C01's executable model of `invert_matrix` (Model/SolveInst.v), so `AR::fit` is reproduced whole.
use crate::util::*;
use compute::linalg::{invert_matrix, toeplitz};
use compute::statistics::mean;
use compute::timeseries::{acf, acovf, difference, AR};

// ---------------------------------------------------------------------------------------------
// series generators (own PRNG only)

/// AR coefficients phi_1..phi_q of a stationary model, from partial autocorrelations in (-lim, lim) (Levinson map)
fn stationary_coeffs(r: &mut Rng, q: usize, lim: f64) -> Vec<f64> {
    let mut phi: Vec<f64> = vec![];
    for k in 0..q {
        let pk = r.uniform(-lim, lim);
        let mut nxt = vec![0.0; k + 1];
        for j in 0..k { nxt[j] = phi[j] - pk * phi[k - 1 - j]; }
        nxt[k] = pk;
        phi = nxt;
    }
    phi
}

fn ar_sim(r: &mut Rng, n: usize, phi: &[f64], sigma: f64) -> Vec<f64> {
    let q = phi.len();
    let burn = 50 + 10 * q;
    let mut x: Vec<f64> = vec![0.0; q];
    for _ in 0..(n + burn) {
        let t = x.len();
        let mut v = sigma * r.normal();
        for i in 0..q { v += phi[i] * x[t - 1 - i]; }
        x.push(v);
    }
    x[x.len() - n..].to_vec()
}

/// one series of the property's input families; returns (family tag, data)
fn series(r: &mut Rng, n: usize) -> (&'static str, Vec<f64>) {
    let kind = r.below(6);
    let q = 1 + r.below(6) as usize;
    let phi = stationary_coeffs(r, q, 0.9);
    let base = ar_sim(r, n, &phi, 1.0);
    match kind {
        0 | 1 => ("ar", base),
        2 => { let a = r.uniform(-0.05, 0.05); let b = r.uniform(-5.0, 5.0);
               ("ar+trend", base.iter().enumerate().map(|(i, v)| v + a * i as f64 + b).collect()) }
        3 => { let c = r.uniform(-100.0, 100.0); let s = *r.pick(&[1e-3, 0.1, 1.0, 10.0]);
               ("const+noise", (0..n).map(|_| c + s * r.normal()).collect()) }
        4 => { let c = *r.pick(&[1e3, -1e4, 1e5, 1e6, -1e6]) * r.uniform(0.5, 1.0);
               ("ar+large-offset", base.iter().map(|v| v + c).collect()) }
        _ => { // dyadic grid: multiples of 2^-10 (sums and shifts by integers are exact)
               ("ar-dyadic", base.iter().map(|v| (v * 1024.0).round() / 1024.0).collect()) }
    }
}

/// coverage audit: the corners of the property's quantifier that `series` does not draw (used by ADDED oracle
/// iterations and ADDED correspondence cases only; the random stream of the earlier ones is untouched):
/// AR coefficients close to the stationarity boundary (partial autocorrelations up to +-0.99, AR(1) with |phi| = 0.99),
/// the families COMBINED (trend + offset, constant-plus-noise + offset), the offset at its stated maximum (mean exactly
/// +-1e6), innovations of another scale, a trend that dominates the noise.
fn series_wide(r: &mut Rng, n: usize, kind: usize) -> (&'static str, Vec<f64>) {
    let q = 1 + r.below(6) as usize;
    let big = |r: &mut Rng| -> f64 { if r.coin(0.5) { *r.pick(&[1e6, -1e6]) } else { *r.pick(&[1e6, -1e6, 1e5]) * r.uniform(0.5, 1.0) } };
    match kind % 8 {
        0 => { let phi = stationary_coeffs(r, q, 0.99); ("ar-near-unit-root", ar_sim(r, n, &phi, 1.0)) }
        1 => { let phi = stationary_coeffs(r, q, 0.9); let base = ar_sim(r, n, &phi, 1.0);
               let a = r.uniform(-0.05, 0.05); let c = big(r);
               ("ar+trend+large-offset", base.iter().enumerate().map(|(i, v)| v + a * i as f64 + c).collect()) }
        2 => { let c = big(r); let s = *r.pick(&[1e-3, 0.1, 1.0, 10.0]);
               ("const+noise+large-offset", (0..n).map(|_| c + s * r.normal()).collect()) }
        3 => { let phi = stationary_coeffs(r, q, 0.9); let base = ar_sim(r, n, &phi, 1.0);
               // mean EXACTLY +-1e6: the sample mean of the simulated part is removed first (in the harness's own arithmetic)
               let m = base.iter().sum::<f64>() / n as f64; let c = *r.pick(&[1e6, -1e6]);
               ("ar+offset-at-1e6", base.iter().map(|v| (v - m) + c).collect()) }
        4 => { let phi = stationary_coeffs(r, q, 0.9); let s = *r.pick(&[1e-3, 1e3]);
               ("ar-scaled-innovations", ar_sim(r, n, &phi, s)) }
        5 => { let phi = stationary_coeffs(r, q, 0.9); let base = ar_sim(r, n, &phi, 1.0);
               let a = r.uniform(0.5, 2.0) * *r.pick(&[1.0, -1.0]); let b = r.uniform(-5.0, 5.0);
               ("ar+steep-trend", base.iter().enumerate().map(|(i, v)| v + a * i as f64 + b).collect()) }
        6 => { let f = *r.pick(&[0.99, -0.99, 0.95, -0.95]); ("ar1-near-unit-root", ar_sim(r, n, &[f], 1.0)) }
        _ => series(r, n),   // the original families at the boundary lengths
    }
}

fn specials(r: &mut Rng) -> f64 {
    *r.pick(&[0.0, -0.0, f64::INFINITY, f64::NEG_INFINITY, f64::NAN, 5e-324, -5e-324, 2.2250738585072014e-308,
              1.7976931348623157e308, -1.7976931348623157e308, 1e-200, 1e200, 1.0, -1.0])
}

fn fit_state(p: usize, data: &[f64]) -> Result<Vec<f64>, String> {
    catch(|| { let mut ar = AR::new(p); ar.fit(data); let mut v = vec![ar.intercept]; v.extend_from_slice(&ar.coeffs); v })
}

/// the argument `AR::fit` hands to `invert_matrix`, recomputed with the crate's own public functions, and the
/// outcome of the crate's `invert_matrix` on it
fn fit_inner(p: usize, data: &[f64]) -> (Vec<f64>, Result<Vec<f64>, String>) {
    let mu = mean(data);
    let adjusted: Vec<f64> = data.iter().map(|x| x - mu).collect();
    let ac: Vec<f64> = (0..=p).map(|t| acf(&adjusted, t as i32)).collect();
    let arg = toeplitz(&ac[..p]);
    let res = catch(|| invert_matrix(&arg));
    (arg, res)
}

fn push_fit(cs: &mut Cases, p: usize, data: &[f64], tag: &str) -> Result<Vec<f64>, String> {
    let e = fit_state(p, data);
    let (arg, res) = if p == 0 { (vec![], Err("p = 0".to_string())) } else { fit_inner(p, data) };
    let nt = data.len() >= 3 && data.iter().any(|v| *v != data[0]);
    cs.push(app("CFit", vec![Tm::Nat(p as u64), fl(data), fl(&arg), outcome_list(&res), outcome_list(&e)]),
            &format!("fit/{}{}", tag, if e.is_err() { "/panic" } else { "" }), nt);
    // end to end: no record; the Coq side computes the inner solve with C01's executable model of invert_matrix
    cs.push(app("CFitE", vec![Tm::Nat(p as u64), fl(data), outcome_list(&e)]),
            &format!("e2e-fit/{}{}", tag, if e.is_err() { "/panic" } else { "" }), nt);
    if data.len() <= 200 {
        // the pipeline AR::new(p) -> fit(data) -> predict(data, h), end to end
        let h = 1 + (data.len() % 7);
        let f = catch(|| { let mut ar = AR::new(p); ar.fit(data); ar.predict(data, h) });
        cs.push(app("CFitPredictE", vec![Tm::Nat(p as u64), fl(data), Tm::Nat(h as u64), outcome_list(&f)]),
                &format!("e2e-fit-predict/{}{}", tag, if f.is_err() { "/panic" } else { "" }), nt);
    }
    e
}

/// one case per series: [acovf k1; acf k1; acovf k2; acf k2; ...] (the series is written once)
fn push_lags(cs: &mut Cases, x: &[f64], lags: &[i32], tag: &str, nt: bool) {
    let e = catch(|| lags.iter().flat_map(|&k| vec![acovf(x, k), acf(x, k)]).collect::<Vec<f64>>());
    cs.push(app("CLags", vec![fl(x), Tm::L(lags.iter().map(|&k| Tm::Z(k as i64)).collect()), outcome_list(&e)]), tag, nt);
}

fn push_predict(cs: &mut Cases, coeffs: &[f64], mu: f64, data: &[f64], h: usize, tag: &str) {
    let ar = AR { p: coeffs.len(), coeffs: coeffs.to_vec(), intercept: mu };
    let e = catch(|| ar.predict(data, h));
    cs.push(app("CPredict", vec![fl(coeffs), Tm::F(mu), fl(data), Tm::Nat(h as u64), outcome_list(&e)]),
            &format!("predict/{}{}", tag, if e.is_err() { "/panic" } else { "" }), data.len() >= 3 && h >= 2);
}
fn push_predict_one(cs: &mut Cases, coeffs: &[f64], mu: f64, data: &[f64], tag: &str) {
    let ar = AR { p: coeffs.len(), coeffs: coeffs.to_vec(), intercept: mu };
    let e = catch(|| ar.predict_one(data)).map(|x| vec![x]);
    let which = if data.len() >= coeffs.len() { "long" } else { "short" };
    cs.push(app("CPredOne", vec![fl(coeffs), Tm::F(mu), fl(data), outcome_list(&e)]),
            &format!("predict_one/{}/{}", tag, which), data.len() >= 1 && coeffs.len() >= 2);
}

pub fn gen(tier: &str, seed: u64, outdir: &str) {
    let mut r = Rng::new(seed ^ 0xC13);
    let mut cs = Cases::new("C13");
    let thorough = tier == "thorough";

    // 1. acovf / acf: every length 0..=40 (all residues mod 8 of the unrolled mean), lags around 0, at and beyond the length
    for n in 0..=40usize {
        let reps = if thorough { 16 } else { 2 };
        for _ in 0..reps {
            let x: Vec<f64> = if n % 5 == 4 { (0..n).map(|_| r.small_int(9)).collect() } else { (0..n).map(|_| r.uniform(-4.0, 4.0)).collect() };
            let mut lags: Vec<i32> = vec![0, 1, -1, 2, -3, n as i32 - 1, -(n as i32) + 1, n as i32, -(n as i32), n as i32 + 1, 50, -50];
            lags.push(r.range(-50, 50) as i32); lags.push(r.range(-(n as i64), n as i64) as i32);
            lags.sort(); lags.dedup();
            push_lags(&mut cs, &x, &lags, "acovf+acf/len0-40", n >= 3);
        }
    }
    // 2. the property's series families, lags -50..50
    let nser = if thorough { 1000 } else { 48 };
    for it in 0..nser {
        let n = if it % 12 == 11 { if thorough { 5000 } else { 1200 } } else { 10 + r.below(if thorough { 600 } else { 150 }) as usize };
        let (fam, x) = series(&mut r, n);
        let nl = if thorough { 12 } else { 6 };
        let lags: Vec<i32> = (0..nl).map(|j| if j == 0 { 0 } else { r.range(-50, 50) as i32 }).collect();
        push_lags(&mut cs, &x, &lags, &format!("acovf+acf/{}", fam), true);
    }
    // 3. special values (+-0, +-inf, NaN, subnormals, huge), constant series (zero variance), extreme lags
    let nsp = if thorough { 2400 } else { 120 };
    for it in 0..nsp {
        let n = 1 + r.below(20) as usize;
        let mut x: Vec<f64> = (0..n).map(|_| r.uniform(-2.0, 2.0)).collect();
        match it % 4 {
            0 => { let c = specials(&mut r); for v in x.iter_mut() { *v = c; } }            // constant series
            1 => { let i = r.below(n as u64) as usize; x[i] = specials(&mut r); }
            2 => { for v in x.iter_mut() { if r.coin(0.4) { *v = specials(&mut r); } } }
            _ => { for v in x.iter_mut() { *v *= 1e-310; } }                                    // subnormal range
        }
        let k = match it % 7 { 0 => i32::MAX, 1 => i32::MIN + 1, 2 => 0, _ => r.range(-(n as i64) - 2, n as i64 + 2) as i32 };
        push_lags(&mut cs, &x, &[k, -k, 0], "acovf+acf/special", true);
    }
    // 4. difference: every length 0..=20 (the empty vector panics), integer cumulative sums, special values
    for n in 0..=20usize {
        for rep in 0..(if thorough { 4 } else { 2 }) {
            let x: Vec<f64> = (0..n).map(|_| if rep == 1 && r.coin(0.2) { specials(&mut r) } else if rep == 0 { r.small_int(50) } else { r.uniform(-9.0, 9.0) }).collect();
            let e = catch(|| difference(x.clone()));
            cs.push(app("CDiff", vec![fl(&x), outcome_list(&e)]), if e.is_err() { "difference/panic" } else { "difference" }, n >= 3);
        }
    }
    // 5. AR::new(p).fit(data): orders 0 (rejected) and 1..8 on the property's families; short and degenerate data
    let nfit = if thorough { 1600 } else { 96 };
    let mut fitted: Vec<(Vec<f64>, Vec<f64>)> = vec![];   // (data, state)
    for it in 0..nfit {
        let p = 1 + (it % 8) as usize;
        let n = if it % 20 == 19 { if thorough { 5000 } else { 1000 } } else { 10 + r.below(if thorough { 400 } else { 120 }) as usize };
        let (fam, x) = series(&mut r, n);
        if let Ok(st) = push_fit(&mut cs, p, &x, fam) { fitted.push((x, st)); }
    }
    for p in 0..=9usize {   // orders against short data: lags reach and pass the length
        for n in [0usize, 1, 2, 3, 5, 8, 9, 12] {
            if p == 0 && n > 2 { continue; }
            let x: Vec<f64> = (0..n).map(|_| r.uniform(-3.0, 3.0)).collect();
            let _ = push_fit(&mut cs, p, &x, "short");
        }
    }
    for it in 0..(if thorough { 40 } else { 10 }) {   // constant / special-valued data: NaN autocorrelations into the inner solve
        let n = 4 + r.below(12) as usize; let p = 1 + r.below(3) as usize;
        let mut x: Vec<f64> = (0..n).map(|_| r.uniform(-2.0, 2.0)).collect();
        if it % 2 == 0 { let c = r.small_int(5); for v in x.iter_mut() { *v = c; } } else { let i = r.below(n as u64) as usize; x[i] = specials(&mut r); }
        let _ = push_fit(&mut cs, p, &x, "degenerate");
    }
    // 6. forecasting with the fitted states (coeffs as stored, i.e. reversed; intercept = mean)
    for (i, (x, st)) in fitted.iter().enumerate() {
        let (mu, co) = (st[0], &st[1..]);
        let h = if i % 16 == 15 { 1000 } else if i % 4 == 3 { 100 + r.below(150) as usize } else { 1 + r.below(30) as usize };
        // the last 3p values carry everything predict reads; keep the case small but also pass full histories sometimes
        let keep = if i % 5 == 0 { x.len().min(400) } else { (3 * co.len()).min(x.len()) };
        let hist = &x[x.len() - keep..];
        push_predict(&mut cs, co, mu, hist, h, "fitted");
        push_predict_one(&mut cs, co, mu, hist, "fitted");
        let short = &hist[hist.len() - r.below(co.len() as u64) as usize..];
        push_predict_one(&mut cs, co, mu, short, "fitted");
    }
    // 7. forecasting with hand-made states: orders 1..17 (p >= 8 reaches the unrolled part of dot), every history length
    //    around p (shorter: predict panics, predict_one uses the short branch), horizons 0.., special values
    for p in 1..=17usize {
        let co: Vec<f64> = if p <= 6 { let mut c = stationary_coeffs(&mut r, p, 0.9); c.reverse(); c } else { (0..p).map(|_| r.uniform(-0.2, 0.2)).collect() };
        let mu = if p % 3 == 0 { 0.0 } else { r.uniform(-50.0, 50.0) };
        for n in [0usize, 1, p.saturating_sub(1), p, p + 1, p + 9] {
            let x: Vec<f64> = (0..n).map(|_| mu + r.uniform(-3.0, 3.0)).collect();
            push_predict(&mut cs, &co, mu, &x, r.below(12) as usize, "handmade");
            push_predict_one(&mut cs, &co, mu, &x, "handmade");
        }
        if p <= 8 || thorough {
            let x: Vec<f64> = (0..p + 3).map(|_| if r.coin(0.15) { specials(&mut r) } else { r.uniform(-3.0, 3.0) }).collect();
            push_predict(&mut cs, &co, specials(&mut r), &x, 5, "special");
            push_predict_one(&mut cs, &co, mu, &x, "special");
        }
    }
    push_predict(&mut cs, &[], 1.5, &[1.0, 2.0], 3, "handmade");   // empty coefficient vector (public fields allow it)
    push_predict_one(&mut cs, &[], 1.5, &[1.0, 2.0], "handmade");
    if thorough {
        for _ in 0..6 { let p = 1 + r.below(6) as usize; let mut co = stationary_coeffs(&mut r, p, 0.95); co.reverse();
            let x: Vec<f64> = (0..p + 5).map(|_| 1e6 + r.normal()).collect();
            push_predict(&mut cs, &co, 1e6, &x, 1000, "horizon1000"); }
    }
    // 8. coverage audit (added): the corners of the quantifier. Shortest series (10, 11 points) with the largest order (8),
    //    the wide families (near-unit-root coefficients, combined trend + offset, constant + noise at mean +-1e6, mean
    //    exactly +-1e6, scaled innovations, dominating trend), EVERY lag -50..50 on one series per family, horizons 61..999
    {
        let mut wfitted: Vec<(Vec<f64>, Vec<f64>)> = vec![];
        for kind in 0..8usize {
            for (n, p) in [(10usize, 8usize), (11, 3), (40, 8)] {
                if !thorough && kind % 2 == 1 && n == 11 { continue; }
                let (fam, x) = series_wide(&mut r, n, kind);
                if n == 10 { let lags: Vec<i32> = (-50..=50).collect(); push_lags(&mut cs, &x, &lags, &format!("acovf+acf/all-lags/{}", fam), true); }
                if let Ok(st) = push_fit(&mut cs, p, &x, fam) { wfitted.push((x, st)); }
            }
        }
        for (i, (x, st)) in wfitted.iter().enumerate() {
            if !thorough && i % 3 != 0 { continue; }
            let (mu, co) = (st[0], &st[1..]);
            let h = match i % 4 { 0 => 61 + r.below(939) as usize, 1 => 999, 2 => 61, _ => 1 };
            push_predict(&mut cs, co, mu, x, h, "wide");
            push_predict_one(&mut cs, co, mu, x, "wide");
        }
        if thorough {
            for kind in 0..8usize { for n in [5000usize, 4999] {
                let (fam, x) = series_wide(&mut r, n, kind);
                let lags: Vec<i32> = vec![0, 1, -1, 49, 50, -50];
                push_lags(&mut cs, &x, &lags, &format!("acovf+acf/{}", fam), true);
                if n == 5000 { let _ = push_fit(&mut cs, 8, &x, fam); }
            } }
        }
    }
    cs.write(outdir, if thorough { 50 } else { 100 },
             "acovf/acf on every length 0..=40 x lags {0,+-1,2,-3,+-(n-1),+-n,n+1,+-50,random}, on the property's series families (AR(1..6) simulations, trends, constant+noise, offsets to 1e6, dyadic grid; lengths 10..5000) with lags -50..50, on special values (+-0, +-inf, NaN, subnormals, constant series, lags i32::MAX / i32::MIN+1); difference on every length 0..=20 (empty panics); AR::new(p).fit for p = 0 (panic) and 1..9 on the families, on short data (length <= p) and on degenerate data, with the inner invert_matrix call recorded (argument bits, result bits or panic), and every one of these fits ALSO end to end (tags e2e-*: no record, the inner solve computed inside Coq by C01's executable model of invert_matrix; for series up to 200 points also the pipeline fit -> predict(data, h)); predict / predict_one on the fitted states (horizons 1..1000) and on hand-made states of order 0..17 with history lengths around p (short histories: predict panics, predict_one takes its short branch) and special values; non-trivial = length >= 3 and non-constant data (lag inside the series; horizon >= 2 for predict; order >= 2 for predict_one); ADDED by the coverage audit: series of 10 / 11 / 40 points with orders 8 / 3 / 8 from the wide families (partial autocorrelations up to 0.99, AR(1) with |phi| up to 0.99, trend + offset, constant + noise at mean +-1e6, mean exactly +-1e6, innovations 1e-3 / 1e3, dominating trend), every lag -50..50 on one 10-point series per family, forecasts of those fits at horizons 1, 61, 61..999, 999 (thorough: also 4999 / 5000 points, order 8); distinct by hash of the case term");
}

// ---------------------------------------------------------------------------------------------
// failure-search oracle: the property's statement against the implementation only

const EPS: f64 = f64::EPSILON;

/// Neumaier compensated sum (reference; error ~ eps*|sum| + n*eps^2*sum|x|)
fn csum(it: impl Iterator<Item = f64>) -> f64 {
    let (mut s, mut c) = (0.0f64, 0.0f64);
    for v in it { let t = s + v; if s.abs() >= v.abs() { c += (s - t) + v; } else { c += (v - t) + s; } s = t; }
    s + c
}
fn ref_mean(x: &[f64]) -> f64 { csum(x.iter().copied()) / x.len() as f64 }
/// biased autocovariance by its definition (compensated), and a forward error bound valid for ANY evaluation order
/// of the definition in binary64: 4 (n+16) eps (max|x| + |mean|)^2
fn ref_acov(x: &[f64], k: i64) -> (f64, f64) {
    let n = x.len(); let ka = k.unsigned_abs() as usize; let m = ref_mean(x);
    let s = if ka >= n { 0.0 } else { csum((ka..n).map(|i| (x[i] - m) * (x[i - ka] - m))) };
    let a = x.iter().fold(0.0f64, |a, v| a.max(v.abs())) + m.abs();
    (s / n as f64, 4.0 * (n as f64 + 16.0) * EPS * a * a)
}

/// Gauss-Jordan inverse with partial pivoting (independent of the crate); None when a pivot vanishes
fn ref_inverse(a: &[f64], n: usize) -> Option<Vec<f64>> {
    let mut m: Vec<Vec<f64>> = (0..n).map(|i| { let mut row = a[i * n..(i + 1) * n].to_vec(); row.extend((0..n).map(|j| if i == j { 1.0 } else { 0.0 })); row }).collect();
    for c in 0..n {
        let piv = (c..n).max_by(|&i, &j| m[i][c].abs().partial_cmp(&m[j][c].abs()).unwrap_or(std::cmp::Ordering::Equal))?;
        if !(m[piv][c].abs() > 1e-300) { return None; }
        m.swap(c, piv);
        let d = m[c][c]; for v in m[c].iter_mut() { *v /= d; }
        for i in 0..n { if i != c { let f = m[i][c]; if f != 0.0 { for j in 0..2 * n { let t = m[c][j]; m[i][j] -= f * t; } } } }
    }
    Some(m.iter().flat_map(|row| row[n..].to_vec()).collect())
}
fn norm_inf(a: &[f64], n: usize) -> f64 { (0..n).map(|i| a[i * n..(i + 1) * n].iter().map(|v| v.abs()).sum::<f64>()).fold(0.0, f64::max) }

fn show(x: &[f64]) -> String { if x.len() <= 64 { json_floats(x) } else { format!("{} (length {}; first 64 shown, regenerate from the seed for the rest)", json_floats(&x[..64]), x.len()) } }

pub fn oracle(tier: &str, seed: u64) -> (u64, Vec<Finding>) {
    let mut r = Rng::new(seed ^ 0x0C13_0C13);
    let mut out: Vec<Finding> = vec![]; let mut tried = 0u64;
    let iters = if tier == "thorough" { 12000 } else { 600 };
    let mut add = |out: &mut Vec<Finding>, class: &str, what: String, input: String| {
        if out.iter().filter(|f| f.class == class).count() < 3 { out.push(Finding { class: class.into(), what, input }); }
    };
    // coverage audit: ADDED iterations after the original ones (whose random stream is unchanged): boundary lengths x wide families
    let extra = if tier == "thorough" { 3120 } else { 312 };
    const WIDE_LEN: [usize; 13] = [10, 5000, 11, 10, 12, 16, 25, 64, 100, 300, 999, 2500, 4999];
    for it in 0..iters + extra {
        // ---------------- series of the property's quantifier
        let wide = it >= iters; let j = (it.max(iters) - iters) as usize;
        let (n, (fam, x)) = if !wide {
            let n = if it % 25 == 24 { 5000 } else if it % 5 == 4 { 10 + r.below(2000) as usize } else { 10 + r.below(300) as usize };
            (n, series(&mut r, n))
        } else { let n = WIDE_LEN[j % 13]; (n, series_wide(&mut r, n, j)) };
        let xs = show(&x);
        let scale = x.iter().fold(0.0f64, |a, v| a.max(v.abs())) + 1.0;
        // ---- acovf / acf against the biased-estimator definitions; evenness; lag 0; bound; lag beyond the length
        let (g0, t0) = ref_acov(&x, 0);
        let mut lags: Vec<i64> = vec![0, 1, -1, 50, -50, n as i64, n as i64 + 3];
        for _ in 0..4 { lags.push(r.range(-50, 50)); }
        if wide && (j / 13) % 3 == 0 { lags = (-50..=50).collect(); lags.push(n as i64); lags.push(n as i64 + 3); lags.push(n as i64 - 1); }   // every lag of the quantifier
        for &k in &lags {
            let k32 = k as i32;
            let input = format!("family={} lag={} series={}", fam, k, xs);
            crumb(&input);
            let (gk, tk) = ref_acov(&x, k);
            let (cv, cvn) = (catch(|| acovf(&x, k32)), catch(|| acovf(&x, -k32)));
            let (cr, crn) = (catch(|| acf(&x, k32)), catch(|| acf(&x, -k32)));
            tried += 4;
            match (&cv, &cvn, &cr, &crn) {
                (Ok(cv), Ok(cvn), Ok(cr), Ok(crn)) => {
                    if !((cv - gk).abs() <= tk) { add(&mut out, "acovf:not-biased-estimator", format!("acovf = {:e}, definition (1/n) sum_(i>=|k|) (x_i-m)(x_(i-|k|)-m) = {:e} (bound {:e})", cv, gk, tk), input.clone()); }
                    if cv.to_bits() != cvn.to_bits() { add(&mut out, "acovf:not-even", format!("acovf(k) = {:e} but acovf(-k) = {:e}", cv, cvn), input.clone()); }
                    if cr.to_bits() != crn.to_bits() && !(cr.is_nan() && crn.is_nan()) { add(&mut out, "acf:not-even", format!("acf(k) = {:e} but acf(-k) = {:e}", cr, crn), input.clone()); }
                    if g0 > 4.0 * t0 {   // variance safely nonzero
                        let rk = gk / g0; let tr = (tk + rk.abs() * t0) / (g0 - t0) + 8.0 * EPS;
                        if !((cr - rk).abs() <= tr) { add(&mut out, "acf:not-acov-ratio", format!("acf = {:e}, definition acov(k)/acov(0) = {:e} (bound {:e})", cr, rk, tr), input.clone()); }
                        if k == 0 && !((cr - 1.0).abs() <= 8.0 * EPS) { add(&mut out, "acf:lag0-not-1", format!("acf(x, 0) = {:e}", cr), input.clone()); }
                        if !(cr.abs() <= 1.0 + tr.min(1e-3)) { add(&mut out, "acf:exceeds-1", format!("|acf| = {:e} > 1", cr.abs()), input.clone()); }
                        if k.unsigned_abs() as usize >= n && !(*cr == 0.0 && *cv == 0.0) { add(&mut out, "acf:lag-beyond-length-nonzero", format!("lag {} >= length {}: acovf = {:e}, acf = {:e}, the empty sum is 0", k, n, cv, cr), input.clone()); }
                    }
                }
                _ => add(&mut out, "acf:panics", "acovf/acf panicked on a valid series and lag".into(), input.clone()),
            }
        }
        // ---- differencing inverts cumulative summation (exact on integer data; to rounding otherwise)
        {
            let ints: Vec<f64> = (0..n.min(200)).map(|_| r.small_int(1000)).collect();
            for (exact, inc) in [(true, &ints), (false, &x)] {
                let x0 = if exact { r.small_int(1000) } else { r.uniform(-5.0, 5.0) };
                let mut c = vec![x0]; for v in inc.iter() { let l = *c.last().unwrap(); c.push(l + v); }
                let cmax = c.iter().fold(0.0f64, |a, v| a.max(v.abs()));
                let input = format!("difference(cumsum) x0={:e} increments={}", x0, show(inc));
                crumb(&input); tried += 1;
                match catch(|| difference(c.clone())) {
                    Ok(d) => { let ok = d.len() == inc.len() && d.iter().zip(inc.iter()).all(|(a, b)| if exact { a == b } else { (a - b).abs() <= 2.0 * EPS * cmax });
                               if !ok { add(&mut out, "difference:not-inverse-of-cumsum", format!("difference(cumsum(x0, x)) returned {} values, first {:?}; expected x", d.len(), &d[..d.len().min(4)]), input); } }
                    Err(e) => add(&mut out, "difference:panics", format!("panicked: {}", e), input),
                }
            }
        }
        // ---- AR fit: Yule-Walker equations, intercept = mean
        let p = if !wide { 1 + r.below(8) as usize } else { match (j / 8) % 3 { 0 => 8, 1 => 1 + r.below(8) as usize, _ => 1 + r.below(2) as usize } };
        let input = format!("family={} order={} series={}", fam, p, xs);
        crumb(&input); tried += 1;
        let mut ar = AR::new(p);
        if catch(AssertUnwindSafeMut(&mut ar, &x)).is_err() { add(&mut out, "fit:panics", "AR::fit panicked on a valid series".into(), input.clone()); continue; }
        let m = ref_mean(&x);
        if !((ar.intercept - m).abs() <= (n as f64 + 4.0) * EPS * scale) { add(&mut out, "fit:intercept-not-mean", format!("intercept = {:e}, series mean = {:e}", ar.intercept, m), input.clone()); }
        if ar.coeffs.len() != p { add(&mut out, "fit:wrong-number-of-coefficients", format!("{} coefficients for order {}", ar.coeffs.len(), p), input.clone()); continue; }
        // autocorrelations by definition (reference), Toeplitz system, residual scaled by the conditioning
        let rho: Vec<f64> = (0..=p as i64).map(|t| ref_acov(&x, t).0 / g0).collect();
        let a: Vec<f64> = (0..p * p).map(|q| rho[(q / p).abs_diff(q % p)]).collect();
        let phi: Vec<f64> = ar.coeffs.iter().rev().copied().collect();   // phi_1..phi_p
        let kappa = match ref_inverse(&a, p) { Some(ai) => norm_inf(&a, p) * norm_inf(&ai, p), None => f64::INFINITY };
        let well = g0 > 1e3 * t0 && kappa < 1e6 && phi.iter().all(|v| v.is_finite());
        if well {
            let rho_err = 4.0 * (t0 + t0) / (g0 - t0) + 8.0 * EPS;   // error of each reference/implementation autocorrelation
            let pn = phi.iter().fold(0.0f64, |a, v| a.max(v.abs()));
            for i in 0..p {
                let lhs = csum((0..p).map(|j| a[i * p + j] * phi[j]));
                let tol = 64.0 * p as f64 * kappa * (EPS + rho_err) * (norm_inf(&a, p) * pn + 1.0);
                if !((lhs - rho[i + 1]).abs() <= tol) { add(&mut out, "fit:yule-walker-residual", format!("row {}: sum_j r(|i-j|) phi_j = {:e}, r({}) = {:e} (cond {:e}, bound {:e}); phi = {:?}", i, lhs, i + 1, rho[i + 1], kappa, tol, phi), input.clone()); break; }
            }
        }
        // ---- forecasts: mean + AR recursion on the mean-centred history (reference recursion with running error bound)
        let h = if !wide { if it % 10 == 9 { 1000 } else { 1 + r.below(60) as usize } }
                else { match j % 5 { 0 => 1000, 1 => 61 + r.below(939) as usize, 2 => 1, 3 => 999, _ => 1 + r.below(60) as usize } };
        tried += 2;
        crumb(&format!("{} horizon={}", input, h));
        let fc = catch(|| ar.predict(&x, h));
        let f1 = catch(|| ar.predict_one(&x));
        let sumabs: f64 = phi.iter().map(|v| v.abs()).sum();
        if let (Ok(fc), true) = (&fc, phi.iter().all(|v| v.is_finite())) {
            if fc.len() != h { add(&mut out, "forecast:wrong-length", format!("{} forecasts for horizon {}", fc.len(), h), input.clone()); }
            else {
                let mu = ar.intercept;
                let mut w: Vec<f64> = x[n - p..].iter().map(|v| v - mu).collect();   // centred history, oldest first
                let mut err: Vec<f64> = w.iter().map(|v| EPS * (v.abs() + mu.abs())).collect();
                for (s, got) in fc.iter().enumerate() {
                    let t = w.len();
                    let z = csum((0..p).map(|i| phi[i] * w[t - 1 - i]));
                    let za: f64 = (0..p).map(|i| phi[i].abs() * w[t - 1 - i].abs()).sum();
                    let e: f64 = (0..p).map(|i| phi[i].abs() * err[t - 1 - i]).sum::<f64>() + (p as f64 + 4.0) * EPS * (za + mu.abs()) * 2.0;
                    if !((got - (mu + z)).abs() <= 4.0 * e + 1e-300) {
                        add(&mut out, "forecast:not-centred-recursion", format!("forecast {} = {:e}, mean + AR recursion on the mean-centred history = {:e} (bound {:e}); intercept {:e}, phi = {:?}", s + 1, got, mu + z, 4.0 * e, mu, phi), format!("{} horizon={}", input, h));
                        break;
                    }
                    w.push(z); err.push(e);
                    if !e.is_finite() || e > 1e-3 * scale { break; }
                }
                if let Ok(f1) = &f1 {
                    if !((f1 - fc[0]).abs() <= 1e-9 * scale) { add(&mut out, "forecast:predict_one-differs-from-predict", format!("predict_one(data) = {:e} but predict(data, 1)[0] = {:e}", f1, fc[0]), input.clone()); }
                }
                // stationary fit: forecasts converge to the series mean (contraction bound when sum|phi| < 1)
                if h == 1000 && sumabs < 0.999 {
                    let wmax = x[n - p..].iter().fold(0.0f64, |a, v| a.max((v - m).abs()));
                    let bound = sumabs.powi((h / p) as i32) * wmax * 1.001 + 1e-9 * scale;
                    if !((fc[h - 1] - m).abs() <= bound) { add(&mut out, "forecast:does-not-converge-to-mean", format!("forecast 1000 = {:e}, series mean {:e}, contraction bound {:e} (sum|phi| = {:e})", fc[h - 1], m, bound, sumabs), input.clone()); }
                }
                // coverage audit (added): the same clause where sum|phi| >= 1 (most stationary fits of order >= 2), which the contraction
                // bound never reached. The centred forecast h is the first component of C^h w0 (C = companion matrix of phi), so
                // |forecast_h - mean| <= ||first row of C^h||_1 max|w0| exactly; the row is computed here by repeated squaring with a
                // running rounding-error bound, and the clause is demanded with the same slack as above. It says something only when
                // the fit is stationary (the row then tends to 0); for a non-stationary fit the bound is large and nothing is demanded.
                if h >= 999 && (sumabs >= 0.999 || h != 1000) {
                    let (row, growth) = companion_power_row_bound(&phi, h);
                    if row.is_finite() && growth.is_finite() {
                        let wmax = x[n - p..].iter().fold(0.0f64, |a, v| a.max((v - m).abs()));
                        let bound = row * wmax * 1.001 + 1e-9 * scale * (1.0 + growth);
                        tried += 1;
                        if !((fc[h - 1] - m).abs() <= bound) { add(&mut out, "forecast:does-not-converge-to-mean", format!("forecast {} = {:e}, series mean {:e}, bound ||e1^T C^h||_1 max|w0| = {:e} (companion matrix C of phi = {:?})", h, fc[h - 1], m, bound, phi), format!("{} horizon={}", input, h)); }
                    }
                }
            }
        } else if fc.is_err() { add(&mut out, "forecast:panics", "predict panicked with a history at least as long as the order".into(), input.clone()); }
        // ---- forecasting from a history that is NOT the training series (an extended / different record): the model is
        //      intercept + coefficients, so the forecast is still intercept + AR recursion on (history - intercept)
        if phi.iter().all(|v| v.is_finite()) && n >= p && p >= 1 {
            let extra = 1 + r.below(6) as usize;
            let lvl = m + *r.pick(&[0.0, 1.0, -2.0, 5.0]) * (g0.sqrt() + 1e-3 * scale);
            let mut hist: Vec<f64> = x[n / 2..].to_vec();
            for j in 0..extra { hist.push(lvl + (g0.sqrt() + 1e-3 * scale) * ((j as f64 * 1.7 + it as f64).sin())); }
            if hist.len() >= p {
                let hh = 1 + r.below(12) as usize;
                let input3 = format!("{} then predict(history={}, horizon={})", input, json_floats(&hist), hh);
                crumb(&input3); tried += 1;
                if let Ok(fc) = catch(|| ar.predict(&hist, hh)) {
                    let mu = ar.intercept; let nh = hist.len();
                    let hs = hist.iter().fold(scale, |a, v| a.max(v.abs()));
                    let mut w: Vec<f64> = hist[nh - p..].iter().map(|v| v - mu).collect();
                    let mut err: Vec<f64> = w.iter().map(|v| EPS * (v.abs() + mu.abs())).collect();
                    for (sidx, got) in fc.iter().enumerate() {
                        let t = w.len();
                        let z = csum((0..p).map(|i| phi[i] * w[t - 1 - i]));
                        let za: f64 = (0..p).map(|i| phi[i].abs() * w[t - 1 - i].abs()).sum();
                        let e: f64 = (0..p).map(|i| phi[i].abs() * err[t - 1 - i]).sum::<f64>() + (p as f64 + 4.0) * EPS * (za + mu.abs()) * 2.0;
                        if !e.is_finite() || e > 1e-3 * hs { break; }
                        if !((got - (mu + z)).abs() <= 4.0 * e + 1e-300) {
                            add(&mut out, "forecast:not-centred-recursion", format!("forecast {} from a history other than the training series = {:e}, intercept + AR recursion on (history - intercept) = {:e} (bound {:e}); intercept {:e}, phi = {:?}", sidx + 1, got, mu + z, 4.0 * e, mu, phi), input3.clone());
                            break;
                        }
                        w.push(z); err.push(e);
                    }
                    if let Ok(f1) = catch(|| ar.predict_one(&hist)) {
                        if !fc.is_empty() && !((f1 - fc[0]).abs() <= 1e-9 * hs) { add(&mut out, "forecast:predict_one-differs-from-predict", format!("predict_one(history) = {:e} but predict(history, 1)[0] = {:e}", f1, fc[0]), input3.clone()); }
                    }
                } else { add(&mut out, "forecast:panics", "predict panicked with a history at least as long as the order".into(), input3.clone()); }
            }
        }
        // ---- two-run relation: adding a constant c to the series leaves the coefficients and adds c to every forecast
        if well {
            let c = if fam == "ar-dyadic" { r.range(-4096, 4096) as f64 } else if wide && j % 3 == 0 { *r.pick(&[1e6, -1e6]) } else { *r.pick(&[1.0, -7.5, 100.0, 1e3, -1e4, 1e6]) * r.uniform(0.5, 1.0) };
            let y: Vec<f64> = x.iter().map(|v| v + c).collect();
            let input2 = format!("{} shift={:e} horizon={}", input, c, h.min(50));
            crumb(&input2); tried += 1;
            let mut ar2 = AR::new(p);
            if catch(AssertUnwindSafeMut(&mut ar2, &y)).is_ok() {
                let big = scale + c.abs();
                // data perturbation by rounding x + c: eps*big per point relative to the series' own spread sqrt(g0)
                let dphi = 1e3 * kappa * (EPS * big / g0.sqrt() + rho_err_of(t0, g0)) + 1e-12;
                if ar.coeffs.iter().zip(&ar2.coeffs).any(|(a, b)| !((a - b).abs() <= dphi * (1.0 + a.abs()))) {
                    add(&mut out, "fit:coefficients-change-under-shift", format!("coeffs {:?} became {:?} after adding {:e} to every point (bound {:e})", ar.coeffs, ar2.coeffs, c, dphi), input2.clone());
                }
                let hh = h.min(50);
                if let (Ok(f), Ok(g)) = (catch(|| ar.predict(&x, hh)), catch(|| ar2.predict(&y, hh))) {
                    let tol = 1e-7 * big * (1.0 + kappa * 1e-3) + 50.0 * dphi * scale;
                    for s in 0..hh.min(f.len()).min(g.len()) {
                        if !((g[s] - f[s] - c).abs() <= tol) {
                            add(&mut out, "forecast:not-shift-equivariant", format!("forecast {}: {:e} for the series, {:e} for the series + {:e}: difference {:e} instead of {:e} (bound {:e}); phi = {:?}", s + 1, f[s], g[s], c, g[s] - f[s], c, tol, phi), input2.clone());
                            break;
                        }
                    }
                }
                if let (Ok(f), Ok(g)) = (catch(|| ar.predict_one(&x)), catch(|| ar2.predict_one(&y))) {
                    let tol = 1e-7 * big * (1.0 + kappa * 1e-3) + 50.0 * dphi * scale;
                    if !((g - f - c).abs() <= tol) { add(&mut out, "forecast:predict_one-not-shift-equivariant", format!("predict_one: {:e} for the series, {:e} for the series + {:e}: difference {:e} instead of {:e}", f, g, c, g - f, c), input2.clone()); }
                }
            }
        }
        // ---- a history shorter than the order: the missing older observations count as "at the mean"
        if p >= 2 && phi.iter().all(|v| v.is_finite()) {
            let keep = 1 + r.below(p as u64 - 1) as usize;   // 1..p-1 most recent observations
            let short = &x[n - keep..];
            let mut padded = vec![ar.intercept; p - keep]; padded.extend_from_slice(short);
            let input3 = format!("{} short_history={}", input, json_floats(short));
            crumb(&input3); tried += 1;
            if let (Ok(a), Ok(b)) = (catch(|| ar.predict_one(short)), catch(|| ar.predict_one(&padded))) {
                if !((a - b).abs() <= 1e-9 * scale * (1.0 + sumabs)) { add(&mut out, "predict_one:short-history-misaligned", format!("predict_one on the last {} observations = {:e}, but on the same observations preceded by {} values equal to the intercept = {:e} (the most recent observation must meet phi_1); stored coeffs {:?}", keep, a, p - keep, b, ar.coeffs), input3); }
            } else { add(&mut out, "predict_one:short-history-panics", "predict_one panicked on a short history".into(), input3); }
        }
        if out.len() > 30 { break; }
    }
    // ---------------- rejection: order 0, history shorter than the order (predict), empty vector (difference)
    tried += 3;
    if catch(|| AR::new(0)).is_ok() { add(&mut out, "new:order-0-accepted", "AR::new(0) returned a model".into(), "AR::new(0)".into()); }
    { let ar = AR { p: 3, coeffs: vec![0.1, 0.2, 0.3], intercept: 0.0 };
      if let Ok(v) = catch(|| ar.predict(&[1.0, 2.0], 2)) { add(&mut out, "forecast:short-history-accepted", format!("predict with 2 observations for order 3 returned {:?}", v), "AR{coeffs:[0.1,0.2,0.3],intercept:0}.predict([1,2],2)".into()); } }
    // coverage audit (added): the shortest cumulative sums (no increment: one point; one increment: two points)
    for (c, inc) in [(vec![3.0], vec![]), (vec![-2.5], vec![]), (vec![3.0, 7.0], vec![4.0]), (vec![1e6, 1e6 - 1.0], vec![-1.0])] {
        let input = format!("difference({})", json_floats(&c));
        crumb(&input); tried += 1;
        match catch(|| difference(c.clone())) {
            Ok(d) => if d != inc { add(&mut out, "difference:not-inverse-of-cumsum", format!("difference of a cumulative sum with {} increment(s) returned {:?}; expected {:?}", inc.len(), d, inc), input); },
            Err(e) => add(&mut out, "difference:panics", format!("panicked: {}", e), input),
        }
    }
    if let Ok(v) = catch(|| difference(vec![])) { add(&mut out, "difference:empty-accepted", format!("difference(vec![]) returned {:?}", v), "difference(vec![])".into()); }
    (tried, out)
}

/// (upper bound of the 1-norm of the first row of C^h, max over the squaring levels of ||C^(2^i)||_inf) for the companion
/// matrix C of phi (first row phi, ones below the diagonal); binary exponentiation in binary64 with an entrywise running
/// error bound E: fl(XY) carries |X| EY + EX |Y| + EX EY + (p+2) eps |X||Y|.
fn companion_power_row_bound(phi: &[f64], h: usize) -> (f64, f64) {
    let p = phi.len();
    type M = Vec<f64>;
    let mul = |x: &(M, M), y: &(M, M)| -> (M, M) {
        let mut z = vec![0.0; p * p]; let mut e = vec![0.0; p * p];
        for i in 0..p { for j in 0..p {
            let (mut s, mut a, mut t) = (0.0f64, 0.0f64, 0.0f64);
            for k in 0..p {
                let (xv, yv, xe, ye) = (x.0[i * p + k], y.0[k * p + j], x.1[i * p + k], y.1[k * p + j]);
                s += xv * yv; a += xv.abs() * yv.abs(); t += xv.abs() * ye + xe * yv.abs() + xe * ye;
            }
            z[i * p + j] = s; e[i * p + j] = (t + (p as f64 + 2.0) * EPS * a) * (1.0 + 8.0 * EPS);
        } }
        (z, e)
    };
    let mut c = vec![0.0; p * p];
    for j in 0..p { c[j] = phi[j]; }
    for i in 1..p { c[i * p + i - 1] = 1.0; }
    let mut base: (M, M) = (c, vec![0.0; p * p]);
    let mut acc: Option<(M, M)> = None;
    let mut growth = 0.0f64; let mut k = h;
    while k > 0 {
        growth = growth.max((0..p).map(|i| (0..p).map(|j| base.0[i * p + j].abs() + base.1[i * p + j]).sum::<f64>()).fold(0.0, f64::max));
        if k & 1 == 1 { acc = Some(match &acc { None => base.clone(), Some(a) => mul(a, &base) }); }
        k >>= 1;
        if k > 0 { base = mul(&base, &base); }
    }
    let a = acc.unwrap();
    ((0..p).map(|j| a.0[j].abs() + a.1[j]).sum::<f64>(), growth)
}

fn rho_err_of(t0: f64, g0: f64) -> f64 { 8.0 * t0 / (g0 - t0) + 8.0 * EPS }

/// `ar.fit(data)` as a closure that `catch` accepts (the &mut borrow crosses the unwind boundary; on a panic the model is dropped by the caller)
#[allow(non_snake_case)]
fn AssertUnwindSafeMut<'a>(ar: &'a mut AR, data: &'a [f64]) -> impl FnOnce() + 'a { move || { ar.fit(data); } }
