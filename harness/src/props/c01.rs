//! C01 — linear systems through every entry point: case generation for the Coq correspondence and the
//! failure-search oracle (residuals in double-double, finiteness, route independence, rejection).
#![allow(clippy::needless_range_loop)]
use crate::util::*;
use compute::linalg::{
    cholesky, col_to_row_major, invert_matrix, is_positive_definite, is_symmetric, row_to_col_major, solve, solve_sys, try_cholesky, Matrix, Solve,
    Vector,
};

// ---------------------------------------------------------------------------------------------
// matrix classes of the property text
pub const CLASSES: [&str; 12] = [
    "dense", "integer-known", "spd", "sym-indef-posdiag", "diag-dominant", "perm-scaled-triangular", "graded", "tiny-scale-posdiag", "sym-dd-posdiag",
    "sym-int-posdiag", "near-singular", "sparse-graded",
];

fn pow2(k: i64) -> f64 { (2.0f64).powi(k as i32) }

/// one matrix of class `c`, order n, row-major.  All classes are nonsingular by construction or generically
/// (the oracle re-checks with its own elimination and skips numerically singular draws).
pub fn gen_matrix(r: &mut Rng, c: &str, n: usize) -> Vec<f64> {
    let mut a = vec![0.0; n * n];
    match c {
        "dense" => { for x in a.iter_mut() { *x = r.uniform(-4.0, 4.0); } }
        "integer-known" => {
            // A = P . L . U with unit lower L, upper U with diagonal in {+-1,+-2,+-3}, entries in {-1,0,1}: exactly nonsingular, integer
            let mut l = vec![0.0; n * n]; let mut u = vec![0.0; n * n];
            for i in 0..n { for j in 0..n {
                if j < i { l[i * n + j] = r.range(-1, 1) as f64; }
                else if j == i { l[i * n + j] = 1.0; let d = r.range(1, 3) as f64; u[i * n + j] = if r.coin(0.5) { d } else { -d }; }
                else { u[i * n + j] = r.range(-1, 1) as f64; }
            }}
            let mut p: Vec<usize> = (0..n).collect();
            for i in (1..n).rev() { let j = r.below(i as u64 + 1) as usize; p.swap(i, j); }
            for i in 0..n { for j in 0..n { let mut s = 0.0; for k in 0..n { s += l[i * n + k] * u[k * n + j]; } a[p[i] * n + j] = s; } }
        }
        "spd" => {
            // M^T M + I with small integer or real M: exactly symmetric (same products in the same order)
            let m: Vec<f64> = if r.coin(0.5) { (0..n * n).map(|_| r.small_int(3)).collect() } else { (0..n * n).map(|_| r.uniform(-1.0, 1.0)).collect() };
            for i in 0..n { for j in 0..n { let mut s = 0.0; for k in 0..n { s += m[k * n + i] * m[k * n + j]; } a[i * n + j] = s + if i == j { 1.0 } else { 0.0 }; } }
        }
        "sym-indef-posdiag" => {
            // symmetric, positive diagonal, large off-diagonal entries: indefinite for n >= 2 (a 2x2 principal minor is negative)
            for i in 0..n { for j in 0..=i {
                let v = if i == j { r.uniform(0.5, 2.0) } else { let m = r.uniform(2.5, 6.0); if r.coin(0.5) { m } else { -m } };
                a[i * n + j] = v; a[j * n + i] = v;
            }}
        }
        "near-singular" => {
            // nonsingular but ill-conditioned (cond 1e4 .. 1e11): the last row is a combination of the others plus a small multiple of a fresh
            // direction; with a right-hand side b = A.x, x of order one, a backward-stable solver still meets the residual bound, a formula
            // that is not backward stable (Cramer's rule, normal equations) does not
            for x in a.iter_mut() { *x = r.uniform(-4.0, 4.0); }
            if n >= 2 {
                let delta = (10.0f64).powf(-r.uniform(4.0, 10.5));
                let w: Vec<f64> = (0..n - 1).map(|_| r.uniform(-2.0, 2.0)).collect();
                for j in 0..n { let mut sum = 0.0; for i in 0..n - 1 { sum += w[i] * a[i * n + j]; } a[(n - 1) * n + j] = sum + delta * a[(n - 1) * n + j]; }
            }
        }
        "sparse-graded" => {
            // rows of very different scale (1 .. 1e-12) with many exact zeros and a few weak couplings: the pivot order is decided by entries of
            // very different magnitude, and a row that has been swapped must keep being compared by its own entries
            for i in 0..n {
                let sc = (10.0f64).powf(-r.uniform(0.0, 12.0)) * if r.coin(0.5) { 1.0 } else { 0.0 + 1.0 };
                for j in 0..n {
                    let v = if i == j { r.uniform(0.5, 2.0) } else if r.coin(0.55) { 0.0 } else if r.coin(0.3) { r.uniform(-1.0, 1.0) * 1e-7 } else { r.uniform(-2.0, 2.0) };
                    a[i * n + j] = sc * v;
                }
            }
            // a random row permutation so that the diagonal is not the natural pivot
            let mut p: Vec<usize> = (0..n).collect();
            for i in (1..n).rev() { let j = r.below(i as u64 + 1) as usize; p.swap(i, j); }
            let b0 = a.clone(); for i in 0..n { for j in 0..n { a[p[i] * n + j] = b0[i * n + j]; } }
        }
        "sym-int-posdiag" => {
            // symmetric small-integer entries with many zeros and a positive diagonal: the Cholesky sweep meets pivots that cancel EXACTLY to
            // zero (or go negative) at any position, not only in the first 2x2 minor; nonsingular draws are kept by the oracle's own elimination
            for i in 0..n { for j in 0..=i {
                let v = if i == j { r.range(1, 3) as f64 } else if r.coin(0.45) { 0.0 } else { r.range(-2, 2) as f64 };
                a[i * n + j] = v; a[j * n + i] = v;
            }}
        }
        "sym-dd-posdiag" => {
            // symmetric, strictly diagonally dominant with positive diagonal: SPD, Cholesky route
            for i in 0..n { for j in 0..i { let v = r.uniform(-1.0, 1.0); a[i * n + j] = v; a[j * n + i] = v; } }
            for i in 0..n { let s: f64 = (0..n).filter(|&j| j != i).map(|j| a[i * n + j].abs()).sum(); a[i * n + i] = s + r.uniform(0.5, 2.0); }
        }
        "diag-dominant" => {
            for x in a.iter_mut() { *x = r.uniform(-1.0, 1.0); }
            for i in 0..n { let s: f64 = (0..n).filter(|&j| j != i).map(|j| a[i * n + j].abs()).sum(); let d = s + r.uniform(0.5, 2.0); a[i * n + i] = if r.coin(0.5) { d } else { -d }; }
        }
        "perm-scaled-triangular" => {
            let upper = r.coin(0.5);
            let mut t = vec![0.0; n * n];
            for i in 0..n { for j in 0..n {
                let inside = if upper { j >= i } else { j <= i };
                if i == j { let d = r.uniform(0.5, 2.0); t[i * n + j] = if r.coin(0.5) { d } else { -d }; }
                else if inside { t[i * n + j] = r.uniform(-1.0, 1.0); }
            }}
            let mut p: Vec<usize> = (0..n).collect();
            for i in (1..n).rev() { let j = r.below(i as u64 + 1) as usize; p.swap(i, j); }
            for i in 0..n { let s = pow2(r.range(-20, 20)); for j in 0..n { a[p[i] * n + j] = s * t[i * n + j]; } }
        }
        "graded" => {
            // D1 . R . D2, R strictly diagonally dominant, D graded over 10 decades on one side (cond <= ~1e10 . cond(R))
            let mut rr = vec![0.0; n * n];
            for x in rr.iter_mut() { *x = r.uniform(-1.0, 1.0); }
            for i in 0..n { let s: f64 = (0..n).filter(|&j| j != i).map(|j| rr[i * n + j].abs()).sum(); rr[i * n + i] = s + 1.0; }
            let rows = r.coin(0.5);
            for i in 0..n { for j in 0..n {
                let k = if rows { i } else { j };
                let e = if n > 1 { -33.0 * k as f64 / (n - 1) as f64 } else { 0.0 };   // 2^-33 ~ 1e-10
                a[i * n + j] = rr[i * n + j] * pow2(e.round() as i64);
            }}
        }
        _ => {
            // "tiny-scale-posdiag": a well-conditioned NON-symmetric matrix with positive diagonal, scaled by 2^-k:
            // its entries are below f64::EPSILON in magnitude
            for x in a.iter_mut() { *x = r.uniform(-1.0, 1.0); }
            for i in 0..n { let s: f64 = (0..n).filter(|&j| j != i).map(|j| a[i * n + j].abs()).sum(); a[i * n + i] = s + r.uniform(0.5, 2.0); }
            let s = pow2(-r.range(56, 80));
            for x in a.iter_mut() { *x *= s; }
        }
    }
    a
}

// ---------------------------------------------------------------------------------------------
// coverage audit: regimes of "all finite f64 matrices of order 1..32" that the twelve classes above do not reach
// (magnitudes beyond [1e-28, 1e7], two-sided / row-and-column scaling, ill-conditioned SPD on the Cholesky route,
// mirrored entries one unit in the last place apart, indefiniteness that shows only at a late pivot, growth 2^(n-1),
// exactly structured matrices with signed zeros) and the right-hand sides the random ones never are (zero, unit
// vectors, a zero column, columns of very different scale).  Same demands, new evaluation points.
pub const EXTRA: [&str; 9] = [
    "scaled-extreme", "rowcol-scaled", "spd-graded", "spd-illcond", "structured-spd", "sym-ulp-asym", "sym-indef-late", "wilkinson-growth", "special-exact",
];

fn mirror_lower(a: &mut [f64], n: usize) { for i in 0..n { for j in 0..i { a[j * n + i] = a[i * n + j]; } } }
fn next_up(x: f64, ulps: i64) -> f64 { if x == 0.0 || !x.is_finite() { x } else { f64::from_bits((x.to_bits() as i64 + ulps) as u64) } }

/// one matrix of an audit class; the flag says that the matrix is nonsingular BY CONSTRUCTION (an exact diagonal scaling / permutation of a
/// strictly diagonally dominant matrix), so that the oracle's "numerically singular" filter, which compares the smallest pivot with the largest
/// entry and is therefore not invariant under row scaling, must not be applied to it
pub fn gen_extra(r: &mut Rng, c: &str, n: usize) -> (Vec<f64>, bool) {
    let mut a = vec![0.0; n * n];
    match c {
        "scaled-extreme" => {
            // a matrix of one of the property's classes times 2^e, |e| in 100..900 (exact: routing, pivots and the solution's digits are those of the base)
            let base = *r.pick(&["dense", "spd", "sym-indef-posdiag", "diag-dominant", "sym-dd-posdiag", "integer-known", "perm-scaled-triangular"]);
            a = gen_matrix(r, base, n);
            let e = r.range(100, 900) * if r.coin(0.5) { 1 } else { -1 };
            let s = pow2(e);
            for x in a.iter_mut() { *x *= s; }
            (a, false)
        }
        "rowcol-scaled" => {
            // P . D1 . R . D2, R strictly diagonally dominant, D1 and D2 powers of two over +-150 binades each
            let rr = gen_matrix(r, "diag-dominant", n);
            let re: Vec<i64> = (0..n).map(|_| r.range(-150, 150)).collect();
            let ce: Vec<i64> = (0..n).map(|_| r.range(-150, 150)).collect();
            let mut p: Vec<usize> = (0..n).collect();
            for i in (1..n).rev() { let j = r.below(i as u64 + 1) as usize; p.swap(i, j); }
            for i in 0..n { for j in 0..n { a[p[i] * n + j] = rr[i * n + j] * pow2(re[i]) * pow2(ce[j]); } }
            (a, true)
        }
        "spd-graded" => {
            // D . S . D, S symmetric positive definite, D graded over 2^-16.5 (cond about 1e10 . cond S), in natural, reversed or shuffled order: Cholesky route
            let s0 = if r.coin(0.5) { gen_matrix(r, "spd", n) } else { gen_matrix(r, "sym-dd-posdiag", n) };
            let mut ord: Vec<usize> = (0..n).collect();
            match r.below(3) { 0 => {} 1 => ord.reverse(), _ => { for i in (1..n).rev() { let j = r.below(i as u64 + 1) as usize; ord.swap(i, j); } } }
            let d: Vec<f64> = (0..n).map(|i| if n > 1 { pow2(-((16.5 * ord[i] as f64 / (n - 1) as f64).round() as i64)) } else { 1.0 }).collect();
            for i in 0..n { for j in 0..n { a[i * n + j] = s0[i * n + j] * d[i] * d[j]; } }
            (a, false)
        }
        "spd-illcond" => {
            // G^T G with G ill-conditioned (cond 10 .. 1e5, so cond A up to 1e10): exactly symmetric (same products, same order), Cholesky route with
            // a last pivot that is tiny against the diagonal
            let mut g: Vec<f64> = (0..n * n).map(|_| r.uniform(-2.0, 2.0)).collect();
            if n >= 2 {
                let delta = (10.0f64).powf(-r.uniform(1.0, 5.0));
                let w: Vec<f64> = (0..n - 1).map(|_| r.uniform(-1.0, 1.0)).collect();
                for j in 0..n { let mut sum = 0.0; for i in 0..n - 1 { sum += w[i] * g[i * n + j]; } g[(n - 1) * n + j] = sum + delta * g[(n - 1) * n + j]; }
            }
            for i in 0..n { for j in 0..n { let mut s = 0.0; for k in 0..n { s += g[k * n + i] * g[k * n + j]; } a[i * n + j] = s; } }
            (a, false)
        }
        "structured-spd" => {
            // textbook SPD matrices: Hilbert (order <= 10), Lehmer, min(i,j), second difference, Pascal (order <= 10)
            let kind = r.below(5);
            for i in 0..n { for j in 0..n {
                let (fi, fj) = (i as f64 + 1.0, j as f64 + 1.0);
                a[i * n + j] = match kind {
                    0 if n <= 10 => 1.0 / (fi + fj - 1.0),
                    0 | 1 => fi.min(fj) / fi.max(fj),
                    2 => fi.min(fj),
                    4 if n <= 10 => binom(i + j, i.min(j)),
                    _ => if i == j { 2.0 } else if i + 1 == j || j + 1 == i { -1.0 } else { 0.0 },
                };
            }}
            (a, false)
        }
        "sym-ulp-asym" => {
            // SPD with mirrored entries ONE unit in the last place apart (symmetric within the predicate's tolerance: Cholesky route, which reads the
            // lower triangle only); with probability 1/3 one pair is three units apart instead (not symmetric: LU route)
            a = if r.coin(0.5) { gen_matrix(r, "spd", n) } else { gen_matrix(r, "sym-dd-posdiag", n) };
            for i in 0..n { for j in (i + 1)..n { if r.coin(0.6) { a[i * n + j] = next_up(a[i * n + j], if r.coin(0.5) { 1 } else { -1 }); } } }
            if n >= 2 && r.coin(0.33) { let i = r.below(n as u64 - 1) as usize; let j = i + 1 + r.below((n - 1 - i) as u64) as usize; a[i * n + j] = next_up(a[j * n + i], 3); }
            (a, false)
        }
        "sym-indef-late" => {
            // L . D . L^T with real entries, D positive except at ONE position p >= 1 (often the last): symmetric, positive diagonal, indefinite, and
            // the Cholesky sweep succeeds on the leading p x p block before it meets the negative pivot
            if n == 1 { a[0] = r.uniform(0.5, 2.0); return (a, false); }
            let p = match r.below(3) { 0 => n - 1, 1 => 1, _ => 1 + r.below(n as u64 - 1) as usize };
            let mut l = vec![0.0; n * n];
            for i in 0..n { for j in 0..i { l[i * n + j] = r.uniform(-0.5, 0.5); } l[i * n + i] = 1.0; }
            l[p * n] = 1.0;     // a_pp = d_0 + ... + d_p > 0 because d_0 >= 0.5 > |d_p|
            let d: Vec<f64> = (0..n).map(|k| if k == p { -(10.0f64).powf(-r.uniform(0.4, 6.0)) } else { r.uniform(0.5, 2.0) }).collect();
            for i in 0..n { for j in 0..=i { let mut s = 0.0; for k in 0..=j { s += l[i * n + k] * d[k] * l[j * n + k]; } a[i * n + j] = s; } }
            mirror_lower(&mut a, n);
            (a, false)
        }
        "wilkinson-growth" => {
            // 1 on the diagonal, -1 below, 1 in the last column: elimination with partial pivoting doubles the last column at every step
            // (growth 2^(n-1)); columns and rows with random signs (exact)
            for i in 0..n { for j in 0..n { a[i * n + j] = if i == j || j == n - 1 { 1.0 } else if j < i { -1.0 } else { 0.0 }; } }
            if r.coin(0.5) { let sg: Vec<f64> = (0..n).map(|_| if r.coin(0.5) { 1.0 } else { -1.0 }).collect(); for i in 0..n { for j in 0..n { a[i * n + j] *= sg[j]; } } }
            if r.coin(0.3) { for i in 0..n { for j in 0..i { a[i * n + j] *= r.uniform(0.999, 1.0); } } }
            (a, false)
        }
        _ => {
            // "special-exact": identity, signed permutation, positive / mixed-sign diagonal over 60 binades, anti-diagonal, exactly triangular,
            // symmetric with zero diagonal; the structural zeros carry random signs (-0.0)
            let kind = r.below(7);
            let mut p: Vec<usize> = (0..n).collect();
            for i in (1..n).rev() { let j = r.below(i as u64 + 1) as usize; p.swap(i, j); }
            for i in 0..n { for j in 0..n {
                a[i * n + j] = match kind {
                    0 => if i == j { 1.0 } else { 0.0 },
                    1 => if p[i] == j { if r.coin(0.5) { 1.0 } else { -1.0 } } else { 0.0 },
                    2 => if i == j { r.uniform(0.5, 2.0) * pow2(r.range(-30, 30)) } else { 0.0 },
                    3 => if i == j { r.uniform(0.5, 2.0) * pow2(r.range(-30, 30)) * if r.coin(0.5) { 1.0 } else { -1.0 } } else { 0.0 },
                    4 => if i + j == n - 1 { r.uniform(0.5, 2.0) } else { 0.0 },
                    5 => if j >= i { if i == j { r.uniform(0.5, 2.0) } else { r.uniform(-1.0, 1.0) } } else { 0.0 },
                    _ => if j <= i { if i == j { r.uniform(0.5, 2.0) } else { r.uniform(-1.0, 1.0) } } else { 0.0 },
                };
            }}
            if kind == 4 { mirror_lower(&mut a, n); }
            for x in a.iter_mut() { if *x == 0.0 && r.coin(0.4) { *x = -0.0; } }
            (a, true)
        }
    }
}
fn binom(n: usize, k: usize) -> f64 { let mut b = 1.0f64; for t in 0..k { b = b * (n - t) as f64 / (t + 1) as f64; } b.round() }

/// right-hand sides the random ones never are; row-major n x k
pub fn gen_rhs_extra(r: &mut Rng, a: &[f64], n: usize, k: usize, mode: u64) -> Vec<f64> {
    let mut b: Vec<f64> = (0..n * k).map(|_| r.uniform(-4.0, 4.0)).collect();
    match mode % 6 {
        0 => {}                                                                               // random of order one
        1 => { for x in b.iter_mut() { *x = 0.0; } }                                          // zero
        2 => { for j in 0..k { let e = r.below(n as u64) as usize; for i in 0..n { b[i * k + j] = if i == e { 1.0 } else if r.coin(0.5) { 0.0 } else { -0.0 }; } } }   // unit vectors
        3 => { let z = r.below(k as u64) as usize; for i in 0..n { b[i * k + z] = 0.0; } }    // one zero column
        4 => { for j in 0..k { let s = pow2(r.range(-40, 40)); for i in 0..n { b[i * k + j] *= s; } } }   // columns of very different scale
        _ => {                                                                                // B = A . X, X of order one
            let x: Vec<f64> = (0..n * k).map(|_| r.uniform(-4.0, 4.0)).collect();
            for i in 0..n { for j in 0..k { let mut s = 0.0; for l in 0..n { s += a[i * n + l] * x[l * k + j]; } b[i * k + j] = s; } }
        }
    }
    b
}

/// any class, old or new
fn gen_any(r: &mut Rng, c: &str, n: usize) -> (Vec<f64>, bool) { if EXTRA.contains(&c) { gen_extra(r, c, n) } else { (gen_matrix(r, c, n), false) } }

pub fn gen_rhs(r: &mut Rng, c: &str, a: &[f64], n: usize, k: usize) -> Vec<f64> {
    // row-major n x k
    if c == "integer-known" || c == "near-singular" || c == "sparse-graded" {
        let x: Vec<f64> = if c == "integer-known" { (0..n * k).map(|_| r.small_int(5)).collect() } else { (0..n * k).map(|_| r.uniform(-4.0, 4.0)).collect() };
        let mut b = vec![0.0; n * k];
        for i in 0..n { for j in 0..k { let mut s = 0.0; for l in 0..n { s += a[i * n + l] * x[l * k + j]; } b[i * k + j] = s; } }
        b
    } else if r.coin(0.3) { (0..n * k).map(|_| r.small_int(9)).collect() }
    else { (0..n * k).map(|_| r.uniform(-4.0, 4.0)).collect() }
}

fn mat_out(m: &Matrix) -> Vec<f64> {
    let mut v = vec![m.nrows as f64, m.ncols as f64];
    v.extend_from_slice(&m.data);
    v
}
fn b2f(b: bool) -> Vec<f64> { vec![if b { 1.0 } else { 0.0 }] }
fn tc_out(r: Option<Vec<f64>>) -> Vec<f64> { match r { Some(l) => { let mut v = vec![1.0]; v.extend_from_slice(&l); v } None => vec![0.0] } }
fn push_chol(cs: &mut Cases, a: &[f64], tag: &str, nt: bool) {
    let res = catch(|| tc_out(try_cholesky(a)));
    cs.push(app("CTryChol", vec![fl(a), outcome_list(&res)]), &format!("try_cholesky/{}/{}", tag, match &res { Ok(v) if v[0] == 1.0 => "factor", Ok(_) => "not-pd", Err(_) => "panic" }), nt);
    let res = catch(|| cholesky(a));
    cs.push(app("CChol", vec![fl(a), outcome_list(&res)]), &format!("cholesky/{}/{}", tag, if res.is_ok() { "factor" } else { "panic" }), nt);
}

// ---------------------------------------------------------------------------------------------
// correspondence cases
/// one system through the six entry points, the two predicates and the two Cholesky forms
fn push_system(cs: &mut Cases, r: &mut Rng, c: &str, n: usize, a: &[f64], k: usize, bm: &[f64]) {
    let nat = |x: usize| Tm::Nat(x as u64);
    let a = a.to_vec(); let bm = bm.to_vec();
    {
        let bv: Vec<f64> = (0..n).map(|i| bm[i * k]).collect();
        let route = if is_positive_definite(&a) { "pd-predicate" } else { "lu" };
        let nt = n >= 2;
        // slice entry points
        let res = catch(|| solve(&a, &bv));
        cs.push(app("CSolve", vec![fl(&a), fl(&bv), outcome_list(&res)]), &format!("solve/{}/{}", c, route), nt);
        let res = catch(|| solve_sys(&a, &bm));
        cs.push(app("CSolveSys", vec![fl(&a), fl(&bm), outcome_list(&res)]), &format!("solve_sys/{}/{}", c, route), nt);
        if n <= 16 || r.coin(0.4) {
            let res = catch(|| invert_matrix(&a));
            cs.push(app("CInvert", vec![fl(&a), outcome_list(&res)]), &format!("invert_matrix/{}/{}", c, route), nt);
        }
        // Matrix entry points (always LU)
        let m = Matrix::new(a.clone(), n as i32, n as i32);
        let res = catch(|| Solve::<Vector>::solve(&m, &Vector::new(bv.clone())).v);
        cs.push(app("CMSolveV", vec![nat(n), nat(n), fl(&a), fl(&bv), outcome_list(&res)]), &format!("Matrix::solve(Vector)/{}", c), nt);
        let sm = Matrix::new(bm.clone(), n as i32, k as i32);
        let res = catch(|| mat_out(&Solve::<Matrix>::solve(&m, &sm)));
        cs.push(app("CMSolveM", vec![nat(n), nat(n), fl(&a), nat(n), nat(k), fl(&bm), outcome_list(&res)]), &format!("Matrix::solve(Matrix)/{}", c), nt);
        if n <= 16 || r.coin(0.4) {
            let res = catch(|| mat_out(&m.inv()));
            cs.push(app("CMInv", vec![nat(n), nat(n), fl(&a), outcome_list(&res)]), &format!("Matrix::inv/{}", c), nt);
        }
        // predicates
        let res = catch(|| b2f(is_symmetric(&a)));
        cs.push(app("CIsSym", vec![fl(&a), outcome_list(&res)]), "is_symmetric", nt);
        let res = catch(|| b2f(is_positive_definite(&a)));
        cs.push(app("CIsPD", vec![fl(&a), outcome_list(&res)]), "is_positive_definite", nt);
        if n <= 16 { push_chol(cs, &a, c, nt); }
    }
}

pub fn gen(tier: &str, seed: u64, outdir: &str) {
    let mut r = Rng::new(seed);
    let mut cs = Cases::new("C01");
    let thorough = tier == "thorough";
    let nmax = if thorough { 32 } else { 12 };
    let reps = if thorough { 2 } else { 1 };
    let nat = |x: usize| Tm::Nat(x as u64);
    for _ in 0..reps { for n in 1..=nmax { for c in CLASSES.iter() {
        if thorough && n > 16 && r.coin(0.5) { continue; }
        let a = gen_matrix(&mut r, c, n);
        let k = 1 + r.below(6) as usize;
        let bm = gen_rhs(&mut r, c, &a, n, k);
        push_system(&mut cs, &mut r, c, n, &a, k, &bm);
    }}}
    // predicate boundary: asymmetry exactly at / just above / below the tolerance, zero / negative / NaN diagonal, special values
    let npred = if thorough { 400 } else { 80 };
    for it in 0..npred {
        let n = 1 + r.below(5) as usize;
        let mut a = gen_matrix(&mut r, "sym-dd-posdiag", n);
        let scale = pow2(r.range(-70, 10));
        for x in a.iter_mut() { *x *= scale; }
        if n >= 2 {
            let (i, j) = (r.below(n as u64) as usize, r.below(n as u64) as usize);
            let base = a[i * n + j];
            let d = match it % 6 { 0 => 0.0, 1 => base.abs() * f64::EPSILON, 2 => base.abs() * f64::EPSILON * 2.0, 3 => f64::EPSILON, 4 => f64::EPSILON * 1.5, _ => base.abs() * 0.25 };
            if i != j { a[i * n + j] = base + d; }
        }
        match it % 9 { 0 => a[0] = 0.0, 1 => a[0] = -0.0, 2 => a[(n - 1) * n + n - 1] = -a[(n - 1) * n + n - 1], 3 => a[0] = f64::NAN, 4 => a[n - 1] = f64::INFINITY, 5 => a[n - 1] = f64::NAN, _ => {} }
        let res = catch(|| b2f(is_symmetric(&a)));
        cs.push(app("CIsSym", vec![fl(&a), outcome_list(&res)]), "is_symmetric/boundary", true);
        let res = catch(|| b2f(is_positive_definite(&a)));
        cs.push(app("CIsPD", vec![fl(&a), outcome_list(&res)]), "is_positive_definite/boundary", true);
        let b: Vec<f64> = (0..n).map(|_| r.small_int(4)).collect();
        let res = catch(|| solve(&a, &b));
        cs.push(app("CSolve", vec![fl(&a), fl(&b), outcome_list(&res)]), "solve/boundary", true);
        push_chol(&mut cs, &a, "boundary", true);
    }
    // singular / rank-deficient / zero matrices (values are inf/NaN: the model must reproduce them)
    let nsing = if thorough { 120 } else { 30 };
    for it in 0..nsing {
        let n = 1 + r.below(6) as usize;
        let mut a: Vec<f64> = (0..n * n).map(|_| r.small_int(3)).collect();
        match it % 3 { 0 => { for j in 0..n { a[(n - 1) * n + j] = a[j]; } } 1 => { for x in a.iter_mut() { *x = 0.0; } } _ => { for i in 0..n { a[i * n] = 0.0; } } }
        if it % 4 == 0 { for i in 0..n { for j in 0..i { a[i * n + j] = a[j * n + i]; } a[i * n + i] = a[i * n + i].abs() + 1.0; } }
        let b: Vec<f64> = (0..n).map(|_| r.small_int(4)).collect();
        let res = catch(|| solve(&a, &b));
        cs.push(app("CSolve", vec![fl(&a), fl(&b), outcome_list(&res)]), "solve/singular", n >= 2);
        let res = catch(|| invert_matrix(&a));
        cs.push(app("CInvert", vec![fl(&a), outcome_list(&res)]), "invert_matrix/singular", n >= 2);
        let m = Matrix::new(a.clone(), n as i32, n as i32);
        let res = catch(|| Solve::<Vector>::solve(&m, &Vector::new(b.clone())).v);
        cs.push(app("CMSolveV", vec![nat(n), nat(n), fl(&a), fl(&b), outcome_list(&res)]), "Matrix::solve(Vector)/singular", n >= 2);
    }
    // layout conversions on every small shape, distinct entries
    let smax = if thorough { 9 } else { 6 };
    for nr in 0..=smax { for nc in 0..=smax {
        let a: Vec<f64> = (0..nr * nc).map(|i| i as f64 + 1.0).collect();
        for rows in [nr, nc, nr + 1] {
            let res = catch(|| row_to_col_major(&a, rows).v);
            cs.push(app("CRowToCol", vec![fl(&a), nat(rows), outcome_list(&res)]), if res.is_ok() { "row_to_col_major/value" } else { "row_to_col_major/panic" }, nr >= 2 && nc >= 2);
            let res = catch(|| col_to_row_major(&a, rows));
            cs.push(app("CColToRow", vec![fl(&a), nat(rows), outcome_list(&res)]), if res.is_ok() { "col_to_row_major/value" } else { "col_to_row_major/panic" }, nr >= 2 && nc >= 2);
        }
    }}
    // malformed stream: arbitrary lengths
    let nbad = if thorough { 1500 } else { 300 };
    for _ in 0..nbad {
        let la = r.below(18) as usize; let lb = r.below(10) as usize;
        let a: Vec<f64> = (0..la).map(|_| r.small_int(5)).collect();
        let mut a = a; if r.coin(0.3) { let n = (la as f64).sqrt() as usize; if n * n == la { for i in 0..n { for j in 0..i { a[i * n + j] = a[j * n + i]; } a[i * n + i] = a[i * n + i].abs() + 6.0; } } }
        let b: Vec<f64> = (0..lb).map(|_| r.small_int(5)).collect();
        let res = catch(|| solve(&a, &b));
        let tag = |ok: bool| if ok { "malformed-stream/value" } else { "malformed-stream/panic" };
        cs.push(app("CSolve", vec![fl(&a), fl(&b), outcome_list(&res)]), tag(res.is_ok()), res.is_err());
        let res = catch(|| solve_sys(&a, &b));
        cs.push(app("CSolveSys", vec![fl(&a), fl(&b), outcome_list(&res)]), tag(res.is_ok()), res.is_err());
        let res = catch(|| invert_matrix(&a));
        cs.push(app("CInvert", vec![fl(&a), outcome_list(&res)]), tag(res.is_ok()), res.is_err());
        let res = catch(|| b2f(is_symmetric(&a)));
        cs.push(app("CIsSym", vec![fl(&a), outcome_list(&res)]), tag(res.is_ok()), res.is_err());
        let res = catch(|| b2f(is_positive_definite(&a)));
        cs.push(app("CIsPD", vec![fl(&a), outcome_list(&res)]), tag(res.is_ok()), res.is_err());
        // Matrix forms: any positive shape whose product is la
        if la > 0 {
            let divs: Vec<usize> = (1..=la).filter(|d| la % d == 0).collect();
            let nr = *r.pick(&divs); let nc = la / nr;
            let m = Matrix::new(a.clone(), nr as i32, nc as i32);
            let res = catch(|| Solve::<Vector>::solve(&m, &Vector::new(b.clone())).v);
            cs.push(app("CMSolveV", vec![nat(nr), nat(nc), fl(&a), fl(&b), outcome_list(&res)]), tag(res.is_ok()), res.is_err());
            let res = catch(|| mat_out(&m.inv()));
            cs.push(app("CMInv", vec![nat(nr), nat(nc), fl(&a), outcome_list(&res)]), tag(res.is_ok()), res.is_err());
            if lb > 0 {
                let divs: Vec<usize> = (1..=lb).filter(|d| lb % d == 0).collect();
                let sr = *r.pick(&divs); let sc = lb / sr;
                let sm = Matrix::new(b.clone(), sr as i32, sc as i32);
                let res = catch(|| mat_out(&Solve::<Matrix>::solve(&m, &sm)));
                cs.push(app("CMSolveM", vec![nat(nr), nat(nc), fl(&a), nat(sr), nat(sc), fl(&b), outcome_list(&res)]), tag(res.is_ok()), res.is_err());
            }
        }
    }
    // coverage audit: the nine audit classes (extreme magnitudes, row-and-column scaling, ill-conditioned / graded / textbook SPD, mirrored
    // entries one ulp apart, late negative pivot, growth 2^(n-1), exactly structured with signed zeros) with zero / unit / partly zero /
    // badly scaled right-hand sides; the first and last orders and a ladder in between
    let ladder: Vec<usize> = if thorough { vec![1, 2, 3, 4, 5, 6, 7, 8, 9, 10, 11, 12, 16, 17, 24, 31, 32] } else { vec![1, 2, 3, 5, 8, 12] };
    let mut cnt = 0u64;
    for &n in ladder.iter() { for c in EXTRA.iter() {
        let (a, _) = gen_extra(&mut r, c, n);
        let k = if cnt % 3 == 0 { 6 } else { 1 + r.below(6) as usize };
        let bm = gen_rhs_extra(&mut r, &a, n, k, cnt / 3 + cnt);
        push_system(&mut cs, &mut r, c, n, &a, k, &bm);
        cnt += 1;
    }}
    cs.write(outdir, if thorough { 60 } else { 150 },
             "nine audit classes at the first, the last and intermediate orders (2^+-100..900 scalings of the property's classes, row-and-column scalings over 300 binades, graded / ill-conditioned / textbook SPD, mirrored entries one ulp apart, indefinite through one late pivot, growth 2^(n-1), identity / permutation / diagonal / triangular with signed zeros; zero, unit, partly zero and badly scaled right-hand sides) and twelve matrix classes (sparse row-graded with weak couplings; ill-conditioned with b = A.x; random dense, integer with known solution, SPD, symmetric indefinite with positive diagonal, symmetric small-integer with positive diagonal (exact zero pivots), symmetric diagonally dominant, diagonally dominant, permuted/scaled triangular, graded over ten decades, tiny-scale non-symmetric with positive diagonal) x every order 1..12 (quick) / 1..32 (thorough) x 1..6 right-hand sides through all six entry points (solve, solve_sys, invert_matrix, Matrix::solve for Vector and Matrix, Matrix::inv) and the two routing predicates; predicate-boundary matrices (asymmetry at the tolerance, zero/negative/NaN diagonal), singular matrices, every small layout conversion, and a malformed stream of arbitrary lengths/shapes; non-trivial = order >= 2 (value cases), a panic (malformed stream); distinct by hash of the case term");
}

// ---------------------------------------------------------------------------------------------
// failure-search oracle

/// double-double accumulation of sum_k a_k * x_k - b  (error-free products by FMA, two-sum accumulation)
fn dd_residual(row: &[f64], x: &dyn Fn(usize) -> f64, b: f64) -> f64 {
    let (mut hi, mut lo) = (-b, 0.0f64);
    for (k, &a) in row.iter().enumerate() {
        let xv = x(k);
        let p = a * xv; let e = a.mul_add(xv, -p);
        let s = hi + p; let bb = s - hi; let err = (hi - (s - bb)) + (p - bb);
        hi = s; lo += err + e;
    }
    hi + lo
}

/// the oracle's own elimination with partial pivoting: returns (max_i sum_j (|L||U|)_ij, min |u_ii|, max |a_ij|).
/// Partial pivoting does not say WHICH of several entries of equal largest magnitude becomes the pivot, and the growth can depend on it
/// (1 on the diagonal, -1 below, 1 in the last column: taking the diagonal gives growth 2^(n-1), taking the last row gives none); the
/// bound must hold for an implementation that makes either choice, so the growth is the larger of the two conventions (first / last
/// largest entry); without ties the two eliminations are the same.  The smallest pivot is that of the last-largest convention.
fn reference_growth(a: &[f64], n: usize) -> (f64, f64, f64) {
    let (g_last, minpiv, amax) = reference_growth_conv(a, n, false);
    let (g_first, _, _) = reference_growth_conv(a, n, true);
    (g_last.max(g_first), minpiv, amax)
}
fn reference_growth_conv(a: &[f64], n: usize, first: bool) -> (f64, f64, f64) {
    let mut m: Vec<Vec<f64>> = (0..n).map(|i| a[i * n..(i + 1) * n].to_vec()).collect();
    let amax = a.iter().fold(0.0f64, |s, x| s.max(x.abs()));
    let mut minpiv = f64::INFINITY;
    for j in 0..n {
        let p = (j..n).max_by(|&x, &y| m[x][j].abs().partial_cmp(&m[y][j].abs()).unwrap_or(std::cmp::Ordering::Equal)).unwrap();
        let p = if first { (j..n).find(|&x| m[x][j].abs() == m[p][j].abs()).unwrap_or(p) } else { p };
        m.swap(p, j);
        let d = m[j][j];
        minpiv = minpiv.min(d.abs());
        if d == 0.0 || !d.is_finite() { return (f64::INFINITY, 0.0, amax); }
        for i in (j + 1)..n { let f = m[i][j] / d; m[i][j] = f; for k in (j + 1)..n { let t = m[j][k]; m[i][k] -= f * t; } }
    }
    // |L||U| row sums
    let mut worst = 0.0f64;
    for i in 0..n {
        let mut s = 0.0;
        for j in 0..n { for k in 0..=i.min(j) { let l = if k == i { 1.0 } else { m[i][k].abs() }; s += l * m[k][j].abs(); } }
        worst = worst.max(s);
    }
    (worst, minpiv, amax)
}

fn inf_norm_rows(a: &[f64], nr: usize, nc: usize) -> f64 { (0..nr).map(|i| a[i * nc..(i + 1) * nc].iter().map(|x| x.abs()).sum::<f64>()).fold(0.0, f64::max) }

struct Sys<'a> { class: &'a str, a: &'a [f64], n: usize, lu_norm: f64 }

/// checks X (row-major n x k) against B (row-major n x k); pushes at most one finding
fn judge(sys: &Sys, entry: &str, route: &str, b: &[f64], k: usize, got: &Result<Vec<f64>, String>, input: &str, out: &mut Vec<Finding>) {
    let n = sys.n;
    match got {
        Err(e) => out.push(Finding { class: format!("{}:panics-on-nonsingular route={}", entry, route), what: format!("{} panicked on a nonsingular {} system of order {}: {}", entry, sys.class, n, e), input: input.into() }),
        Ok(x) => {
            if x.len() != n * k { out.push(Finding { class: format!("{}:wrong-shape", entry), what: format!("{} returned {} values for an {}x{} unknown", entry, x.len(), n, k), input: input.into() }); return; }
            if x.iter().any(|v| !v.is_finite()) {
                out.push(Finding { class: format!("{}:non-finite route={}", entry, route), what: format!("{} returned non-finite values {:?} for a nonsingular {} matrix (the always-LU entry point returns finite values)", entry, &x[..x.len().min(8)], sys.class), input: input.into() });
                return;
            }
            let anorm = inf_norm_rows(sys.a, n, n); let xnorm = inf_norm_rows(x, n, k).max(x.iter().fold(0.0f64, |s, v| s.max(v.abs())));
            let bnorm = b.iter().fold(0.0f64, |s, v| s.max(v.abs()));
            // backward-error bound of elimination with partial pivoting / of Cholesky, growth measured by the oracle's own elimination
            let tol = 8.0 * n as f64 * f64::EPSILON * (sys.lu_norm.max(n as f64 * anorm) * xnorm + bnorm);
            let mut worst = 0.0f64;
            for j in 0..k { for i in 0..n {
                let res = dd_residual(&sys.a[i * n..(i + 1) * n], &|l| x[l * k + j], b[i * k + j]);
                worst = worst.max(res.abs());
            }}
            if !(worst <= tol) {
                out.push(Finding { class: format!("{}:residual route={}", entry, route), what: format!("{}: ||A.X - B||_inf = {:e} exceeds 8 n eps (growth ||A|| ||X|| + ||B||) = {:e} on a {} matrix of order {}", entry, worst, tol, sys.class, n), input: input.into() });
            }
        }
    }
}

/// one system through all six entry points; false if the draw is numerically singular (outside the property's quantifier) and was skipped
fn run_system(class: &str, a: &[f64], n: usize, k: usize, bm: &[f64], by_construction: bool, tried: &mut u64, out: &mut Vec<Finding>) -> bool {
    let bv: Vec<f64> = (0..n).map(|i| bm[i * k]).collect();
    let (lu_norm, minpiv, amax) = reference_growth(a, n);
    // numerically singular draws are outside the property's quantifier (a matrix that is an exact scaling of a strictly diagonally
    // dominant one is nonsingular whatever the ratio of its smallest pivot to its largest entry)
    if !lu_norm.is_finite() || !(minpiv > 0.0) { return false; }
    if !by_construction && !(minpiv > 1e-13 * amax) { return false; }
    let sys = Sys { class, a, n, lu_norm };
    let route = if catch(|| is_positive_definite(a)).unwrap_or(false) { "pd-predicate" } else { "lu" };
    let input = format!("class={} n={} a={} b(row-major n x {})={}", class, n, json_floats(a), k, json_floats(bm));
    crumb(&input);
    *tried += 1; judge(&sys, "solve", route, &bv, 1, &catch(|| solve(a, &bv)), &input, out);
    *tried += 1; judge(&sys, "solve_sys", route, bm, k, &catch(|| solve_sys(a, bm)), &input, out);
    let eye: Vec<f64> = (0..n * n).map(|i| if i / n == i % n { 1.0 } else { 0.0 }).collect();
    *tried += 1; judge(&sys, "invert_matrix", route, &eye, n, &catch(|| invert_matrix(a)), &input, out);
    let m = Matrix::new(a.to_vec(), n as i32, n as i32);
    *tried += 1; judge(&sys, "Matrix::solve(Vector)", "lu", &bv, 1, &catch(|| Solve::<Vector>::solve(&m, &Vector::new(bv.clone())).v), &input, out);
    let sm = Matrix::new(bm.to_vec(), n as i32, k as i32);
    let got = catch(|| { let x = Solve::<Matrix>::solve(&m, &sm); assert!(x.nrows == n && x.ncols == k, "result shape {}x{}", x.nrows, x.ncols); x.data.v.clone() });
    *tried += 1; judge(&sys, "Matrix::solve(Matrix)", "lu", bm, k, &got, &input, out);
    let got = catch(|| { let x = m.inv(); assert!(x.nrows == n && x.ncols == n, "result shape {}x{}", x.nrows, x.ncols); x.data.v.clone() });
    *tried += 1; judge(&sys, "Matrix::inv", "lu", &eye, n, &got, &input, out);
    true
}

pub fn oracle(tier: &str, seed: u64) -> (u64, Vec<Finding>) {
    let mut r = Rng::new(seed ^ 0xC01);
    let mut out: Vec<Finding> = vec![]; let mut tried = 0u64;
    let thorough = tier == "thorough";
    let iters = if thorough { 6000 } else { 900 };
    // the documented witness of D1 first
    let mut fixed: Vec<(Vec<f64>, usize, &str)> = vec![(vec![1.0, 2.0, 2.0, 1.0], 2, "sym-indef-posdiag"), (vec![4.0, 6.0, 6.0, 1.0], 2, "sym-indef-posdiag")];
    for it in 0..iters {
        let (a, n, class): (Vec<f64>, usize, &str) = if let Some(f) = fixed.pop() { f } else {
            let class = CLASSES[it % CLASSES.len()];
            let n = if it % 5 == 0 { 1 + r.below(32) as usize } else { 1 + r.below(8) as usize };
            (gen_matrix(&mut r, class, n), n, class)
        };
        let k = 1 + r.below(6) as usize;
        let bm = gen_rhs(&mut r, class, &a, n, k);
        let before = out.len();
        if !run_system(class, &a, n, k, &bm, false, &mut tried, &mut out) { continue; }
        let input = format!("class={} n={} a={} b(row-major n x {})={}", class, n, json_floats(&a), k, json_floats(&bm));
        let m = Matrix::new(a.clone(), n as i32, n as i32);
        // route independence: the slice solver against the always-LU Matrix solver on the same system -- both were judged
        // against the same residual bound above; additionally a system whose routing predicate holds must not lose
        // finiteness that the LU route keeps (reported by the non-finite classes above).
        // rejection: mismatched sizes must panic
        if it % 7 == 0 {
            let bad: Vec<f64> = (0..n + 1 + r.below(2) as usize).map(|_| r.small_int(3)).collect();
            tried += 3;
            if let Ok(v) = catch(|| solve(&a, &bad)) { out.push(Finding { class: "solve:mismatch-accepted".into(), what: format!("solve returned {} values for a right-hand side of length {} against order {}", v.len(), bad.len(), n), input: format!("{} bad_b={}", input, json_floats(&bad)) }); }
            if n >= 2 && bad.len() % n != 0 { if let Ok(v) = catch(|| solve_sys(&a, &bad)) { out.push(Finding { class: "solve_sys:mismatch-accepted".into(), what: format!("solve_sys returned {} values for {} right-hand-side entries against order {}", v.len(), bad.len(), n), input: format!("{} bad_b={}", input, json_floats(&bad)) }); } }
            if let Ok(v) = catch(|| Solve::<Vector>::solve(&m, &Vector::new(bad.clone())).v) { out.push(Finding { class: "Matrix::solve(Vector):mismatch-accepted".into(), what: format!("returned {} values for a right-hand side of length {} against order {}", v.len(), bad.len(), n), input: format!("{} bad_b={}", input, json_floats(&bad)) }); }
            // the same rejections at the Matrix entry points (no further random draws: the stream of systems is unchanged)
            tried += 2;
            let badm: Vec<f64> = (0..(n + 1) * k).map(|i| (i % 7) as f64 - 3.0).collect();
            if let Ok(v) = catch(|| { let bb = Matrix::new(badm.clone(), (n + 1) as i32, k as i32); Solve::<Matrix>::solve(&m, &bb).data.v.clone() }) { out.push(Finding { class: "Matrix::solve(Matrix):mismatch-accepted".into(), what: format!("returned {} values for a right-hand side with {} rows against order {}", v.len(), n + 1, n), input: format!("{} bad_B={}x{}", input, n + 1, k) }); }
            if n >= 2 { if let Ok(v) = catch(|| { let ns = Matrix::new(a[..n * (n - 1)].to_vec(), n as i32, (n - 1) as i32); ns.inv().data.v.clone() }) { out.push(Finding { class: "Matrix::inv:nonsquare-accepted".into(), what: format!("Matrix::inv returned {} values for a {}x{} matrix", v.len(), n, n - 1), input: input.clone() }); } }
            if n >= 2 { let ns: Vec<f64> = a[..n * (n - 1)].to_vec();
                if let Ok(v) = catch(|| invert_matrix(&ns)) { if (((n * (n - 1)) as f64).sqrt() as usize).pow(2) != n * (n - 1) { out.push(Finding { class: "invert_matrix:nonsquare-accepted".into(), what: format!("invert_matrix returned {} values for {} entries", v.len(), ns.len()), input: input.clone() }); } } }
        }
        if out.len() > before && out.len() > 60 { break; }
    }
    // coverage sweep (own random stream: the draws above are unchanged): EVERY class, old and new, at the first and the last orders of the
    // quantifier and at a ladder in between (quick) / at every order 1..32 (thorough), with 1 and 6 right-hand sides at every order and
    // all six kinds of right-hand side; the audit classes additionally at random small orders
    let mut r = Rng::new(seed ^ 0xC01A);
    let ladder: Vec<usize> = if thorough { (1..=32).collect() } else { vec![1, 2, 3, 4, 5, 8, 9, 16, 17, 24, 31, 32] };
    let reps = if thorough { 4 } else { 1 };
    let all: Vec<&str> = CLASSES.iter().chain(EXTRA.iter()).cloned().collect();
    let mut cnt = 0u64;
    for rep in 0..reps { for &n in ladder.iter() { for class in all.iter() {
        for &k in [1usize, 6, 1 + ((cnt % 4) as usize + 1)].iter() {
            if out.len() > 60 { break; }
            // up to 4 draws: a numerically singular draw is replaced
            for _ in 0..4 {
                let (a, byc) = gen_any(&mut r, class, n);
                let bm = if EXTRA.contains(class) || (cnt + rep as u64) % 2 == 1 { gen_rhs_extra(&mut r, &a, n, k, cnt) } else { gen_rhs(&mut r, class, &a, n, k) };
                if run_system(class, &a, n, k, &bm, byc, &mut tried, &mut out) { break; }
            }
            cnt += 1;
        }
    }}}
    let extra_small = if thorough { 4000 } else { 600 };
    for it in 0..extra_small {
        if out.len() > 60 { break; }
        let class = EXTRA[it % EXTRA.len()];
        let n = 1 + r.below(if it % 4 == 0 { 32 } else { 10 }) as usize;
        let k = 1 + r.below(6) as usize;
        let (a, byc) = gen_extra(&mut r, class, n);
        let mode = r.below(6);
        let bm = gen_rhs_extra(&mut r, &a, n, k, mode);
        run_system(class, &a, n, k, &bm, byc, &mut tried, &mut out);
    }
    (tried, out)
}
