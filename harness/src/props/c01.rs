//! C01 — linear systems through every entry point: case generation for the Coq correspondence and the
//! failure-search oracle (residuals in double-double, finiteness, route independence, rejection).
#![allow(clippy::needless_range_loop)]
use crate::util::*;
use compute::linalg::{
    cholesky, col_to_row_major, invert_matrix, is_positive_definite, is_symmetric, row_to_col_major, solve, solve_sys, try_cholesky, Matrix, Solve,
    Vector,
};

// ---------------------------------------------------------------------------------------------
// matrix classes of the property text
pub const CLASSES: [&str; 12] = [
    "dense", "integer-known", "spd", "sym-indef-posdiag", "diag-dominant", "perm-scaled-triangular", "graded", "tiny-scale-posdiag", "sym-dd-posdiag",
    "sym-int-posdiag", "near-singular", "sparse-graded",
];

fn pow2(k: i64) -> f64 { (2.0f64).powi(k as i32) }

/// one matrix of class `c`, order n, row-major.  All classes are nonsingular by construction or generically
/// (the oracle re-checks with its own elimination and skips numerically singular draws).
pub fn gen_matrix(r: &mut Rng, c: &str, n: usize) -> Vec<f64> {
    let mut a = vec![0.0; n * n];
    match c {
        "dense" => { for x in a.iter_mut() { *x = r.uniform(-4.0, 4.0); } }
        "integer-known" => {
            // A = P . L . U with unit lower L, upper U with diagonal in {+-1,+-2,+-3}, entries in {-1,0,1}: exactly nonsingular, integer
            let mut l = vec![0.0; n * n]; let mut u = vec![0.0; n * n];
            for i in 0..n { for j in 0..n {
                if j < i { l[i * n + j] = r.range(-1, 1) as f64; }
                else if j == i { l[i * n + j] = 1.0; let d = r.range(1, 3) as f64; u[i * n + j] = if r.coin(0.5) { d } else { -d }; }
                else { u[i * n + j] = r.range(-1, 1) as f64; }
            }}
            let mut p: Vec<usize> = (0..n).collect();
            for i in (1..n).rev() { let j = r.below(i as u64 + 1) as usize; p.swap(i, j); }
            for i in 0..n { for j in 0..n { let mut s = 0.0; for k in 0..n { s += l[i * n + k] * u[k * n + j]; } a[p[i] * n + j] = s; } }
        }
        "spd" => {
            // M^T M + I with small integer or real M: exactly symmetric (same products in the same order)
            let m: Vec<f64> = if r.coin(0.5) { (0..n * n).map(|_| r.small_int(3)).collect() } else { (0..n * n).map(|_| r.uniform(-1.0, 1.0)).collect() };
            for i in 0..n { for j in 0..n { let mut s = 0.0; for k in 0..n { s += m[k * n + i] * m[k * n + j]; } a[i * n + j] = s + if i == j { 1.0 } else { 0.0 }; } }
        }
        "sym-indef-posdiag" => {
            // symmetric, positive diagonal, large off-diagonal entries: indefinite for n >= 2 (a 2x2 principal minor is negative)
            for i in 0..n { for j in 0..=i {
                let v = if i == j { r.uniform(0.5, 2.0) } else { let m = r.uniform(2.5, 6.0); if r.coin(0.5) { m } else { -m } };
                a[i * n + j] = v; a[j * n + i] = v;
            }}
        }
        "near-singular" => {
            // nonsingular but ill-conditioned (cond 1e4 .. 1e11): the last row is a combination of the others plus a small multiple of a fresh
            // direction; with a right-hand side b = A.x, x of order one, a backward-stable solver still meets the residual bound, a formula
            // that is not backward stable (Cramer's rule, normal equations) does not
            for x in a.iter_mut() { *x = r.uniform(-4.0, 4.0); }
            if n >= 2 {
                let delta = (10.0f64).powf(-r.uniform(4.0, 10.5));
                let w: Vec<f64> = (0..n - 1).map(|_| r.uniform(-2.0, 2.0)).collect();
                for j in 0..n { let mut sum = 0.0; for i in 0..n - 1 { sum += w[i] * a[i * n + j]; } a[(n - 1) * n + j] = sum + delta * a[(n - 1) * n + j]; }
            }
        }
        "sparse-graded" => {
            // rows of very different scale (1 .. 1e-12) with many exact zeros and a few weak couplings: the pivot order is decided by entries of
            // very different magnitude, and a row that has been swapped must keep being compared by its own entries
            for i in 0..n {
                let sc = (10.0f64).powf(-r.uniform(0.0, 12.0)) * if r.coin(0.5) { 1.0 } else { 0.0 + 1.0 };
                for j in 0..n {
                    let v = if i == j { r.uniform(0.5, 2.0) } else if r.coin(0.55) { 0.0 } else if r.coin(0.3) { r.uniform(-1.0, 1.0) * 1e-7 } else { r.uniform(-2.0, 2.0) };
                    a[i * n + j] = sc * v;
                }
            }
            // a random row permutation so that the diagonal is not the natural pivot
            let mut p: Vec<usize> = (0..n).collect();
            for i in (1..n).rev() { let j = r.below(i as u64 + 1) as usize; p.swap(i, j); }
            let b0 = a.clone(); for i in 0..n { for j in 0..n { a[p[i] * n + j] = b0[i * n + j]; } }
        }
        "sym-int-posdiag" => {
            // symmetric small-integer entries with many zeros and a positive diagonal: the Cholesky sweep meets pivots that cancel EXACTLY to
            // zero (or go negative) at any position, not only in the first 2x2 minor; nonsingular draws are kept by the oracle's own elimination
            for i in 0..n { for j in 0..=i {
                let v = if i == j { r.range(1, 3) as f64 } else if r.coin(0.45) { 0.0 } else { r.range(-2, 2) as f64 };
                a[i * n + j] = v; a[j * n + i] = v;
            }}
        }
        "sym-dd-posdiag" => {
            // symmetric, strictly diagonally dominant with positive diagonal: SPD, Cholesky route
            for i in 0..n { for j in 0..i { let v = r.uniform(-1.0, 1.0); a[i * n + j] = v; a[j * n + i] = v; } }
            for i in 0..n { let s: f64 = (0..n).filter(|&j| j != i).map(|j| a[i * n + j].abs()).sum(); a[i * n + i] = s + r.uniform(0.5, 2.0); }
        }
        "diag-dominant" => {
            for x in a.iter_mut() { *x = r.uniform(-1.0, 1.0); }
            for i in 0..n { let s: f64 = (0..n).filter(|&j| j != i).map(|j| a[i * n + j].abs()).sum(); let d = s + r.uniform(0.5, 2.0); a[i * n + i] = if r.coin(0.5) { d } else { -d }; }
        }
        "perm-scaled-triangular" => {
            let upper = r.coin(0.5);
            let mut t = vec![0.0; n * n];
            for i in 0..n { for j in 0..n {
                let inside = if upper { j >= i } else { j <= i };
                if i == j { let d = r.uniform(0.5, 2.0); t[i * n + j] = if r.coin(0.5) { d } else { -d }; }
                else if inside { t[i * n + j] = r.uniform(-1.0, 1.0); }
            }}
            let mut p: Vec<usize> = (0..n).collect();
            for i in (1..n).rev() { let j = r.below(i as u64 + 1) as usize; p.swap(i, j); }
            for i in 0..n { let s = pow2(r.range(-20, 20)); for j in 0..n { a[p[i] * n + j] = s * t[i * n + j]; } }
        }
        "graded" => {
            // D1 . R . D2, R strictly diagonally dominant, D graded over 10 decades on one side (cond <= ~1e10 . cond(R))
            let mut rr = vec![0.0; n * n];
            for x in rr.iter_mut() { *x = r.uniform(-1.0, 1.0); }
            for i in 0..n { let s: f64 = (0..n).filter(|&j| j != i).map(|j| rr[i * n + j].abs()).sum(); rr[i * n + i] = s + 1.0; }
            let rows = r.coin(0.5);
            for i in 0..n { for j in 0..n {
                let k = if rows { i } else { j };
                let e = if n > 1 { -33.0 * k as f64 / (n - 1) as f64 } else { 0.0 };   // 2^-33 ~ 1e-10
                a[i * n + j] = rr[i * n + j] * pow2(e.round() as i64);
            }}
        }
        _ => {
            // "tiny-scale-posdiag": a well-conditioned NON-symmetric matrix with positive diagonal, scaled by 2^-k:
            // its entries are below f64::EPSILON in magnitude
            for x in a.iter_mut() { *x = r.uniform(-1.0, 1.0); }
            for i in 0..n { let s: f64 = (0..n).filter(|&j| j != i).map(|j| a[i * n + j].abs()).sum(); a[i * n + i] = s + r.uniform(0.5, 2.0); }
            let s = pow2(-r.range(56, 80));
            for x in a.iter_mut() { *x *= s; }
        }
    }
    a
}

pub fn gen_rhs(r: &mut Rng, c: &str, a: &[f64], n: usize, k: usize) -> Vec<f64> {
    // row-major n x k
    if c == "integer-known" || c == "near-singular" || c == "sparse-graded" {
        let x: Vec<f64> = if c == "integer-known" { (0..n * k).map(|_| r.small_int(5)).collect() } else { (0..n * k).map(|_| r.uniform(-4.0, 4.0)).collect() };
        let mut b = vec![0.0; n * k];
        for i in 0..n { for j in 0..k { let mut s = 0.0; for l in 0..n { s += a[i * n + l] * x[l * k + j]; } b[i * k + j] = s; } }
        b
    } else if r.coin(0.3) { (0..n * k).map(|_| r.small_int(9)).collect() }
    else { (0..n * k).map(|_| r.uniform(-4.0, 4.0)).collect() }
}

fn mat_out(m: &Matrix) -> Vec<f64> {
    let mut v = vec![m.nrows as f64, m.ncols as f64];
    v.extend_from_slice(&m.data);
    v
}
fn b2f(b: bool) -> Vec<f64> { vec![if b { 1.0 } else { 0.0 }] }
fn tc_out(r: Option<Vec<f64>>) -> Vec<f64> { match r { Some(l) => { let mut v = vec![1.0]; v.extend_from_slice(&l); v } None => vec![0.0] } }
fn push_chol(cs: &mut Cases, a: &[f64], tag: &str, nt: bool) {
    let res = catch(|| tc_out(try_cholesky(a)));
    cs.push(app("CTryChol", vec![fl(a), outcome_list(&res)]), &format!("try_cholesky/{}/{}", tag, match &res { Ok(v) if v[0] == 1.0 => "factor", Ok(_) => "not-pd", Err(_) => "panic" }), nt);
    let res = catch(|| cholesky(a));
    cs.push(app("CChol", vec![fl(a), outcome_list(&res)]), &format!("cholesky/{}/{}", tag, if res.is_ok() { "factor" } else { "panic" }), nt);
}

// ---------------------------------------------------------------------------------------------
// correspondence cases
pub fn gen(tier: &str, seed: u64, outdir: &str) {
    let mut r = Rng::new(seed);
    let mut cs = Cases::new("C01");
    let thorough = tier == "thorough";
    let nmax = if thorough { 32 } else { 12 };
    let reps = if thorough { 2 } else { 1 };
    let nat = |x: usize| Tm::Nat(x as u64);
    for _ in 0..reps { for n in 1..=nmax { for c in CLASSES.iter() {
        if thorough && n > 16 && r.coin(0.5) { continue; }
        let a = gen_matrix(&mut r, c, n);
        let k = 1 + r.below(6) as usize;
        let bm = gen_rhs(&mut r, c, &a, n, k);
        let bv: Vec<f64> = (0..n).map(|i| bm[i * k]).collect();
        let route = if is_positive_definite(&a) { "pd-predicate" } else { "lu" };
        let nt = n >= 2;
        // slice entry points
        let res = catch(|| solve(&a, &bv));
        cs.push(app("CSolve", vec![fl(&a), fl(&bv), outcome_list(&res)]), &format!("solve/{}/{}", c, route), nt);
        let res = catch(|| solve_sys(&a, &bm));
        cs.push(app("CSolveSys", vec![fl(&a), fl(&bm), outcome_list(&res)]), &format!("solve_sys/{}/{}", c, route), nt);
        if n <= 16 || r.coin(0.4) {
            let res = catch(|| invert_matrix(&a));
            cs.push(app("CInvert", vec![fl(&a), outcome_list(&res)]), &format!("invert_matrix/{}/{}", c, route), nt);
        }
        // Matrix entry points (always LU)
        let m = Matrix::new(a.clone(), n as i32, n as i32);
        let res = catch(|| Solve::<Vector>::solve(&m, &Vector::new(bv.clone())).v);
        cs.push(app("CMSolveV", vec![nat(n), nat(n), fl(&a), fl(&bv), outcome_list(&res)]), &format!("Matrix::solve(Vector)/{}", c), nt);
        let sm = Matrix::new(bm.clone(), n as i32, k as i32);
        let res = catch(|| mat_out(&Solve::<Matrix>::solve(&m, &sm)));
        cs.push(app("CMSolveM", vec![nat(n), nat(n), fl(&a), nat(n), nat(k), fl(&bm), outcome_list(&res)]), &format!("Matrix::solve(Matrix)/{}", c), nt);
        if n <= 16 || r.coin(0.4) {
            let res = catch(|| mat_out(&m.inv()));
            cs.push(app("CMInv", vec![nat(n), nat(n), fl(&a), outcome_list(&res)]), &format!("Matrix::inv/{}", c), nt);
        }
        // predicates
        let res = catch(|| b2f(is_symmetric(&a)));
        cs.push(app("CIsSym", vec![fl(&a), outcome_list(&res)]), "is_symmetric", nt);
        let res = catch(|| b2f(is_positive_definite(&a)));
        cs.push(app("CIsPD", vec![fl(&a), outcome_list(&res)]), "is_positive_definite", nt);
        if n <= 16 { push_chol(&mut cs, &a, c, nt); }
    }}}
    // predicate boundary: asymmetry exactly at / just above / below the tolerance, zero / negative / NaN diagonal, special values
    let npred = if thorough { 400 } else { 80 };
    for it in 0..npred {
        let n = 1 + r.below(5) as usize;
        let mut a = gen_matrix(&mut r, "sym-dd-posdiag", n);
        let scale = pow2(r.range(-70, 10));
        for x in a.iter_mut() { *x *= scale; }
        if n >= 2 {
            let (i, j) = (r.below(n as u64) as usize, r.below(n as u64) as usize);
            let base = a[i * n + j];
            let d = match it % 6 { 0 => 0.0, 1 => base.abs() * f64::EPSILON, 2 => base.abs() * f64::EPSILON * 2.0, 3 => f64::EPSILON, 4 => f64::EPSILON * 1.5, _ => base.abs() * 0.25 };
            if i != j { a[i * n + j] = base + d; }
        }
        match it % 9 { 0 => a[0] = 0.0, 1 => a[0] = -0.0, 2 => a[(n - 1) * n + n - 1] = -a[(n - 1) * n + n - 1], 3 => a[0] = f64::NAN, 4 => a[n - 1] = f64::INFINITY, 5 => a[n - 1] = f64::NAN, _ => {} }
        let res = catch(|| b2f(is_symmetric(&a)));
        cs.push(app("CIsSym", vec![fl(&a), outcome_list(&res)]), "is_symmetric/boundary", true);
        let res = catch(|| b2f(is_positive_definite(&a)));
        cs.push(app("CIsPD", vec![fl(&a), outcome_list(&res)]), "is_positive_definite/boundary", true);
        let b: Vec<f64> = (0..n).map(|_| r.small_int(4)).collect();
        let res = catch(|| solve(&a, &b));
        cs.push(app("CSolve", vec![fl(&a), fl(&b), outcome_list(&res)]), "solve/boundary", true);
        push_chol(&mut cs, &a, "boundary", true);
    }
    // singular / rank-deficient / zero matrices (values are inf/NaN: the model must reproduce them)
    let nsing = if thorough { 120 } else { 30 };
    for it in 0..nsing {
        let n = 1 + r.below(6) as usize;
        let mut a: Vec<f64> = (0..n * n).map(|_| r.small_int(3)).collect();
        match it % 3 { 0 => { for j in 0..n { a[(n - 1) * n + j] = a[j]; } } 1 => { for x in a.iter_mut() { *x = 0.0; } } _ => { for i in 0..n { a[i * n] = 0.0; } } }
        if it % 4 == 0 { for i in 0..n { for j in 0..i { a[i * n + j] = a[j * n + i]; } a[i * n + i] = a[i * n + i].abs() + 1.0; } }
        let b: Vec<f64> = (0..n).map(|_| r.small_int(4)).collect();
        let res = catch(|| solve(&a, &b));
        cs.push(app("CSolve", vec![fl(&a), fl(&b), outcome_list(&res)]), "solve/singular", n >= 2);
        let res = catch(|| invert_matrix(&a));
        cs.push(app("CInvert", vec![fl(&a), outcome_list(&res)]), "invert_matrix/singular", n >= 2);
        let m = Matrix::new(a.clone(), n as i32, n as i32);
        let res = catch(|| Solve::<Vector>::solve(&m, &Vector::new(b.clone())).v);
        cs.push(app("CMSolveV", vec![nat(n), nat(n), fl(&a), fl(&b), outcome_list(&res)]), "Matrix::solve(Vector)/singular", n >= 2);
    }
    // layout conversions on every small shape, distinct entries
    let smax = if thorough { 9 } else { 6 };
    for nr in 0..=smax { for nc in 0..=smax {
        let a: Vec<f64> = (0..nr * nc).map(|i| i as f64 + 1.0).collect();
        for rows in [nr, nc, nr + 1] {
            let res = catch(|| row_to_col_major(&a, rows).v);
            cs.push(app("CRowToCol", vec![fl(&a), nat(rows), outcome_list(&res)]), if res.is_ok() { "row_to_col_major/value" } else { "row_to_col_major/panic" }, nr >= 2 && nc >= 2);
            let res = catch(|| col_to_row_major(&a, rows));
            cs.push(app("CColToRow", vec![fl(&a), nat(rows), outcome_list(&res)]), if res.is_ok() { "col_to_row_major/value" } else { "col_to_row_major/panic" }, nr >= 2 && nc >= 2);
        }
    }}
    // malformed stream: arbitrary lengths
    let nbad = if thorough { 1500 } else { 300 };
    for _ in 0..nbad {
        let la = r.below(18) as usize; let lb = r.below(10) as usize;
        let a: Vec<f64> = (0..la).map(|_| r.small_int(5)).collect();
        let mut a = a; if r.coin(0.3) { let n = (la as f64).sqrt() as usize; if n * n == la { for i in 0..n { for j in 0..i { a[i * n + j] = a[j * n + i]; } a[i * n + i] = a[i * n + i].abs() + 6.0; } } }
        let b: Vec<f64> = (0..lb).map(|_| r.small_int(5)).collect();
        let res = catch(|| solve(&a, &b));
        let tag = |ok: bool| if ok { "malformed-stream/value" } else { "malformed-stream/panic" };
        cs.push(app("CSolve", vec![fl(&a), fl(&b), outcome_list(&res)]), tag(res.is_ok()), res.is_err());
        let res = catch(|| solve_sys(&a, &b));
        cs.push(app("CSolveSys", vec![fl(&a), fl(&b), outcome_list(&res)]), tag(res.is_ok()), res.is_err());
        let res = catch(|| invert_matrix(&a));
        cs.push(app("CInvert", vec![fl(&a), outcome_list(&res)]), tag(res.is_ok()), res.is_err());
        let res = catch(|| b2f(is_symmetric(&a)));
        cs.push(app("CIsSym", vec![fl(&a), outcome_list(&res)]), tag(res.is_ok()), res.is_err());
        let res = catch(|| b2f(is_positive_definite(&a)));
        cs.push(app("CIsPD", vec![fl(&a), outcome_list(&res)]), tag(res.is_ok()), res.is_err());
        // Matrix forms: any positive shape whose product is la
        if la > 0 {
            let divs: Vec<usize> = (1..=la).filter(|d| la % d == 0).collect();
            let nr = *r.pick(&divs); let nc = la / nr;
            let m = Matrix::new(a.clone(), nr as i32, nc as i32);
            let res = catch(|| Solve::<Vector>::solve(&m, &Vector::new(b.clone())).v);
            cs.push(app("CMSolveV", vec![nat(nr), nat(nc), fl(&a), fl(&b), outcome_list(&res)]), tag(res.is_ok()), res.is_err());
            let res = catch(|| mat_out(&m.inv()));
            cs.push(app("CMInv", vec![nat(nr), nat(nc), fl(&a), outcome_list(&res)]), tag(res.is_ok()), res.is_err());
            if lb > 0 {
                let divs: Vec<usize> = (1..=lb).filter(|d| lb % d == 0).collect();
                let sr = *r.pick(&divs); let sc = lb / sr;
                let sm = Matrix::new(b.clone(), sr as i32, sc as i32);
                let res = catch(|| mat_out(&Solve::<Matrix>::solve(&m, &sm)));
                cs.push(app("CMSolveM", vec![nat(nr), nat(nc), fl(&a), nat(sr), nat(sc), fl(&b), outcome_list(&res)]), tag(res.is_ok()), res.is_err());
            }
        }
    }
    cs.write(outdir, if thorough { 60 } else { 150 },
             "twelve matrix classes (sparse row-graded with weak couplings; ill-conditioned with b = A.x; random dense, integer with known solution, SPD, symmetric indefinite with positive diagonal, symmetric small-integer with positive diagonal (exact zero pivots), symmetric diagonally dominant, diagonally dominant, permuted/scaled triangular, graded over ten decades, tiny-scale non-symmetric with positive diagonal) x every order 1..12 (quick) / 1..32 (thorough) x 1..6 right-hand sides through all six entry points (solve, solve_sys, invert_matrix, Matrix::solve for Vector and Matrix, Matrix::inv) and the two routing predicates; predicate-boundary matrices (asymmetry at the tolerance, zero/negative/NaN diagonal), singular matrices, every small layout conversion, and a malformed stream of arbitrary lengths/shapes; non-trivial = order >= 2 (value cases), a panic (malformed stream); distinct by hash of the case term");
}

// ---------------------------------------------------------------------------------------------
// failure-search oracle

/// double-double accumulation of sum_k a_k * x_k - b  (error-free products by FMA, two-sum accumulation)
fn dd_residual(row: &[f64], x: &dyn Fn(usize) -> f64, b: f64) -> f64 {
    let (mut hi, mut lo) = (-b, 0.0f64);
    for (k, &a) in row.iter().enumerate() {
        let xv = x(k);
        let p = a * xv; let e = a.mul_add(xv, -p);
        let s = hi + p; let bb = s - hi; let err = (hi - (s - bb)) + (p - bb);
        hi = s; lo += err + e;
    }
    hi + lo
}

/// the oracle's own elimination with partial pivoting: returns (max_i sum_j (|L||U|)_ij, min |u_ii|, max |a_ij|)
fn reference_growth(a: &[f64], n: usize) -> (f64, f64, f64) {
    let mut m: Vec<Vec<f64>> = (0..n).map(|i| a[i * n..(i + 1) * n].to_vec()).collect();
    let amax = a.iter().fold(0.0f64, |s, x| s.max(x.abs()));
    let mut minpiv = f64::INFINITY;
    for j in 0..n {
        let p = (j..n).max_by(|&x, &y| m[x][j].abs().partial_cmp(&m[y][j].abs()).unwrap_or(std::cmp::Ordering::Equal)).unwrap();
        m.swap(p, j);
        let d = m[j][j];
        minpiv = minpiv.min(d.abs());
        if d == 0.0 || !d.is_finite() { return (f64::INFINITY, 0.0, amax); }
        for i in (j + 1)..n { let f = m[i][j] / d; m[i][j] = f; for k in (j + 1)..n { let t = m[j][k]; m[i][k] -= f * t; } }
    }
    // |L||U| row sums
    let mut worst = 0.0f64;
    for i in 0..n {
        let mut s = 0.0;
        for j in 0..n { for k in 0..=i.min(j) { let l = if k == i { 1.0 } else { m[i][k].abs() }; s += l * m[k][j].abs(); } }
        worst = worst.max(s);
    }
    (worst, minpiv, amax)
}

fn inf_norm_rows(a: &[f64], nr: usize, nc: usize) -> f64 { (0..nr).map(|i| a[i * nc..(i + 1) * nc].iter().map(|x| x.abs()).sum::<f64>()).fold(0.0, f64::max) }

struct Sys<'a> { class: &'a str, a: &'a [f64], n: usize, lu_norm: f64 }

/// checks X (row-major n x k) against B (row-major n x k); pushes at most one finding
fn judge(sys: &Sys, entry: &str, route: &str, b: &[f64], k: usize, got: &Result<Vec<f64>, String>, input: &str, out: &mut Vec<Finding>) {
    let n = sys.n;
    match got {
        Err(e) => out.push(Finding { class: format!("{}:panics-on-nonsingular route={}", entry, route), what: format!("{} panicked on a nonsingular {} system of order {}: {}", entry, sys.class, n, e), input: input.into() }),
        Ok(x) => {
            if x.len() != n * k { out.push(Finding { class: format!("{}:wrong-shape", entry), what: format!("{} returned {} values for an {}x{} unknown", entry, x.len(), n, k), input: input.into() }); return; }
            if x.iter().any(|v| !v.is_finite()) {
                out.push(Finding { class: format!("{}:non-finite route={}", entry, route), what: format!("{} returned non-finite values {:?} for a nonsingular {} matrix (the always-LU entry point returns finite values)", entry, &x[..x.len().min(8)], sys.class), input: input.into() });
                return;
            }
            let anorm = inf_norm_rows(sys.a, n, n); let xnorm = inf_norm_rows(x, n, k).max(x.iter().fold(0.0f64, |s, v| s.max(v.abs())));
            let bnorm = b.iter().fold(0.0f64, |s, v| s.max(v.abs()));
            // backward-error bound of elimination with partial pivoting / of Cholesky, growth measured by the oracle's own elimination
            let tol = 8.0 * n as f64 * f64::EPSILON * (sys.lu_norm.max(n as f64 * anorm) * xnorm + bnorm);
            let mut worst = 0.0f64;
            for j in 0..k { for i in 0..n {
                let res = dd_residual(&sys.a[i * n..(i + 1) * n], &|l| x[l * k + j], b[i * k + j]);
                worst = worst.max(res.abs());
            }}
            if !(worst <= tol) {
                out.push(Finding { class: format!("{}:residual route={}", entry, route), what: format!("{}: ||A.X - B||_inf = {:e} exceeds 8 n eps (growth ||A|| ||X|| + ||B||) = {:e} on a {} matrix of order {}", entry, worst, tol, sys.class, n), input: input.into() });
            }
        }
    }
}

pub fn oracle(tier: &str, seed: u64) -> (u64, Vec<Finding>) {
    let mut r = Rng::new(seed ^ 0xC01);
    let mut out: Vec<Finding> = vec![]; let mut tried = 0u64;
    let iters = if tier == "thorough" { 6000 } else { 900 };
    // the documented witness of D1 first
    let mut fixed: Vec<(Vec<f64>, usize, &str)> = vec![(vec![1.0, 2.0, 2.0, 1.0], 2, "sym-indef-posdiag"), (vec![4.0, 6.0, 6.0, 1.0], 2, "sym-indef-posdiag")];
    for it in 0..iters {
        let (a, n, class): (Vec<f64>, usize, &str) = if let Some(f) = fixed.pop() { f } else {
            let class = CLASSES[it % CLASSES.len()];
            let n = if it % 5 == 0 { 1 + r.below(32) as usize } else { 1 + r.below(8) as usize };
            (gen_matrix(&mut r, class, n), n, class)
        };
        let k = 1 + r.below(6) as usize;
        let bm = gen_rhs(&mut r, class, &a, n, k);
        let bv: Vec<f64> = (0..n).map(|i| bm[i * k]).collect();
        let (lu_norm, minpiv, amax) = reference_growth(&a, n);
        // numerically singular draws are outside the property's quantifier
        if !(minpiv > 1e-13 * amax) || !lu_norm.is_finite() { continue; }
        let sys = Sys { class, a: &a, n, lu_norm };
        let route = if catch(|| is_positive_definite(&a)).unwrap_or(false) { "pd-predicate" } else { "lu" };
        let input = format!("class={} n={} a={} b(row-major n x {})={}", class, n, json_floats(&a), k, json_floats(&bm));
        crumb(&input);
        let before = out.len();
        tried += 1; judge(&sys, "solve", route, &bv, 1, &catch(|| solve(&a, &bv)), &input, &mut out);
        tried += 1; judge(&sys, "solve_sys", route, &bm, k, &catch(|| solve_sys(&a, &bm)), &input, &mut out);
        let eye: Vec<f64> = (0..n * n).map(|i| if i / n == i % n { 1.0 } else { 0.0 }).collect();
        tried += 1; judge(&sys, "invert_matrix", route, &eye, n, &catch(|| invert_matrix(&a)), &input, &mut out);
        let m = Matrix::new(a.clone(), n as i32, n as i32);
        tried += 1; judge(&sys, "Matrix::solve(Vector)", "lu", &bv, 1, &catch(|| Solve::<Vector>::solve(&m, &Vector::new(bv.clone())).v), &input, &mut out);
        let sm = Matrix::new(bm.clone(), n as i32, k as i32);
        let got = catch(|| { let x = Solve::<Matrix>::solve(&m, &sm); assert!(x.nrows == n && x.ncols == k, "result shape {}x{}", x.nrows, x.ncols); x.data.v.clone() });
        tried += 1; judge(&sys, "Matrix::solve(Matrix)", "lu", &bm, k, &got, &input, &mut out);
        let got = catch(|| { let x = m.inv(); assert!(x.nrows == n && x.ncols == n, "result shape {}x{}", x.nrows, x.ncols); x.data.v.clone() });
        tried += 1; judge(&sys, "Matrix::inv", "lu", &eye, n, &got, &input, &mut out);
        // route independence: the slice solver against the always-LU Matrix solver on the same system -- both were judged
        // against the same residual bound above; additionally a system whose routing predicate holds must not lose
        // finiteness that the LU route keeps (reported by the non-finite classes above).
        // rejection: mismatched sizes must panic
        if it % 7 == 0 {
            let bad: Vec<f64> = (0..n + 1 + r.below(2) as usize).map(|_| r.small_int(3)).collect();
            tried += 3;
            if let Ok(v) = catch(|| solve(&a, &bad)) { out.push(Finding { class: "solve:mismatch-accepted".into(), what: format!("solve returned {} values for a right-hand side of length {} against order {}", v.len(), bad.len(), n), input: format!("{} bad_b={}", input, json_floats(&bad)) }); }
            if n >= 2 && bad.len() % n != 0 { if let Ok(v) = catch(|| solve_sys(&a, &bad)) { out.push(Finding { class: "solve_sys:mismatch-accepted".into(), what: format!("solve_sys returned {} values for {} right-hand-side entries against order {}", v.len(), bad.len(), n), input: format!("{} bad_b={}", input, json_floats(&bad)) }); } }
            if let Ok(v) = catch(|| Solve::<Vector>::solve(&m, &Vector::new(bad.clone())).v) { out.push(Finding { class: "Matrix::solve(Vector):mismatch-accepted".into(), what: format!("returned {} values for a right-hand side of length {} against order {}", v.len(), bad.len(), n), input: format!("{} bad_b={}", input, json_floats(&bad)) }); }
            if n >= 2 { let ns: Vec<f64> = a[..n * (n - 1)].to_vec();
                if let Ok(v) = catch(|| invert_matrix(&ns)) { if (((n * (n - 1)) as f64).sqrt() as usize).pow(2) != n * (n - 1) { out.push(Finding { class: "invert_matrix:nonsquare-accepted".into(), what: format!("invert_matrix returned {} values for {} entries", v.len(), ns.len()), input: input.clone() }); } } }
        }
        if out.len() > before && out.len() > 60 { break; }
    }
    (tried, out)
}
