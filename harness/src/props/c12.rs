//! C12 — broadcast arithmetic follows NumPy semantics: case generation for the Coq correspondence
//! (all 48 operator impls: {+,-,*,/} x {Matrix.Matrix, Matrix.Vector, Vector.Matrix} x 4 ownership
//! forms) and the failure-search oracle (the NumPy rule, in a few lines, against the implementation).
use crate::util::*;
use compute::linalg::{Matrix, Vector};

const OPS: [&str; 4] = ["add", "sub", "mul", "div"];
const KINDS: [&str; 3] = ["MM", "MV", "VM"];

fn apply(op: usize, x: f64, y: f64) -> f64 { match op { 0 => x + y, 1 => x - y, 2 => x * y, _ => x / y } }

/// the four ownership forms of one operator: (owned, owned), (owned, &), (&, owned), (&, &)
macro_rules! forms {
    ($a:expr, $b:expr, $form:expr, $op:tt) => {
        match $form { 0 => $a.clone() $op $b.clone(), 1 => $a.clone() $op &$b, 2 => &$a $op $b.clone(), _ => &$a $op &$b }
    };
}
macro_rules! ops {
    ($a:expr, $b:expr, $form:expr, $opi:expr) => {
        match $opi { 0 => forms!($a, $b, $form, +), 1 => forms!($a, $b, $form, -), 2 => forms!($a, $b, $form, *), _ => forms!($a, $b, $form, /) }
    };
}

fn mat_out(m: &Matrix) -> Vec<f64> {
    let mut v = vec![m.nrows as f64, m.ncols as f64];
    v.extend_from_slice(&m.data);
    v
}

/// a matrix operand: positive shapes through `Matrix::new`, the 0x0 sentinel through `Matrix::empty()`
fn mk(d: &[f64], r: usize, c: usize) -> Matrix {
    if r == 0 && c == 0 && d.is_empty() { Matrix::empty() }
    // degenerate 0 x c / r x 0 over no data (what reshape_mut(-1, c) / (r, -1) makes of the empty matrix): through the public fields
    else if d.is_empty() && (r == 0 || c == 0) { Matrix { data: Vector::new(vec![]), nrows: r, ncols: c } }
    else { Matrix::new(d.to_vec(), r as i32, c as i32) }
}

/// run one of the 48 impls of the implementation; a Vector operand is given by its data (shape 1 x len)
fn run(op: usize, kind: usize, form: usize, s1: (usize, usize), a: &[f64], s2: (usize, usize), b: &[f64]) -> Result<Vec<f64>, String> {
    catch(|| {
        let m = match kind {
            0 => { let x = mk(a, s1.0, s1.1); let y = mk(b, s2.0, s2.1); ops!(x, y, form, op) }
            1 => { let x = mk(a, s1.0, s1.1); let y = Vector::new(b.to_vec()); ops!(x, y, form, op) }
            _ => { let x = Vector::new(a.to_vec()); let y = mk(b, s2.0, s2.1); ops!(x, y, form, op) }
        };
        mat_out(&m)
    })
}

/// the NumPy rule: shape = element-wise max, entry = left[i or 0][j or 0] o right[i or 0][j or 0];
/// a dimension that differs with neither side 1 is incompatible
fn numpy(op: usize, s1: (usize, usize), a: &[f64], s2: (usize, usize), b: &[f64]) -> Option<(usize, usize, Vec<f64>)> {
    let dim = |x: usize, y: usize| if x == y || y == 1 { Some(x) } else if x == 1 { Some(y) } else { None };
    let (r, c) = (dim(s1.0, s2.0)?, dim(s1.1, s2.1)?);
    let at = |d: &[f64], s: (usize, usize), i: usize, j: usize| d[(if s.0 == 1 { 0 } else { i }) * s.1 + if s.1 == 1 { 0 } else { j }];
    let mut out = Vec::with_capacity(r * c);
    for i in 0..r { for j in 0..c { out.push(apply(op, at(a, s1, i, j), at(b, s2, i, j))); } }
    Some((r, c, out))
}

fn shape_kind(s: (usize, usize)) -> &'static str {
    match (s.0 == 1, s.1 == 1) { (true, true) => "scalar", (true, false) => "row", (false, true) => "col", _ => "full" }
}
/// which of the shape classes the pair is in (from the shapes alone, not from the implementation)
fn leaf(s1: (usize, usize), s2: (usize, usize)) -> String {
    let ok = |x: usize, y: usize| x == y || x == 1 || y == 1;
    if s1.0 * s1.1 == 0 || s2.0 * s2.1 == 0 { "empty-operand".into() }
    else if s1 == s2 { "equal".into() }
    else if ok(s1.0, s2.0) && ok(s1.1, s2.1) { format!("{}-{}", shape_kind(s1), shape_kind(s2)) }
    else { "incompatible".into() }
}

/// distinct-valued entries: a permutation of 1..=n, scaled and shifted (no two equal, none zero),
/// so that a transposed, swapped or mis-indexed operand changes the result
fn distinct(r: &mut Rng, n: usize, scale: f64, shift: f64) -> Vec<f64> {
    let mut p: Vec<usize> = (1..=n).collect();
    for i in (1..n).rev() { let j = r.below(i as u64 + 1) as usize; p.swap(i, j); }
    p.into_iter().map(|k| scale * k as f64 + shift).collect()
}
const SPECIALS: [f64; 10] = [0.0, -0.0, f64::INFINITY, f64::NEG_INFINITY, f64::NAN, 5e-324, -2.2250738585072014e-308, 1.7976931348623157e308, 1.0, -3.5];
fn with_specials(r: &mut Rng, n: usize) -> Vec<f64> {
    (0..n).map(|_| if r.coin(0.5) { *r.pick(&SPECIALS) } else { r.uniform(-8.0, 8.0) }).collect()
}

fn push(cs: &mut Cases, stream: &str, op: usize, kind: usize, form: usize, s1: (usize, usize), a: &[f64], s2: (usize, usize), b: &[f64]) {
    let res = run(op, kind, form, s1, a, s2, b);
    let lf = leaf(s1, s2);
    let nontrivial = s1 != s2 && lf != "incompatible" && lf != "empty-operand" && res.is_ok();
    cs.push(app("CBc", vec![Tm::Nat(op as u64), Tm::Nat(kind as u64), Tm::Nat(form as u64),
                            Tm::Nat(s1.0 as u64), Tm::Nat(s1.1 as u64), fl(a), Tm::Nat(s2.0 as u64), Tm::Nat(s2.1 as u64), fl(b), outcome_list(&res)]),
            &format!("{}/{}/{}/{}", stream, KINDS[kind], lf, if res.is_ok() { "value" } else { "panic" }), nontrivial);
}

/// shapes of a random pair for the "larger shapes" stream: mostly compatible, every class reached
fn random_pair(r: &mut Rng, maxd: u64) -> ((usize, usize), (usize, usize)) {
    let d = |r: &mut Rng| 2 + r.below(maxd - 1) as usize;
    let (p, q, p2, q2) = (d(r), d(r), d(r), d(r));
    match r.below(12) {
        0 => ((p, q), (p, q)), 1 => ((1, q), (p, q)), 2 => ((p, 1), (p, q)), 3 => ((p, q), (1, q)), 4 => ((p, q), (p, 1)),
        5 => ((p, 1), (1, q)), 6 => ((1, q), (p, 1)), 7 => ((1, 1), (p, q)), 8 => ((p, q), (1, 1)),
        9 => ((1, q), (1, 1)), 10 => ((p, 1), (p2, 1)), _ => ((p, q), (p2, q2)),
    }
}

/// every shape class of the NumPy rule on the dimensions p, q > 1, with p2 != p, q2 != q (both > 1) for the near misses:
/// the 15 compatible classes (equal full / row / column; a row, a column or a scalar against a full matrix, either side; column
/// against row, either side; a scalar against a row or a column, either side) and 10 incompatible pairs that ALMOST broadcast
/// (one dimension agrees or is 1, the other differs with neither side 1; the transposed shape).  `random_pair` draws 12 of them.
fn class_pairs(p: usize, q: usize, p2: usize, q2: usize) -> Vec<((usize, usize), (usize, usize))> {
    assert!(p > 1 && q > 1 && p2 > 1 && q2 > 1 && p2 != p && q2 != q);
    let mut v = vec![
        ((p, q), (p, q)), ((1, q), (1, q)), ((p, 1), (p, 1)),
        ((1, q), (p, q)), ((p, 1), (p, q)), ((p, q), (1, q)), ((p, q), (p, 1)),
        ((p, 1), (1, q)), ((1, q), (p, 1)),
        ((1, 1), (p, q)), ((p, q), (1, 1)), ((1, 1), (1, q)), ((1, q), (1, 1)), ((1, 1), (p, 1)), ((p, 1), (1, 1)),
        // incompatible: exactly one dimension differs, neither side 1 there
        ((p, q), (p, q2)), ((p, q), (p2, q)),
        ((1, q), (p, q2)), ((p, q2), (1, q)), ((p, 1), (p2, q)), ((p2, q), (p, 1)),
        ((1, q), (1, q2)), ((p, 1), (p2, 1)),
        ((p, q), (p2, q2)),
    ];
    if p != q { v.push(((p, q), (q, p))); }   // the transposed shape: same element count, incompatible
    v
}
/// the class pairs one operand kind can express (a Vector operand is a single row)
fn class_pairs_of_kind(kind: usize, p: usize, q: usize, p2: usize, q2: usize) -> Vec<((usize, usize), (usize, usize))> {
    class_pairs(p, q, p2, q2).into_iter().filter(|(s1, s2)| match kind { 0 => true, 1 => s2.0 == 1, _ => s1.0 == 1 }).collect()
}
/// neighbours for the near misses: off by one (alternating sides), kept inside 2..=max(40, the dimension)
fn near(d: usize, up: bool) -> usize { if (up && d != 40) || d <= 2 { d + 1 } else { d - 1 } }
/// dimensions above the exhaustive range, every value 7..=40 once as a row count and once as a column count, then the
/// corners of the stated range (40x40 = the stated maximum, 40 against the smallest non-unit extent, squares)
fn boundary_dims() -> Vec<(usize, usize)> {
    let mut v: Vec<(usize, usize)> = (7..=40usize).map(|d| (d, 47 - d)).collect();
    v.extend_from_slice(&[(40, 40), (40, 39), (39, 40), (40, 2), (2, 40), (39, 39), (33, 33), (32, 32), (17, 17), (16, 16), (9, 9), (8, 8), (7, 7)]);
    v
}

struct Job { stream: &'static str, op: usize, kind: usize, form: usize, s1: (usize, usize), a: Vec<f64>, s2: (usize, usize), b: Vec<f64> }
fn job(v: &mut Vec<Job>, stream: &'static str, op: usize, kind: usize, form: usize, s1: (usize, usize), a: &[f64], s2: (usize, usize), b: &[f64]) {
    v.push(Job { stream, op, kind, form, s1, a: a.to_vec(), s2, b: b.to_vec() });
}

pub fn gen(tier: &str, seed: u64, outdir: &str) {
    let mut r = Rng::new(seed);
    let mut cs = Cases::new("C12");
    // cases are collected first and the (large) random-shape cases are spread evenly over the shards
    let mut small: Vec<Job> = vec![]; let mut big: Vec<Job> = vec![];
    let thorough = tier == "thorough";
    // 1. Matrix o Matrix: all 1296 shape pairs (rows, cols in 1..=6) x 4 operators; quick: one ownership form per
    //    case (rotating, so each form sees every class), thorough: all four
    let mut rot = 0usize;
    for r1 in 1..=6usize { for c1 in 1..=6usize { for r2 in 1..=6usize { for c2 in 1..=6usize {
        let a = distinct(&mut r, r1 * c1, 2.0, 1.0);        // odd integers 3,5,7,...
        let b = distinct(&mut r, r2 * c2, 0.5, 100.0);      // 100.5, 101, 101.5, ...
        for op in 0..4 {
            if thorough { for form in 0..4 { job(&mut small, "exhaustive", op, 0, form, (r1, c1), &a, (r2, c2), &b); } }
            else { job(&mut small, "exhaustive", op, 0, rot % 4, (r1, c1), &a, (r2, c2), &b); rot += 1; }
        }
        rot += 1; // 5 steps per pair: an operator is not tied to one ownership form (all 16 impls of the kind meet every class)
    }}}}
    // 2. Matrix o Vector and Vector o Matrix: vector length 1..=6 x all 36 matrix shapes x 4 operators
    for n in 1..=6usize { for rm in 1..=6usize { for cm in 1..=6usize {
        let v = distinct(&mut r, n, 2.0, 1.0);
        let m = distinct(&mut r, rm * cm, 0.5, 100.0);
        for op in 0..4 {
            for kind in 1..=2usize {
                let (s1, a, s2, b) = if kind == 1 { ((rm, cm), &m, (1, n), &v) } else { ((1, n), &v, (rm, cm), &m) };
                if thorough { for form in 0..4 { job(&mut small, "exhaustive", op, kind, form, s1, a, s2, b); } }
                else { job(&mut small, "exhaustive", op, kind, rot % 4, s1, a, s2, b); rot += 1; }
            }
        }
        rot += 1; // 9 steps per triple, for the same reason
    }}}
    // 3. random larger shapes up to 40x40 (real entries; a quarter with special values: signed zeros, inf, NaN, subnormals)
    let nbig = if thorough { 1500 } else { 40 };
    for it in 0..nbig {
        let (mut s1, mut s2) = random_pair(&mut r, 40);
        let kind = (it % 3) as usize;
        if kind == 1 { s2 = (1, s2.1); } else if kind == 2 { s1 = (1, s1.1); }
        let (a, b) = if it % 4 == 3 { (with_specials(&mut r, s1.0 * s1.1), with_specials(&mut r, s2.0 * s2.1)) }
                     else { (distinct(&mut r, s1.0 * s1.1, 0.37, -3.0), distinct(&mut r, s2.0 * s2.1, -1.3, 0.7)) };
        job(&mut big, "random", (it / 3 % 4) as usize, kind, r.below(4) as usize, s1, &a, s2, &b);
    }
    // 3b. special values on small shapes, every operator
    let nspec = if thorough { 4000 } else { 200 };
    for it in 0..nspec {
        let (mut s1, mut s2) = random_pair(&mut r, 4);
        let kind = (it % 3) as usize;
        if kind == 1 { s2 = (1, s2.1); } else if kind == 2 { s1 = (1, s1.1); }
        let (a, b) = (with_specials(&mut r, s1.0 * s1.1), with_specials(&mut r, s2.0 * s2.1));
        job(&mut small, "special-values", (it / 3 % 4) as usize, kind, r.below(4) as usize, s1, &a, s2, &b);
    }
    // 3c. boundary of the stated range: every shape class (the 15 compatible ones, the near-miss incompatible ones) x every operand
    //     kind that can express it, on 40x40 (the stated maximum) and one mid-range pair (quick) / on every dimension 7..=40 and the
    //     corners (thorough); operator and ownership form rotate through all 16 combinations; every third case has special values
    let bdims: Vec<(usize, usize)> = if thorough { boundary_dims() } else { vec![(40, 40), (13, 34)] };
    let mut k = 0usize;
    for (p, q) in bdims {
        let (p2, q2) = (near(p, p % 2 == 0), near(q, p % 2 == 1));
        for kind in 0..3usize { for (s1, s2) in class_pairs_of_kind(kind, p, q, p2, q2) {
            let reps = if thorough && (p, q) == (40, 40) { 4 } else { 1 };
            for _ in 0..reps {
                let (a, b) = if k % 3 == 2 { (with_specials(&mut r, s1.0 * s1.1), with_specials(&mut r, s2.0 * s2.1)) }
                             else { (distinct(&mut r, s1.0 * s1.1, 0.37, -3.0), distinct(&mut r, s2.0 * s2.1, -1.3, 0.7)) };
                job(&mut big, "boundary", k % 4, kind, (k / 4) % 4, s1, &a, s2, &b);
                k += 1;
            }
        }}
    }
    // 4. malformed stream: the empty Vector (its promotion to a 1x0 matrix panics) and the 0x0 `Matrix::empty()`
    for op in 0..4 { for form in 0..4 {
        for (rm, cm) in [(1usize, 1usize), (1, 3), (3, 1), (2, 3)] {
            let m = distinct(&mut r, rm * cm, 1.0, 0.0);
            job(&mut small, "malformed", op, 1, form, (rm, cm), &m, (1, 0), &[]);
            job(&mut small, "malformed", op, 2, form, (1, 0), &[], (rm, cm), &m);
            job(&mut small, "malformed", op, 0, form, (rm, cm), &m, (0, 0), &[]);
            job(&mut small, "malformed", op, 0, form, (0, 0), &[], (rm, cm), &m);
        }
        job(&mut small, "malformed", op, 0, form, (0, 0), &[], (0, 0), &[]);
        job(&mut small, "malformed", op, 1, form, (0, 0), &[], (1, 0), &[]);
        job(&mut small, "malformed", op, 2, form, (1, 0), &[], (0, 0), &[]);
    }}
    // degenerate operands without elements (0 x c, r x 0), against each other, the empty matrix and small shapes: the outer-product
    // arms call Matrix::zeros(0, 0) (accepted since the repair) or zeros(0, c) / zeros(r, 0) (refused)
    for op in 0..4 {
        let form = op; // rotate the ownership forms
        for s1 in [(0usize, 1usize), (1, 0), (0, 3), (3, 0)] { for s2 in [(0usize, 1usize), (1, 0), (0, 0), (1, 1), (1, 3), (3, 1), (0, 3), (3, 0)] {
            let b = distinct(&mut r, s2.0 * s2.1, 1.0, 0.0);
            job(&mut small, "malformed-degenerate", op, 0, form, s1, &[], s2, &b);
            job(&mut small, "malformed-degenerate", op, 0, form, s2, &b, s1, &[]);
        }}
    }
    let step = (small.len() / big.len().max(1)).max(1);
    let mut bigs = big.into_iter();
    for (k, j) in small.into_iter().enumerate() {
        push(&mut cs, j.stream, j.op, j.kind, j.form, j.s1, &j.a, j.s2, &j.b);
        if k % step == 0 { if let Some(j) = bigs.next() { push(&mut cs, j.stream, j.op, j.kind, j.form, j.s1, &j.a, j.s2, &j.b); } }
    }
    for j in bigs { push(&mut cs, j.stream, j.op, j.kind, j.form, j.s1, &j.a, j.s2, &j.b); }
    cs.write(outdir, 700,
             "all 1296 shape pairs (rows, cols in 1..=6) x {+,-,*,/} for Matrix o Matrix, and vector length 1..=6 x all 36 matrix shapes x 4 operators for Matrix o Vector and Vector o Matrix, with distinct-valued entries (quick: one ownership form per case, rotating over the four; thorough: all four forms = all 48 impls on every pair); random larger shapes up to 40x40; every shape class (compatible and near-miss incompatible) x operand kind on 40x40 and 13x34 (thorough: on every dimension 7..=40 and the corners of the range); special values (signed zeros, inf, NaN, subnormals); a malformed stream (empty Vector, 0x0 Matrix::empty()); non-trivial = a pair that broadcasts: shapes differ, compatible, a value is returned; distinct by hash of the case term");
}

// ---------------------------------------------------------------------------------------------
// failure-search oracle: the property's statement (the NumPy rule) against the implementation only
fn same(x: f64, y: f64) -> bool { x.to_bits() == y.to_bits() || (x.is_nan() && y.is_nan()) }

fn judge(out: &mut Vec<Finding>, op: usize, kind: usize, form: usize, s1: (usize, usize), a: &[f64], s2: (usize, usize), b: &[f64]) {
    let input = format!("op={} kind={} form={} left_shape={}x{} left={} right_shape={}x{} right={}", OPS[op], KINDS[kind], form, s1.0, s1.1, json_floats(a), s2.0, s2.1, json_floats(b));
    crumb(&input);
    let got = run(op, kind, form, s1, a, s2, b);
    let want = numpy(op, s1, a, s2, b);
    let lf = leaf(s1, s2);
    let key = |what: &str| format!("{}:{}:{}:{}", what, KINDS[kind], OPS[op], lf);
    match (&want, &got) {
        (None, Ok(v)) => out.push(Finding { class: key("incompatible-accepted"), what: format!("shapes {:?} and {:?} are incompatible (a dimension differs and neither side is 1) but a {}x{} value was returned; must panic", s1, s2, v[0], v[1]), input }),
        (Some(_), Err(e)) => out.push(Finding { class: key("compatible-panics"), what: format!("shapes {:?} and {:?} are compatible but the operation panicked: {}", s1, s2, e), input }),
        (Some((r, c, w)), Ok(v)) => {
            if v[0] != *r as f64 || v[1] != *c as f64 || v.len() != 2 + r * c {
                out.push(Finding { class: key("wrong-shape"), what: format!("result shape {}x{} ({} entries), NumPy rule gives {}x{}", v[0], v[1], v.len() - 2, r, c), input });
            } else if let Some(k) = (0..w.len()).find(|&k| !same(v[2 + k], w[k])) {
                out.push(Finding { class: key("wrong-entry"), what: format!("entry ({},{}) is {:e}, the rule left[i or 0][j or 0] {} right[i or 0][j or 0] gives {:e}", k / c, k % c, v[2 + k], OPS[op], w[k]), input });
            }
        }
        (None, Err(_)) => {}
    }
}

pub fn oracle(tier: &str, seed: u64) -> (u64, Vec<Finding>) {
    let mut r = Rng::new(seed ^ 0xC12);
    let mut out = vec![]; let mut tried = 0u64;
    // exhaustive part (cheap on the implementation, so the same in both tiers): all 1296 pairs x 4 ops x 4 forms,
    // all vector lengths x matrix shapes x 4 ops x 2 kinds x 4 forms
    for r1 in 1..=6usize { for c1 in 1..=6usize { for r2 in 1..=6usize { for c2 in 1..=6usize {
        let a = distinct(&mut r, r1 * c1, 2.0, 1.0); let b = distinct(&mut r, r2 * c2, 0.5, 100.0);
        for op in 0..4 { for form in 0..4 { judge(&mut out, op, 0, form, (r1, c1), &a, (r2, c2), &b); tried += 1; } }
    }}}}
    for n in 1..=6usize { for rm in 1..=6usize { for cm in 1..=6usize {
        let v = distinct(&mut r, n, 2.0, 1.0); let m = distinct(&mut r, rm * cm, 0.5, 100.0);
        for op in 0..4 { for form in 0..4 {
            judge(&mut out, op, 1, form, (rm, cm), &m, (1, n), &v);
            judge(&mut out, op, 2, form, (1, n), &v, (rm, cm), &m);
            tried += 2;
        }}
    }}}
    // the empty 0x0 Matrix (`Matrix::empty()`), Matrix o Matrix only: the same rule with extent 0 -- compatible with 0x0 and
    // with 1x1 (the result is 0x0), incompatible with every other shape (an empty Vector operand, promoted to 1x0, is
    // not judged: the crate has no r x 0 matrices and refuses the promotion).  Silent since `Matrix::new` accepts 0x0 on
    // empty data (the repaired C04 finding empty-matrix:value-form-panics); on the original code 0x0 o 0x0 and 0x0 o 1x1 panicked.
    for (rm, cm) in [(0usize, 0usize), (1, 1), (1, 3), (3, 1), (2, 3), (1, 2), (2, 1)] {
        let m = distinct(&mut r, rm * cm, 0.5, 100.0);
        for op in 0..4 { for form in 0..4 {
            judge(&mut out, op, 0, form, (0, 0), &[], (rm, cm), &m);
            judge(&mut out, op, 0, form, (rm, cm), &m, (0, 0), &[]);
            tried += 2;
        }}
    }
    // random larger shapes up to 40x40, all three operand kinds, with and without special values
    let iters = if tier == "thorough" { 40000 } else { 4000 };
    for it in 0..iters {
        let (mut s1, mut s2) = random_pair(&mut r, if it % 5 == 0 { 40 } else { 9 });
        let kind = r.below(3) as usize;
        if kind == 1 { s2 = (1, s2.1); } else if kind == 2 { s1 = (1, s1.1); }
        let (a, b) = if it % 4 == 3 { (with_specials(&mut r, s1.0 * s1.1), with_specials(&mut r, s2.0 * s2.1)) }
                     else { (distinct(&mut r, s1.0 * s1.1, 0.37, -3.0), distinct(&mut r, s2.0 * s2.1, -1.3, 0.7)) };
        judge(&mut out, r.below(4) as usize, kind, r.below(4) as usize, s1, &a, s2, &b);
        tried += 1;
        if out.len() > 40 { break; }
    }
    // ---- added by the coverage audit (own generator: every evaluation above is unchanged) ----
    let mut r = Rng::new(seed ^ 0xC12_B0);
    // boundary sweep: every dimension 7..=40 (as a row count and as a column count), the corners of the stated range (40x40, 40 against 2,
    // 39/40 off-by-one, squares) x every shape class of `class_pairs` (15 compatible, 10 near-miss incompatible; `random_pair` never draws
    // scalar-row, scalar-col, col-scalar for Matrix o Matrix, nor a near miss with one side a row / column) x every operand kind that can
    // express the class x 4 operators x 4 ownership forms with distinct entries, and once more with special values (ownership form rotating)
    let mut rot = 0usize;
    for (p, q) in boundary_dims() {
        let (p2, q2) = (near(p, p % 2 == 0), near(q, p % 2 == 1));
        for kind in 0..3usize { for (s1, s2) in class_pairs_of_kind(kind, p, q, p2, q2) {
            let a = distinct(&mut r, s1.0 * s1.1, 0.37, -3.0); let b = distinct(&mut r, s2.0 * s2.1, -1.3, 0.7);
            for op in 0..4 { for form in 0..4 { judge(&mut out, op, kind, form, s1, &a, s2, &b); tried += 1; } }
            let (a, b) = (with_specials(&mut r, s1.0 * s1.1), with_specials(&mut r, s2.0 * s2.1));
            for op in 0..4 { judge(&mut out, op, kind, (op + rot) % 4, s1, &a, s2, &b); tried += 1; }
            rot += 1;
            if out.len() > 40 { return (tried, out); }
        }}
    }
    // beyond the sampled range (the statement is about every shape; the theorems cover them, these are a few direct evaluations)
    for (p, q) in [(41usize, 43usize), (64, 64), (65, 63), (100, 3), (3, 100), (257, 2)] {
        let (p2, q2) = (near(p, true), near(q, false));
        for kind in 0..3usize { for (s1, s2) in class_pairs_of_kind(kind, p, q, p2, q2) {
            let a = distinct(&mut r, s1.0 * s1.1, 0.37, -3.0); let b = distinct(&mut r, s2.0 * s2.1, -1.3, 0.7);
            for op in 0..4 { judge(&mut out, op, kind, (op + rot) % 4, s1, &a, s2, &b); tried += 1; }
            rot += 1;
        }}
    }
    // random shapes, all 25 classes drawn uniformly (dimensions 2..=40 half of the time, 2..=9 otherwise), special values half of the time
    for it in 0..iters {
        let maxd = if it % 2 == 0 { 40 } else { 9 };
        let d = |r: &mut Rng| 2 + r.below(maxd - 1) as usize;
        let (p, q) = (d(&mut r), d(&mut r));
        let (mut p2, mut q2) = (d(&mut r), d(&mut r));
        if p2 == p { p2 = near(p, it % 4 < 2); } if q2 == q { q2 = near(q, it % 4 >= 2); }
        let kind = r.below(3) as usize;
        let cp = class_pairs_of_kind(kind, p, q, p2, q2);
        let (s1, s2) = cp[r.below(cp.len() as u64) as usize];
        let (a, b) = if it % 4 >= 2 { (with_specials(&mut r, s1.0 * s1.1), with_specials(&mut r, s2.0 * s2.1)) }
                     else { (distinct(&mut r, s1.0 * s1.1, 0.37, -3.0), distinct(&mut r, s2.0 * s2.1, -1.3, 0.7)) };
        judge(&mut out, r.below(4) as usize, kind, r.below(4) as usize, s1, &a, s2, &b);
        tried += 1;
        if out.len() > 40 { break; }
    }
    (tried, out)
}
