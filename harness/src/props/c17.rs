//! C17 — statistical transforms (logistic, logit, boxcox, boxcox_shifted, softmax) and binom_coeff.
use crate::libm;
use crate::util::*;
use compute::functions::{binom_coeff, binom_coeff_alt, boxcox, boxcox_shifted, logistic, logit, softmax};
use std::collections::BTreeMap;

const EPS: f64 = f64::EPSILON; // 2^-52

// ------------------------------------------------------------------------------------------------
// independent references
// ------------------------------------------------------------------------------------------------

/// Pascal triangle in u128 up to row `nmax` (nmax <= 130 keeps every entry below 2^128)
fn pascal(nmax: usize) -> Vec<Vec<u128>> {
    let mut t: Vec<Vec<u128>> = vec![vec![1]];
    for n in 1..=nmax {
        let p = &t[n - 1];
        let mut row = vec![1u128; n + 1];
        for k in 1..n { row[k] = p[k - 1].saturating_add(p[k]); }
        t.push(row);
    }
    t
}

/// exact C(n,k) for k <= n by the multiplicative recurrence in u128, `None` as soon as a value reaches 2^64
/// (C(n,i-1) < 2^64 and n < 2^64, so the product fits in u128; the division is exact)
fn binom_u128(n: u64, k: u64) -> Option<u64> {
    let nk = k.min(n - k);
    let mut c: u128 = 1;
    for i in 1..=nk {
        c = c * (n - i + 1) as u128 / i as u128;
        if c > u64::MAX as u128 { return None; } // C(n,i) grows up to the middle: true overflow of C(n,k)
    }
    Some(c as u64)
}

/// (y^l - 1)/l for y > 0 (ln y at l = 0), evaluated without cancellation:
/// ln y * sum_k u^k/(k+1)!  with u = l ln y when |u| is small, the direct formula otherwise
fn boxcox_ref(y: f64, l: f64) -> f64 {
    let ln = y.ln();
    if l == 0.0 { return ln; }
    let u = l * ln;
    if u.abs() < 0.25 {
        let (mut term, mut s) = (1.0f64, 1.0f64);
        for k in 1..40 { term *= u / (k as f64 + 1.0); s += term; }
        ln * s
    } else {
        (y.powf(l) - 1.0) / l
    }
}

/// breadcrumbs (util::crumb) cost a formatted string and a pwrite: build them only when the driver asked for them
fn crumbs_on() -> bool {
    static ON: std::sync::OnceLock<bool> = std::sync::OnceLock::new();
    *ON.get_or_init(|| std::env::var("HARNESS_CRUMB").is_ok())
}
macro_rules! crumbf { ($($a:tt)*) => { if crumbs_on() { crumb(&format!($($a)*)); } } }

struct Found { worst: BTreeMap<String, (f64, String, String)> }
impl Found {
    fn new() -> Self { Found { worst: BTreeMap::new() } }
    fn fail(&mut self, class: &str, sev: f64, what: String, input: String) {
        let e = self.worst.entry(class.to_string()).or_insert((-1.0, String::new(), String::new()));
        if sev > e.0 { *e = (sev, what, input); }
    }
    fn done(self) -> Vec<Finding> { self.worst.into_iter().map(|(class, (_, what, input))| Finding { class, what, input }).collect() }
}

/// every `stride`-th non-negative f32 in [lo, hi] (bit patterns in increasing order)
fn f32_up(lo: f32, hi: f32, stride: u32, mut f: impl FnMut(f64)) {
    let (mut i, e) = (lo.to_bits(), hi.to_bits());
    while i <= e { f(f32::from_bits(i) as f64); match i.checked_add(stride.max(1)) { Some(j) => i = j, None => break } }
}

fn vec_s(v: &[f64]) -> String { format!("[{}]", v.iter().map(|x| format!("{:e}", x)).collect::<Vec<_>>().join(", ")) }

/// (audit) the clauses of the property that need no second evaluation, on one finite vector: length, finiteness, sign,
/// sum (same (n + 8) eps allowance as the main sweep), and order / ties along the WHOLE sorted order (consecutive pairs)
fn softmax_clauses(x: &[f64], fd: &mut Found) {
    let n = x.len();
    let inp = format!("x={}", vec_s(x));
    if crumbs_on() { crumb(&inp); }
    let s = softmax(x);
    if s.len() != n { fd.fail("softmax:length", 1.0, format!("output length {} for input length {}", s.len(), n), inp); return; }
    if let Some(bad) = s.iter().find(|v| !v.is_finite()) {
        fd.fail("softmax:nonfinite-for-finite-input", 1.0 / n as f64, format!("softmax of a finite vector of length {} (max |x| = {:e}) contains {:e}", n, x.iter().fold(0.0f64, |a, b| a.max(b.abs())), bad), inp);
        return;
    }
    if s.iter().any(|v| !(*v >= 0.0)) { fd.fail("softmax:negative", 1.0, "softmax returned a negative component".into(), inp.clone()); }
    let sum: f64 = { let mut hi = 0.0f64; let mut lo = 0.0f64; for v in &s { let t = hi + v; lo += if hi.abs() >= v.abs() { (hi - t) + v } else { (v - t) + hi }; hi = t; } hi + lo };
    let tol = (n as f64 + 8.0) * EPS;
    if !((sum - 1.0).abs() <= tol) { fd.fail("softmax:sum-not-one", (sum - 1.0).abs() / tol, format!("components sum to {:e} (|sum - 1| > {:e}), n = {}", sum, tol, n), inp.clone()); }
    let mut idx: Vec<usize> = (0..n).collect();
    idx.sort_by(|a, b| x[*a].partial_cmp(&x[*b]).unwrap());
    for w in idx.windows(2) { let (i, j) = (w[0], w[1]);
        if !(s[i] <= s[j]) || (x[i] == x[j] && s[i] != s[j]) {
            fd.fail("softmax:order-not-preserved", 1.0, format!("x[{}] = {:e} <= x[{}] = {:e} but softmax gives {:e} > {:e}", i, x[i], j, x[j], s[i], s[j]), inp.clone()); break; } }
}

// ------------------------------------------------------------------------------------------------
// failure-search oracle: the property statement on the implementation
// ------------------------------------------------------------------------------------------------
pub fn oracle(tier: &str, seed: u64) -> (u64, Vec<Finding>) {
    let thorough = tier == "thorough";
    let mut r = Rng::new(seed ^ 0xC17);
    let mut fd = Found::new();
    let mut tried = 0u64;

    // ---- libm hypotheses of the binary64 theorems (C17_*_binary64), checked on the live glibc ----------------------
    // These are NOT properties of the crate: the theorems about the binary64 softmax / logistic / logit / boxcox carry them
    // as named hypotheses on the recorded table (exp_tbl_unit_range, exp_tbl_one_at_zero, exp_tbl_monotone, exp_tbl_nonneg,
    // ln_tbl_monotone, ln_tbl_zero_at_one).  A failure is reported under a class "libm:...", which
    // known_findings.txt lists as a note about the platform's libm (KNOWN-FINDING line + evidence, exit 0), never as a VIOLATION.
    {
        let stride = if thorough { 1 } else { 1 << 7 };
        // exp on the arguments softmax / logistic can pass: every (stride-th) f32 a in [0, 746], at -a and at +a
        let (mut prev_n, mut prev_p, mut prev_a) = ((-0.0f64).exp(), (0.0f64).exp(), 0.0f64);
        f32_up(0.0, 746.0, stride, |a| {
            tried += 1;
            let (n, p) = ((-a).exp(), a.exp());
            if !(n.is_finite() && (0.0..=1.0).contains(&n)) { fd.fail("libm:exp-out-of-unit-range", 1.0, format!("glibc exp({:e}) = {:e} is not a finite double in [0,1] although the argument is <= 0 (hypothesis exp_tbl_unit_range)", -a, n), format!("a={:e}", -a)); }
            if !(p >= 0.0) { fd.fail("libm:exp-negative-or-nan", 1.0, format!("glibc exp({:e}) = {:e} is NaN or negative (hypothesis exp_tbl_nonneg)", a, p), format!("a={:e}", a)); }
            if !(n <= prev_n) { fd.fail("libm:exp-not-monotone", prev_n - n, format!("glibc exp({:e}) = {:e} > exp({:e}) = {:e} (hypothesis exp_tbl_monotone)", -a, n, -prev_a, prev_n), format!("a={:e} b={:e}", -a, -prev_a)); }
            if !(p >= prev_p) { fd.fail("libm:exp-not-monotone", prev_p - p, format!("glibc exp({:e}) = {:e} > exp({:e}) = {:e} (hypothesis exp_tbl_monotone)", prev_a, prev_p, a, p), format!("a={:e} b={:e}", prev_a, a)); }
            prev_n = n; prev_p = p; prev_a = a;
        });
        // neighbouring doubles (monotonicity at ulp scale), both signs
        for c in [1e-3, 0.5, 1.0, 5.0, 20.0, 36.0, 37.0, 100.0, 700.0, 709.0, 744.0] {
            let mut a: f64 = c;
            let (mut pn, mut pp, mut pa) = ((-a).exp(), a.exp(), a);
            for _ in 0..(if thorough { 20000 } else { 2000 }) {
                a = f64::from_bits(a.to_bits() + 1);
                tried += 1;
                let (n, p) = ((-a).exp(), a.exp());
                if !(n <= pn) { fd.fail("libm:exp-not-monotone", pn - n, format!("glibc exp({:e}) = {:e} > exp({:e}) = {:e} (adjacent doubles)", -a, n, -pa, pn), format!("a={:e} b={:e}", -a, -pa)); }
                if !(p >= pp) { fd.fail("libm:exp-not-monotone", pp - p, format!("glibc exp({:e}) = {:e} > exp({:e}) = {:e} (adjacent doubles)", pa, pp, a, p), format!("a={:e} b={:e}", pa, a)); }
                if !(n.is_finite() && (0.0..=1.0).contains(&n)) { fd.fail("libm:exp-out-of-unit-range", 1.0, format!("glibc exp({:e}) = {:e} is not a finite double in [0,1]", -a, n), format!("a={:e}", -a)); }
                pn = n; pp = p; pa = a;
            }
        }
        tried += 4;
        if (0.0f64).exp() != 1.0 || (-0.0f64).exp() != 1.0 { fd.fail("libm:exp0-not-one", 1.0, format!("glibc exp(0) = {:e}, exp(-0) = {:e}, expected 1 (hypothesis exp_tbl_one_at_zero)", (0.0f64).exp(), (-0.0f64).exp()), "a=0".into()); }
        if f64::NEG_INFINITY.exp() != 0.0 { fd.fail("libm:exp-out-of-unit-range", 2.0, format!("glibc exp(-inf) = {:e}, expected 0", f64::NEG_INFINITY.exp()), "a=-inf".into()); }
        if !(f64::INFINITY.exp() >= 0.0) { fd.fail("libm:exp-negative-or-nan", 2.0, format!("glibc exp(+inf) = {:e}", f64::INFINITY.exp()), "a=inf".into()); }
        // ln on the odds p / (1 - p) logit can pass: non-decreasing on a grid of (0, f32::MAX], ln 1 = 0, ln +inf = +inf, ln 0 = -inf
        let (mut prev_l, mut prev_q) = ((0.0f64).ln(), 0.0f64);
        f32_up(0.0, f32::MAX, if thorough { 1 << 2 } else { 1 << 9 }, |q| {
            tried += 1;
            let l = q.ln();
            if !(l >= prev_l) { fd.fail("libm:ln-not-monotone", if l.is_nan() { 1e300 } else { prev_l - l }, format!("glibc ln({:e}) = {:e} > ln({:e}) = {:e} (hypothesis ln_tbl_monotone)", prev_q, prev_l, q, l), format!("a={:e} b={:e}", prev_q, q)); }
            prev_l = l; prev_q = q;
        });
        for c in [1e-300, 1e-3, 0.25, 0.5, 1.0 - 2000.0 * EPS, 1.0, 2.0, 1e3, 1e300] {
            let mut q: f64 = c;
            let (mut pl, mut pq) = (q.ln(), q);
            for _ in 0..(if thorough { 20000 } else { 2000 }) {
                q = f64::from_bits(q.to_bits() + 1);
                tried += 1;
                let l = q.ln();
                if !(l >= pl) { fd.fail("libm:ln-not-monotone", pl - l, format!("glibc ln({:e}) = {:e} > ln({:e}) = {:e} (adjacent doubles)", pq, pl, q, l), format!("a={:e} b={:e}", pq, q)); }
                pl = l; pq = q;
            }
        }
        if !(f64::INFINITY.ln() >= prev_l) { fd.fail("libm:ln-not-monotone", 1.0, format!("glibc ln(+inf) = {:e}", f64::INFINITY.ln()), "a=inf".into()); }
        if (1.0f64).ln() != 0.0 { fd.fail("libm:ln1-not-zero", 1.0, format!("glibc ln(1) = {:e}, expected 0 (hypothesis ln_tbl_zero_at_one)", (1.0f64).ln()), "a=1".into()); }
    }
    // ---- logistic: range [0,1], logistic(-x) = 1 - logistic(x), non-decreasing --------------------------------
    {
        let (mut prev_a, mut prev_b, mut prev_x) = (logistic(0.0), logistic(-0.0), 0.0f64);
        let mut chk = |x: f64, tried: &mut u64, fd: &mut Found| {
            *tried += 1;
            // dense sweep of a loop-free function: one breadcrumb per 1024 points
            if *tried & 0x3ff == 0 { crumbf!("logistic sweep at x={:e} (and -x)", x); }
            let (a, b) = (logistic(x), logistic(-x));
            if !(0.0..=1.0).contains(&a) { fd.fail("logistic:out-of-range", 1.0, format!("logistic({:e}) = {:e} outside [0,1]", x, a), format!("x={:e}", x)); }
            if !(0.0..=1.0).contains(&b) { fd.fail("logistic:out-of-range", 1.0, format!("logistic({:e}) = {:e} outside [0,1]", -x, b), format!("x={:e}", -x)); }
            let d = (a + b - 1.0).abs();
            if !(d <= 4.0 * EPS) { fd.fail("logistic:asymmetric", d, format!("logistic(x) + logistic(-x) - 1 = {:e} at x = {:e}", a + b - 1.0, x), format!("x={:e}", x)); }
            if x >= prev_x {
                if !(a >= prev_a) { fd.fail("logistic:not-monotone", prev_a - a, format!("logistic({:e}) = {:e} > logistic({:e}) = {:e}", prev_x, prev_a, x, a), format!("x1={:e} x2={:e}", prev_x, x)); }
                if !(b <= prev_b) { fd.fail("logistic:not-monotone", b - prev_b, format!("logistic({:e}) = {:e} < logistic({:e}) = {:e}", -prev_x, prev_b, -x, b), format!("x1={:e} x2={:e}", -x, -prev_x)); }
            }
            prev_a = a; prev_b = b; prev_x = x;
        };
        f32_up(0.0, 745.0, if thorough { 1 } else { 1 << 7 }, |x| chk(x, &mut tried, &mut fd));
        chk(0.0, &mut tried, &mut fd);
        let mut xs: Vec<f64> = (0..(if thorough { 200000 } else { 20000 })).map(|_| r.uniform(0.0, 745.0)).collect();
        xs.sort_by(|a, b| a.partial_cmp(b).unwrap());
        for x in xs { chk(x, &mut tried, &mut fd); }
        chk(0.0, &mut tried, &mut fd);
        // neighbouring doubles around a few points (monotonicity at ulp scale)
        for c in [1e-3, 0.5, 1.0, 5.0, 20.0, 36.0, 37.0, 100.0, 700.0, 709.0, 744.0] {
            let mut x: f64 = c;
            for _ in 0..(if thorough { 20000 } else { 2000 }) { chk(x, &mut tried, &mut fd); x = f64::from_bits(x.to_bits() + 1); }
            chk(0.0, &mut tried, &mut fd);
        }
        // (audit) ulp-scale runs straddling the points where the evaluation changes regime: the first subnormals above 0,
        // 1 + exp(-x) rounding to 1 (36.04, 36.74, 37.43), exp(x) overflowing for the mirrored argument (709.78),
        // exp(-x) reaching the subnormals / 0 (708.4, 745.13), and the end of the stated range
        for c in [5e-324, f64::MIN_POSITIVE, 36.04365338911715, 36.7368005696771, 37.42994775023705, 708.3964185322641, 709.782712893384, 745.0, 745.1332191019411] {
            let half = if thorough { 10000u64 } else { 1000 };
            let mut x: f64 = f64::from_bits((c as f64).to_bits().saturating_sub(half).max(1));
            chk(0.0, &mut tried, &mut fd);
            for _ in 0..2 * half { chk(x, &mut tried, &mut fd); x = f64::from_bits(x.to_bits() + 1); }
            chk(0.0, &mut tried, &mut fd);
        }
        // (audit) past the stated range the function is constant 0 / 1: range, symmetry and monotonicity must survive
        for x in [745.2, 746.0, 800.0, 1e3, 1e4, 1e10, 1e100, 1e300, f64::MAX] { chk(x, &mut tried, &mut fd); }
        chk(0.0, &mut tried, &mut fd);
        for (x, want) in [(f64::NEG_INFINITY, 0.0), (0.0, 0.5), (f64::INFINITY, 1.0)] {
            tried += 1;
            if logistic(x) != want { fd.fail("logistic:limit", 1.0, format!("logistic({:e}) = {:e}, expected {:e}", x, logistic(x), want), format!("x={:e}", x)); }
        }
    }
    // ---- logit: inverse of logistic on [0,1], rejection outside -----------------------------------------------
    {
        let mut chk = |p: f64, tried: &mut u64, fd: &mut Found| {
            *tried += 1;
            if *tried & 0xff == 0 { crumbf!("logit/logistic sweep at p={:e}", p); }
            match catch(|| logit(p)) {
                Err(_) => fd.fail("logit:rejects-valid", 1.0, format!("logit({:e}) panicked although 0 <= p <= 1", p), format!("p={:e}", p)),
                Ok(l) => {
                    let back = logistic(l);
                    // working precision of the composition: exp amplifies the rounding of l by |l|
                    let tol = 8.0 * EPS * (1.0 + l.abs().min(800.0)) * p + 1e-307;
                    let d = (back - p).abs();
                    if !(d <= tol) { fd.fail("logit:not-inverse", d / tol, format!("logistic(logit({:e})) = {:e} (logit = {:e}), off by {:e} > {:e}", p, back, l, d, tol), format!("p={:e}", p)); }
                }
            }
        };
        f32_up(0.0, 1.0, if thorough { 1 << 2 } else { 1 << 9 }, |p| chk(p, &mut tried, &mut fd));
        for _ in 0..(if thorough { 200000 } else { 20000 }) { let p = r.unit(); chk(p, &mut tried, &mut fd); chk(1.0 - p * 1e-9, &mut tried, &mut fd); chk(p * 1e-200, &mut tried, &mut fd); }
        for p in [0.0, -0.0, 1.0, 0.5, 5e-324, 1.0 - EPS / 2.0, f64::MIN_POSITIVE] { chk(p, &mut tried, &mut fd); }
        // (audit) the whole of [0,1] on a logarithmic scale from both ends and around 1/2 (the sweeps above are uniform,
        // f32 or at 1e-200 / 1e-9 only): p down to the smallest subnormal, 1 - p and |p - 1/2| down to one ulp
        for _ in 0..(if thorough { 200000 } else { 20000 }) {
            chk((r.uniform(-745.2, 0.0)).exp(), &mut tried, &mut fd);
            chk(1.0 - (r.uniform(-37.5, 0.0)).exp(), &mut tried, &mut fd);
            chk(0.5 + (r.uniform(-38.0, -0.7)).exp() * if r.coin(0.5) { 1.0 } else { -1.0 }, &mut tried, &mut fd);
        }
        // (audit) the first doubles above 0 (subnormals), the last below 1, the neighbours of 1/2, of the smallest normal
        for i in 0..(if thorough { 20000u64 } else { 2000 }) {
            chk(f64::from_bits(1 + i), &mut tried, &mut fd);
            chk(f64::from_bits((1.0f64).to_bits() - 1 - i), &mut tried, &mut fd);
            chk(f64::from_bits((0.5f64).to_bits() + i), &mut tried, &mut fd);
            chk(f64::from_bits((0.5f64).to_bits() - 1 - i), &mut tried, &mut fd);
            chk(f64::from_bits(f64::MIN_POSITIVE.to_bits() + i), &mut tried, &mut fd);
            chk(f64::from_bits(f64::MIN_POSITIVE.to_bits() - 1 - i), &mut tried, &mut fd);
        }
        for p in [-5e-324, -1e-300, -1.0, 1.0 + EPS, 2.0, 1e300, f64::INFINITY, f64::NEG_INFINITY, f64::NAN, -0.5, 1.5] {
            tried += 1;
            crumbf!("p={:e}", p);
            if let Ok(v) = catch(|| logit(p)) { fd.fail("logit:accepts-outside-unit-interval", 1.0, format!("logit({:e}) returned {:e} instead of rejecting the argument", p, v), format!("p={:e}", p)); }
        }
        for _ in 0..(if thorough { 20000 } else { 2000 }) {
            let p = if r.coin(0.5) { -(r.uniform(-700.0, 3.0)).exp() } else { 1.0 + (r.uniform(-36.0, 10.0)).exp() };
            if (0.0..=1.0).contains(&p) { continue; }
            tried += 1;
            crumbf!("p={:e}", p);
            if let Ok(v) = catch(|| logit(p)) { fd.fail("logit:accepts-outside-unit-interval", 1.0, format!("logit({:e}) returned {:e} instead of rejecting the argument", p, v), format!("p={:e}", p)); }
        }
        if logit(0.0) != f64::NEG_INFINITY || logit(1.0) != f64::INFINITY || logit(0.5) != 0.0 { fd.fail("logit:limit", 1.0, "logit(0), logit(0.5), logit(1) are not -inf, 0, +inf".into(), "p in {0, 0.5, 1}".into()); }
    }
    // ---- softmax -----------------------------------------------------------------------------------------------
    {
        let ncases = if thorough { 6000 } else { 600 };
        for it in 0..ncases {
            let n = match it % 6 { 0 => 1 + r.below(8), 1 => 1 + r.below(40), 2 => 1 + r.below(1000), _ => 1 + r.below(200) } as usize;
            let scale = *r.pick(&[1.0, 10.0, 100.0, 700.0, 1e3, 1e4, 1e4, 1e4]);
            // entries on the grid 2^-10 so that adding a grid constant is exact (shift invariance is then about softmax alone)
            let q = |v: f64| (v * 1024.0).round() / 1024.0;
            let mut x: Vec<f64> = (0..n).map(|_| q(r.uniform(-scale, scale))).collect();
            if it % 5 == 0 && n >= 2 { let j = r.below(n as u64) as usize; let i = r.below(n as u64) as usize; x[i] = x[j]; } // ties
            if it % 7 == 0 { let c = q(r.uniform(-scale, scale)); for v in x.iter_mut() { *v = c; } }                 // constant vector
            tried += 1;
            let inp = format!("x={}", vec_s(&x));
            if crumbs_on() { crumb(&inp); }
            // the libm hypotheses of C17_softmax_{range,order,sum}_binary64 on the arguments that occur: args = x_i - max
            {
                let mx = x.iter().cloned().fold(f64::NEG_INFINITY, f64::max);
                let mut ae: Vec<(f64, f64)> = x.iter().map(|v| { let a = v - mx; (a, a.exp()) }).collect();
                ae.sort_by(|p, q| p.0.partial_cmp(&q.0).unwrap());
                for w in 0..ae.len() {
                    let (a, e) = ae[w];
                    if !(e.is_finite() && (0.0..=1.0).contains(&e)) { fd.fail("libm:exp-out-of-unit-range", 1.0, format!("glibc exp({:e}) = {:e} is not a finite double in [0,1] (softmax argument x_i - max)", a, e), format!("a={:e}", a)); }
                    if a == 0.0 && e != 1.0 { fd.fail("libm:exp0-not-one", 1.0, format!("glibc exp({:e}) = {:e}, expected 1", a, e), format!("a={:e}", a)); }
                    if w > 0 && !(ae[w - 1].1 <= e) { fd.fail("libm:exp-not-monotone", ae[w - 1].1 - e, format!("glibc exp({:e}) = {:e} > exp({:e}) = {:e} (softmax arguments x_i - max)", ae[w - 1].0, ae[w - 1].1, a, e), format!("a={:e} b={:e}", ae[w - 1].0, a)); }
                }
            }
            let s = softmax(&x);
            if s.len() != n { fd.fail("softmax:length", 1.0, format!("output length {} for input length {}", s.len(), n), inp.clone()); continue; }
            if s.iter().any(|v| !v.is_finite()) {
                fd.fail("softmax:nonfinite-for-finite-input", 1.0 / n as f64, format!("softmax of a finite vector of length {} (max |x| = {:e}) contains {:e}", n, x.iter().fold(0.0f64, |a, b| a.max(b.abs())), s.iter().find(|v| !v.is_finite()).unwrap()), inp.clone());
                continue;
            }
            if s.iter().any(|v| !(*v >= 0.0)) { fd.fail("softmax:negative", 1.0, "softmax returned a negative component".into(), inp.clone()); }
            if s.iter().any(|v| !(*v <= 1.0)) { fd.fail("softmax:above-one", 1.0, "softmax returned a component above 1".into(), inp.clone()); }
            { // a maximal input receives a maximal output (C17_softmax_max_binary64)
                let jm = (0..n).fold(0usize, |b, i| if x[i] > x[b] { i } else { b });
                if s.iter().any(|v| !(*v <= s[jm])) { fd.fail("softmax:max-input-not-max-output", 1.0, format!("x[{}] = {:e} is maximal but its output {:e} is exceeded", jm, x[jm], s[jm]), inp.clone()); }
            }
            let sum: f64 = { let mut hi = 0.0f64; let mut lo = 0.0f64; for v in &s { let t = hi + v; lo += if hi.abs() >= v.abs() { (hi - t) + v } else { (v - t) + hi }; hi = t; } hi + lo };
            let tol = (n as f64 + 8.0) * EPS;
            if !((sum - 1.0).abs() <= tol) { fd.fail("softmax:sum-not-one", (sum - 1.0).abs() / tol, format!("components sum to {:e} (|sum - 1| > {:e}), n = {}", sum, tol, n), inp.clone()); }
            for i in 0..n { let j = (i + 1 + r.below(n as u64) as usize) % n;
                if (x[i] <= x[j] && !(s[i] <= s[j])) || (x[i] == x[j] && s[i] != s[j]) {
                    fd.fail("softmax:order-not-preserved", 1.0, format!("x[{}] = {:e} <= x[{}] = {:e} but softmax gives {:e} > {:e}", i, x[i], j, x[j], s[i], s[j]), inp.clone()); } }
            // shift by a constant (exact on the grid)
            let c = q(r.uniform(-scale, scale));
            let y: Vec<f64> = x.iter().map(|v| v + c).collect();
            crumbf!("x={}", vec_s(&y));
            let t = softmax(&y);
            for i in 0..n {
                let d = (t[i] - s[i]).abs();
                let tol = 1e-12 * s[i].abs() + 1e-300;
                if !(d <= tol) { fd.fail("softmax:not-shift-invariant", if d.is_nan() { 1e300 } else { d / tol }, format!("component {}: softmax(x) = {:e}, softmax(x + {:e}) = {:e}", i, s[i], c, t[i]), inp.clone()); break; }
            }
        }
        // (audit) the ends of the stated size range and the regimes the random draw above reaches rarely or never:
        // lengths 1, 2, 999, 1000 at every scale; entries exactly +-1e4; one dominant entry / one entry far below; all entries
        // within a few ulps of each other (order at the resolution of the input, off the 2^-10 grid); magnitudes past 1e4
        // up to f64::MAX ("regardless of magnitude": x - max overflows to -inf there)
        let reps = if thorough { 40 } else { 4 };
        for rep in 0..reps { for n in [1usize, 2, 3, 7, 8, 9, 255, 256, 999, 1000] { for scale in [1.0, 700.0, 745.2, 1e4] {
            let mut x: Vec<f64> = (0..n).map(|_| r.uniform(-scale, scale)).collect();   // off the grid
            match rep % 4 { 1 => { x[0] = scale; x[n - 1] = -scale; }                                    // the stated extremes, first / last index
                            2 => { for v in x.iter_mut() { *v = -scale; } let i = r.below(n as u64) as usize; x[i] = scale; }   // one dominant entry
                            3 => { let c = r.uniform(-scale, scale); for v in x.iter_mut() { *v = f64::from_bits(c.to_bits() + r.below(4)); } } // ulp neighbours
                            _ => {} }
            tried += 1;
            softmax_clauses(&x, &mut fd);
        } } }
        for n in [1usize, 2, 5, 1000] { for scale in [1e5, 1e10, 1e100, 1e300, f64::MAX] {
            let mut x: Vec<f64> = (0..n).map(|_| r.uniform(-1.0, 1.0) * scale).collect();
            tried += 1; softmax_clauses(&x, &mut fd);
            x[0] = scale; x[n - 1] = -scale;
            tried += 1; softmax_clauses(&x, &mut fd);
            for v in x.iter_mut() { *v = -scale; }
            tried += 1; softmax_clauses(&x, &mut fd);
        } }
        // the textbook instances
        for x in [vec![1000.0, 1000.0], vec![1000.0], vec![-1000.0, -1000.0], vec![1e4, -1e4, 0.0], vec![710.0, 0.0]] {
            tried += 1;
            crumbf!("x={}", vec_s(&x));
            let s = softmax(&x);
            if s.iter().any(|v| !v.is_finite()) { fd.fail("softmax:nonfinite-for-finite-input", 10.0, format!("softmax({}) = {}", vec_s(&x), vec_s(&s)), format!("x={}", vec_s(&x))); }
        }
    }
    // ---- Box-Cox ------------------------------------------------------------------------------------------------
    {
        let lam = |r: &mut Rng, i: u64| -> f64 { match i % 8 { 0 => 0.0, 1 => r.uniform(-1e-8, 1e-8), 2 => (r.uniform(-40.0, -18.0)).exp() * if r.coin(0.5) { 1.0 } else { -1.0 }, 3 => *r.pick(&[1.0, 2.0, -1.0, 0.5, -0.5, 3.0]), _ => r.uniform(-5.0, 5.0) } };
        let n = if thorough { 400000 } else { 40000 };
        for i in 0..n {
            // one argument in ten sits next to 1 (where x^lambda - 1 cancels), on either side, at every distance from 1e-3 down to one ulp
            let x = if i % 10 == 7 { 1.0 + (if r.coin(0.5) { 1.0 } else { -1.0 }) * (10.0f64).powf(-r.uniform(3.0, 15.7)) } else { (r.uniform((1e-6f64).ln(), (1e6f64).ln())).exp() };
            let l = if i % 10 == 7 && r.coin(0.7) { *r.pick(&[-5.0, -4.0, -3.0, -2.0, -1.0, 1.0, 2.0, 3.0, 4.0, 5.0]) } else { lam(&mut r, i) };
            tried += 1;
            crumbf!("x={:e} lambda={:e}", x, l);
            match catch(|| boxcox(x, l)) {
                Err(_) => fd.fail("boxcox:rejects-valid-domain", 1.0, format!("boxcox({:e}, {:e}) panicked although x > 0", x, l), format!("x={:e} lambda={:e}", x, l)),
                Ok(got) => {
                    let want = boxcox_ref(x, l);
                    let d = (got - want).abs(); let tol = 1e-12 * want.abs() + 1e-300;
                    if !(d <= tol) { fd.fail("boxcox:inaccurate", d / tol, format!("boxcox({:e}, {:e}) = {:e}, (x^l - 1)/l = {:e} (relative error {:e})", x, l, got, want, d / want.abs()), format!("x={:e} lambda={:e}", x, l)); }
                }
            }
            // two-parameter form: shifts of both signs; domain x + alpha > 0
            let a = match i % 4 { 0 => r.uniform(-2.0, 2.0) * x, 1 => (r.uniform((1e-6f64).ln(), (1e6f64).ln())).exp(), 2 => -(r.uniform((1e-6f64).ln(), (1e6f64).ln())).exp(), _ => r.uniform(-10.0, 10.0) };
            let xs = if i % 3 == 0 { -x } else { x };
            let y = xs + a;
            tried += 1;
            let inp = format!("x={:e} lambda={:e} alpha={:e}", xs, l, a);
            if crumbs_on() { crumb(&inp); }
            let res = catch(|| boxcox_shifted(xs, l, a));
            if y > 0.0 {
                match res {
                    Err(_) => fd.fail("boxcox_shifted:rejects-valid-domain", 1.0, format!("boxcox_shifted({:e}, {:e}, {:e}) panicked although x + alpha = {:e} > 0", xs, l, a, y), inp),
                    Ok(got) => {
                        let want = boxcox_ref(y, l);
                        let d = (got - want).abs(); let tol = 1e-12 * want.abs() + 1e-300;
                        if !(d <= tol) { fd.fail("boxcox_shifted:inaccurate", d / tol, format!("boxcox_shifted({:e}, {:e}, {:e}) = {:e}, ((x+alpha)^l - 1)/l = {:e}", xs, l, a, got, want), inp); }
                    }
                }
            } else if let Ok(got) = res {
                fd.fail("boxcox_shifted:accepts-outside-domain", 1.0, format!("boxcox_shifted({:e}, {:e}, {:e}) returned {:e} although x + alpha = {:e} <= 0", xs, l, a, got, y), inp);
            }
        }
        // (audit) what the random draw above leaves out of "x in (1e-6, 1e6), lambda in +-5 including |lambda| < 1e-8, shifts of
        // both signs": the corners of the rectangle (x at either end with lambda = +-5 exactly), lambda = -0.0, |lambda| below
        // e^-40 down to the smallest subnormal (the draw stops at 4e-18), x one ulp from 1, and for the shifted form alpha = +-0,
        // x + alpha exactly 0 (rejected), x + alpha one ulp of x above / below 0, and alpha cancelling x to a tiny positive sum
        {
            let one_shifted = |xs: f64, l: f64, a: f64, fd: &mut Found| {
                let y = xs + a;
                let inp = format!("x={:e} lambda={:e} alpha={:e}", xs, l, a);
                if crumbs_on() { crumb(&inp); }
                let res = catch(|| boxcox_shifted(xs, l, a));
                if y > 0.0 {
                    match res {
                        Err(_) => fd.fail("boxcox_shifted:rejects-valid-domain", 1.0, format!("boxcox_shifted({:e}, {:e}, {:e}) panicked although x + alpha = {:e} > 0", xs, l, a, y), inp),
                        Ok(got) => {
                            let want = boxcox_ref(y, l);
                            let d = (got - want).abs(); let tol = 1e-12 * want.abs() + 1e-300;
                            if !(d <= tol) { fd.fail("boxcox_shifted:inaccurate", d / tol, format!("boxcox_shifted({:e}, {:e}, {:e}) = {:e}, ((x+alpha)^l - 1)/l = {:e}", xs, l, a, got, want), inp); }
                        }
                    }
                } else if let Ok(got) = res {
                    fd.fail("boxcox_shifted:accepts-outside-domain", 1.0, format!("boxcox_shifted({:e}, {:e}, {:e}) returned {:e} although x + alpha = {:e} <= 0", xs, l, a, got, y), inp);
                }
            };
            let one = |x: f64, l: f64, fd: &mut Found| {
                crumbf!("x={:e} lambda={:e}", x, l);
                match catch(|| boxcox(x, l)) {
                    Err(_) => fd.fail("boxcox:rejects-valid-domain", 1.0, format!("boxcox({:e}, {:e}) panicked although x > 0", x, l), format!("x={:e} lambda={:e}", x, l)),
                    Ok(got) => {
                        let want = boxcox_ref(x, l);
                        let d = (got - want).abs(); let tol = 1e-12 * want.abs() + 1e-300;
                        if !(d <= tol) { fd.fail("boxcox:inaccurate", d / tol, format!("boxcox({:e}, {:e}) = {:e}, (x^l - 1)/l = {:e} (relative error {:e})", x, l, got, want, d / want.abs()), format!("x={:e} lambda={:e}", x, l)); }
                    }
                }
            };
            let up = |v: f64| f64::from_bits(v.to_bits() + 1);
            let dn = |v: f64| f64::from_bits(v.to_bits() - 1);
            let xs_edge = [up(1e-6), 1e-6 * 1.5, 1e-5, 1e-3, 0.1, 0.5, dn(1.0), up(1.0), 1.5, 2.0, 3.0, 10.0, 1e3, 1e5, 1e6 / 1.5, dn(1e6)];
            let ls_edge = [5.0, -5.0, dn(5.0), -dn(5.0), 4.5, -4.5, 1.0, -1.0, 0.0, -0.0, 1e-8, -1e-8, 1e-9, -1e-9, 1e-17, -1e-17, 1e-30, -1e-30, 1e-100, -1e-100,
                           1e-200, -1e-200, 1e-300, -1e-300, f64::MIN_POSITIVE, -f64::MIN_POSITIVE, 1e-310, -1e-310, 1e-315, -1e-320, 1.5e-323, -1e-323, 5e-324, -5e-324];
            for x in xs_edge { for l in ls_edge {
                tried += 1; one(x, l, &mut fd);
                for a in [0.0, -0.0, x, -x / 2.0, 1e6, 1e-6] { tried += 1; one_shifted(x, l, a, &mut fd); }
                // the boundary of the domain: x + alpha = 0 exactly, and the nearest sums on either side
                for a in [-x, -dn(x), -up(x)] { tried += 1; one_shifted(x, l, a, &mut fd); tried += 1; one_shifted(-x, l, -a, &mut fd); }
            } }
            let m = if thorough { 100000 } else { 10000 };
            for i in 0..m {
                let x = if i % 5 == 0 { 1.0 + (if r.coin(0.5) { 1.0 } else { -1.0 }) * (10.0f64).powf(-r.uniform(3.0, 15.7)) } else { (r.uniform((1e-6f64).ln(), (1e6f64).ln())).exp() };
                // |lambda| log-uniform from e^-745 (smallest subnormal) to e^-18: all of |lambda| < 1e-8
                let l = (r.uniform(-745.2, -18.0)).exp() * if r.coin(0.5) { 1.0 } else { -1.0 };
                tried += 1; one(x, l, &mut fd);
                // a shift that cancels x down to a relative distance 1e-1 .. 1e-16 (both orders of sign), and a plain one
                let rel = (10.0f64).powf(-r.uniform(1.0, 16.0));
                let (xs, a) = match i % 3 { 0 => (x, -x * (1.0 - rel)), 1 => (-x, x * (1.0 + rel)), _ => (x, r.uniform(-0.5, 2.0) * x) };
                tried += 1; one_shifted(xs, l, a, &mut fd);
                // the same cancelling shifts with an ordinary lambda
                let l2 = if i % 2 == 0 { r.uniform(-5.0, 5.0) } else { *r.pick(&[5.0, -5.0, 0.0, -0.0, 1.0, -1.0, 0.5, 2.0]) };
                tried += 1; one_shifted(xs, l2, a, &mut fd);
            }
        }
        for x in [0.0, -0.0, -1.0, -1e-300, f64::NEG_INFINITY, f64::NAN] { for l in [0.0, 1.0, -0.5] {
            tried += 1;
            crumbf!("x={:e} lambda={:e}", x, l);
            if let Ok(v) = catch(|| boxcox(x, l)) { fd.fail("boxcox:accepts-outside-domain", 1.0, format!("boxcox({:e}, {:e}) returned {:e} although x is not positive", x, l, v), format!("x={:e} lambda={:e}", x, l)); }
        } }
    }
    // ---- binomial coefficient ---------------------------------------------------------------------------------------
    {
        let nmax = 130usize;
        let tri = pascal(nmax);
        let fits = |v: u128| v <= u64::MAX as u128;
        for n in 0..=nmax { for k in 0..=n {
            let want = tri[n][k];
            if !fits(want) { continue; }
            tried += 1;
            crumbf!("n={} k={}", n, k);
            let got = binom_coeff(n as u64, k as u64);
            if got as u128 != want {
                let class = if got == 0 { "binom:zero-without-overflow" } else { "binom:wrong-value" };
                fd.fail(class, 1.0, format!("binom_coeff({}, {}) = {}, C(n,k) = {} < 2^64", n, k, got, want), format!("n={} k={}", n, k));
            }
            let sym = binom_coeff(n as u64, (n - k) as u64);
            if sym != got { fd.fail("binom:asymmetric", 1.0, format!("binom_coeff({}, {}) = {} but binom_coeff({}, {}) = {}", n, k, got, n, n - k, sym), format!("n={} k={}", n, k)); }
            if k + 1 <= n && n + 1 <= nmax && fits(tri[n + 1][k + 1]) {
                let (b, c) = (binom_coeff(n as u64, k as u64 + 1), binom_coeff(n as u64 + 1, k as u64 + 1));
                if got.checked_add(b) != Some(c) { fd.fail("binom:pascal", 1.0, format!("C({},{}) + C({},{}) = {} + {} but C({},{}) = {}", n, k, n, k + 1, got, b, n + 1, k + 1, c), format!("n={} k={}", n, k)); }
            }
        } }
        // the gamma-based alternative is documented as exact below n ~ 50 (the crate's own test uses 5 <= n <= 45)
        for n in 0..=45usize { for k in 0..=n {
            tried += 1;
            crumbf!("n={} k={} (binom_coeff_alt)", n, k);
            let got = binom_coeff_alt(n as u64, k as u64);
            if got as u128 != tri[n][k] { fd.fail("binom_alt:wrong-below-documented-threshold", 1.0, format!("binom_coeff_alt({}, {}) = {}, C(n,k) = {}", n, k, got, tri[n][k]), format!("n={} k={}", n, k)); }
        } }
        // (audit) the edge of "C(n,k) < 2^64 for k <= 32": for every k <= 33 the LARGEST n whose coefficient still fits (and the
        // few rows below it), value and symmetry; n = 2^64 - 1 itself with k in {0, 1, n - 1, n}
        for k in 1..=33u64 {
            let (mut lo, mut hi) = (k, u64::MAX);           // C(lo,k) fits; find the last n that does
            if binom_u128(hi, k).is_none() { while hi - lo > 1 { let mid = lo + (hi - lo) / 2; if binom_u128(mid, k).is_some() { lo = mid; } else { hi = mid; } } } else { lo = hi; }
            for n in lo.saturating_sub(3).max(k)..=lo {
                let want = binom_u128(n, k).unwrap();
                for kk in [k, n - k] {
                    tried += 1;
                    crumbf!("n={} k={}", n, kk);
                    let got = binom_coeff(n, kk);
                    if got != want {
                        let class = if got == 0 { "binom:zero-without-overflow" } else if kk == k { "binom:wrong-value" } else { "binom:asymmetric" };
                        fd.fail(class, 1.0, format!("binom_coeff({}, {}) = {}, C(n,k) = {} < 2^64", n, kk, got, want), format!("n={} k={}", n, kk));
                    }
                }
            }
        }
        for (n, k, want) in [(u64::MAX, 0u64, 1u64), (u64::MAX, 1, u64::MAX), (u64::MAX, u64::MAX - 1, u64::MAX), (u64::MAX, u64::MAX, 1), (u64::MAX - 1, 1, u64::MAX - 1), (1, 0, 1), (1, 1, 1), (0, 0, 1)] {
            tried += 1;
            crumbf!("n={} k={}", n, k);
            let got = binom_coeff(n, k);
            if got != want { fd.fail(if got == 0 { "binom:zero-without-overflow" } else { "binom:wrong-value" }, 1.0, format!("binom_coeff({}, {}) = {}, C(n,k) = {} < 2^64", n, k, got, want), format!("n={} k={}", n, k)); }
        }
        let m = if thorough { 200000 } else { 20000 };
        for i in 0..m {
            // n log-uniform over the whole u64 range; k <= 32 among those whose coefficient fits
            let bits = 7 + r.below(58);
            let n = if i % 50 == 0 { u64::MAX - r.below(1000) } else { (1u64 << (bits - 1)) | (r.next() & ((1u64 << (bits - 1)) - 1)) };
            let mut kmax = 0u64;
            while kmax < 32 && kmax < n && binom_u128(n, kmax + 1).is_some() { kmax += 1; }
            let k0 = r.below(kmax + 1);
            let k = if r.coin(0.4) { n - k0 } else { k0 };
            tried += 1;
            crumbf!("n={} k={}", n, k);
            let want = binom_u128(n, k).unwrap();
            let got = binom_coeff(n, k);
            if got != want {
                let class = if got == 0 { "binom:zero-without-overflow" } else { "binom:wrong-value" };
                fd.fail(class, 1.0, format!("binom_coeff({}, {}) = {}, C(n,k) = {} < 2^64", n, k, got, want), format!("n={} k={}", n, k));
            }
            if k < n { if let (Some(b), Some(c)) = (binom_u128(n, k + 1), if n < u64::MAX { binom_u128(n + 1, k + 1) } else { None }) {
                let (gb, gc) = (binom_coeff(n, k + 1), binom_coeff(n + 1, k + 1));
                if gb != b || gc != c || got.checked_add(gb) != Some(gc) { fd.fail("binom:pascal", 1.0, format!("C({},{}) + C({},{}) = {} + {} but C({},{}) = {}", n, k, n, k + 1, got, gb, n + 1, k + 1, gc), format!("n={} k={}", n, k)); }
            } }
        }
    }
    (tried, fd.done())
}

// ------------------------------------------------------------------------------------------------
// correspondence cases
// ------------------------------------------------------------------------------------------------
fn one(f: impl FnOnce() -> f64) -> (libm::Table, Tm) {
    libm::start();
    let r = catch(f);
    let t = libm::stop();
    (t, outcome_list(&r.map(|x| vec![x])))
}
fn many(f: impl FnOnce() -> Vec<f64>) -> (libm::Table, Tm) {
    libm::start();
    let r = catch(f);
    let t = libm::stop();
    (t, outcome_list(&r))
}
fn out_n(r: &Result<u64, String>) -> Tm { match r { Ok(v) => app("Val", vec![Tm::N(*v)]), Err(_) => Tm::Raw("Panic".into()) } }

pub fn gen(tier: &str, seed: u64, outdir: &str) {
    let thorough = tier == "thorough";
    let mut r = Rng::new(seed ^ 0x9C17);
    let k = if thorough { 12 } else { 1 };
    let mut all: Vec<(Tm, String, bool)> = vec![];
    let specials = [0.0, -0.0, 1.0, -1.0, 0.5, f64::INFINITY, f64::NEG_INFINITY, f64::NAN, 5e-324, -5e-324, f64::MIN_POSITIVE, 1e-300, -1e-300, 1e300, -1e300, f64::MAX, f64::MIN];

    // logistic
    let mut lx: Vec<(f64, &str)> = vec![];
    for _ in 0..150 * k { lx.push((r.uniform(-40.0, 40.0), "logistic/core")); }
    for _ in 0..100 * k { lx.push((r.uniform(-745.0, 745.0), "logistic/tails")); }
    for _ in 0..50 * k { lx.push(((r.uniform(-700.0, 0.0)).exp() * if r.coin(0.5) { 1.0 } else { -1.0 }, "logistic/tiny")); }
    for _ in 0..30 * k { lx.push((r.uniform(-12.0, 12.0).round(), "logistic/integer")); }
    for x in specials.iter().chain([709.0, 709.782712893384, 709.7827128933841, 710.0, -709.782712893384, -710.0, 745.13, -745.13, 746.0, -746.0, 36.7368005696771, 36.8, 37.0].iter()) { lx.push((*x, "logistic/special")); }
    for (x, tag) in lx {
        let (t, e) = one(|| logistic(x));
        all.push((app("CLogistic", vec![libm_table(&t), Tm::F(x), e]), tag.into(), x != 0.0));
    }
    // logit
    let mut lp: Vec<(f64, &str)> = vec![];
    for _ in 0..150 * k { lp.push((r.unit(), "logit/unit-interval")); }
    for _ in 0..40 * k { lp.push(((r.uniform(-700.0, 0.0)).exp(), "logit/near-0")); }
    for _ in 0..40 * k { lp.push((1.0 - (r.uniform(-36.0, 0.0)).exp(), "logit/near-1")); }
    for _ in 0..40 * k { lp.push((if r.coin(0.5) { -(r.uniform(-700.0, 3.0)).exp() } else { 1.0 + (r.uniform(-36.0, 10.0)).exp() }, "logit/malformed-outside")); }
    for p in specials.iter().chain([1.0 - EPS / 2.0, 1.0 + EPS, 0.25, 0.75, 2.0, -0.5].iter()) { lp.push((*p, "logit/special")); }
    for i in 0..(20 * k as u64) { lp.push((f64::from_bits(1 + i * 37), "logit/edge:subnormal-p")); lp.push((f64::from_bits((1.0f64).to_bits() - 1 - i), "logit/edge:last-below-1")); }
    for (p, tag) in lp {
        let (t, e) = one(|| logit(p));
        all.push((app("CLogit", vec![libm_table(&t), Tm::F(p), e]), tag.into(), p != 0.5));
    }
    // boxcox / boxcox_shifted
    let lam = |r: &mut Rng, i: u64| -> f64 { match i % 8 { 0 => 0.0, 1 => r.uniform(-1e-8, 1e-8), 2 => -0.0, 3 => *r.pick(&[1.0, 2.0, -1.0, 0.5, -0.5, 3.0, 5.0, -5.0]), 4 => (r.uniform(-40.0, -18.0)).exp(), _ => r.uniform(-5.0, 5.0) } };
    for i in 0..(300 * k as u64) {
        let x = (r.uniform((1e-6f64).ln(), (1e6f64).ln())).exp();
        let l = lam(&mut r, i);
        let (t, e) = one(|| boxcox(x, l));
        all.push((app("CBoxcox", vec![libm_table(&t), Tm::F(x), Tm::F(l), e]), if l == 0.0 { "boxcox/lambda=0".into() } else { "boxcox/power".into() }, true));
        let a = match i % 4 { 0 => r.uniform(-2.0, 2.0) * x, 1 => (r.uniform((1e-6f64).ln(), (1e6f64).ln())).exp(), 2 => -(r.uniform((1e-6f64).ln(), (1e6f64).ln())).exp(), _ => r.uniform(-10.0, 10.0) };
        let xs = if i % 3 == 0 { -x } else { x };
        let (t, e) = one(|| boxcox_shifted(xs, l, a));
        let tag = if !(xs + a > 0.0) { "boxcox_shifted/malformed-domain" } else if l == 0.0 { "boxcox_shifted/lambda=0" } else { "boxcox_shifted/power" };
        all.push((app("CBoxcoxShifted", vec![libm_table(&t), Tm::F(xs), Tm::F(l), Tm::F(a), e]), tag.into(), true));
    }
    // (audit) corners of the stated rectangle, lambda = +-0 / +-5 / tiny down to the smallest subnormal (u = lambda * ln x subnormal
    // or 0: the `u == 0.` branch), x = 1 and its neighbours (ln x = 0), alpha = +-0, x + alpha = 0 exactly and one ulp either side
    {
        let up = |v: f64| f64::from_bits(v.to_bits() + 1);
        let dn = |v: f64| f64::from_bits(v.to_bits() - 1);
        let xs_edge = [up(1e-6), 1e-3, 0.5, dn(1.0), 1.0, up(1.0), 1.5, 3.0, 1e3, dn(1e6)];
        let ls_edge = [5.0, -5.0, 0.0, -0.0, 1e-8, -1e-9, 1e-17, -1e-100, 1e-300, f64::MIN_POSITIVE, -1e-310, 1e-315, -1e-320, 1.5e-323, 5e-324, -5e-324];
        for x in xs_edge { for l in ls_edge {
            let (t, e) = one(|| boxcox(x, l));
            all.push((app("CBoxcox", vec![libm_table(&t), Tm::F(x), Tm::F(l), e]), "boxcox/edge:corner-or-tiny-lambda".into(), true));
            for (xx, a) in [(x, 0.0), (x, -0.0), (x, -x), (-x, x), (x, -dn(x)), (x, -up(x)), (-x, up(x)), (x, x)] {
                if r.coin(0.5) { continue; }
                let (t, e) = one(|| boxcox_shifted(xx, l, a));
                let tag = if !(xx + a > 0.0) { "boxcox_shifted/edge:boundary-of-domain-rejected" } else { "boxcox_shifted/edge:tiny-lambda-or-tiny-sum" };
                all.push((app("CBoxcoxShifted", vec![libm_table(&t), Tm::F(xx), Tm::F(l), Tm::F(a), e]), tag.into(), true));
            }
        } }
        for _ in 0..(60 * k) {
            let x = (r.uniform((1e-6f64).ln(), (1e6f64).ln())).exp();
            let l = (r.uniform(-745.2, -18.0)).exp() * if r.coin(0.5) { 1.0 } else { -1.0 };
            let (t, e) = one(|| boxcox(x, l));
            all.push((app("CBoxcox", vec![libm_table(&t), Tm::F(x), Tm::F(l), e]), "boxcox/edge:corner-or-tiny-lambda".into(), true));
            let a = -x * (1.0 - (10.0f64).powf(-r.uniform(1.0, 16.0)));
            let (t, e) = one(|| boxcox_shifted(x, l, a));
            let tag = if !(x + a > 0.0) { "boxcox_shifted/edge:boundary-of-domain-rejected" } else { "boxcox_shifted/edge:tiny-lambda-or-tiny-sum" };
            all.push((app("CBoxcoxShifted", vec![libm_table(&t), Tm::F(x), Tm::F(l), Tm::F(a), e]), tag.into(), true));
        }
    }
    for x in specials { for l in [0.0, 1.0, -0.5, f64::NAN, f64::INFINITY] {
        let (t, e) = one(|| boxcox(x, l));
        all.push((app("CBoxcox", vec![libm_table(&t), Tm::F(x), Tm::F(l), e]), "boxcox/special".into(), true));
        for a in [0.0, -0.0, 1.0, -1.0, f64::NAN, f64::INFINITY, f64::NEG_INFINITY] {
            if r.coin(0.5) { continue; }
            let (t, e) = one(|| boxcox_shifted(x, l, a));
            all.push((app("CBoxcoxShifted", vec![libm_table(&t), Tm::F(x), Tm::F(l), Tm::F(a), e]), "boxcox_shifted/special".into(), true));
        }
    } }
    // softmax: every length 0..=24, then every residue mod 8 at larger sizes, a few long ones (to 1000)
    let mut lens: Vec<usize> = (0..=24).collect();
    for _ in 0..(30 * k) { lens.push(25 + r.below(120) as usize); }
    for j in 0..(4 * k) { lens.push(400 + 8 * r.below(70) as usize + (j as usize % 8)); }
    lens.push(1000);
    for (j, n) in lens.iter().enumerate() {
        let reps = if *n <= 24 { 3 } else { 1 };
        for rep in 0..reps {
            let scale = *r.pick(&[1.0, 10.0, 100.0, 700.0, 1e4, 1e4]);
            let mut x: Vec<f64> = (0..*n).map(|_| match rep { 0 => r.uniform(-scale, scale), 1 => r.small_int(12), _ => r.uniform(-scale, scale) }).collect();
            let mut tag = if *n >= 2 { "softmax/finite" } else { "softmax/short" };
            if *n > 0 && (j + rep) % 4 == 3 {
                // special values: signed zeros, infinities, NaN, subnormals, ties
                for _ in 0..(1 + n / 4) { let i = r.below(*n as u64) as usize; x[i] = *r.pick(&[0.0, -0.0, f64::INFINITY, f64::NEG_INFINITY, f64::NAN, 5e-324, -5e-324, 1e4, -1e4, 709.0, 710.0]); }
                tag = "softmax/special-values";
            }
            if *n > 1 && (j + rep) % 9 == 5 { let c = *r.pick(&[0.0, -0.0, 3.5, -1e4, 1e4]); for v in x.iter_mut() { *v = c; } tag = "softmax/constant"; }
            let xc = x.clone();
            let (t, e) = many(|| softmax(&xc));
            let nontrivial = *n >= 2 && x.iter().any(|v| v.to_bits() != x[0].to_bits());
            all.push((app("CSoftmax", vec![libm_table(&t), fl(&x), e]), tag.into(), nontrivial));
        }
    }
    // (audit) length 999, entries within a few ulps of each other, one dominant entry at +-1e4, magnitudes up to f64::MAX
    for (n, kind) in [(999usize, 0), (1, 1), (2, 1), (9, 1), (64, 1), (8, 2), (1000, 2), (2, 3), (5, 3), (17, 3)] {
        let x: Vec<f64> = match kind {
            0 => (0..n).map(|_| r.uniform(-1e4, 1e4)).collect(),
            1 => { let c = r.uniform(-1e4, 1e4); (0..n).map(|_| f64::from_bits(c.to_bits() + r.below(4))).collect() }
            2 => { let mut v = vec![-1e4; n]; v[n - 1] = 1e4; v[0] = if n > 8 { 1e4 } else { -1e4 }; v }
            _ => { let sc = *r.pick(&[1e10, 1e100, 1e300, f64::MAX]); (0..n).map(|i| if i == 0 { sc } else if i == n - 1 { -sc } else { r.uniform(-1.0, 1.0) * sc }).collect() }
        };
        let xc = x.clone();
        let (t, e) = many(|| softmax(&xc));
        all.push((app("CSoftmax", vec![libm_table(&t), fl(&x), e]), "softmax/edge:size-ulp-ties-dominant-huge".into(), n >= 2));
    }
    for x in [vec![f64::NAN], vec![f64::NEG_INFINITY], vec![f64::INFINITY], vec![f64::NEG_INFINITY, f64::NEG_INFINITY], vec![f64::NAN, 1.0], vec![1.0, f64::NAN], vec![0.0, -0.0], vec![-0.0, 0.0], vec![-0.0], vec![-0.0, -0.0, 0.0],
              vec![f64::NAN, f64::NAN, 2.0, f64::NEG_INFINITY], vec![1000.0, 1000.0], vec![f64::INFINITY, 1.0], vec![f64::INFINITY, f64::INFINITY]] {
        let xc = x.clone();
        let (t, e) = many(|| softmax(&xc));
        all.push((app("CSoftmax", vec![libm_table(&t), fl(&x), e]), "softmax/special-values".into(), x.len() >= 2));
    }
    // binom_coeff: all n <= 67 exhaustively (k <= n), n in 68..=140 (wrap-around / guard regime), k > n (malformed), large n
    let dbg = cfg!(debug_assertions);
    let mut bin = |n: u64, k: u64, tag: &str, all: &mut Vec<(Tm, String, bool)>| {
        let res = catch(|| binom_coeff(n, k));
        all.push((app("CBinom", vec![Tm::B(dbg), Tm::N(n), Tm::N(k), out_n(&res)]), tag.into(), k >= 1 && k < n));
    };
    for n in 0..=67u64 { for kk in 0..=n { bin(n, kk, "binom/n<=67", &mut all); } }
    let up = if thorough { 140 } else { 100 };
    for n in 68..=up { for kk in 0..=n { if thorough || (n + kk) % 3 == 0 || kk + 1 >= n / 2 && kk <= n / 2 + 1 { bin(n, kk, "binom/68..:overflow-regime", &mut all); } } }
    for _ in 0..(40 * k) { let n = r.below(60); let kk = n + 1 + r.below(40); bin(n, kk, "binom/malformed:k>n", &mut all); }
    for i in 0..(400 * k as u64) {
        let bits = 7 + r.below(58);
        let n = if i % 40 == 0 { u64::MAX - r.below(1000) } else { (1u64 << (bits - 1)) | (r.next() & ((1u64 << (bits - 1)) - 1)) };
        let k0 = match i % 4 { 0 => r.below(4), 1 => r.below(33), 2 => r.below(80), _ => r.below(12) }.min(n);
        let kk = if r.coin(0.3) { n - k0 } else { k0 };
        let tag = if binom_u128(n, kk).is_some() { "binom/large-n:fits" } else { "binom/large-n:overflow" };
        bin(n, kk, tag, &mut all);
    }
    // (audit) for every k <= 33 the largest n whose coefficient fits in 64 bits, the rows just below and the first that does not; n = 2^64 - 1
    for kk in 1..=33u64 {
        let (mut lo, mut hi) = (kk, u64::MAX);
        if binom_u128(hi, kk).is_none() { while hi - lo > 1 { let mid = lo + (hi - lo) / 2; if binom_u128(mid, kk).is_some() { lo = mid; } else { hi = mid; } } } else { lo = hi; }
        for n in lo.saturating_sub(2).max(kk)..=lo { bin(n, kk, "binom/edge:largest-n-that-fits", &mut all); bin(n, n - kk, "binom/edge:largest-n-that-fits", &mut all); }
        if lo < u64::MAX { bin(lo + 1, kk, "binom/edge:first-n-that-overflows", &mut all); }
    }
    for (n, kk) in [(u64::MAX, 0u64), (u64::MAX, 1), (u64::MAX, u64::MAX - 1), (u64::MAX, u64::MAX), (u64::MAX, 2), (u64::MAX - 1, 1)] { bin(n, kk, "binom/edge:n=2^64-1", &mut all); }
    for n in [1000u64, 5000, 20000] { bin(n, 2, "binom/large-n:fits", &mut all); bin(n, n - 3, "binom/large-n:fits", &mut all); bin(2 * n, n, "binom/large-n:overflow", &mut all); }

    // binom_coeff_alt (gamma-based): all k <= n <= 40 (100 thorough), sampled up to n = 400 (gamma overflows beyond 171)
    let mut alt = |n: u64, kk: u64, all: &mut Vec<(Tm, String, bool)>| {
        libm::start();
        let res = catch(|| binom_coeff_alt(n, kk));
        let t = libm::stop();
        let tag = if n <= 48 { "binom_alt/exact-range" } else if n <= 170 { "binom_alt/approximate" } else { "binom_alt/gamma-overflow" };
        all.push((app("CBinomAlt", vec![libm_table(&t), Tm::N(n), Tm::N(kk), out_n(&res)]), tag.into(), kk >= 1 && kk < n));
    };
    let full = if thorough { 100 } else { 40 };
    for n in 0..=full { for kk in 0..=n { alt(n, kk, &mut all); } }
    for _ in 0..(150 * k) { let n = full + 1 + r.below(400 - full); let kk = r.below(n + 1); alt(n, kk, &mut all); }
    for n in [170u64, 171, 172, 1000, 1u64 << 40] { alt(n, 0, &mut all); alt(n, 1, &mut all); alt(n, n / 2, &mut all); alt(n, n, &mut all); }

    // deterministic shuffle so that the long softmax cases spread over the shards
    for i in (1..all.len()).rev() { let j = r.below(i as u64 + 1) as usize; all.swap(i, j); }
    let mut cs = Cases::new("C17");
    for (t, tag, nt) in all { cs.push(t, &tag, nt); }
    cs.write(outdir, 400, "logistic on +-40, +-745, tiny, integer and special arguments; logit on [0,1], near both ends, outside (panics) and specials; boxcox/boxcox_shifted with x log-uniform in (1e-6,1e6), lambda in +-5 incl. 0, -0, |lambda| < 1e-8 and 1e-18..1e-8, shifts of both signs, out-of-domain and special arguments, plus the corners x next to 1e-6 / 1e6 with lambda = +-5, lambda down to the smallest subnormal (lambda * ln x subnormal or 0), x = 1 and its neighbours, alpha = +-0, x + alpha = 0 exactly and one ulp either side, cancelling shifts; logit also on the first subnormals and the last doubles below 1; softmax at every length 0..24, random lengths to 144, every residue mod 8 in 400..960, length 1000, entries to +-1e4, signed zeros/inf/NaN/subnormals/ties/constant vectors, length 999, entries a few ulps apart, one dominant entry, magnitudes to f64::MAX; binom_coeff_alt (gamma-based, model = C09's gamma + ln/exp/round + saturating cast) for all k <= n <= 40 (100 thorough) and sampled n to 400; binom_coeff for ALL 0 <= k <= n <= 67, n in 68..100 (140 thorough) where values wrap or the guard fires, k > n, n up to 2^64-1 with small k or n-k, and for every k <= 33 the largest n whose coefficient fits in 64 bits (with the rows below and the first that overflows); each transform case carries the libm calls the implementation made; non-trivial = logistic x != 0, logit p != 1/2, softmax length >= 2 and not constant, binom 1 <= k < n; distinct by hash of the case term");
}
