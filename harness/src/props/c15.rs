//! C15 — shape operations, constructors, predicates: lock-step programs and constructor cases for the Coq
//! correspondence (`gen`) and the failure-search oracle (`oracle`: a `Vec<Vec<f64>>` reference model).
#![allow(clippy::needless_range_loop)]
use crate::util::*;
use compute::linalg::{
    arange, col_to_row_major, design, diag, diag_matrix, is_design, is_square, is_symmetric, linspace, rotation_matrix_ccw,
    rotation_matrix_cw, row_to_col_major, toeplitz, transpose, vandermonde, Axis, Matrix, Vector,
};

// ---------------------------------------------------------------------------------------------
// structural operations
#[derive(Clone, Debug)]
enum Op {
    T, TMut, Reshape(i32, i32), ReshapeMut(i32, i32), Hcat(Vec<f64>, i32, i32), Vcat(Vec<f64>, i32, i32),
    Hrepeat(usize), Vrepeat(usize), GetRow(usize), GetCol(usize), ApplyRow(usize, u8), ApplyCol(usize, u8),
    FlatIdx(usize), FlatSet(usize, f64), Idx(usize, usize), IdxSet(usize, usize, f64), RowSlice(usize), Diag,
    ToVecReshape(i32, i32), ToVecToMatrix, RowToCol, ColToRow,
}
const NKINDS: u64 = 22;

fn fun(k: u8, x: f64) -> f64 { match k { 0 => -x, 1 => x + 1.0, _ => x * 2.0 } }

impl Op {
    fn name(&self) -> &'static str {
        match self {
            Op::T => "t", Op::TMut => "t_mut", Op::Reshape(..) => "reshape", Op::ReshapeMut(..) => "reshape_mut", Op::Hcat(..) => "hcat",
            Op::Vcat(..) => "vcat", Op::Hrepeat(_) => "hrepeat", Op::Vrepeat(_) => "vrepeat", Op::GetRow(_) => "get_row_as_vector",
            Op::GetCol(_) => "get_col_as_vector", Op::ApplyRow(..) => "apply_along_row", Op::ApplyCol(..) => "apply_along_col",
            Op::FlatIdx(_) => "flat_idx", Op::FlatSet(..) => "flat_idx_replace", Op::Idx(..) => "index[i,j]", Op::IdxSet(..) => "index_mut[i,j]",
            Op::RowSlice(_) => "index[i]", Op::Diag => "diag", Op::ToVecReshape(..) => "to_vec.reshape", Op::ToVecToMatrix => "to_vec.to_matrix",
            Op::RowToCol => "row_to_col_major", Op::ColToRow => "col_to_row_major",
        }
    }
    fn changes_state(&self) -> bool {
        !matches!(self, Op::GetRow(_) | Op::GetCol(_) | Op::FlatIdx(_) | Op::Idx(..) | Op::RowSlice(_) | Op::Diag)
    }
    /// run on the implementation (may panic)
    fn run(&self, m: &mut Matrix) -> Vec<f64> {
        match self {
            Op::T => { *m = m.t(); vec![] }
            Op::TMut => { m.t_mut(); vec![] }
            Op::Reshape(r, c) => { *m = m.reshape(*r, *c); vec![] }
            Op::ReshapeMut(r, c) => { m.reshape_mut(*r, *c); vec![] }
            Op::Hcat(d, r, c) => { let o = Matrix::new(d.clone(), *r, *c); *m = m.hcat(o); vec![] }
            Op::Vcat(d, r, c) => { let o = Matrix::new(d.clone(), *r, *c); *m = m.vcat(o); vec![] }
            Op::Hrepeat(n) => { *m = m.hrepeat(*n); vec![] }
            Op::Vrepeat(n) => { *m = m.vrepeat(*n); vec![] }
            Op::GetRow(i) => m.get_row_as_vector(*i).v,
            Op::GetCol(j) => m.get_col_as_vector(*j).v,
            Op::ApplyRow(i, k) => { let k = *k; m.apply_along_row(*i, move |x| fun(k, x)); vec![] }
            Op::ApplyCol(j, k) => { let k = *k; m.apply_along_col(*j, move |x| fun(k, x)); vec![] }
            Op::FlatIdx(k) => vec![m.flat_idx(*k)],
            Op::FlatSet(k, v) => { m.flat_idx_replace(*k, *v); vec![] }
            Op::Idx(i, j) => vec![m[[*i, *j]]],
            Op::IdxSet(i, j, v) => { m[[*i, *j]] = *v; vec![] }
            Op::RowSlice(i) => m[*i].to_vec(),
            Op::Diag => m.diag().v,
            Op::ToVecReshape(r, c) => { let v = m.clone().to_vec(); *m = v.reshape(*r, *c); vec![] }
            Op::ToVecToMatrix => { let v = m.clone().to_vec(); *m = v.to_matrix(); vec![] }
            Op::RowToCol => { let d = row_to_col_major(&m.data, m.nrows); *m = Matrix::new(d, m.ncols as i32, m.nrows as i32); vec![] }
            Op::ColToRow => { let d = col_to_row_major(&m.data, m.ncols); *m = Matrix::new(d, m.ncols as i32, m.nrows as i32); vec![] }
        }
    }
    fn term(&self) -> Tm {
        let n = |x: usize| Tm::Nat(x as u64);
        let z = |x: i32| Tm::Z(x as i64);
        match self {
            Op::T => Tm::Raw("KT".into()), Op::TMut => Tm::Raw("KTMut".into()),
            Op::Reshape(r, c) => app("KReshape", vec![z(*r), z(*c)]), Op::ReshapeMut(r, c) => app("KReshapeMut", vec![z(*r), z(*c)]),
            Op::Hcat(d, r, c) => app("KHcat", vec![fl(d), z(*r), z(*c)]), Op::Vcat(d, r, c) => app("KVcat", vec![fl(d), z(*r), z(*c)]),
            Op::Hrepeat(k) => app("KHrepeat", vec![n(*k)]), Op::Vrepeat(k) => app("KVrepeat", vec![n(*k)]),
            Op::GetRow(i) => app("KGetRow", vec![n(*i)]), Op::GetCol(j) => app("KGetCol", vec![n(*j)]),
            Op::ApplyRow(i, k) => app("KApplyRow", vec![n(*i), n(*k as usize)]), Op::ApplyCol(j, k) => app("KApplyCol", vec![n(*j), n(*k as usize)]),
            Op::FlatIdx(k) => app("KFlatIdx", vec![n(*k)]), Op::FlatSet(k, v) => app("KFlatSet", vec![n(*k), Tm::F(*v)]),
            Op::Idx(i, j) => app("KIdx", vec![n(*i), n(*j)]), Op::IdxSet(i, j, v) => app("KIdxSet", vec![n(*i), n(*j), Tm::F(*v)]),
            Op::RowSlice(i) => app("KRowSlice", vec![n(*i)]), Op::Diag => Tm::Raw("KDiag".into()),
            Op::ToVecReshape(r, c) => app("KToVecReshape", vec![z(*r), z(*c)]), Op::ToVecToMatrix => Tm::Raw("KToVecToMatrix".into()),
            Op::RowToCol => Tm::Raw("KRowToCol".into()), Op::ColToRow => Tm::Raw("KColToRow".into()),
        }
    }
}

// ---------------------------------------------------------------------------------------------
// the plain reference model: rows of rows (used by the oracle only)
type Rows = Vec<Vec<f64>>;
fn rows_of(d: &[f64], r: usize, c: usize) -> Rows { (0..r).map(|i| d[i * c..(i + 1) * c].to_vec()).collect() }
fn flat(a: &Rows) -> Vec<f64> { a.iter().flatten().cloned().collect() }
/// the shape a request (r, c) denotes for `size` elements; None = impossible shape
fn want_shape(size: usize, r: i32, c: i32) -> Option<(usize, usize)> {
    if size == 0 { return None; }
    let (r, c) = (r as i64, c as i64);
    let s = size as i64;
    if r > 0 && c > 0 { if r * c == s { Some((r as usize, c as usize)) } else { None } }
    else if r == -1 && c > 0 { if s % c == 0 { Some(((s / c) as usize, c as usize)) } else { None } }
    else if c == -1 && r > 0 { if s % r == 0 { Some((r as usize, (s / r) as usize)) } else { None } }
    else { None }
}
fn ref_new(d: &[f64], r: i32, c: i32) -> Option<Rows> { want_shape(d.len(), r, c).map(|(r, c)| rows_of(d, r, c)) }
fn ref_t(a: &Rows) -> Rows { (0..a[0].len()).map(|j| a.iter().map(|row| row[j]).collect()).collect() }
/// None = the operation must panic
fn ref_op(a: &Rows, op: &Op) -> Option<(Rows, Vec<f64>)> {
    let (nr, nc) = (a.len(), a[0].len());
    let same = |out: Vec<f64>| Some((a.clone(), out));
    match op {
        Op::T | Op::TMut | Op::RowToCol | Op::ColToRow => Some((ref_t(a), vec![])),
        Op::Reshape(r, c) | Op::ReshapeMut(r, c) | Op::ToVecReshape(r, c) => ref_new(&flat(a), *r, *c).map(|m| (m, vec![])),
        Op::ToVecToMatrix => Some((vec![flat(a)], vec![])),
        Op::Hcat(d, r, c) => { let o = ref_new(d, *r, *c)?; if o.len() != nr { return None; }
            Some((a.iter().zip(&o).map(|(x, y)| { let mut x = x.clone(); x.extend(y); x }).collect(), vec![])) }
        Op::Vcat(d, r, c) => { let o = ref_new(d, *r, *c)?; if o[0].len() != nc { return None; }
            let mut m = a.clone(); m.extend(o); Some((m, vec![])) }
        Op::Hrepeat(n) => if *n == 0 { None } else { Some((a.iter().map(|x| { let mut y = vec![]; for _ in 0..*n { y.extend(x); } y }).collect(), vec![])) },
        Op::Vrepeat(n) => if *n == 0 { None } else { let mut m = vec![]; for _ in 0..*n { m.extend(a.clone()); } Some((m, vec![])) },
        Op::GetRow(i) | Op::RowSlice(i) => if *i < nr { same(a[*i].clone()) } else { None },
        Op::GetCol(j) => if *j < nc { same(a.iter().map(|x| x[*j]).collect()) } else { None },
        Op::ApplyRow(i, k) => if *i < nr { let mut m = a.clone(); for x in m[*i].iter_mut() { *x = fun(*k, *x); } Some((m, vec![])) } else { None },
        Op::ApplyCol(j, k) => if *j < nc { let mut m = a.clone(); for x in m.iter_mut() { x[*j] = fun(*k, x[*j]); } Some((m, vec![])) } else { None },
        Op::FlatIdx(k) => if *k < nr * nc { same(vec![a[*k / nc][*k % nc]]) } else { None },
        Op::FlatSet(k, v) => if *k < nr * nc { let mut m = a.clone(); m[*k / nc][*k % nc] = *v; Some((m, vec![])) } else { None },
        Op::Idx(i, j) => if *i < nr && *j < nc { same(vec![a[*i][*j]]) } else { None },
        Op::IdxSet(i, j, v) => if *i < nr && *j < nc { let mut m = a.clone(); m[*i][*j] = *v; Some((m, vec![])) } else { None },
        Op::Diag => same((0..nr.min(nc)).map(|i| a[i][i]).collect()),
    }
}

fn divisors(n: usize) -> Vec<usize> { (1..=n).filter(|d| n % d == 0).collect() }

/// draw an operation for a matrix of the given shape: mostly valid, sometimes malformed
fn draw_op(r: &mut Rng, nr: usize, nc: usize, grow: bool) -> Op {
    let size = nr * nc;
    let bad = r.coin(0.06);
    let val = |r: &mut Rng| r.small_int(99);
    let shape = |r: &mut Rng| -> (i32, i32) {
        if bad { match r.below(6) { 0 => (0, size as i32), 1 => (-1, -1), 2 => (-2, 1), 3 => (nr as i32 + 1, nc as i32), 4 => (-1, size as i32 + 1), _ => (1, -3) } }
        else {
            let ds = divisors(size); let d = *r.pick(&ds);
            match r.below(12) { 0..=4 => (d as i32, (size / d) as i32), 5..=7 => (-1, d as i32), 8..=10 => (d as i32, -1),
                // an inferred dimension that does not divide the size (the non-divisor is in 2..=size+1)
                _ => { let nd = 2 + r.below(size as u64) as usize; if r.coin(0.5) { (-1, nd as i32) } else { (nd as i32, -1) } } }
        }
    };
    loop {
        let k = r.below(NKINDS);
        let op = match k {
            0 => Op::T, 1 => Op::TMut,
            2 => { let (a, b) = shape(r); Op::Reshape(a, b) }
            3 => { let (a, b) = shape(r); Op::ReshapeMut(a, b) }
            4 => { let oc = 1 + r.below(3) as usize; let orr = if bad { nr + 1 } else { nr };
                   let d: Vec<f64> = (0..orr * oc).map(|_| val(r)).collect();
                   let (a, b) = match r.below(3) { 0 => (orr as i32, oc as i32), 1 => (-1, oc as i32), _ => (orr as i32, -1) }; Op::Hcat(d, a, b) }
            5 => { let orr = 1 + r.below(3) as usize; let oc = if bad { nc + 1 } else { nc };
                   let d: Vec<f64> = (0..orr * oc).map(|_| val(r)).collect();
                   let (a, b) = match r.below(3) { 0 => (orr as i32, oc as i32), 1 => (-1, oc as i32), _ => (orr as i32, -1) }; Op::Vcat(d, a, b) }
            6 => Op::Hrepeat(if bad { 0 } else { 1 + r.below(2) as usize }),
            7 => Op::Vrepeat(if bad { 0 } else { 1 + r.below(2) as usize }),
            8 => Op::GetRow(if bad { nr + r.below(2) as usize } else { r.below(nr as u64) as usize }),
            9 => Op::GetCol(if bad { nc + r.below(2) as usize } else { r.below(nc as u64) as usize }),
            10 => Op::ApplyRow(if bad { nr } else { r.below(nr as u64) as usize }, r.below(3) as u8),
            11 => Op::ApplyCol(if bad { nc } else { r.below(nc as u64) as usize }, r.below(3) as u8),
            12 => Op::FlatIdx(if bad { size + r.below(2) as usize } else { r.below(size as u64) as usize }),
            13 => Op::FlatSet(if bad { size } else { r.below(size as u64) as usize }, val(r)),
            14 => Op::Idx(if bad && r.coin(0.5) { nr } else { r.below(nr as u64) as usize }, if bad { nc } else { r.below(nc as u64) as usize }),
            15 => Op::IdxSet(if bad { nr } else { r.below(nr as u64) as usize }, if bad && r.coin(0.5) { nc } else { r.below(nc as u64) as usize }, val(r)),
            16 => Op::RowSlice(if bad { nr } else { r.below(nr as u64) as usize }),
            17 => Op::Diag,
            18 => { let (a, b) = shape(r); Op::ToVecReshape(a, b) }
            19 => Op::ToVecToMatrix, 20 => Op::RowToCol, _ => Op::ColToRow,
        };
        let grows = matches!(op, Op::Hcat(..) | Op::Vcat(..)) || matches!(op, Op::Hrepeat(n) | Op::Vrepeat(n) if n >= 2);
        if grows && !grow { continue; }
        return op;
    }
}

/// draw an operation for a matrix WITHOUT elements (0 x 0, 0 x c or r x 0): mostly requests the code accepts there
/// (the 0 x 0 reshape, concatenation with an empty operand, repetition, the diagonal, an inferred dimension), sometimes
/// one it must refuse (every other zero dimension, a transposition, an index)
fn draw_op_empty(r: &mut Rng, nr: usize, nc: usize) -> Op {
    let likely = r.coin(0.8);
    let val = |r: &mut Rng| r.small_int(99);
    let k = 1 + r.below(3) as i32;
    let shape = |r: &mut Rng| -> (i32, i32) {
        if likely { match r.below(8) { 0..=4 => (0, 0), 5 => (-1, k), 6 => (k, -1), _ => (0, 0) } }
        else { *r.pick(&[(0, k), (k, 0), (1, 1), (-1, -1), (-2, 0), (0, -1), (-1, 0), (0, -2), (k, k), (1, 0), (0, 1)]) }
    };
    match r.below(if likely { 12 } else { NKINDS }) {
        0 => { let (a, b) = shape(r); Op::ReshapeMut(a, b) }
        1 => { let (a, b) = shape(r); Op::Reshape(a, b) }
        2 => { let (a, b) = shape(r); Op::ToVecReshape(a, b) }
        3 => Op::Hrepeat(r.below(4) as usize),
        4 => Op::Vrepeat(r.below(4) as usize),
        5 => Op::Diag,
        6 => { // hcat: an operand with the same number of rows (r x k on r x 0 gives r x k: back to a positive shape)
               if nr == 0 { let (a, b) = *r.pick(&[(0, 0), (0, 0), (-1, k), (k, -1)]); Op::Hcat(vec![], a, b) }
               else { let d: Vec<f64> = (0..nr * k as usize).map(|_| val(r)).collect(); let (a, b) = *r.pick(&[(nr as i32, k), (nr as i32, -1), (-1, k)]); Op::Hcat(d, a, b) } }
        7 => { // vcat: an operand with the same number of columns (k x c under 0 x c gives k x c)
               if nc == 0 { let (a, b) = *r.pick(&[(0, 0), (0, 0), (-1, k), (k, -1)]); Op::Vcat(vec![], a, b) }
               else { let d: Vec<f64> = (0..nc * k as usize).map(|_| val(r)).collect(); let (a, b) = *r.pick(&[(k, nc as i32), (-1, nc as i32), (k, -1)]); Op::Vcat(d, a, b) } }
        8 => Op::GetCol(r.below(nc.max(1) as u64 + 1) as usize),
        9 => Op::RowSlice(r.below(nr.max(1) as u64 + 1) as usize),
        10 => Op::ApplyCol(r.below(nc.max(1) as u64 + 1) as usize, r.below(3) as u8),
        11 => if nr > 0 { Op::TMut } else { Op::GetRow(r.below(2) as usize) },
        12 => Op::T, 13 => Op::TMut, 14 => Op::ApplyRow(r.below(nr.max(1) as u64 + 1) as usize, r.below(3) as u8),
        15 => Op::FlatIdx(r.below(2) as usize), 16 => Op::FlatSet(r.below(2) as usize, val(r)),
        17 => Op::Idx(r.below(nr.max(1) as u64 + 1) as usize, r.below(nc.max(1) as u64 + 1) as usize),
        18 => Op::IdxSet(r.below(nr.max(1) as u64 + 1) as usize, r.below(nc.max(1) as u64 + 1) as usize, val(r)),
        19 => Op::ToVecToMatrix, 20 => Op::RowToCol, _ => Op::ColToRow,
    }
}

fn start_matrix(r: &mut Rng, maxd: u64) -> (Vec<f64>, usize, usize) {
    if r.coin(0.12) {
        // square and symmetric up to the tolerance of `is_symmetric` but NOT exactly: mirrored entries one ulp apart, or an infinite entry facing a
        // finite one (a structural operation must still move every element: "approximately symmetric" is not "equal to its transpose")
        let n = 2 + r.below(maxd.max(3) - 1) as usize;
        let mut d = vec![0.0; n * n];
        for i in 0..n { for j in 0..=i { let v = r.small_int(9) + r.uniform(0.0, 1.0); d[i * n + j] = v; d[j * n + i] = v; } }
        let (i, j) = (r.below(n as u64) as usize, r.below(n as u64) as usize);
        if i != j { d[i * n + j] = if r.coin(0.8) { f64::from_bits(d[j * n + i].to_bits() + 1) } else { f64::INFINITY }; }
        return (d, n, n);
    }
    let (nr, nc) = (1 + r.below(maxd) as usize, 1 + r.below(maxd) as usize);
    let d: Vec<f64> = if r.coin(0.8) { (0..nr * nc).map(|_| r.small_int(99)).collect() } else { (0..nr * nc).map(|_| r.uniform(-4.0, 4.0)).collect() };
    (d, nr, nc)
}

fn state_vec(m: &Matrix) -> Vec<f64> { let mut v = vec![m.nrows as f64, m.ncols as f64]; v.extend_from_slice(&m.data); v }
fn b2f(b: bool) -> Vec<f64> { vec![if b { 1.0 } else { 0.0 }] }
fn axis(k: u64) -> Axis { match k { 0 => Axis::X, 1 => Axis::Y, _ => Axis::Z } }

// ---------------------------------------------------------------------------------------------
pub fn gen(tier: &str, seed: u64, outdir: &str) {
    let mut r = Rng::new(seed);
    let mut cs = Cases::new("C15");
    let thorough = tier == "thorough";
    // 1. lock-step programs: the trace holds, after every step, [nrows, ncols] ++ data ++ output
    let nprog = if thorough { 4000 } else { 260 };
    for p in 0..nprog {
        let (d, nr, nc) = start_matrix(&mut r, 8);
        // the start matrix goes through Matrix::new with an explicit or an inferred dimension
        let (a, b) = match p % 4 { 0 => (-1, nc as i32), 1 => (nr as i32, -1), _ => (nr as i32, nc as i32) };
        let len = 1 + r.below(40) as usize;
        let mut m = Matrix::new(d.clone(), a, b);
        let mut trace = state_vec(&m);
        let mut ops = vec![]; let mut panicked = false; let mut changes = 0;
        for _ in 0..len {
            let op = draw_op(&mut r, m.nrows, m.ncols, m.nrows * m.ncols <= 24);
            ops.push(op.term());
            let res = catch(|| { let mut mm = m.clone(); let out = op.run(&mut mm); (mm, out) });
            match res {
                Ok((mm, out)) => { if op.changes_state() { changes += 1; } m = mm; trace.extend(state_vec(&m)); trace.extend(out); }
                Err(_) => { panicked = true; break; }
            }
        }
        cs.push(app("CProg", vec![fl(&d), Tm::Z(a as i64), Tm::Z(b as i64), Tm::L(ops), fl(&trace), Tm::B(panicked)]),
                if panicked { "program/ends-in-panic" } else { "program/completes" }, changes >= 2);
    }
    // 1b. programs that start from the empty matrix (Matrix::new([], 0, 0) = Matrix::empty()) or from a degenerate
    //     0 x c / r x 0 matrix (Matrix::new([], -1, c) / ([], r, -1)), and may come back to a positive shape through a
    //     concatenation; compared with the model alone (case CProgE)
    let nprog_e = if thorough { 2500 } else { 240 };
    for p in 0..nprog_e {
        let k = 1 + r.below(3) as i32;
        let (a, b) = match p % 5 { 0 | 1 | 2 => (0, 0), 3 => (-1, k), _ => (k, -1) };
        let d: Vec<f64> = vec![];
        let len = 1 + r.below(14) as usize;
        let mut m = Matrix::new(d.clone(), a, b);
        if p % 10 == 0 { m = Matrix::empty(); }
        let mut trace = state_vec(&m);
        let mut ops = vec![]; let mut panicked = false; let mut changes = 0;
        for _ in 0..len {
            let op = if m.nrows * m.ncols == 0 { draw_op_empty(&mut r, m.nrows, m.ncols) } else { draw_op(&mut r, m.nrows, m.ncols, m.nrows * m.ncols <= 24) };
            ops.push(op.term());
            let res = catch(|| { let mut mm = m.clone(); let out = op.run(&mut mm); (mm, out) });
            match res {
                Ok((mm, out)) => { if op.changes_state() { changes += 1; } m = mm; trace.extend(state_vec(&m)); trace.extend(out); }
                Err(_) => { panicked = true; break; }
            }
        }
        let (a, b) = if p % 10 == 0 { (0, 0) } else { (a, b) };
        cs.push(app("CProgE", vec![fl(&d), Tm::Z(a as i64), Tm::Z(b as i64), Tm::L(ops), fl(&trace), Tm::B(panicked)]),
                if panicked { "program-from-empty/ends-in-panic" } else { "program-from-empty/completes" }, changes >= 2);
    }
    // 2. Matrix::new / Vector::reshape on arbitrary (length, rows, cols) incl. impossible shapes
    let nnew = if thorough { 3000 } else { 300 };
    for _ in 0..nnew {
        let len = r.below(13) as usize; let d: Vec<f64> = (0..len).map(|_| r.small_int(9)).collect();
        let (a, b) = (r.range(-2, 7) as i32, r.range(-2, 7) as i32);
        let res = catch(|| state_vec(&Matrix::new(d.clone(), a, b)));
        cs.push(app("CNew", vec![fl(&d), Tm::Z(a as i64), Tm::Z(b as i64), outcome_list(&res)]), if res.is_ok() { "new/value" } else { "new/panic" }, res.is_err() || (a < 0 || b < 0));
    }
    // 3. constructors
    let sizes: Vec<usize> = if thorough { (0..=64).collect() } else { vec![0, 1, 2, 3, 4, 5, 7, 8, 9, 16, 17, 31, 40, 64] };
    for &n in &sizes {
        let res = catch(|| state_vec(&Matrix::eye(n)));
        cs.push(app("CEye", vec![Tm::Nat(n as u64), outcome_list(&res)]), "eye", n >= 2);
        let a: Vec<f64> = (0..n).map(|_| r.uniform(-4.0, 4.0)).collect();
        if n <= 40 || thorough {
            let res = catch(|| diag_matrix(&a).v);
            cs.push(app("CDiagMatrix", vec![fl(&a), outcome_list(&res)]), "diag_matrix", n >= 2);
            let res = catch(|| toeplitz(&a));
            cs.push(app("CToeplitz", vec![fl(&a), outcome_list(&res)]), "toeplitz", n >= 2);
        }
        let k = r.below(9) as usize;
        let res = catch(|| vandermonde(&a, k));
        cs.push(app("CVandermonde", vec![fl(&a), Tm::Nat(k as u64), outcome_list(&res)]), "vandermonde", n >= 2 && k >= 2);
    }
    let nshape = if thorough { 9 } else { 6 };
    for nr in 0..=nshape { for nc in 0..=nshape {
        let res = catch(|| state_vec(&Matrix::zeros(nr, nc)));
        cs.push(app("CZeros", vec![Tm::Nat(nr as u64), Tm::Nat(nc as u64), outcome_list(&res)]), "zeros", nr >= 1 && nc >= 1);
        let res = catch(|| state_vec(&Matrix::ones(nr, nc)));
        cs.push(app("COnes", vec![Tm::Nat(nr as u64), Tm::Nat(nc as u64), outcome_list(&res)]), "ones", nr >= 1 && nc >= 1);
        // design: x is rows x k, row-major; also lengths that are not a multiple of the row count
        if nr >= 1 {
            let extra = if r.coin(0.15) { 1 } else { 0 };
            let x: Vec<f64> = (0..nr * nc + extra).map(|_| r.small_int(9)).collect();
            let res = catch(|| design(&x, nr));
            cs.push(app("CDesign", vec![fl(&x), Tm::Nat(nr as u64), outcome_list(&res)]), "design", nc >= 1);
        }
    }}
    let ngrid = if thorough { 3000 } else { 300 };
    for it in 0..ngrid {
        // linspace: every size 0..=64 over the iterations
        let n = it % 65;
        let (a, b) = if it % 5 == 0 { (r.small_int(9), r.small_int(9)) } else { (r.uniform(-50.0, 50.0), r.uniform(-50.0, 50.0)) };
        let res = catch(|| linspace(a, b, n).v);
        cs.push(app("CLinspace", vec![Tm::F(a), Tm::F(b), Tm::Nat(n as u64), outcome_list(&res)]), "linspace", n >= 2);
        // arange: integer and non-integer ratios, both signs of step, degenerate steps
        let start = if it % 3 == 0 { r.small_int(20) / 8.0 } else { r.uniform(-10.0, 10.0) };
        let step = match it % 11 { 0 => 0.0, 1 => -r.uniform(0.05, 2.0), 2 => f64::NAN, 3 => r.small_int(8) / 8.0, _ => r.uniform(0.05, 2.0) };
        let q = r.below(40) as f64; let frac = *r.pick(&[0.0, 0.0, 0.25, 0.5, 0.75, 0.3, 0.9]);
        let stop = if it % 13 == 0 { start - 1.0 } else { start + step * (q + frac) };
        if !(((stop - start) / step).abs() > 1e6) {
            crate::libm::start();
            let res = catch(|| arange(start, stop, step).v);
            let t = crate::libm::stop();
            cs.push(app("CArange", vec![libm_table(&t), Tm::F(start), Tm::F(stop), Tm::F(step), outcome_list(&res)]), "arange", res.as_ref().map(|v| v.len() >= 2).unwrap_or(false));
        }
        // rotations: angles in +-4pi (and a few special values)
        let ang = match it % 17 { 0 => 0.0, 1 => std::f64::consts::PI, 2 => -0.0, 3 => f64::NAN, 4 => f64::INFINITY, _ => r.uniform(-4.0 * std::f64::consts::PI, 4.0 * std::f64::consts::PI) };
        let ax = (it % 3) as u64; let cw = it % 2 == 0;
        crate::libm::start();
        let res = catch(|| state_vec(&if cw { rotation_matrix_cw(ang, axis(ax)) } else { rotation_matrix_ccw(ang, axis(ax)) }));
        let t = crate::libm::stop();
        cs.push(app("CRot", vec![libm_table(&t), Tm::B(cw), Tm::Nat(ax), Tm::F(ang), outcome_list(&res)]), if cw { "rotation/cw" } else { "rotation/ccw" }, ang != 0.0);
    }
    // 4. slice utilities: transpose / layout conversion / diag / is_square / is_design / is_symmetric on arbitrary lengths
    let nutil = if thorough { 3000 } else { 400 };
    for it in 0..nutil {
        let (nr, nc) = (r.below(7) as usize, 1 + r.below(6) as usize);
        let extra = if r.coin(0.2) { 1 + r.below(2) as usize } else { 0 };
        let a: Vec<f64> = (0..nr * nc + extra).map(|_| r.small_int(9)).collect();
        match it % 4 {
            0 => { let res = catch(|| transpose(&a, nr)); cs.push(app("CTranspose", vec![fl(&a), Tm::Nat(nr as u64), outcome_list(&res)]), "utils/transpose", nr >= 2 && nc >= 2); }
            1 => { let res = catch(|| row_to_col_major(&a, nr).v); cs.push(app("CRowToCol", vec![fl(&a), Tm::Nat(nr as u64), outcome_list(&res)]), "utils/row_to_col_major", nr >= 2 && nc >= 2); }
            2 => { let res = catch(|| col_to_row_major(&a, nr)); cs.push(app("CColToRow", vec![fl(&a), Tm::Nat(nr as u64), outcome_list(&res)]), "utils/col_to_row_major", nr >= 2 && nc >= 2); }
            _ => { let mut b = a.clone(); if nr >= 1 && r.coin(0.7) { for i in 0..nr { if i * nc < b.len() { b[i * nc] = if r.coin(0.9) { 1.0 } else { 1.0 + f64::EPSILON * r.small_int(3) } } } }
                   let res = catch(|| b2f(is_design(&b, nr))); cs.push(app("CIsDesign", vec![fl(&b), Tm::Nat(nr as u64), outcome_list(&res)]), "utils/is_design", nr >= 2); }
        }
        // square-array utilities
        let n = r.below(7) as usize; let len = if r.coin(0.8) { n * n } else { n * n + 1 + r.below(3) as usize };
        let mut s: Vec<f64> = (0..len).map(|_| r.small_int(9)).collect();
        if len == n * n && r.coin(0.7) { for i in 0..n { for j in 0..i { s[i * n + j] = s[j * n + i]; } } if r.coin(0.3) && n >= 2 { s[n] += *r.pick(&[f64::EPSILON, 2.0 * f64::EPSILON, 1.0, f64::NAN]); } }
        let res = catch(|| is_square(&s).map(|k| vec![k as f64]).unwrap_or(vec![-1.0]));
        cs.push(app("CIsSquareU", vec![Tm::Nat(len as u64), outcome_list(&res)]), "utils/is_square", len >= 2);
        let res = catch(|| b2f(is_symmetric(&s)));
        cs.push(app("CIsSymU", vec![fl(&s), outcome_list(&res)]), "utils/is_symmetric", n >= 2);
        let res = catch(|| diag(&s).v);
        cs.push(app("CDiagU", vec![fl(&s), outcome_list(&res)]), "utils/diag", n >= 2);
    }
    for len in 0..=(if thorough { 4200 } else { 300 }) {
        let s = vec![0.0; len];
        let res = catch(|| is_square(&s).map(|k| vec![k as f64]).unwrap_or(vec![-1.0]));
        cs.push(app("CIsSquareU", vec![Tm::Nat(len as u64), outcome_list(&res)]), "utils/is_square", len >= 2);
    }
    // 5. Matrix predicates on every shape, comparisons
    let npred = if thorough { 6000 } else { 700 };
    for it in 0..npred {
        let (nr, nc) = (1 + r.below(8) as usize, 1 + r.below(8) as usize);
        let mut d: Vec<f64> = (0..nr * nc).map(|_| r.small_int(9)).collect();
        let kind = it % 4;
        for i in 0..nr { for j in 0..nc {
            if kind == 1 && j < i && r.coin(0.97) { d[i * nc + j] = if r.coin(0.2) { -0.0 } else { 0.0 }; }
            if kind == 2 && j > i && r.coin(0.97) { d[i * nc + j] = 0.0; }
            if kind == 3 && nr == nc && j < i { d[i * nc + j] = d[j * nc + i] + *r.pick(&[0.0, 0.0, 0.0, 0.0, 0.0, 0.0, f64::EPSILON, 2.0 * f64::EPSILON, -1.0]); }
        }}
        if r.coin(0.03) { let k = r.below((nr * nc) as u64) as usize; d[k] = f64::NAN; }
        let m = Matrix::new(d.clone(), nr as i32, nc as i32);
        let res = catch(|| vec![m.is_square() as u8 as f64, m.is_symmetric() as u8 as f64, m.is_upper_triangular() as u8 as f64, m.is_lower_triangular() as u8 as f64]);
        cs.push(app("CPred", vec![Tm::Nat(nr as u64), Tm::Nat(nc as u64), fl(&d), outcome_list(&res)]), &format!("predicates/{}", ["random", "upper", "lower", "symmetric"][kind]), nr != nc || kind != 0);
        // comparisons
        let n = 1 + r.below(10) as usize;
        let x: Vec<f64> = (0..n).map(|_| match r.below(12) { 0 => 0.0, 1 => -0.0, 2 => f64::NAN, 3 => f64::INFINITY, 4 => 5e-324, _ => r.uniform(-4.0, 4.0) }).collect();
        let tol = *r.pick(&[1e-10, 1e-6, 1e-3, 0.5, 0.0, 3.0]);
        let mode = it % 6;
        let y: Vec<f64> = match mode {
            0 => x.clone(),
            1 => x.iter().map(|v| -v).collect(),
            2 => x.iter().map(|v| v * (1.0 + tol * r.uniform(-1.5, 1.5))).collect(),
            3 => { let mut y = x.clone(); y.push(1.0); y }
            4 => x.iter().map(|v| v + f64::EPSILON * r.small_int(2)).collect(),
            _ => x.iter().map(|v| if r.coin(0.3) { 0.0 } else { *v }).collect(),
        };
        let (vx, vy) = (Vector::new(x.clone()), Vector::new(y.clone()));
        let res = catch(|| vec![vx.close_to(&vy, tol) as u8 as f64, (vx == vy) as u8 as f64]);
        cs.push(app("CCmpV", vec![fl(&x), fl(&y), Tm::F(tol), outcome_list(&res)]), &format!("compare/vector/mode{}", mode), mode != 0);
        if x.len() == y.len() {
            let ds = divisors(n); let (r1, r2) = (*r.pick(&ds), *r.pick(&ds));
            let (mx, my) = (Matrix::new(x.clone(), r1 as i32, -1), Matrix::new(y.clone(), r2 as i32, -1));
            let res = catch(|| vec![mx.close_to(&my, tol) as u8 as f64, (mx == my) as u8 as f64]);
            cs.push(app("CCmpM", vec![Tm::Nat(r1 as u64), Tm::Nat(r2 as u64), fl(&x), fl(&y), Tm::F(tol), outcome_list(&res)]), &format!("compare/matrix/mode{}", mode), r1 != r2 || mode != 0);
        }
    }
    // 6. coverage audit: the same widened points as the oracle's audit section, against the model
    //    a. programs with concatenation / repetition of matrices up to 64 elements, special values, requests at the edge of i32, first / last indices
    let nprog_a = if thorough { 800 } else { 60 };
    for p in 0..nprog_a {
        let (mut d, nr, nc) = start_matrix(&mut r, 8);
        if p % 3 == 0 { for x in d.iter_mut() { if r.coin(0.3) { *x = special(&mut r); } } }
        let (a, b) = match p % 4 { 0 => (-1, nc as i32), 1 => (nr as i32, -1), _ => (nr as i32, nc as i32) };
        let len = 1 + r.below(40) as usize;
        let mut m = Matrix::new(d.clone(), a, b);
        let mut trace = state_vec(&m);
        let mut ops = vec![]; let mut panicked = false; let mut changes = 0;
        for _ in 0..len {
            let op = draw_op_audit(&mut r, m.nrows, m.ncols, true);
            ops.push(op.term());
            let res = catch(|| { let mut mm = m.clone(); let out = op.run(&mut mm); (mm, out) });
            match res {
                Ok((mm, out)) => { if op.changes_state() { changes += 1; } m = mm; trace.extend(state_vec(&m)); trace.extend(out); }
                Err(_) => { panicked = true; break; }
            }
        }
        cs.push(app("CProg", vec![fl(&d), Tm::Z(a as i64), Tm::Z(b as i64), Tm::L(ops), fl(&trace), Tm::B(panicked)]),
                if panicked { "program-wide/ends-in-panic" } else { "program-wide/completes" }, changes >= 2);
    }
    //    b. Matrix::new with dimensions whose product is the length only modulo 2^32, and at the edge of i32
    for len in 1..=(if thorough { 64usize } else { 24 }) {
        let d: Vec<f64> = (0..len).map(|_| r.small_int(9)).collect();
        let mut shapes = vec![(i32::MAX, i32::MAX), (i32::MIN, 1), (1, i32::MIN), (65536, 65536)];
        for skip in 0..2 { if let Some(s) = wrapping_shape(len, skip) { shapes.push(s); shapes.push((s.1, s.0)); } }
        for (a, b) in shapes {
            let res = catch(|| state_vec(&Matrix::new(d.clone(), a, b)));
            cs.push(app("CNew", vec![fl(&d), Tm::Z(a as i64), Tm::Z(b as i64), outcome_list(&res)]), if res.is_ok() { "new-edge/value" } else { "new-edge/panic" }, true);
        }
    }
    //    c. constructors at the largest stated size
    for (n, k) in [(64usize, 64usize), (33, 33), (64, 0), (1, 64)] {
        let a: Vec<f64> = (0..n).map(|_| if k > 40 { r.small_int(2) } else { r.uniform(-2.0, 2.0) }).collect();
        let res = catch(|| vandermonde(&a, k));
        cs.push(app("CVandermonde", vec![fl(&a), Tm::Nat(k as u64), outcome_list(&res)]), "vandermonde", true);
    }
    for (nr, nc) in [(64usize, 64usize), (1, 64), (64, 1), (33, 17)] {
        let res = catch(|| state_vec(&Matrix::zeros(nr, nc)));
        cs.push(app("CZeros", vec![Tm::Nat(nr as u64), Tm::Nat(nc as u64), outcome_list(&res)]), "zeros", true);
        let res = catch(|| state_vec(&Matrix::ones(nr, nc)));
        cs.push(app("COnes", vec![Tm::Nat(nr as u64), Tm::Nat(nc as u64), outcome_list(&res)]), "ones", true);
        let x: Vec<f64> = (0..nr * nc).map(|_| r.small_int(9)).collect();
        let res = catch(|| design(&x, nr));
        cs.push(app("CDesign", vec![fl(&x), Tm::Nat(nr as u64), outcome_list(&res)]), "design", true);
    }
    //    d. grids at other magnitudes, ratios next to an integer, a step pointing away from stop; rotations at the multiples of pi/4 and the end points of +-4 pi
    let ngrid_a = if thorough { 600 } else { 60 };
    for it in 0..ngrid_a {
        let n = 1 + (it * 7) % 64;
        let sc = *r.pick(&[1e-3, 1e3, 1e6, 1e12, 1e100, 1e150]);
        let (a, b) = match it % 4 { 0 => { let a = r.uniform(-1.0, 1.0) * sc; (a, a) } 1 => (sc, -sc), _ => (r.uniform(-1.0, 1.0) * sc, r.uniform(-1.0, 1.0) * sc) };
        let res = catch(|| linspace(a, b, n).v);
        cs.push(app("CLinspace", vec![Tm::F(a), Tm::F(b), Tm::Nat(n as u64), outcome_list(&res)]), "linspace", n >= 2);
        let (start, step) = if it % 2 == 0 { (r.uniform(-10.0, 10.0), r.uniform(0.05, 2.0)) } else { (r.small_int(40) * 1048576.0, (1.0 + r.below(16) as f64) / 8.0) };
        let step = if it % 3 == 0 { -step } else { step };
        let q = r.below(65) as f64; let frac = *r.pick(&[0.0, 1e-6, 1e-3, 0.999, 1.0 - 1e-6, -0.5, -3.0]);
        let stop = start + step * (if frac < 0.0 { frac } else { q + frac });
        crate::libm::start();
        let res = catch(|| arange(start, stop, step).v);
        let t = crate::libm::stop();
        cs.push(app("CArange", vec![libm_table(&t), Tm::F(start), Tm::F(stop), Tm::F(step), outcome_list(&res)]), "arange", res.as_ref().map(|v| v.len() >= 2).unwrap_or(false));
    }
    let pi = std::f64::consts::PI;
    let mut angles = vec![4.0 * pi, -4.0 * pi, f64::from_bits((4.0 * pi).to_bits() - 1), 5e-324, -1e-17];
    for k in -8i32..=8 { angles.push(k as f64 * pi / 4.0); }
    for (it, &ang) in angles.iter().enumerate() { for ax in 0..3u64 {
        let cw = (it + ax as usize) % 2 == 0;
        crate::libm::start();
        let res = catch(|| state_vec(&if cw { rotation_matrix_cw(ang, axis(ax)) } else { rotation_matrix_ccw(ang, axis(ax)) }));
        let t = crate::libm::stop();
        cs.push(app("CRot", vec![libm_table(&t), Tm::B(cw), Tm::Nat(ax), Tm::F(ang), outcome_list(&res)]), if cw { "rotation/cw" } else { "rotation/ccw" }, ang != 0.0);
    }}
    //    e. comparisons: infinite entries facing their negation, tolerances up to 2, zeros and subnormals
    let ncmp_a = if thorough { 1500 } else { 150 };
    for it in 0..ncmp_a {
        let n = 1 + r.below(4) as usize;
        let tol = *r.pick(&[1e-10, 0.5, 1.0, 1.5, 1.999, 2.0, 2.5, f64::INFINITY]);
        let x: Vec<f64> = (0..n).map(|_| match r.below(8) { 0 => f64::INFINITY, 1 => f64::NEG_INFINITY, 2 => 0.0, 3 => 5e-324, 4 => 1.7976931348623157e308, 5 => -1.7976931348623157e308, _ => r.uniform(-4.0, 4.0) * *r.pick(&[1e-300, 1.0, 1e300]) }).collect();
        let y: Vec<f64> = match it % 3 { 0 => x.iter().map(|v| -v).collect(), 1 => x.clone(), _ => x.iter().map(|v| if v.is_infinite() && r.coin(0.5) { 1.0 } else { v * (1.0 + 0.9 * tol.min(4.0) * r.uniform(-1.2, 1.2)) }).collect() };
        let (vx, vy) = (Vector::new(x.clone()), Vector::new(y.clone()));
        let res = catch(|| vec![vx.close_to(&vy, tol) as u8 as f64, (vx == vy) as u8 as f64]);
        cs.push(app("CCmpV", vec![fl(&x), fl(&y), Tm::F(tol), outcome_list(&res)]), &format!("compare/vector-audit/mode{}", it % 3), true);
        let ds = divisors(n); let (r1, r2) = (*r.pick(&ds), *r.pick(&ds));
        let (mx, my) = (Matrix::new(x.clone(), r1 as i32, -1), Matrix::new(y.clone(), r2 as i32, -1));
        let res = catch(|| vec![mx.close_to(&my, tol) as u8 as f64, (mx == my) as u8 as f64]);
        cs.push(app("CCmpM", vec![Tm::Nat(r1 as u64), Tm::Nat(r2 as u64), fl(&x), fl(&y), Tm::F(tol), outcome_list(&res)]), &format!("compare/matrix-audit/mode{}", it % 3), true);
    }
    cs.write(outdir, 60,
             "lock-step programs of 1..40 structural operations (22 kinds, ~6% malformed arguments, inferred and explicit dimensions) over 1..8 x 1..8 start matrices, the whole state compared after every step; Matrix::new on arbitrary lengths/dimensions; eye/diag_matrix/toeplitz/vandermonde over sizes 0..64, zeros/ones/design over all small shapes, linspace sizes 0..64, arange with integer and non-integer ratios and both step signs, rotations about all three axes for angles in +-4pi and special values (libm table recorded); slice utilities on arbitrary lengths; predicates over all shapes 1..8 x 1..8 (triangular/symmetric/perturbed/NaN), vector and matrix comparisons (equal, negated, perturbed, zeros, different lengths/shapes); audit section: programs with concatenation / repetition of matrices up to 64 elements (operands 1..8, 1..4 copies), NaN / inf / -0 / subnormal / largest finite elements, requests at the edge of i32 and products equal to the size only modulo 2^32 (also through Matrix::new), first / last indices; vandermonde 64 x 64, zeros / ones / design 64 x 64; grids at magnitudes 1e-3..1e150, arange ratios within 1e-6 of an integer, steps pointing away from stop, up to 65 points; rotations at the multiples of pi/4 and at +-4 pi; comparisons with infinite entries, tolerances up to 2 and beyond. Non-trivial: a program with >= 2 state-changing steps; a constructor of size >= 2; a predicate on a non-square or structured matrix; a comparison of non-identical operands; distinct by hash of the case term");
}

// ---------------------------------------------------------------------------------------------
// failure-search oracle
fn push(out: &mut Vec<Finding>, class: &str, what: String, input: String) { out.push(Finding { class: class.into(), what, input }); }

pub fn oracle(tier: &str, seed: u64) -> (u64, Vec<Finding>) {
    let mut r = Rng::new(seed ^ 0xC15);
    let mut out = vec![]; let mut tried = 0u64;
    let thorough = tier == "thorough";
    // ---- programs in lock-step with the rows-of-rows reference
    let nprog = if thorough { 20000 } else { 2500 };
    'prog: for p in 0..nprog {
        let (d, nr, nc) = start_matrix(&mut r, 8);
        let (a, b) = match p % 4 { 0 => (-1, nc as i32), 1 => (nr as i32, -1), _ => (nr as i32, nc as i32) };
        let mut m = Matrix::new(d.clone(), a, b);
        let mut rf = rows_of(&d, nr, nc);
        let len = 1 + r.below(40) as usize;
        let mut hist = format!("Matrix::new({}, {}, {})", json_floats(&d), a, b);
        for _ in 0..len {
            let op = draw_op(&mut r, rf.len(), rf[0].len(), rf.len() * rf[0].len() <= 24);
            hist.push_str(&format!(" ; {:?}", op));
            let want = ref_op(&rf, &op);
            crumb(&hist);
            let got = catch(|| { let mut mm = m.clone(); let o = op.run(&mut mm); (mm, o) });
            tried += 1;
            match (want, got) {
                (None, Err(_)) => continue 'prog,
                (None, Ok((mm, _))) => { push(&mut out, &format!("program:impossible-request-accepted op={}", op.name()),
                    format!("{} must panic on a {}x{} matrix but returned; state is now nrows={} ncols={} len={}", op.name(), rf.len(), rf[0].len(), mm.nrows, mm.ncols, mm.data.len()), hist.clone()); continue 'prog; }
                (Some(_), Err(e)) => { push(&mut out, &format!("program:valid-operation-panics op={}", op.name()), format!("{} panicked ({}) on a {}x{} matrix", op.name(), e, rf.len(), rf[0].len()), hist.clone()); continue 'prog; }
                (Some((nrf, wout)), Ok((mm, gout))) => {
                    if mm.nrows * mm.ncols != mm.data.len() { push(&mut out, &format!("program:invariant-broken op={}", op.name()), format!("nrows*ncols = {}*{} != len {}", mm.nrows, mm.ncols, mm.data.len()), hist.clone()); continue 'prog; }
                    let same = |x: &[f64], y: &[f64]| x.len() == y.len() && x.iter().zip(y).all(|(a, b)| a.to_bits() == b.to_bits());
                    if mm.nrows != nrf.len() || mm.ncols != nrf[0].len() || !same(&mm.data, &flat(&nrf)) {
                        push(&mut out, &format!("program:wrong-elements op={}", op.name()), format!("after {}: implementation {}x{} {:?}, reference {}x{} {:?}", op.name(), mm.nrows, mm.ncols, mm.data.v, nrf.len(), nrf[0].len(), flat(&nrf)), hist.clone()); continue 'prog; }
                    if !same(&gout, &wout) { push(&mut out, &format!("program:wrong-output op={}", op.name()), format!("{} returned {:?}, reference {:?}", op.name(), gout, wout), hist.clone()); continue 'prog; }
                    m = mm; rf = nrf;
                }
            }
        }
        if out.len() > 60 { break; }
    }
    // ---- constructors
    let maxn = 64usize;
    for n in 1..=maxn {
        tried += 1;
        crumb(&format!("eye({})", n));
        match catch(|| Matrix::eye(n)) { Ok(m) => { let ok = m.nrows == n && m.ncols == n && m.data.len() == n * n && (0..n * n).all(|k| m.data[k] == if k / n == k % n { 1.0 } else { 0.0 });
            if !ok { push(&mut out, "eye:wrong", format!("eye({}) is not the identity", n), format!("n={}", n)); } } Err(e) => push(&mut out, "eye:panics", e, format!("n={}", n)) }
        let a: Vec<f64> = (0..n).map(|_| r.uniform(-4.0, 4.0)).collect();
        tried += 2;
        crumb(&format!("diag_matrix / toeplitz of {}", json_floats(&a)));
        match catch(|| diag_matrix(&a)) { Ok(v) => if !(v.len() == n * n && (0..n * n).all(|k| v[k] == if k / n == k % n { a[k / n] } else { 0.0 })) { push(&mut out, "diag_matrix:wrong", "not diag(a)".into(), json_floats(&a)); } Err(e) => push(&mut out, "diag_matrix:panics", e, json_floats(&a)) }
        match catch(|| toeplitz(&a)) { Ok(v) => if !(v.len() == n * n && (0..n * n).all(|k| v[k] == a[(k / n).max(k % n) - (k / n).min(k % n)])) { push(&mut out, "toeplitz:wrong", "entry (i,j) != x[|i-j|]".into(), json_floats(&a)); } Err(e) => push(&mut out, "toeplitz:panics", e, json_floats(&a)) }
        // vandermonde on small integers (all powers exact)
        let k = 1 + r.below(12) as usize; let x: Vec<f64> = (0..n.min(20)).map(|_| r.small_int(3)).collect();
        tried += 1;
        crumb(&format!("vandermonde({}, {})", json_floats(&x), k));
        match catch(|| vandermonde(&x, k)) { Ok(v) => { let mut ok = v.len() == x.len() * k; if ok { for i in 0..x.len() { let mut p = 1.0; for j in 0..k { if v[i * k + j] != p { ok = false; } p *= x[i]; } } }
            if !ok { push(&mut out, "vandermonde:wrong", format!("entry (i,j) != x_i^j, order {}", k), json_floats(&x)); } } Err(e) => push(&mut out, "vandermonde:panics", e, json_floats(&x)) }
        // zeros / ones / design
        let (nr, nc) = (1 + r.below(64) as usize, 1 + r.below(8) as usize);
        tried += 3;
        crumb(&format!("zeros/ones({}, {})", nr, nc));
        for (name, val) in [("zeros", 0.0), ("ones", 1.0)] {
            match catch(|| if val == 0.0 { Matrix::zeros(nr, nc) } else { Matrix::ones(nr, nc) }) { Ok(m) => if !(m.nrows == nr && m.ncols == nc && m.data.len() == nr * nc && m.data.iter().all(|x| *x == val)) { push(&mut out, &format!("{}:wrong", name), "wrong shape or fill".into(), format!("{}x{}", nr, nc)); } Err(e) => push(&mut out, &format!("{}:panics", name), e, format!("{}x{}", nr, nc)) }
        }
        let nr = 1 + r.below(n.min(12) as u64) as usize; let nc = 1 + r.below(4) as usize;
        let mut x: Vec<f64> = (0..nr * nc).map(|_| r.small_int(50)).collect();
        if r.coin(0.35) { for i in 0..nr { x[i * nc] = 1.0; } }   // x already starts with a column of ones: a column is prepended all the same
        crumb(&format!("design(x={}, rows={})", json_floats(&x), nr));
        match catch(|| design(&x, nr)) { Ok(v) => { let w = nc + 1; let ok = v.len() == nr * w && (0..nr).all(|i| v[i * w] == 1.0 && (0..nc).all(|j| v[i * w + 1 + j] == x[i * nc + j]));
            if !ok { push(&mut out, "design:not-ones-column-then-x", format!("design of a {}x{} row-major matrix returned {:?}; want each row = 1 followed by the row of x", nr, nc, v), format!("x={} rows={}", json_floats(&x), nr)); }
            else if !is_design(&v, nr) { push(&mut out, "design:is_design-false", "is_design(design(x)) is false".into(), json_floats(&x)); } }
            Err(e) => push(&mut out, "design:panics", e, format!("x={} rows={}", json_floats(&x), nr)) }
    }
    // ---- grids
    let ngrid = if thorough { 40000 } else { 4000 };
    for it in 0..ngrid {
        let n = 1 + (it % 64);
        let (a, b) = if it % 5 == 0 { (r.small_int(9), r.small_int(9)) } else { (r.uniform(-50.0, 50.0), r.uniform(-50.0, 50.0)) };
        tried += 1;
        let inp = format!("linspace({:e}, {:e}, {})", a, b, n);
        crumb(&inp);
        match catch(|| linspace(a, b, n).v) {
            Ok(v) => {
                let scale = 1e-12 * (a.abs() + b.abs() + 1.0);
                if v.len() != n { push(&mut out, "linspace:wrong-count", format!("{} points", v.len()), inp); }
                else if n == 1 { if !(v[0] == a) { push(&mut out, "linspace:single-point-not-start", format!("returned {:?}; a one-point grid is [start]", v), inp); } }
                else if v[0] != a || (v[n - 1] - b).abs() > scale { push(&mut out, "linspace:endpoints", format!("first {:e}, last {:e}", v[0], v[n - 1]), inp); }
                else if !(0..n).all(|i| (v[i] - (a + (b - a) * i as f64 / (n - 1) as f64)).abs() <= scale) { push(&mut out, "linspace:spacing", "points are not evenly spaced".into(), inp); }
            }
            Err(e) => push(&mut out, "linspace:panics", e, inp),
        }
        // arange: start/step/stop chosen so that the exact ratio (stop-start)/step = q + frac is known
        let dyadic = it % 2 == 0;
        let neg = it % 7 == 0;
        let q = r.below(60) as f64;
        let (start, step, frac) = if dyadic { (r.small_int(40) / 8.0, (1.0 + r.below(16) as f64) / 8.0, *r.pick(&[0.0, 0.25, 0.5, 0.75])) }
                                  else { (r.uniform(-10.0, 10.0), r.uniform(0.05, 2.0), r.uniform(0.2, 0.8)) };
        let step = if neg { -step } else { step };
        let stop = start + step * (q + frac);
        let want = q as usize + if frac > 0.0 { 1 } else { 0 };
        tried += 1;
        let inp = format!("arange({:e}, {:e}, {:e})", start, stop, step);
        crumb(&inp);
        match catch(|| arange(start, stop, step).v) {
            Ok(v) => {
                let scale = 1e-12 * (start.abs() + stop.abs() + 1.0);
                if v.len() != want { push(&mut out, if v.len() + 1 == want { "arange:drops-last-grid-point" } else { "arange:wrong-count" }, format!("{} points; (stop-start)/step = {} so the half-open grid has {} points", v.len(), q + frac, want), inp); }
                else if !(0..want).all(|i| (v[i] - (start + i as f64 * step)).abs() <= scale && (if neg { v[i] > stop } else { v[i] < stop })) { push(&mut out, "arange:wrong-points", "a point is off the grid or not inside [start, stop)".into(), inp); }
            }
            Err(e) => push(&mut out, "arange:panics", e, inp),
        }
        // rotations
        let ang = r.uniform(-4.0 * std::f64::consts::PI, 4.0 * std::f64::consts::PI);
        for ax in 0..3u64 {
            tried += 1;
            let inp = format!("angle={:e} axis={}", ang, ["X", "Y", "Z"][ax as usize]);
            crumb(&format!("rotation_matrix_cw/ccw {}", inp));
            match catch(|| (rotation_matrix_cw(ang, axis(ax)), rotation_matrix_ccw(ang, axis(ax)))) {
                Ok((cw, ccw)) => {
                    for (nm, m) in [("cw", &cw), ("ccw", &ccw)] {
                        if m.nrows != 3 || m.ncols != 3 || m.data.len() != 9 { push(&mut out, "rotation:shape", format!("{} not 3x3", nm), inp.clone()); continue; }
                        let g = |i: usize, j: usize| m.data[i * 3 + j];
                        let mut orth = true;
                        for i in 0..3 { for j in 0..3 { let s: f64 = (0..3).map(|k| g(k, i) * g(k, j)).sum(); if (s - if i == j { 1.0 } else { 0.0 }).abs() > 1e-12 { orth = false; } } }
                        let det = g(0, 0) * (g(1, 1) * g(2, 2) - g(1, 2) * g(2, 1)) - g(0, 1) * (g(1, 0) * g(2, 2) - g(1, 2) * g(2, 0)) + g(0, 2) * (g(1, 0) * g(2, 1) - g(1, 1) * g(2, 0));
                        if !orth { push(&mut out, "rotation:not-orthogonal", format!("{}: R^T R != I", nm), inp.clone()); }
                        if (det - 1.0).abs() > 1e-12 { push(&mut out, "rotation:determinant", format!("{}: det = {:e}", nm, det), inp.clone()); }
                    }
                    if cw.data.len() == 9 && ccw.data.len() == 9 && !(0..3).all(|i| (0..3).all(|j| cw.data[i * 3 + j] == ccw.data[j * 3 + i])) { push(&mut out, "rotation:cw-not-ccw-transposed", "cw != ccw^T".into(), inp.clone()); }
                    // the defining pattern: counter-clockwise = the right-handed rotation about the named axis (it leaves the axis fixed and turns the
                    // next axis towards the one after it: X: y->z, Y: z->x, Z: x->y), clockwise = its transpose
                    if ccw.data.len() == 9 {
                        let (c, sn) = (ang.cos(), ang.sin());
                        let want: [f64; 9] = match ax { 0 => [1.0, 0.0, 0.0, 0.0, c, -sn, 0.0, sn, c], 1 => [c, 0.0, sn, 0.0, 1.0, 0.0, -sn, 0.0, c], _ => [c, -sn, 0.0, sn, c, 0.0, 0.0, 0.0, 1.0] };
                        if let Some(k) = (0..9).find(|&k| (ccw.data[k] - want[k]).abs() > 1e-12) {
                            push(&mut out, "rotation:not-the-defining-pattern", format!("counter-clockwise rotation: entry ({},{}) = {:e}, the right-handed rotation about this axis has {:e}", k / 3, k % 3, ccw.data[k], want[k]), inp.clone());
                        }
                    }
                }
                Err(e) => push(&mut out, "rotation:panics", e, inp),
            }
        }
        if out.len() > 120 { break; }
    }
    // ---- predicates, every shape
    let npred = if thorough { 40000 } else { 5000 };
    for it in 0..npred {
        let (nr, nc) = (1 + r.below(8) as usize, 1 + r.below(8) as usize);
        let mut d: Vec<f64> = (0..nr * nc).map(|_| 1.0 + r.below(9) as f64).collect();
        let kind = it % 4;
        for i in 0..nr { for j in 0..nc {
            if kind == 1 && j < i && r.coin(0.98) { d[i * nc + j] = 0.0; }
            if kind == 2 && j > i && r.coin(0.98) { d[i * nc + j] = 0.0; }
            if kind == 3 && nr == nc && j < i { d[i * nc + j] = d[j * nc + i] + if r.coin(0.05) { 1.0 } else { 0.0 }; }
        }}
        let m = Matrix::new(d.clone(), nr as i32, nc as i32);
        let e = |i: usize, j: usize| d[i * nc + j];
        let inp = format!("{}x{} {}", nr, nc, json_floats(&d));
        crumb(&format!("predicates / slice utilities on {}", inp));
        tried += 4;
        let up = (0..nr).all(|i| (0..nc).all(|j| j >= i || e(i, j) == 0.0));
        let lo = (0..nr).all(|i| (0..nc).all(|j| j <= i || e(i, j) == 0.0));
        let sym = nr == nc && (0..nr).all(|i| (0..nc).all(|j| (e(i, j) - e(j, i)).abs() <= f64::EPSILON * e(i, j).abs().max(e(j, i).abs()))); // the documented (relative) tolerance
        for (name, want, got) in [("is_upper_triangular", up, catch(|| m.is_upper_triangular())), ("is_lower_triangular", lo, catch(|| m.is_lower_triangular())),
                                  ("is_symmetric", sym, catch(|| m.is_symmetric())), ("is_square", nr == nc, catch(|| m.is_square()))] {
            match got { Ok(g) => if g != want { push(&mut out, &format!("{}:wrong", name), format!("returned {}, definition gives {}", g, want), inp.clone()); }
                        Err(er) => push(&mut out, &format!("{}:panics", name), format!("panicked ({}) on a {}x{} matrix; definition gives {}", er, nr, nc, want), inp.clone()) }
        }
        // slice utilities
        tried += 3;
        match catch(|| is_design(&d, nr)) { Ok(g) => { let w = (0..nr).all(|i| (e(i, 0) - 1.0).abs() <= f64::EPSILON); if g != w { push(&mut out, "is_design:wrong", format!("returned {}, definition gives {}", g, w), inp.clone()); } } Err(er) => push(&mut out, "is_design:panics", er, inp.clone()) }
        match catch(|| is_square(&d)) { Ok(g) => { let s = (0..=64usize).find(|s| s * s == nr * nc); if g.clone().ok() != s { push(&mut out, "utils::is_square:wrong", format!("returned {:?} for length {}", g, nr * nc), inp.clone()); } } Err(er) => push(&mut out, "utils::is_square:panics", er, inp.clone()) }
        if nr == nc { tried += 2;
            match catch(|| diag(&d).v) { Ok(g) => if g != (0..nr).map(|i| e(i, i)).collect::<Vec<_>>() { push(&mut out, "utils::diag:wrong", format!("{:?}", g), inp.clone()); } Err(er) => push(&mut out, "utils::diag:panics", er, inp.clone()) }
            match catch(|| is_symmetric(&d)) { Ok(g) => if g != sym { push(&mut out, "utils::is_symmetric:wrong", format!("returned {}", g), inp.clone()); } Err(er) => push(&mut out, "utils::is_symmetric:panics", er, inp.clone()) }
        }
        // comparisons
        let n = 1 + r.below(8) as usize;
        // magnitudes at every scale (the comparison is relative: tiny and huge nonzero values of opposite sign must not be equated either)
        let x: Vec<f64> = (0..n).map(|_| { let sc = *r.pick(&[1e-300, 1e-200, 1e-100, 1e-30, 1e-17, 1e-16, 1e-10, 1e-3, 1.0, 1.0, 1.0, 1.0, 1e3, 1e10, 1e100, 1e300]); let v = r.uniform(0.1, 4.0) * sc; if r.coin(0.5) { v } else { -v } }).collect();
        let tol = *r.pick(&[1e-10, 1e-6, 1e-3, 0.5]);
        let (vx, neg) = (Vector::new(x.clone()), Vector::new(x.iter().map(|v| -v).collect::<Vec<_>>()));
        let near = Vector::new(x.iter().map(|v| v * (1.0 + 0.25 * tol)).collect::<Vec<_>>());
        let far = Vector::new(x.iter().enumerate().map(|(i, v)| if i == n - 1 { v * (1.0 + 4.0 * tol) } else { *v }).collect::<Vec<_>>());
        let mut longer = x.clone(); longer.push(1.0);
        let inp = format!("x={} tol={:e}", json_floats(&x), tol);
        crumb(&format!("close_to / == with {}", inp));
        tried += 8;
        let t = |name: &str, want: bool, got: Result<bool, String>, out: &mut Vec<Finding>, class: &str| match got {
            Ok(g) => if g != want { push(out, class, format!("{} returned {}, definition gives {}", name, g, want), inp.clone()); }
            Err(er) => push(out, &format!("{}:panics", name), er, inp.clone()) };
        t("close_to(x, -x, tol)", false, catch(|| vx.close_to(&neg, tol)), &mut out, "close_to:opposite-signs-equated");
        t("close_to(x, x, tol)", true, catch(|| vx.close_to(&vx.clone(), tol)), &mut out, "close_to:wrong");
        t("close_to(x, x(1+tol/4), tol)", true, catch(|| vx.close_to(&near, tol)), &mut out, "close_to:wrong");
        t("close_to(x, x with one entry scaled by 1+4tol, tol)", false, catch(|| vx.close_to(&far, tol)), &mut out, "close_to:wrong");
        t("close_to(x, x ++ [1], tol)", false, catch(|| vx.close_to(&Vector::new(longer.clone()), tol)), &mut out, "close_to:wrong");
        // `==` is DEFINED with the absolute tolerance f64::EPSILON: two values both below it in magnitude are equal by that definition whatever
        // their signs, so the sign clause is tested where the definition itself separates x from -x (some |x_i| > EPSILON/2)
        if x.iter().any(|v| v.abs() > f64::EPSILON) {
            t("x == -x", false, catch(|| vx == neg), &mut out, "eq:opposite-signs-equated");
        }
        t("x == x", true, catch(|| vx == vx.clone()), &mut out, "eq:wrong");
        t("x == x ++ [1]", false, catch(|| vx == Vector::new(longer.clone())), &mut out, "eq:wrong");
        let ds = divisors(n);
        if ds.len() >= 2 { tried += 4;
            let (m1, m2) = (Matrix::new(x.clone(), 1, -1), Matrix::new(x.clone(), n as i32, -1));
            let mneg = Matrix::new(neg.v.clone(), 1, -1);
            t("Matrix 1xn == nx1 (same data)", false, catch(|| m1 == m2), &mut out, "eq:shapes-ignored");
            t("Matrix 1xn close_to nx1 (same data)", false, catch(|| m1.close_to(&m2, tol)), &mut out, "close_to:shapes-ignored");
            t("Matrix close_to(m, -m, tol)", false, catch(|| m1.close_to(&mneg, tol)), &mut out, "close_to:opposite-signs-equated");
            t("Matrix m == m", true, catch(|| m1 == m1.clone()), &mut out, "eq:wrong");
        }
        if out.len() > 200 { break; }
    }
    // ---- coverage audit: the ranges the quantifier names that the searches above stop short of (own generator: the points above are unchanged)
    tried += oracle_audit(thorough, seed, &mut out);
    (tried, out)
}

// ---------------------------------------------------------------------------------------------
// coverage audit (added after the C02 far-tail lesson): evaluation points only, same demands
/// positive i32 dimensions (r, c) whose product is `size` modulo 2^32 but not `size`: an impossible shape whatever the integer width
fn wrapping_shape(size: usize, skip: u64) -> Option<(i32, i32)> {
    let mut seen = 0;
    for r in 3u64..20000 { for k in 1..=(r / 2) {
        let t = size as u64 + (k << 32);
        if t % r == 0 { let c = t / r; if c < (1u64 << 31) && c > 0 { if seen == skip { return Some((r as i32, c as i32)); } seen += 1; } }
    }}
    None
}
fn special(r: &mut Rng) -> f64 { *r.pick(&[f64::NAN, f64::INFINITY, f64::NEG_INFINITY, -0.0, 0.0, 5e-324, -5e-324, 2.2250738585072014e-308, 1.7976931348623157e308, -1.7976931348623157e308, 1e-300, 1e300]) }

/// the audit's operation draw: concatenation / repetition of matrices up to 64 elements with operands 1..8 wide / high and 1..4 copies, special values,
/// impossible requests at the edge of i32 (incl. products that are the size only modulo 2^32), first / last index of every accessor; otherwise `draw_op`
fn draw_op_audit(r: &mut Rng, cr: usize, cc: usize, for_model: bool) -> Op {
    let size = cr * cc;
    match r.below(16) {
                0 if size <= 64 => { let oc = 1 + r.below(8) as usize; let dd: Vec<f64> = (0..cr * oc).map(|_| if r.coin(0.1) { special(r) } else { r.small_int(99) }).collect();
                                     let (x, y) = match r.below(3) { 0 => (cr as i32, oc as i32), 1 => (-1, oc as i32), _ => (cr as i32, -1) }; Op::Hcat(dd, x, y) }
                1 if size <= 64 => { let orr = 1 + r.below(8) as usize; let dd: Vec<f64> = (0..orr * cc).map(|_| if r.coin(0.1) { special(r) } else { r.small_int(99) }).collect();
                                     let (x, y) = match r.below(3) { 0 => (orr as i32, cc as i32), 1 => (-1, cc as i32), _ => (orr as i32, -1) }; Op::Vcat(dd, x, y) }
                2 if size <= 64 => Op::Hrepeat(1 + r.below(4) as usize),
                3 if size <= 64 => Op::Vrepeat(1 + r.below(4) as usize),
                4 => Op::FlatSet(r.below(size as u64) as usize, special(r)),
                5 => Op::IdxSet(r.below(cr as u64) as usize, r.below(cc as u64) as usize, special(r)),
                6 => { // impossible requests at the edge of the integer type and with a zero / negative dimension
                       let big = [(0, 0), (-1, 0), (0, -1), (size as i32, 0), (0, 1), (i32::MIN, 1), (1, i32::MIN), (i32::MAX, i32::MAX), (i32::MAX, 1), (-1, i32::MAX), (i32::MAX, -1), (65536, 65536), (-1, i32::MIN), (i32::MIN, i32::MIN)];
                       let (mut x, mut y) = if r.coin(0.5) { wrapping_shape(size, r.below(3)).unwrap_or((0, 0)) } else { *r.pick(&big) };
                       // the Gallina model infers a dimension in unary `nat`: a divisor of 2^31 is left to the oracle
                       if for_model && ((x == -1 && y == i32::MAX) || (x == i32::MAX && y == -1)) { x = 0; y = 0; }
                       match r.below(3) { 0 => Op::Reshape(x, y), 1 => Op::ReshapeMut(x, y), _ => Op::ToVecReshape(x, y) } }
                7 => { // first / last index of every accessor
                       let (i, j) = (if r.coin(0.5) { 0 } else { cr - 1 }, if r.coin(0.5) { 0 } else { cc - 1 });
                       match r.below(8) { 0 => Op::GetRow(i), 1 => Op::GetCol(j), 2 => Op::ApplyRow(i, r.below(3) as u8), 3 => Op::ApplyCol(j, r.below(3) as u8), 4 => Op::FlatIdx(if r.coin(0.5) { 0 } else { size - 1 }),
                                          5 => Op::Idx(i, j), 6 => Op::RowSlice(i), _ => Op::IdxSet(i, j, r.small_int(99)) } }
                _ => draw_op(r, cr, cc, size <= 24),
    }
}

fn oracle_audit(thorough: bool, seed: u64, out: &mut Vec<Finding>) -> u64 {
    let mut r = Rng::new(seed ^ 0xA0D1_7C15);
    let mut tried = 0u64;
    let same = |x: &[f64], y: &[f64]| x.len() == y.len() && x.iter().zip(y).all(|(a, b)| a.to_bits() == b.to_bits());
    // ---- A. programs: concatenation / repetition of matrices up to 8x8 = 64 elements (above: only up to 24), operands 1..8 wide / high, 1..4 copies,
    //         special values among the elements (NaN, +-inf, -0, subnormal, largest finite), shape requests at the edge of i32, the observers shape() / size() /
    //         row iteration after every step
    let nprog = if thorough { 12000 } else { 1500 };
    let base = out.len();
    'prog: for p in 0..nprog {
        let (mut d, nr, nc) = start_matrix(&mut r, 8);
        if p % 3 == 0 { for x in d.iter_mut() { if r.coin(0.3) { *x = special(&mut r); } } }
        let (a, b) = match p % 4 { 0 => (-1, nc as i32), 1 => (nr as i32, -1), _ => (nr as i32, nc as i32) };
        let mut m = Matrix::new(d.clone(), a, b);
        let mut rf = rows_of(&d, nr, nc);
        let len = 1 + r.below(40) as usize;
        let mut hist = format!("Matrix::new({}, {}, {})", json_floats(&d), a, b);
        for _ in 0..len {
            let op = draw_op_audit(&mut r, rf.len(), rf[0].len(), false);
            hist.push_str(&format!(" ; {:?}", op));
            let want = ref_op(&rf, &op);
            crumb(&hist);
            let got = catch(|| { let mut mm = m.clone(); let o = op.run(&mut mm); (mm, o) });
            tried += 1;
            match (want, got) {
                (None, Err(_)) => continue 'prog,
                (None, Ok((mm, _))) => { push(out, &format!("program:impossible-request-accepted op={}", op.name()),
                    format!("{} must panic on a {}x{} matrix but returned; state is now nrows={} ncols={} len={}", op.name(), rf.len(), rf[0].len(), mm.nrows, mm.ncols, mm.data.len()), hist.clone()); continue 'prog; }
                (Some(_), Err(e)) => { push(out, &format!("program:valid-operation-panics op={}", op.name()), format!("{} panicked ({}) on a {}x{} matrix", op.name(), e, rf.len(), rf[0].len()), hist.clone()); continue 'prog; }
                (Some((nrf, wout)), Ok((mm, gout))) => {
                    if mm.nrows * mm.ncols != mm.data.len() { push(out, &format!("program:invariant-broken op={}", op.name()), format!("nrows*ncols = {}*{} != len {}", mm.nrows, mm.ncols, mm.data.len()), hist.clone()); continue 'prog; }
                    if mm.nrows != nrf.len() || mm.ncols != nrf[0].len() || !same(&mm.data, &flat(&nrf)) {
                        push(out, &format!("program:wrong-elements op={}", op.name()), format!("after {}: implementation {}x{} {:?}, reference {}x{} {:?}", op.name(), mm.nrows, mm.ncols, mm.data.v, nrf.len(), nrf[0].len(), flat(&nrf)), hist.clone()); continue 'prog; }
                    if !same(&gout, &wout) { push(out, &format!("program:wrong-output op={}", op.name()), format!("{} returned {:?}, reference {:?}", op.name(), gout, wout), hist.clone()); continue 'prog; }
                    // the public observers of the state
                    tried += 1;
                    let rows_it: Vec<Vec<f64>> = (&mm).into_iter().map(|x| x.to_vec()).collect();
                    let rows_ok = rows_it.len() == nrf.len() && rows_it.iter().zip(&nrf).all(|(x, y)| same(x, y));
                    if mm.shape() != [nrf.len(), nrf[0].len()] || mm.size() != mm.data.len() || !same(&mm.data().v, &flat(&nrf)) || !rows_ok {
                        push(out, "program:wrong-output op=shape/size/data/rows", format!("shape() {:?} size() {} rows {:?}; reference {}x{}", mm.shape(), mm.size(), rows_it, nrf.len(), nrf[0].len()), hist.clone()); continue 'prog; }
                    m = mm; rf = nrf;
                }
            }
        }
        if out.len() > base + 60 { break; }
    }
    // Matrix::new / Vector::reshape themselves with a product that is the length only modulo 2^32
    for len in 1..=64usize { for skip in 0..2 {
        if let Some((x, y)) = wrapping_shape(len, skip) {
            let d: Vec<f64> = (0..len).map(|i| i as f64).collect();
            for form in 0..2 {
                let inp = format!("{}({:?}, {}, {})", if form == 0 { "Matrix::new" } else { "Vector::reshape" }, d, x, y);
                crumb(&inp); tried += 1;
                let got = catch(|| if form == 0 { Matrix::new(d.clone(), x, y) } else { Vector::new(d.clone()).reshape(x, y) });
                if let Ok(mm) = got { push(out, &format!("program:impossible-request-accepted op={}", if form == 0 { "new" } else { "to_vec.reshape" }),
                    format!("{} elements cannot have the shape {}x{} (the product is {} only modulo 2^32) but the request returned nrows={} ncols={} len={}", len, x, y, len, mm.nrows, mm.ncols, mm.data.len()), inp); }
            }
        }
    }}
    // ---- B. constructors at the full stated sizes
    for n in 1..=64usize {
        // vandermonde: every length 1..64 (above: at most 20) and every order 0..64 (above: 1..12); powers of 0, +-1, +-2 are exact at every order, of +-3 up to 3^33
        for (lim, kmax) in [(2i64, 64u64), (3, 33)] {
            let k = if n % 7 == 0 { kmax as usize } else { r.below(kmax + 1) as usize };
            let x: Vec<f64> = (0..n).map(|_| r.small_int(lim)).collect();
            tried += 1;
            crumb(&format!("vandermonde({}, {})", json_floats(&x), k));
            match catch(|| vandermonde(&x, k)) { Ok(v) => { let mut ok = v.len() == x.len() * k; if ok { for i in 0..x.len() { let mut pw = 1.0; for j in 0..k { if v[i * k + j] != pw { ok = false; } pw *= x[i]; } } }
                if !ok { push(out, "vandermonde:wrong", format!("entry (i,j) != x_i^j, order {}", k), json_floats(&x)); } } Err(e) => push(out, "vandermonde:panics", e, json_floats(&x)) }
        }
        // zeros / ones: both dimensions up to 64 (above: columns up to 8)
        let (nr, nc) = if n == 64 { (64, 64) } else if n == 63 { (1, 64) } else { (1 + r.below(64) as usize, 1 + r.below(64) as usize) };
        tried += 3;
        crumb(&format!("zeros/ones/with_shape({}, {})", nr, nc));
        for (name, val) in [("zeros", 0.0), ("ones", 1.0)] {
            match catch(|| if val == 0.0 { Matrix::zeros(nr, nc) } else { Matrix::ones(nr, nc) }) { Ok(m) => if !(m.nrows == nr && m.ncols == nc && m.data.len() == nr * nc && m.data.iter().all(|x| *x == val)) { push(out, &format!("{}:wrong", name), "wrong shape or fill".into(), format!("{}x{}", nr, nc)); } Err(e) => push(out, &format!("{}:panics", name), e, format!("{}x{}", nr, nc)) }
        }
        // with_shape: the shape and the element count (the contents are unspecified and not read)
        match catch(|| { let m = Matrix::with_shape(nr, nc); (m.nrows, m.ncols, m.data.len()) }) { Ok(g) => if g != (nr, nc, nr * nc) { push(out, "with_shape:wrong", format!("nrows, ncols, len = {:?}", g), format!("{}x{}", nr, nc)); } Err(e) => push(out, "with_shape:panics", e, format!("{}x{}", nr, nc)) }
        // with_capacity ("an empty matrix with a certain capacity"): no elements, element count = rows x columns, room for nr x nc elements
        tried += 1;
        crumb(&format!("Matrix::with_capacity({}, {})", nr, nc));
        match catch(|| { let m = Matrix::with_capacity(nr, nc); (m.nrows, m.ncols, m.data.len(), m.data.v.capacity()) }) {
            Ok((a, b, l, cap)) => if a * b != l || l != 0 || cap < nr * nc { push(out, "with_capacity:wrong", format!("nrows, ncols, len, capacity = {:?}; want an empty matrix (nrows*ncols = len = 0) with capacity >= {}", (a, b, l, cap), nr * nc), format!("Matrix::with_capacity({}, {})", nr, nc)); }
            Err(e) => push(out, "with_capacity:panics", format!("panicked ({}); the documented result is an empty matrix with capacity {}", e, nr * nc), format!("Matrix::with_capacity({}, {})", nr, nc)) }
        // design: up to 64 rows and 64 columns (above: 12 x 4)
        let (nr, nc) = if n == 64 { (64, 64) } else { (1 + r.below(64) as usize, 1 + r.below(if n % 2 == 0 { 64 } else { 8 }) as usize) };
        let mut x: Vec<f64> = (0..nr * nc).map(|_| r.small_int(50)).collect();
        if r.coin(0.35) { for i in 0..nr { x[i * nc] = 1.0; } }
        tried += 1;
        crumb(&format!("design(x={}, rows={})", json_floats(&x), nr));
        match catch(|| design(&x, nr)) { Ok(v) => { let w = nc + 1; let ok = v.len() == nr * w && (0..nr).all(|i| v[i * w] == 1.0 && (0..nc).all(|j| v[i * w + 1 + j] == x[i * nc + j]));
            if !ok { push(out, "design:not-ones-column-then-x", format!("design of a {}x{} row-major matrix: want each row = 1 followed by the row of x", nr, nc), format!("x={} rows={}", json_floats(&x), nr)); }
            else if !is_design(&v, nr) { push(out, "design:is_design-false", "is_design(design(x)) is false".into(), json_floats(&x)); } }
            Err(e) => push(out, "design:panics", e, format!("x={} rows={}", json_floats(&x), nr)) }
    }
    // ---- C. grids beyond +-50: magnitudes 1e-3 .. 1e150, coinciding end points; arange up to 64 points (above: 60), ratios within 1e-6 of an integer,
    //         start far from 0 relative to the step, a step pointing away from stop and stop = start (the half-open grid is empty)
    let ngrid = if thorough { 20000 } else { 3000 };
    let base = out.len();
    for it in 0..ngrid {
        let n = 1 + (it % 64);
        let sc = *r.pick(&[1e-3, 1.0, 1e3, 1e6, 1e12, 1e100, 1e150]);
        let (a, b) = match it % 6 { 0 => { let a = r.uniform(-1.0, 1.0) * sc; (a, a) } 1 => (sc, -sc), 2 => (r.uniform(-1.0, 1.0) * sc, r.uniform(-1.0, 1.0)), _ => (r.uniform(-1.0, 1.0) * sc, r.uniform(-1.0, 1.0) * sc) };
        tried += 1;
        let inp = format!("linspace({:e}, {:e}, {})", a, b, n);
        crumb(&inp);
        match catch(|| linspace(a, b, n).v) {
            Ok(v) => {
                let scale = 1e-12 * (a.abs() + b.abs() + 1.0);
                if v.len() != n { push(out, "linspace:wrong-count", format!("{} points", v.len()), inp); }
                else if n == 1 { if !(v[0] == a) { push(out, "linspace:single-point-not-start", format!("returned {:?}; a one-point grid is [start]", v), inp); } }
                else if v[0] != a || (v[n - 1] - b).abs() > scale { push(out, "linspace:endpoints", format!("first {:e}, last {:e}", v[0], v[n - 1]), inp); }
                else if !(0..n).all(|i| (v[i] - (a + (b - a) * i as f64 / (n - 1) as f64)).abs() <= scale) { push(out, "linspace:spacing", "points are not evenly spaced".into(), inp); }
            }
            Err(e) => push(out, "linspace:panics", e, inp),
        }
        // arange
        let kind = it % 5;
        let neg = it % 3 == 0;
        let (start, step, q, frac) = match kind {
            // dyadic, all counts 0..64
            0 => { let frac = *r.pick(&[0.0, 0.125, 0.5, 0.875]); let q = r.below(if frac > 0.0 { 64 } else { 65 }) as f64; (r.small_int(40) / 8.0, (1.0 + r.below(16) as f64) / 8.0, q, frac) }
            // non-dyadic, ratio close to (not at) an integer
            1 => (r.uniform(-10.0, 10.0), r.uniform(0.05, 2.0), r.below(64) as f64, *r.pick(&[1e-6, 1e-3, 0.01, 0.99, 0.999, 1.0 - 1e-6])),
            // start far from 0 relative to the step (dyadic, so that the ratio is exact)
            2 => { let frac = *r.pick(&[0.0, 0.25, 0.5, 0.75]); (r.small_int(40) * *r.pick(&[1024.0, 1048576.0, 1073741824.0]), (1.0 + r.below(16) as f64) / *r.pick(&[8.0, 1024.0]), r.below(if frac > 0.0 { 64 } else { 65 }) as f64, frac) }
            // a step pointing away from stop, or stop = start: no point
            3 => (r.uniform(-10.0, 10.0), r.uniform(0.05, 2.0), -(r.below(40) as f64), if it % 2 == 0 { 0.0 } else { -0.5 }),
            // large steps
            _ => { let frac = *r.pick(&[0.0, 0.5]); (r.small_int(40), (1.0 + r.below(16) as f64) * *r.pick(&[1024.0, 1048576.0]), r.below(if frac > 0.0 { 64 } else { 65 }) as f64, frac) }
        };
        let step = if neg { -step } else { step };
        let stop = start + step * (q + frac);
        let want = if q + frac <= 0.0 { 0 } else { q as usize + if frac > 0.0 { 1 } else { 0 } };
        tried += 1;
        let inp = format!("arange({:e}, {:e}, {:e})", start, stop, step);
        crumb(&inp);
        match catch(|| arange(start, stop, step).v) {
            Ok(v) => {
                let scale = 1e-12 * (start.abs() + stop.abs() + 1.0);
                if v.len() != want { push(out, if v.len() + 1 == want { "arange:drops-last-grid-point" } else { "arange:wrong-count" }, format!("{} points; (stop-start)/step = {} so the half-open grid has {} points", v.len(), q + frac, want), inp); }
                else if !(0..want).all(|i| (v[i] - (start + i as f64 * step)).abs() <= scale && (if neg { v[i] > stop } else { v[i] < stop })) { push(out, "arange:wrong-points", "a point is off the grid or not inside [start, stop)".into(), inp); }
            }
            Err(e) => push(out, "arange:panics", e, inp),
        }
        if out.len() > base + 60 { break; }
    }
    // rotations at the end points of +-4pi and at the multiples of pi/2 (above: uniform draws only)
    let pi = std::f64::consts::PI;
    let mut angles = vec![0.0, -0.0, 4.0 * pi, -4.0 * pi, f64::from_bits((4.0 * pi).to_bits() - 1), -f64::from_bits((4.0 * pi).to_bits() - 1), 5e-324, 1e-300, 1e-17, -1e-17];
    for k in -8i32..=8 { angles.push(k as f64 * pi / 2.0); angles.push(k as f64 * pi / 4.0); angles.push(k as f64 * pi / 6.0); }
    for &ang in &angles { for ax in 0..3u64 {
        tried += 1;
        let inp = format!("angle={:e} axis={}", ang, ["X", "Y", "Z"][ax as usize]);
        crumb(&format!("rotation_matrix_cw/ccw {}", inp));
        match catch(|| (rotation_matrix_cw(ang, axis(ax)), rotation_matrix_ccw(ang, axis(ax)))) {
            Ok((cw, ccw)) => {
                for (nm, m) in [("cw", &cw), ("ccw", &ccw)] {
                    if m.nrows != 3 || m.ncols != 3 || m.data.len() != 9 { push(out, "rotation:shape", format!("{} not 3x3", nm), inp.clone()); continue; }
                    let g = |i: usize, j: usize| m.data[i * 3 + j];
                    let mut orth = true;
                    for i in 0..3 { for j in 0..3 { let s: f64 = (0..3).map(|k| g(k, i) * g(k, j)).sum(); if (s - if i == j { 1.0 } else { 0.0 }).abs() > 1e-12 { orth = false; } } }
                    let det = g(0, 0) * (g(1, 1) * g(2, 2) - g(1, 2) * g(2, 1)) - g(0, 1) * (g(1, 0) * g(2, 2) - g(1, 2) * g(2, 0)) + g(0, 2) * (g(1, 0) * g(2, 1) - g(1, 1) * g(2, 0));
                    if !orth { push(out, "rotation:not-orthogonal", format!("{}: R^T R != I", nm), inp.clone()); }
                    if (det - 1.0).abs() > 1e-12 { push(out, "rotation:determinant", format!("{}: det = {:e}", nm, det), inp.clone()); }
                }
                if cw.data.len() == 9 && ccw.data.len() == 9 && !(0..3).all(|i| (0..3).all(|j| cw.data[i * 3 + j] == ccw.data[j * 3 + i])) { push(out, "rotation:cw-not-ccw-transposed", "cw != ccw^T".into(), inp.clone()); }
                if ccw.data.len() == 9 {
                    let (c, sn) = (ang.cos(), ang.sin());
                    let want: [f64; 9] = match ax { 0 => [1.0, 0.0, 0.0, 0.0, c, -sn, 0.0, sn, c], 1 => [c, 0.0, sn, 0.0, 1.0, 0.0, -sn, 0.0, c], _ => [c, -sn, 0.0, sn, c, 0.0, 0.0, 0.0, 1.0] };
                    if let Some(k) = (0..9).find(|&k| (ccw.data[k] - want[k]).abs() > 1e-12) {
                        push(out, "rotation:not-the-defining-pattern", format!("counter-clockwise rotation: entry ({},{}) = {:e}, the right-handed rotation about this axis has {:e}", k / 3, k % 3, ccw.data[k], want[k]), inp.clone());
                    }
                }
            }
            Err(e) => push(out, "rotation:panics", e, inp),
        }
    }}
    // ---- D. predicates: entries at every scale and of both signs, mirrored entries 1..4 ulp apart (the tolerance of is_symmetric is relative), -0 and subnormal
    //         entries in the triangle that must vanish, a first column of ones (exact, 1 +- eps, 1 + 2 eps) for is_design; utils on square arrays up to 64 x 64
    let npred = if thorough { 30000 } else { 4000 };
    let base = out.len();
    for it in 0..npred {
        let (nr, nc) = (1 + r.below(8) as usize, 1 + r.below(8) as usize);
        let sc = *r.pick(&[1e-300, 1e-150, 1e-17, 1.0, 1.0, 1e17, 1e150, 1e300]);
        let mut d: Vec<f64> = (0..nr * nc).map(|_| { let v = r.uniform(0.5, 2.0) * sc; if r.coin(0.5) { v } else { -v } }).collect();
        let kind = it % 5;
        for i in 0..nr { for j in 0..nc {
            if kind == 1 && j < i { d[i * nc + j] = if r.coin(0.97) { if r.coin(0.5) { -0.0 } else { 0.0 } } else { *r.pick(&[5e-324, -5e-324]) }; }
            if kind == 2 && j > i { d[i * nc + j] = if r.coin(0.97) { if r.coin(0.5) { -0.0 } else { 0.0 } } else { *r.pick(&[5e-324, -5e-324]) }; }
            if kind == 3 && nr == nc && j < i { let v = d[j * nc + i]; let u = *r.pick(&[0i64, 0, 0, 0, 0, 0, 0, 0, 0, 0, 0, 1, -1, 2, -2, 3, 4]); d[i * nc + j] = f64::from_bits((v.to_bits() as i64 + u) as u64); }
            if kind == 4 && j == 0 { d[i * nc] = *r.pick(&[1.0, 1.0, 1.0, 1.0, 1.0, 1.0, 1.0 + f64::EPSILON, 1.0 - f64::EPSILON, 1.0 - f64::EPSILON / 2.0, 1.0 + 2.0 * f64::EPSILON, -1.0]); }
        }}
        let m = Matrix::new(d.clone(), nr as i32, nc as i32);
        let e = |i: usize, j: usize| d[i * nc + j];
        let inp = format!("{}x{} {}", nr, nc, json_floats(&d));
        crumb(&format!("predicates / slice utilities on {}", inp));
        tried += 4;
        let up = (0..nr).all(|i| (0..nc).all(|j| j >= i || e(i, j) == 0.0));
        let lo = (0..nr).all(|i| (0..nc).all(|j| j <= i || e(i, j) == 0.0));
        let sym = nr == nc && (0..nr).all(|i| (0..nc).all(|j| (e(i, j) - e(j, i)).abs() <= f64::EPSILON * e(i, j).abs().max(e(j, i).abs())));
        for (name, want, got) in [("is_upper_triangular", up, catch(|| m.is_upper_triangular())), ("is_lower_triangular", lo, catch(|| m.is_lower_triangular())),
                                  ("is_symmetric", sym, catch(|| m.is_symmetric())), ("is_square", nr == nc, catch(|| m.is_square()))] {
            match got { Ok(g) => if g != want { push(out, &format!("{}:wrong", name), format!("returned {}, definition gives {}", g, want), inp.clone()); }
                        Err(er) => push(out, &format!("{}:panics", name), format!("panicked ({}) on a {}x{} matrix; definition gives {}", er, nr, nc, want), inp.clone()) }
        }
        tried += 1;
        match catch(|| is_design(&d, nr)) { Ok(g) => { let w = (0..nr).all(|i| (e(i, 0) - 1.0).abs() <= f64::EPSILON); if g != w { push(out, "is_design:wrong", format!("returned {}, definition gives {}", g, w), inp.clone()); } } Err(er) => push(out, "is_design:panics", er, inp.clone()) }
        if nr == nc { tried += 2;
            match catch(|| diag(&d).v) { Ok(g) => if !same(&g, &(0..nr).map(|i| e(i, i)).collect::<Vec<_>>()) { push(out, "utils::diag:wrong", format!("{:?}", g), inp.clone()); } Err(er) => push(out, "utils::diag:panics", er, inp.clone()) }
            match catch(|| is_symmetric(&d)) { Ok(g) => if g != sym { push(out, "utils::is_symmetric:wrong", format!("returned {}", g), inp.clone()); } Err(er) => push(out, "utils::is_symmetric:panics", er, inp.clone()) }
        }
        if out.len() > base + 60 { break; }
    }
    // utils::is_square on every length a constructor of size <= 64 produces (and a little beyond): 1..4300 (above: only lengths 1..64)
    for len in 1..=4300usize {
        let s = vec![0.0; len];
        tried += 1;
        crumb(&format!("utils::is_square(length {})", len));
        match catch(|| is_square(&s)) { Ok(g) => { let w = (0..=66usize).find(|k| k * k == len); if g.clone().ok() != w { push(out, "utils::is_square:wrong", format!("returned {:?} for length {}", g, len), format!("length {}", len)); } } Err(er) => push(out, "utils::is_square:panics", er, format!("length {}", len)) }
    }
    // utils::diag / is_symmetric / transpose / layout conversion on arrays up to 64 x 64 (above: up to 8 x 8)
    for n in 9..=64usize {
        let mut s: Vec<f64> = (0..n * n).map(|_| r.small_int(9)).collect();
        let symm = n % 2 == 0;
        if symm { for i in 0..n { for j in 0..i { s[i * n + j] = s[j * n + i]; } } }
        let unsym = n % 4 == 0;
        if unsym { s[n] = s[1] + 1.0; }
        let inp = format!("{}x{} {}", n, n, json_floats(&s));
        crumb(&format!("slice utilities on {}", inp));
        tried += 4;
        match catch(|| diag(&s).v) { Ok(g) => if g != (0..n).map(|i| s[i * n + i]).collect::<Vec<_>>() { push(out, "utils::diag:wrong", format!("{:?}", g), inp.clone()); } Err(er) => push(out, "utils::diag:panics", er, inp.clone()) }
        let sym = (0..n).all(|i| (0..n).all(|j| s[i * n + j] == s[j * n + i]));
        match catch(|| is_symmetric(&s)) { Ok(g) => if g != sym { push(out, "utils::is_symmetric:wrong", format!("returned {}", g), inp.clone()); } Err(er) => push(out, "utils::is_symmetric:panics", er, inp.clone()) }
        let nr = 1 + r.below(n as u64) as usize; let nc = n; let a = &s[..nr * nc];
        let want: Vec<f64> = (0..nc).flat_map(|j| (0..nr).map(move |i| (i, j))).map(|(i, j)| a[i * nc + j]).collect();
        match catch(|| transpose(a, nr)) { Ok(g) => if g != want { push(out, "program:wrong-elements op=utils::transpose", format!("transpose of a {}x{} array", nr, nc), inp.clone()); } Err(er) => push(out, "program:valid-operation-panics op=utils::transpose", er, inp.clone()) }
        match catch(|| col_to_row_major(&row_to_col_major(a, nr).v, nr)) { Ok(g) => if g != a { push(out, "program:wrong-elements op=row_to_col_major", format!("col_to_row_major(row_to_col_major(a)) != a for a {}x{} array", nr, nc), inp.clone()); } Err(er) => push(out, "program:valid-operation-panics op=row_to_col_major", er, inp.clone()) }
    }
    // ---- E. comparisons: tolerances up to 2 (the sign clause is stated for every tol < 2; above: at most 0.5), zeros and subnormals among the entries,
    //         infinite entries
    let ncmp = if thorough { 30000 } else { 4000 };
    let base = out.len();
    for it in 0..ncmp {
        let n = 1 + r.below(8) as usize;
        let tol = *r.pick(&[1e-10, 1e-3, 0.5, 1.0, 1.5, 1.9, 1.999]);
        let kind = it % 3;
        // kind 0: finite normal values at every scale, some entries zero (at least one is not); kind 1: subnormal entries; kind 2: infinite entries
        let mut x: Vec<f64> = (0..n).map(|_| { let sc = *r.pick(&[1e-300, 1e-100, 1e-17, 1e-3, 1.0, 1.0, 1e3, 1e100, 1e300]); let v = r.uniform(0.1, 4.0) * sc; if r.coin(0.5) { v } else { -v } }).collect();
        match kind {
            0 => for i in 1..n { if r.coin(0.3) { x[i] = if r.coin(0.5) { 0.0 } else { -0.0 }; } },
            1 => { let i = r.below(n as u64) as usize; x[i] = *r.pick(&[5e-324, -5e-324, 1e-310, -1e-310, 2e-308]); }
            _ => { let i = r.below(n as u64) as usize; if r.coin(0.5) { for v in x.iter_mut() { *v = 0.0; } } x[i] = if r.coin(0.5) { f64::INFINITY } else { f64::NEG_INFINITY }; }
        }
        let (vx, neg) = (Vector::new(x.clone()), Vector::new(x.iter().map(|v| -v).collect::<Vec<_>>()));
        let mut longer = x.clone(); longer.push(1.0);
        let inp = format!("x={} tol={:e}", json_floats(&x), tol);
        crumb(&format!("close_to / == with {}", inp));
        tried += 6;
        let t = |name: &str, want: bool, got: Result<bool, String>, out: &mut Vec<Finding>, class: &str| match got {
            Ok(g) => if g != want { push(out, class, format!("{} returned {}, definition gives {}", name, g, want), inp.clone()); }
            Err(er) => push(out, &format!("{}:panics", name), er, inp.clone()) };
        t("close_to(x, -x, tol)", false, catch(|| vx.close_to(&neg, tol)), out, "close_to:opposite-signs-equated");
        t("close_to(x, x, tol)", true, catch(|| vx.close_to(&vx.clone(), tol)), out, "close_to:wrong");
        t("close_to(x, x ++ [1], tol)", false, catch(|| vx.close_to(&Vector::new(longer.clone()), tol)), out, "close_to:wrong");
        if kind == 0 {
            // scaled copies (only where scaling by 1 + tol/4 and 1 + 4 tol is exact enough to land on the intended side: normal values)
            let near = Vector::new(x.iter().map(|v| v * (1.0 + 0.25 * tol)).collect::<Vec<_>>());
            let k = (0..n).find(|&i| x[i] != 0.0).unwrap();
            let far = Vector::new(x.iter().enumerate().map(|(i, v)| if i == k { v * (1.0 + 4.0 * tol) } else { *v }).collect::<Vec<_>>());
            tried += 2;
            t("close_to(x, x(1+tol/4), tol)", true, catch(|| vx.close_to(&near, tol)), out, "close_to:wrong");
            t("close_to(x, x with one entry scaled by 1+4tol, tol)", false, catch(|| vx.close_to(&far, tol)), out, "close_to:wrong");
        }
        if x.iter().any(|v| v.abs() > f64::EPSILON) { t("x == -x", false, catch(|| vx == neg), out, "eq:opposite-signs-equated"); }
        t("x == x", true, catch(|| vx == vx.clone()), out, "eq:wrong");
        t("x == x ++ [1]", false, catch(|| vx == Vector::new(longer.clone())), out, "eq:wrong");
        let ds = divisors(n);
        if ds.len() >= 2 { tried += 3;
            let (r1, r2) = (ds[r.below(ds.len() as u64) as usize], ds[r.below(ds.len() as u64) as usize]);
            let (m1, m2) = (Matrix::new(x.clone(), r1 as i32, -1), Matrix::new(x.clone(), r2 as i32, -1));
            let mneg = Matrix::new(neg.v.clone(), r1 as i32, -1);
            t("Matrix == of the same data in two shapes", r1 == r2, catch(|| m1 == m2), out, "eq:shapes-ignored");
            t("Matrix close_to of the same data in two shapes", r1 == r2, catch(|| m1.close_to(&m2, tol)), out, "close_to:shapes-ignored");
            t("Matrix close_to(m, -m, tol)", false, catch(|| m1.close_to(&mneg, tol)), out, "close_to:opposite-signs-equated");
        }
        if out.len() > base + 60 { break; }
    }
    tried
}
