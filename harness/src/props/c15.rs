//! C15 — not built yet.
#![allow(unused)]
use crate::util::*;
pub fn gen(_tier: &str, _seed: u64, _outdir: &str) { eprintln!("C15: gen not implemented"); std::process::exit(3); }
pub fn oracle(_tier: &str, _seed: u64) -> (u64, Vec<Finding>) { eprintln!("C15: oracle not implemented"); std::process::exit(3); }
