//! C07 — quadrature (`integrate::{trapz, romberg, quad5, trapezoid}`): case generation for the Coq
//! correspondence and the failure-search oracle.
//!
//! Correspondence integrands are polynomials given by their coefficient list and evaluated by Horner's
//! rule (the same recursion as `Model/Quad.v::horner`), so the comparison is bitwise; the few integrands
//! that call libm (`catalogue`) go through the recorded table.
use crate::libm;
use crate::util::*;
use compute::integrate::{quad5, romberg, trapezoid, trapz};

/// `c0 + c1 x + c2 x^2 + ...` by Horner: ((0*x + c_d)*x + c_{d-1})*x + ... + c0
fn horner(cs: &[f64], x: f64) -> f64 { cs.iter().rev().fold(0.0, |acc, &c| acc * x + c) }

/// integrands of the correspondence that are not polynomials (ids shared with `Model/Quad.v::catalogue`)
fn catalogue(id: u64, x: f64) -> f64 {
    match id {
        0 => x.exp(),
        1 => x.sin() * (2.0 * x).cos(),
        2 => 1.0 / (1.0 + x * x),
        3 => x * (1.0 + 2.0 * x).sqrt(),
        4 => x.ln() / x,
        _ => (-x).exp() * x.cos(),
    }
}
const NCAT: u64 = 6;

fn specials() -> [f64; 9] { [0.0, -0.0, f64::INFINITY, f64::NEG_INFINITY, f64::NAN, 5e-324, -2.5e-310, f64::MAX, 1.0] }

fn endpoint(r: &mut Rng) -> f64 {
    match r.below(6) { 0 => r.small_int(10), 1 => r.small_int(1000), 2 => r.uniform(-1.0, 1.0), _ => r.uniform(-1e3, 1e3) }
}
fn coeffs(r: &mut Rng, deg: usize) -> Vec<f64> {
    let int = r.coin(0.4);
    (0..=deg).map(|_| if int { r.small_int(9) } else { r.uniform(-3.0, 3.0) }).collect()
}
fn opt_list(x: &Option<Vec<f64>>) -> Tm { match x { Some(v) => app("Some", vec![fl(v)]), None => Tm::Raw("None".into()) } }
fn opt_f(x: &Option<f64>) -> Tm { match x { Some(v) => app("Some", vec![Tm::F(*v)]), None => Tm::Raw("None".into()) } }

pub fn gen(tier: &str, seed: u64, outdir: &str) {
    let mut r = Rng::new(seed ^ 0x07);
    let mut cs = Cases::new("C07");
    let thorough = tier == "thorough";
    let mul = if thorough { 60 } else { 1 };

    // ---- trapz: every n in 0..=40, then random n up to 4096; polynomial integrands of degree 0..6
    let mut push_trapz = |cs: &mut Cases, p: &[f64], a: f64, b: f64, n: usize, tag: &str| {
        let res = catch(|| trapz(|x| horner(p, x), a, b, n)).map(|v| vec![v]);
        cs.push(app("CTrapz", vec![fl(p), Tm::F(a), Tm::F(b), Tm::Nat(n as u64), outcome_list(&res)]), tag, n >= 2 && p.len() >= 2);
    };
    for n in 0..=40usize {
        for _ in 0..(2 * mul) {
            let d = r.below(7) as usize; let p = coeffs(&mut r, d);
            let (a, b) = (endpoint(&mut r), endpoint(&mut r));
            push_trapz(&mut cs, &p, a, b, n, "trapz/n<=40");
        }
    }
    for _ in 0..(40 * mul) {
        let n = match r.below(4) { 0 => 1usize << r.below(13), 1 => 4096, _ => 1 + r.below(4096) as usize };
        let n = if thorough { n } else { n.min(1 + r.below(600) as usize).max(1) };
        let d = r.below(7) as usize; let p = coeffs(&mut r, d);
        let (a, b) = (endpoint(&mut r), endpoint(&mut r));
        push_trapz(&mut cs, &p, a, b, n, "trapz/large-n");
    }
    for _ in 0..(30 * mul) {
        // a = b, a > b by construction, special values in the limits or the coefficients
        let d = r.below(4) as usize; let mut p = coeffs(&mut r, d);
        let a = endpoint(&mut r);
        let n = r.below(9) as usize;
        push_trapz(&mut cs, &p, a, a, n, "trapz/a=b");
        let b = a - r.uniform(0.0, 50.0);
        push_trapz(&mut cs, &p, a, b, n, "trapz/a>b");
        let s = *r.pick(&specials());
        match r.below(3) { 0 => push_trapz(&mut cs, &p, s, a, n, "trapz/special"), 1 => push_trapz(&mut cs, &p, a, s, n, "trapz/special"),
                           _ => { let i = r.below(p.len() as u64) as usize; p[i] = s; push_trapz(&mut cs, &p, a, b, n, "trapz/special") } }
    }

    // ---- romberg: every level budget 0..=10 (quick) / 0..=13 (thorough), eps in {0, random up to 1e-3, special}; 14..20 sampled
    let mut push_romberg = |cs: &mut Cases, p: &[f64], a: f64, b: f64, eps: f64, nmax: usize, tag: &str| {
        let res = catch(|| romberg(|x| horner(p, x), a, b, eps, nmax)).map(|v| vec![v]);
        cs.push(app("CRomberg", vec![fl(p), Tm::F(a), Tm::F(b), Tm::F(eps), Tm::Nat(nmax as u64), outcome_list(&res)]), tag, nmax >= 2 && p.len() >= 2);
    };
    let kmax = if thorough { 13 } else { 10 };
    for nmax in 0..=kmax {
        let reps = if nmax <= 8 { 6 * mul } else { 2 * mul.min(4) };
        for i in 0..reps {
            let d = r.below(10) as usize; let p = coeffs(&mut r, d);
            let (a, b) = (endpoint(&mut r), endpoint(&mut r));
            let eps = match i % 3 { 0 => 0.0, 1 => 10f64.powi(-(3 + r.below(10) as i32)), _ => r.uniform(0.0, 1e-3) };
            push_romberg(&mut cs, &p, a, b, eps, nmax, &format!("romberg/nmax={}", nmax));
        }
    }
    for nmax in (if thorough { vec![14usize, 15, 16, 17, 18, 19, 20] } else { vec![16usize] }) {
        let d = 1 + r.below(5) as usize; let p = coeffs(&mut r, d);
        let (a, b) = (endpoint(&mut r), endpoint(&mut r));
        push_romberg(&mut cs, &p, a, b, 1e-9, nmax, "romberg/nmax>13 (sampled)");
    }
    for _ in 0..(20 * mul) {
        // early-stop branches: loose tolerances, zero integrals (odd integrand on a symmetric interval), a = b, special eps
        let nmax = 2 + r.below(7) as usize;
        let d = r.below(6) as usize; let mut p = coeffs(&mut r, d);
        let a = endpoint(&mut r);
        match r.below(5) {
            0 => push_romberg(&mut cs, &p, a, a, 1e-6, nmax, "romberg/a=b"),
            1 => { for i in (0..p.len()).step_by(2) { p[i] = 0.0; } push_romberg(&mut cs, &p, -a, a, 1e-6, nmax, "romberg/odd-integrand") }
            2 => { let e = *r.pick(&[f64::NAN, f64::INFINITY, -1.0, 0.0, -0.0, 1.0, 1e300]); let b = endpoint(&mut r); push_romberg(&mut cs, &p, a, b, e, nmax, "romberg/special-eps") }
            3 => { let s = *r.pick(&specials()); let b = endpoint(&mut r); push_romberg(&mut cs, &p, s, b, 1e-8, nmax, "romberg/special-limit") }
            _ => { let b = endpoint(&mut r); push_romberg(&mut cs, &p, a, b, 0.5, nmax, "romberg/loose-eps") }
        }
    }

    for _ in 0..(8 * mul.min(6)) {
        // successive estimates of opposite sign: p = q + c (t^2-1)^2 t^2 on [-1,1], deg q <= 3, c = -10 * int(q):
        // the 3-node estimate is int(q), the 5-node estimate is -int(q) (up to rounding); a sign-blind test would stop there
        let q = coeffs(&mut r, 3);
        let i = 2.0 * q[0] + 2.0 / 3.0 * q[2];
        let c = -10.0 * i;
        let p = vec![q[0], q[1], q[2] + c, q[3], -2.0 * c, 0.0, c];
        let nmax = 3 + r.below(6) as usize;
        let eps = *r.pick(&[1e-8, 1e-6, 1e-3]);
        push_romberg(&mut cs, &p, -1.0, 1.0, eps, nmax, "romberg/opposite-sign-estimates");
    }

    // ---- quad5: monomials 0..=21 on several intervals, random polynomials, special values
    for d in 0..=21usize {
        let mut p = vec![0.0; d + 1]; p[d] = 1.0;
        for (a, b) in [(-1.0, 1.0), (0.0, 1.0), (endpoint(&mut r), endpoint(&mut r))] {
            let res = catch(|| quad5(|x| horner(&p, x), a, b)).map(|v| vec![v]);
            cs.push(app("CQuad5", vec![fl(&p), Tm::F(a), Tm::F(b), outcome_list(&res)]), "quad5/monomial", d >= 1);
        }
    }
    for i in 0..(60 * mul) {
        let d = r.below(20) as usize; let mut p = coeffs(&mut r, d);
        let (mut a, mut b) = (endpoint(&mut r), endpoint(&mut r));
        let tag = match i % 10 { 0 => { b = a; "quad5/a=b" } 1 => { a = *r.pick(&specials()); "quad5/special" }
                                 2 => { let k = r.below(p.len() as u64) as usize; p[k] = *r.pick(&specials()); "quad5/special" } _ => "quad5/random" };
        let res = catch(|| quad5(|x| horner(&p, x), a, b)).map(|v| vec![v]);
        cs.push(app("CQuad5", vec![fl(&p), Tm::F(a), Tm::F(b), outcome_list(&res)]), tag, d >= 1);
    }

    // ---- integrands that call libm: recorded table
    for i in 0..(36 * mul as u64) {
        let id = i % NCAT;
        let (a, b) = match id { 4 => (r.uniform(0.5, 3.0), r.uniform(3.0, 9.0)), 3 => (r.uniform(0.0, 2.0), r.uniform(2.0, 4.0)), _ => (r.uniform(-3.0, 3.0), r.uniform(-3.0, 3.0)) };
        match (i / NCAT) % 3 {
            0 => { let n = 1 + r.below(40) as usize;
                   libm::start(); let res = catch(|| trapz(|x| catalogue(id, x), a, b, n)).map(|v| vec![v]); let t = libm::stop();
                   cs.push(app("CTrapzF", vec![libm_table(&t), Tm::Nat(id), Tm::F(a), Tm::F(b), Tm::Nat(n as u64), outcome_list(&res)]), "libm/trapz", n >= 2); }
            1 => { let nmax = 2 + r.below(5) as usize; let eps = *r.pick(&[0.0, 1e-8, 1e-4]);
                   libm::start(); let res = catch(|| romberg(|x| catalogue(id, x), a, b, eps, nmax)).map(|v| vec![v]); let t = libm::stop();
                   cs.push(app("CRombergF", vec![libm_table(&t), Tm::Nat(id), Tm::F(a), Tm::F(b), Tm::F(eps), Tm::Nat(nmax as u64), outcome_list(&res)]), "libm/romberg", true); }
            _ => { libm::start(); let res = catch(|| quad5(|x| catalogue(id, x), a, b)).map(|v| vec![v]); let t = libm::stop();
                   cs.push(app("CQuad5F", vec![libm_table(&t), Tm::Nat(id), Tm::F(a), Tm::F(b), outcome_list(&res)]), "libm/quad5", true); }
        }
    }

    // ---- sampled trapezoid: the three calling forms, every length 0..=24, longer arrays, malformed calls
    let mut push_samples = |cs: &mut Cases, y: &[f64], x: &Option<Vec<f64>>, dx: &Option<f64>, tag: &str| {
        let res = catch(|| trapezoid(y, x.as_deref(), *dx)).map(|v| vec![v]);
        let nt = res.is_err() || y.len() >= 3;
        cs.push(app("CSamples", vec![fl(y), opt_list(x), opt_f(dx), outcome_list(&res)]), tag, nt);
    };
    let maxlen = if thorough { 40 } else { 24 };
    for len in 0..=maxlen {
        for _ in 0..mul.min(3) {
            let y: Vec<f64> = (0..len).map(|_| r.uniform(-5.0, 5.0)).collect();
            let mut x: Vec<f64> = (0..len).map(|_| r.uniform(-10.0, 10.0)).collect();
            if r.coin(0.7) { x.sort_by(|p, q| p.partial_cmp(q).unwrap()); }
            push_samples(&mut cs, &y, &Some(x.clone()), &None, "samples/x");
            push_samples(&mut cs, &y, &None, &Some(r.uniform(-2.0, 2.0)), "samples/dx");
            push_samples(&mut cs, &y, &None, &None, "samples/unit-spacing");
        }
        // long arrays, spread over the shards (one every few lengths) so that no shard grows past ~1.5 MB
        if len % 4 == 0 {
            let ll = if thorough { 500 + r.below(9500) as usize } else { 50 + r.below(1500) as usize };
            let y: Vec<f64> = (0..ll).map(|_| r.uniform(-5.0, 5.0)).collect();
            let mut x: Vec<f64> = (0..ll).map(|_| r.uniform(-100.0, 100.0)).collect();
            x.sort_by(|p, q| p.partial_cmp(q).unwrap());
            match r.below(3) { 0 => push_samples(&mut cs, &y, &Some(x), &None, "samples/long"), 1 => push_samples(&mut cs, &y, &None, &Some(r.uniform(0.0, 1.0)), "samples/long"),
                               _ => push_samples(&mut cs, &y, &None, &None, "samples/long") }
        }
    }
    for _ in 0..(40 * mul) {
        // malformed stream: lengths differ, both x and dx, empty arrays, special values
        let ly = r.below(6) as usize; let lx = r.below(6) as usize;
        let mut y: Vec<f64> = (0..ly).map(|_| r.small_int(9)).collect();
        let x: Vec<f64> = (0..lx).map(|_| r.small_int(9)).collect();
        let dx = if r.coin(0.5) { Some(*r.pick(&[0.5, 2.0, f64::NAN, 0.0, -0.0, f64::INFINITY])) } else { None };
        let xo = if r.coin(0.7) { Some(x) } else { None };
        if ly > 0 && r.coin(0.3) { let k = r.below(ly as u64) as usize; y[k] = *r.pick(&specials()); }
        push_samples(&mut cs, &y, &xo, &dx, "samples/malformed-stream");
    }

    // ---- coverage audit: the ends of the stated ranges at EVERY tier (own random stream: the cases above are unchanged).
    //      End points on +-1e3 in both orientations, a one-ulp interval, first / last panel count, every level budget up to 20, monomials of
    //      degree 10..19 under Romberg, sample arrays of the last admissible length, abscissae over the whole range / repeated / all equal / descending
    {
        let mut r = Rng::new(seed ^ 0xA0D17_C07);
        let nd = |x: f64| f64::from_bits(x.to_bits() - 1);
        let corners: [(f64, f64); 8] = [(-1e3, 1e3), (1e3, -1e3), (0.0, 1.0), (999.0, 1e3), (-999.5, -1e3), (1e3, nd(1e3)), (-1e3, -1e3), (1e3, 0.0)];
        for (ci, &(a, b)) in corners.iter().enumerate() {
            for &n in [1usize, 4095, 4096].iter() {
                let d = if n == 1 { 1 } else { r.below(7) as usize }; let p = coeffs(&mut r, d);
                push_trapz(&mut cs, &p, a, b, n, "audit/trapz-corner");
            }
            for &d in [0usize, 9, 10, 19].iter() {
                let mut p = vec![0.0; d + 1]; p[d] = 1.0;
                let res = catch(|| quad5(|x| horner(&p, x), a, b)).map(|v| vec![v]);
                cs.push(app("CQuad5", vec![fl(&p), Tm::F(a), Tm::F(b), outcome_list(&res)]), "audit/quad5-corner", d >= 1);
            }
            let k = 2 + ci; let d = r.below(2 * k as u64) as usize; let p = coeffs(&mut r, d);
            push_romberg(&mut cs, &p, a, b, if ci % 2 == 0 { 0.0 } else { 1e-3 }, k, "audit/romberg-corner");
        }
        // Romberg: monomials of degree 10..19 with the smallest exact budget, and every budget 11..20 (the largest ones on one interval each)
        for d in 10..=19usize {
            let mut p = vec![0.0; d + 1]; p[d] = 1.0;
            let (a, b) = if d % 2 == 0 { (endpoint(&mut r), endpoint(&mut r)) } else { corners[d % 5] };
            push_romberg(&mut cs, &p, a, b, 0.0, (d + 2) / 2, "audit/romberg-monomial-10..19");
        }
        for nmax in 11..=20usize {
            let d = (2 * nmax - 1).min(19); let p = coeffs(&mut r, d);
            let (a, b) = (endpoint(&mut r), endpoint(&mut r));
            push_romberg(&mut cs, &p, a, b, if nmax % 2 == 0 { 0.0 } else { 10f64.powi(-(3 + r.below(10) as i32)) }, nmax, "audit/romberg-budget-11..20");
        }
        // samples
        for (k, &len) in [2usize, 2, 3, 5, 64, 10000].iter().enumerate() {
            let y: Vec<f64> = (0..len).map(|_| r.uniform(-5.0, 5.0)).collect();
            let mut x: Vec<f64> = (0..len).map(|_| r.uniform(-1e3, 1e3)).collect();
            x.sort_by(|p, q| p.partial_cmp(q).unwrap());
            x[0] = -1e3; x[len - 1] = 1e3;
            push_samples(&mut cs, &y, &Some(x.clone()), &None, "audit/samples-whole-range");
            if k % 2 == 0 && len < 10000 {
                let mut xr = x.clone(); xr.reverse();
                push_samples(&mut cs, &y, &Some(xr), &None, "audit/samples-descending");
                push_samples(&mut cs, &y, &Some(vec![x[0]; len]), &None, "audit/samples-equal-abscissae");
                let xd: Vec<f64> = (0..len).map(|i| x[(i / 2) * 2 % len]).collect();
                push_samples(&mut cs, &y, &Some(xd), &None, "audit/samples-repeated-abscissae");
            }
        }
        if thorough {
            let len = 10000; let y: Vec<f64> = (0..len).map(|_| r.uniform(-5.0, 5.0)).collect();
            push_samples(&mut cs, &y, &None, &Some(r.uniform(0.0, 1.0)), "audit/samples-whole-range");
            push_samples(&mut cs, &y, &None, &None, "audit/samples-whole-range");
        }
    }

    cs.write(outdir, if thorough { 60 } else { 150 },
             "trapz: every n in 0..=40 and random n up to 4096 (600 quick), polynomial integrands of degree 0..6 (Horner), limits in +-1e3 incl. a=b, a>b, special values; romberg: every level budget 0..=10 (13 thorough), 14..20 sampled, eps 0 / 1e-3..1e-12 / uniform / special, degree 0..9, early-stop stream incl. successive estimates of opposite sign; quad5: all monomials 0..21 on [-1,1], [0,1] and a random interval, random polynomials to degree 19; six libm integrands through the recorded table; sampled trapezoid: three calling forms at every length 0..=24 (40 thorough), long arrays, malformed stream (length mismatch, x and dx both given, empty); at every tier the ends of the stated ranges: end points exactly +-1e3 in both orientations, a one-ulp interval, n = 1 / 4095 / 4096, every Romberg budget 11..20, monomials 10..19 under Romberg, samples of length 2 and 10000 with abscissae over the whole range, descending, repeated, all equal. Non-trivial = n >= 2 panels / >= 2 levels with degree >= 1, libm integrands, >= 3 samples or a panic; distinct by hash of the case term");
}

// ---------------------------------------------------------------------------------------------------------
// failure-search oracle: the property's statement against the implementation only

/// double-double arithmetic (Dekker/Knuth), enough for an exact-to-1e-30 polynomial antiderivative
#[derive(Clone, Copy)]
struct DD(f64, f64);
fn two_sum(a: f64, b: f64) -> DD { let s = a + b; let bb = s - a; DD(s, (a - (s - bb)) + (b - bb)) }
fn split(a: f64) -> (f64, f64) { let t = 134217729.0 * a; let hi = t - (t - a); (hi, a - hi) }
fn two_prod(a: f64, b: f64) -> DD {
    let p = a * b; let (ah, al) = split(a); let (bh, bl) = split(b);
    DD(p, ((ah * bh - p) + ah * bl + al * bh) + al * bl)
}
impl DD {
    fn from(x: f64) -> DD { DD(x, 0.0) }
    fn add(self, o: DD) -> DD { let s = two_sum(self.0, o.0); let t = s.1 + self.1 + o.1; let r = two_sum(s.0, t); DD(r.0, r.1) }
    fn neg(self) -> DD { DD(-self.0, -self.1) }
    fn mul(self, o: DD) -> DD { let p = two_prod(self.0, o.0); let t = p.1 + (self.0 * o.1 + self.1 * o.0); let r = two_sum(p.0, t); DD(r.0, r.1) }
    fn div_f(self, d: f64) -> DD {
        let q1 = self.0 / d; let p = two_prod(q1, d);
        let rem = self.add(p.neg()); let q2 = (rem.0 + rem.1) / d; let r = two_sum(q1, q2); DD(r.0, r.1)
    }
    fn val(self) -> f64 { self.0 + self.1 }
}
/// exact integral of the polynomial with coefficients `p` over [a, b] (double-double Horner on the antiderivative)
fn poly_int(p: &[f64], a: f64, b: f64) -> f64 {
    let anti = |x: f64| -> DD {
        let xx = DD::from(x); let mut acc = DD::from(0.0);
        for (j, &c) in p.iter().enumerate().rev() { acc = acc.mul(xx).add(DD::from(c).div_f((j + 1) as f64)); }
        acc.mul(xx)
    };
    anti(b).add(anti(a).neg()).val()
}
/// |b-a| * sum |c_j| max(|a|,|b|)^j : the size of the terms the rule adds up
fn poly_scale(p: &[f64], a: f64, b: f64) -> f64 {
    let m = a.abs().max(b.abs());
    (b - a).abs() * p.iter().enumerate().map(|(j, c)| c.abs() * m.powi(j as i32)).sum::<f64>()
}

/// smooth integrands with closed-form antiderivative F and a bound on max |f''| over [lo, hi] (domain fixed per entry)
struct Smooth { name: &'static str, f: fn(f64) -> f64, anti: fn(f64) -> f64, lo: f64, hi: f64, d2max: fn(f64, f64) -> f64 }
fn smooth_catalogue() -> Vec<Smooth> {
    fn absmax(a: f64, b: f64) -> f64 { a.abs().max(b.abs()) }
    vec![
        Smooth { name: "exp(x)", f: |x| x.exp(), anti: |x| x.exp(), lo: -3.0, hi: 3.0, d2max: |a, b| a.max(b).exp() },
        Smooth { name: "sin(x)", f: |x| x.sin(), anti: |x| -x.cos(), lo: -6.0, hi: 6.0, d2max: |_, _| 1.0 },
        Smooth { name: "cos(3x)", f: |x| (3.0 * x).cos(), anti: |x| (3.0 * x).sin() / 3.0, lo: -4.0, hi: 4.0, d2max: |_, _| 9.0 },
        Smooth { name: "1/(1+x^2)", f: |x| 1.0 / (1.0 + x * x), anti: |x| x.atan(), lo: -5.0, hi: 5.0, d2max: |_, _| 2.0 },
        Smooth { name: "1/x", f: |x| 1.0 / x, anti: |x| x.ln(), lo: 0.5, hi: 9.0, d2max: |a, b| 2.0 / a.min(b).powi(3) },
        Smooth { name: "ln(x)", f: |x| x.ln(), anti: |x| x * x.ln() - x, lo: 0.5, hi: 9.0, d2max: |a, b| 1.0 / a.min(b).powi(2) },
        Smooth { name: "ln(x)/x", f: |x| x.ln() / x, anti: |x| 0.5 * x.ln() * x.ln(), lo: 1.0, hi: 8.0, d2max: |a, b| 3.0 / a.min(b).powi(3) },
        Smooth { name: "x*sqrt(1+2x)", f: |x| x * (1.0 + 2.0 * x).sqrt(), anti: |x| { let u = 1.0 + 2.0 * x; u.powf(2.5) / 10.0 - u.powf(1.5) / 6.0 }, lo: 0.0, hi: 4.0,
                 d2max: |_, _| 2.0 },
        Smooth { name: "sin^2 cos^2", f: |x| x.sin().powi(2) * x.cos().powi(2), anti: |x| (4.0 * x - (4.0 * x).sin()) / 32.0, lo: -3.0, hi: 3.0, d2max: |_, _| 2.0 },
        Smooth { name: "sin^3 cos", f: |x| x.sin().powi(3) * x.cos(), anti: |x| x.sin().powi(4) / 4.0, lo: -3.0, hi: 3.0, d2max: |_, _| 5.0 },
        Smooth { name: "1/(3x-7)^2", f: |x| 1.0 / (3.0 * x - 7.0).powi(2), anti: |x| -1.0 / (3.0 * (3.0 * x - 7.0)), lo: 3.0, hi: 6.0, d2max: |a, b| 54.0 / (3.0 * a.min(b) - 7.0).powi(4) },
        Smooth { name: "exp(-x^2/2)*x", f: |x| x * (-x * x / 2.0).exp(), anti: |x| -(-x * x / 2.0).exp(), lo: -4.0, hi: 4.0, d2max: |_, _| 3.0 },
        Smooth { name: "sinh(x)", f: |x| x.sinh(), anti: |x| x.cosh(), lo: -3.0, hi: 3.0, d2max: |a, b| absmax(a, b).sinh() },
        Smooth { name: "cosh(x)", f: |x| x.cosh(), anti: |x| x.sinh(), lo: -3.0, hi: 3.0, d2max: |a, b| absmax(a, b).cosh() },
        Smooth { name: "tanh(x)", f: |x| x.tanh(), anti: |x| x.cosh().ln(), lo: -3.0, hi: 3.0, d2max: |_, _| 0.8 },
        Smooth { name: "sqrt(x)", f: |x| x.sqrt(), anti: |x| 2.0 / 3.0 * x.powf(1.5), lo: 0.5, hi: 9.0, d2max: |a, b| 0.25 / a.min(b).powf(1.5) },
        Smooth { name: "x*exp(x)", f: |x| x * x.exp(), anti: |x| (x - 1.0) * x.exp(), lo: -2.0, hi: 2.0, d2max: |a, b| (absmax(a, b) + 2.0) * a.max(b).exp() },
        Smooth { name: "x^2*sin(x)", f: |x| x * x * x.sin(), anti: |x| (2.0 - x * x) * x.cos() + 2.0 * x * x.sin(), lo: -3.0, hi: 3.0, d2max: |a, b| { let m = absmax(a, b); 2.0 + 4.0 * m + m * m } },
        Smooth { name: "1/(1+exp(-x))", f: |x| 1.0 / (1.0 + (-x).exp()), anti: |x| (1.0 + x.exp()).ln(), lo: -5.0, hi: 5.0, d2max: |_, _| 0.1 },
        Smooth { name: "atan(x)", f: |x| x.atan(), anti: |x| x * x.atan() - 0.5 * (1.0 + x * x).ln(), lo: -5.0, hi: 5.0, d2max: |_, _| 0.65 },
    ]
}

pub fn oracle(tier: &str, seed: u64) -> (u64, Vec<Finding>) {
    let thorough = tier == "thorough";
    let mut r = Rng::new(seed ^ 0xC07);
    let mut tried = 0u64;
    // keep, per class, the most severe failing input
    let mut worst: std::collections::BTreeMap<String, (f64, String, String)> = Default::default();
    let mut fail = |class: &str, sev: f64, what: String, input: String| {
        let e = worst.entry(class.to_string()).or_insert((-1.0, String::new(), String::new()));
        if sev > e.0 { *e = (sev, what, input); }
    };
    let eps = f64::EPSILON;
    let iters = if thorough { 25000 } else { 700 };

    // ---- 1. trapz: exact on affine integrands for every n >= 1 (up to rounding: (n + 8) eps on the terms added up)
    for it in 0..iters {
        let (c, d) = if it % 3 == 0 { (r.small_int(9), r.small_int(9)) } else { (r.uniform(-3.0, 3.0), r.uniform(-3.0, 3.0)) };
        let (a, b) = (endpoint(&mut r), if it % 17 == 0 { f64::NAN } else { endpoint(&mut r) });
        let b = if b.is_nan() { a } else { b };
        let n = match it % 5 { 0 => 1, 1 => 1 + r.below(8) as usize, 2 => 1usize << r.below(13), _ => 1 + r.below(4096) as usize };
        let p = [c, d];
        let input = format!("trapz(f(x) = {:e} + {:e}*x, a = {:e}, b = {:e}, n = {})", c, d, a, b, n);
        crumb(&input);
        let got = catch(|| trapz(|x| horner(&p, x), a, b, n));
        tried += 1;
        let want = poly_int(&p, a, b);
        let tol = 4.0 * (n as f64 + 8.0) * eps * poly_scale(&p, a, b);
        match got {
            Err(e) => fail("trapz:panics", 1.0, format!("panicked: {}", e), input),
            Ok(g) => {
                if !((g - want).abs() <= tol) {
                    fail("trapz:affine-not-exact", (g - want).abs() / (tol + f64::MIN_POSITIVE), format!("returned {:e}, the integral of the affine integrand is {:e} (difference {:e}, rounding allowance {:e})", g, want, g - want, tol), input.clone());
                }
                if a == b && g != 0.0 { fail("trapz:a=b-nonzero", 1.0, format!("returned {:e} for an empty interval", g), input); }
            }
        }
    }
    // exact arithmetic instance: integer data, n a power of two => every operation is exact, result must be equal
    for _ in 0..iters / 2 {
        let (c, d) = (r.small_int(9), r.small_int(9)); let a = r.small_int(64); let w = r.small_int(64); let n = 1usize << r.below(7);
        let b = a + w; let p = [c, d];
        let input = format!("trapz(f(x) = {:e} + {:e}*x, a = {:e}, b = {:e}, n = {})", c, d, a, b, n);
        crumb(&input);
        let got = catch(|| trapz(|x| horner(&p, x), a, b, n)); tried += 1;
        let want = c * w + d * (b * b - a * a) / 2.0;
        if let Ok(g) = got { if g != want {
            fail("trapz:affine-not-exact", f64::INFINITY, format!("returned {:e}; every operation is exact on this input and the integral is {:e}", g, want), input); } }
    }

    // ---- 2. linearity, sign change under a <-> b, a = b => 0   (all three rules; rounding allowances on the size of the terms)
    for it in 0..iters {
        let df = r.below(6) as usize; let dg = r.below(6) as usize;
        let (pf, pg) = (coeffs(&mut r, df), coeffs(&mut r, dg));
        let (al, be) = (r.small_int(4), r.uniform(-2.0, 2.0));
        let (a, b) = (endpoint(&mut r), endpoint(&mut r));
        let n = 1 + r.below(if it % 4 == 0 { 4096 } else { 64 }) as usize;
        let k = 2 + r.below(7) as usize;
        let f = |x: f64| horner(&pf, x); let g = |x: f64| horner(&pg, x);
        let h = |x: f64| al * horner(&pf, x) + be * horner(&pg, x);
        let sc = al.abs() * poly_scale(&pf, a, b) + be.abs() * poly_scale(&pg, a, b);
        let rules: [(&str, Box<dyn Fn(&dyn Fn(f64) -> f64, f64, f64) -> f64>, f64); 3] = [
            ("trapz", Box::new(move |q: &dyn Fn(f64) -> f64, a: f64, b: f64| trapz(|x| q(x), a, b, n)), 8.0 * (n as f64 + 8.0) * eps),
            ("romberg", Box::new(move |q: &dyn Fn(f64) -> f64, a: f64, b: f64| romberg(|x| q(x), a, b, 0.0, k)), 64.0 * ((1u64 << k) as f64 + 8.0) * eps),
            ("quad5", Box::new(|q: &dyn Fn(f64) -> f64, a: f64, b: f64| quad5(|x| q(x), a, b)), 256.0 * eps)];
        for (name, rule, rel) in rules.iter() {
            let input = format!("{} (n = {}, levels = {}, eps = 0) f = {} g = {} alpha = {:e} beta = {:e} a = {:e} b = {:e}", name, n, k, json_floats(&pf), json_floats(&pg), al, be, a, b);
            tried += 3;
            crumb(&input);
            let res = catch(|| (rule(&f, a, b), rule(&g, a, b), rule(&h, a, b), rule(&h, b, a), rule(&h, a, a)));
            match res {
                Err(e) => fail(&format!("{}:panics", name), 1.0, format!("panicked: {}", e), input),
                Ok((rf, rg, rh, rhs, rz)) => {
                    let tol = rel * sc + f64::MIN_POSITIVE;
                    if !((rh - (al * rf + be * rg)).abs() <= tol) { fail(&format!("{}:not-linear", name), (rh - (al * rf + be * rg)).abs() / tol, format!("rule(alpha f + beta g) = {:e} but alpha rule(f) + beta rule(g) = {:e}", rh, al * rf + be * rg), input.clone()); }
                    if !((rh + rhs).abs() <= tol) { fail(&format!("{}:no-sign-change", name), (rh + rhs).abs() / tol, format!("rule over [a,b] = {:e}, over [b,a] = {:e}: sum should vanish", rh, rhs), input.clone()); }
                    if rz != 0.0 { fail(&format!("{}:a=b-nonzero", name), 1.0, format!("rule over [a,a] = {:e}", rz), input.clone()); }
                }
            }
        }
    }

    // ---- 3a. Romberg with a positive tolerance on polynomials that VANISH (up to a constant) at both end points and at the midpoint,
    //      c0 + c (t-m)^2 ((t-m)^2 - h^2): the one-panel trapezoid and the Simpson estimate coincide (both see only c0), so a convergence test
    //      applied too early stops on a wrong value; with k >= 3 levels (degree 4 <= 2k-1) the rule must still return the integral
    for it in 0..iters / 4 {
        let k = 3 + r.below(6) as usize;
        let (a, b) = if it % 3 == 0 { (-1.0, 1.0) } else { let a = r.small_int(4); (a, a + 1.0 + r.below(5) as f64) };
        let (m, h) = ((a + b) / 2.0, (b - a) / 2.0);
        let (c0, c) = (r.small_int(3), if r.coin(0.5) { 1.0 } else { r.uniform(0.5, 3.0) });
        // coefficients in t of c0 + c (u^4 - h^2 u^2), u = t - m
        let p = vec![c0 + c * (m.powi(4) - h * h * m * m), c * (-4.0 * m.powi(3) + 2.0 * h * h * m), c * (6.0 * m * m - h * h), c * (-4.0 * m), c];
        let want = poly_int(&p, a, b); let sc = poly_scale(&p, a, b);
        let eps = *r.pick(&[1e-12, 1e-10, 1e-8]);
        tried += 1;
        let input = format!("romberg(polynomial coefficients {} (degree 4, equal values at a, b and the midpoint), a = {:e}, b = {:e}, eps = {:e}, nmax = {})", json_floats(&p), a, b, eps, k);
        crumb(&input);
        match catch(|| romberg(|x| horner(&p, x), a, b, eps, k)) {
            Err(e) => fail("romberg:panics", 1.0, format!("panicked: {}", e), input),
            Ok(g) => { let tol = 1e-6 * sc + f64::MIN_POSITIVE; if !((g - want).abs() <= tol) { fail("romberg:polynomial-not-exact", (g - want).abs() / tol, format!("returned {:e}, exact integral {:e}: stopped before the estimates could differ", g, want), input); } }
        }
    }
    // ---- 3. Romberg with k levels is exact up to degree 2k-1; Gauss-Legendre up to degree 9 at least (checked to 19)
    for it in 0..iters {
        let k = 1 + r.below(if thorough { 12 } else { 10 }) as usize;
        let d = r.below((2 * k).min(20) as u64) as usize;
        let mono = it % 3 == 0;
        let p = if mono { let mut p = vec![0.0; d + 1]; p[d] = 1.0; p } else { coeffs(&mut r, d) };
        let (a, b) = if it % 4 == 0 { (r.small_int(3), r.small_int(3)) } else { (endpoint(&mut r), endpoint(&mut r)) };
        let want = poly_int(&p, a, b); let sc = poly_scale(&p, a, b);
        tried += 1;
        let input = format!("romberg(polynomial coefficients {} (degree {}), a = {:e}, b = {:e}, eps = 0, nmax = {})", json_floats(&p), d, a, b, k);
        crumb(&input);
        match catch(|| romberg(|x| horner(&p, x), a, b, 0.0, k)) {
            Err(e) => fail("romberg:panics", 1.0, format!("panicked: {}", e), input),
            Ok(g) => { let tol = 1e-10 * sc + f64::MIN_POSITIVE; if !((g - want).abs() <= tol) { fail("romberg:polynomial-not-exact", (g - want).abs() / tol, format!("returned {:e}, exact integral {:e} (difference {:e}, allowance {:e})", g, want, g - want, tol), input); } }
        }
        let d = r.below(20) as usize;
        let p = if mono { let mut p = vec![0.0; d + 1]; p[d] = 1.0; p } else { coeffs(&mut r, d) };
        let want = poly_int(&p, a, b); let sc = poly_scale(&p, a, b);
        tried += 1;
        let input = format!("quad5(polynomial coefficients {} (degree {}), a = {:e}, b = {:e})", json_floats(&p), d, a, b);
        crumb(&input);
        match catch(|| quad5(|x| horner(&p, x), a, b)) {
            Err(e) => fail("quad5:panics", 1.0, format!("panicked: {}", e), input),
            Ok(g) => { let tol = 1e-12 * sc + f64::MIN_POSITIVE; if !((g - want).abs() <= tol) { fail(if d <= 9 { "quad5:polynomial-not-exact" } else { "quad5:polynomial-not-exact-deg10..19" }, (g - want).abs() / tol, format!("returned {:e}, exact integral {:e} (difference {:e}, allowance {:e})", g, want, g - want, tol), input); } }
        }
    }

    // ---- 4. smooth integrands: trapezoid error bound (b-a) h^2/12 max|f''|, Romberg error of the order of eps
    let cat = smooth_catalogue();
    for it in 0..(if thorough { 8000 } else { 400 }) {
        let s = &cat[it % cat.len()];
        let (mut a, mut b) = (r.uniform(s.lo, s.hi), r.uniform(s.lo, s.hi));
        if it % 7 == 0 { std::mem::swap(&mut a, &mut b); }
        let want = (s.anti)(b) - (s.anti)(a);
        let fmax = (0..=64).map(|i| (s.f)(a + (b - a) * i as f64 / 64.0).abs()).fold(0.0, f64::max);
        let amax = (s.anti)(a).abs().max((s.anti)(b).abs());
        let n = 1 + r.below(4096) as usize;
        let h = (b - a).abs() / n as f64;
        let bound = (b - a).abs() * h * h / 12.0 * (s.d2max)(a, b);
        let round = 8.0 * (n as f64 + 8.0) * eps * (b - a).abs() * fmax + 64.0 * eps * amax;
        tried += 1;
        let input = format!("trapz(f = {}, a = {:e}, b = {:e}, n = {})", s.name, a, b, n);
        crumb(&input);
        match catch(|| trapz(s.f, a, b, n)) {
            Err(e) => fail("trapz:panics", 1.0, format!("panicked: {}", e), input),
            Ok(g) => if !((g - want).abs() <= bound + round) { fail("trapz:error-bound-exceeded", (g - want).abs() / (bound + round), format!("returned {:e}, integral {:e}: error {:e} exceeds (b-a)h^2/12 max|f''| = {:e} (+ rounding {:e})", g, want, (g - want).abs(), bound, round), input) },
        }
        let tol_req = *r.pick(&[1e-3, 1e-5, 1e-8, 1e-10]);
        let nmax = 12 + r.below(9) as usize;
        tried += 1;
        let input = format!("romberg(f = {}, a = {:e}, b = {:e}, eps = {:e}, nmax = {})", s.name, a, b, tol_req, nmax);
        crumb(&input);
        match catch(|| romberg(s.f, a, b, tol_req, nmax)) {
            Err(e) => fail("romberg:panics", 1.0, format!("panicked: {}", e), input),
            Ok(g) => { let allow = 100.0 * tol_req * want.abs().max(1.0) + 1e-11 * ((b - a).abs() * fmax + amax);
                       if !((g - want).abs() <= allow) {
                           // did the very first convergence test (levels 1 and 2: 3 against 5 nodes) end the run?  nmax = 3 returns r[2][2] whatever happens
                           let first = catch(|| romberg(s.f, a, b, tol_req, 3)).map(|r3| r3 == g).unwrap_or(false);
                           let class = if first { "romberg:first-convergence-test-aliased" } else { "romberg:error-far-above-tolerance" };
                           fail(class, (g - want).abs() / allow, format!("returned {:e}, integral {:e}: error {:e} against requested tolerance {:e}{}", g, want, (g - want).abs(), tol_req,
                                if first { " (the 3-node and 5-node estimates agreed to the tolerance by aliasing, so the run stopped at its first test)" } else { "" }), input); } }
        }
    }

    // ---- 5. Romberg must not stop on two successive estimates of opposite sign (they differ by |x|+|y|, not by < eps):
    //         degree-6 polynomials built so that the 3-point (Simpson) and 5-point (Boole) estimates are x and -x
    for _ in 0..(if thorough { 400 } else { 60 }) {
        let (a, b) = (r.small_int(4), r.small_int(4));
        if a == b { continue; }
        // p(t) = q(t) + c * w(t), w(t) = (t-a)^2 (t-b)^2 ((t - (a+b)/2)^2): vanishes at the 3 Simpson nodes, not at the quarter points
        // choose c so that Boole(p) = -Simpson(p); as Simpson(p) = Simpson(q): c = -(Simpson(q) + Boole(q)) / Boole(w)
        let q = coeffs(&mut r, 3);
        let m = 0.5 * (a + b);
        let w = |t: f64| (t - a) * (t - a) * (t - b) * (t - b) * (t - m) * (t - m);
        let simpson = |f: &dyn Fn(f64) -> f64| (b - a) / 6.0 * (f(a) + 4.0 * f(m) + f(b));
        let boole = |f: &dyn Fn(f64) -> f64| { let hq = (b - a) / 4.0; (b - a) / 90.0 * (7.0 * f(a) + 32.0 * f(a + hq) + 12.0 * f(m) + 32.0 * f(a + 3.0 * hq) + 7.0 * f(b)) };
        let qf = |t: f64| horner(&q, t);
        let sq = simpson(&qf); if sq.abs() < 1e-3 { continue; }
        let c = -(sq + boole(&qf)) / boole(&w);
        let p = |t: f64| horner(&q, t) + c * w(t);
        // exact integral: q by the antiderivative, w by substitution u = (t-m)/((b-a)/2): int = ((b-a)/2)^7 * int_{-1}^{1} (u^2-1)^2 u^2 du = ((b-a)/2)^7 * 16/105
        let want = poly_int(&q, a, b) + c * ((b - a) / 2.0).powi(7) * 16.0 / 105.0;
        tried += 1;
        let input = format!("romberg(p(t) = q(t) + c*(t-a)^2 (t-b)^2 (t-(a+b)/2)^2, q coefficients {}, c = {:e}, a = {:e}, b = {:e}, eps = 1e-8, nmax = 12): Simpson estimate {:e}, Boole estimate {:e}", json_floats(&q), c, a, b, simpson(&p), boole(&p));
        crumb(&input);
        match catch(|| romberg(|t| p(t), a, b, 1e-8, 12)) {
            Err(e) => fail("romberg:panics", 1.0, format!("panicked: {}", e), input),
            Ok(g) => { let allow = 1e-6 * (want.abs() + sq.abs());
                       if !((g - want).abs() <= allow) { fail("romberg:stops-on-opposite-sign-estimates", (g - want).abs() / allow, format!("returned {:e} after the estimates {:e} and {:e} (opposite signs, relative difference 2) were taken as converged; the integral of this degree-6 polynomial is {:e}, which 4 levels reproduce exactly", g, simpson(&p), boole(&p), want), input); } }
        }
    }

    // ---- 6. sampled trapezoid = sum of the exact integrals of the chords; malformed calls are rejected
    for it in 0..iters {
        let len = match it % 4 { 0 => 2 + r.below(6) as usize, 1 => 2 + r.below(60) as usize, _ => 2 + r.below(if thorough { 9999 } else { 1500 }) as usize };
        let integer = it % 3 == 0;
        let y: Vec<f64> = (0..len).map(|_| if integer { 2.0 * r.small_int(50) } else { r.uniform(-5.0, 5.0) }).collect();
        let mut x: Vec<f64> = (0..len).map(|_| if integer { r.small_int(500) } else { r.uniform(-100.0, 100.0) }).collect();
        if r.coin(0.8) { x.sort_by(|p, q| p.partial_cmp(q).unwrap()); }
        let form = it % 3;
        let dx = if integer { r.small_int(8) } else { r.uniform(-2.0, 2.0) };
        let width = |i: usize| match form { 0 => DD::from(x[i]).add(DD::from(-x[i - 1])), 1 => DD::from(dx), _ => DD::from(1.0) };
        let mut acc = DD::from(0.0); let mut mag = 0.0;
        for i in 1..len { let t = DD::from(y[i]).add(DD::from(y[i - 1])).mul(width(i)); acc = acc.add(DD(t.0 / 2.0, t.1 / 2.0)); mag += (t.0 / 2.0).abs(); }
        let want = acc.val();
        let short = |v: &[f64]| if v.len() <= 12 { json_floats(v) } else { format!("{} values starting {}", v.len(), json_floats(&v[..6])) };
        let input = format!("trapezoid(y = {}, x = {}, dx = {})", short(&y), if form == 0 { short(&x) } else { "None".into() }, if form == 1 { format!("{:e}", dx) } else { "None".into() });
        crumb(&input);
        let got = match form { 0 => catch(|| trapezoid(&y, Some(&x), None)), 1 => catch(|| trapezoid(&y, None, Some(dx))), _ => catch(|| trapezoid(&y, None, None)) };
        tried += 1;
        match got {
            Err(e) => fail("trapezoid:panics-on-valid-input", 1.0, format!("panicked: {}", e), input),
            Ok(g) => { let tol = if integer { 0.0 } else { 2.0 * (len as f64 + 4.0) * eps * mag };
                       if !((g - want).abs() <= tol) { fail("trapezoid:not-sum-of-chord-integrals", (g - want).abs() / (tol + f64::MIN_POSITIVE), format!("returned {:e}, the piecewise-linear interpolant integrates to {:e}", g, want), input); } }
        }
        if it % 10 == 0 {
            let lx = len + 1 + r.below(3) as usize; let xb: Vec<f64> = (0..lx).map(|i| i as f64).collect();
            tried += 2;
            crumb(&format!("trapezoid with len(y) = {}, len(x) = {} / with both x and dx", len, lx));
            if catch(|| trapezoid(&y, Some(&xb), None)).is_ok() { fail("trapezoid:length-mismatch-accepted", 1.0, "returned a value for x and y of different lengths".into(), format!("len(y) = {}, len(x) = {}", len, lx)); }
            if catch(|| trapezoid(&y, Some(&x), Some(1.0))).is_ok() { fail("trapezoid:x-and-dx-accepted", 1.0, "returned a value although both x and dx were given".into(), format!("len(y) = {}", len)); }
        }
    }

    // =====================================================================================================
    // 7. coverage audit: the same demands (same classes, same allowances) at the places of the quantifier the sections above
    //    do not reach.  Own random stream, so that sections 1..6 evaluate exactly what they evaluated before.
    let mut r = Rng::new(seed ^ 0xA0D17_C07);
    let next_down = |x: f64| if x > 0.0 { f64::from_bits(x.to_bits() - 1) } else { f64::from_bits(x.to_bits() + 1) };
    // end points ON the boundary of the stated range, both orientations, the whole range, a one-ulp interval at the boundary, a = b
    let corners: Vec<(f64, f64)> = vec![(-1e3, 1e3), (1e3, -1e3), (0.0, 1.0), (999.0, 1e3), (-999.5, -1e3), (1e3, next_down(1e3)), (-1e3, -1e3), (1e3, 0.0)];

    // ---- 7a. Romberg, eps = 0: EVERY level budget 1..20 x EVERY monomial of degree <= min(2k-1, 19) (sections 3 stops at k = 10 / 12),
    //          on the corner intervals and a random one; plus random polynomials of the full admissible degree
    for k in 1..=20usize {
        let dmax = (2 * k - 1).min(19);
        // 2^(k-1) nodes per call: all corners up to k = 13, fewer above at the quick tier
        let nint = if thorough || k <= 13 { corners.len() } else if k <= 17 { 3 } else { 2 };
        for d in 0..=dmax + 1 {
            let mono = d <= dmax;
            let dd = if mono { d } else { dmax };
            let p = if mono { let mut p = vec![0.0; d + 1]; p[d] = 1.0; p } else { coeffs(&mut r, dd) };
            let mut ivs: Vec<(f64, f64)> = corners[..nint].to_vec();
            ivs.push((endpoint(&mut r), endpoint(&mut r)));
            for (a, b) in ivs {
                let want = poly_int(&p, a, b); let sc = poly_scale(&p, a, b);
                tried += 1;
                let input = format!("romberg(polynomial coefficients {} (degree {}), a = {:e}, b = {:e}, eps = 0, nmax = {})", json_floats(&p), dd, a, b, k);
                crumb(&input);
                match catch(|| romberg(|x| horner(&p, x), a, b, 0.0, k)) {
                    Err(e) => fail("romberg:panics", 1.0, format!("panicked: {}", e), input),
                    Ok(g) => { let tol = 1e-10 * sc + f64::MIN_POSITIVE;
                               if !((g - want).abs() <= tol) { fail("romberg:polynomial-not-exact", (g - want).abs() / tol, format!("returned {:e}, exact integral {:e} (difference {:e}, allowance {:e})", g, want, g - want, tol), input.clone()); }
                               if a == b && g != 0.0 { fail("romberg:a=b-nonzero", 1.0, format!("rule over [a,a] = {:e}", g), input); } }
                }
            }
        }
    }

    // ---- 7b. linearity / sign change / empty interval of Romberg at level budgets 9..20 (section 2 draws 2..8), eps = 0
    for it in 0..(if thorough { 600 } else { 36 }) {
        let k = 9 + it % 12;
        let df = r.below(6) as usize; let dg = r.below(6) as usize;
        let (pf, pg) = (coeffs(&mut r, df), coeffs(&mut r, dg));
        let (al, be) = (r.small_int(4), r.uniform(-2.0, 2.0));
        let (a, b) = if it % 5 == 0 { corners[(it / 5) % corners.len()] } else { (endpoint(&mut r), endpoint(&mut r)) };
        let f = |x: f64| horner(&pf, x); let g = |x: f64| horner(&pg, x);
        let h = |x: f64| al * horner(&pf, x) + be * horner(&pg, x);
        let sc = al.abs() * poly_scale(&pf, a, b) + be.abs() * poly_scale(&pg, a, b);
        let rel = 64.0 * ((1u64 << k) as f64 + 8.0) * eps;
        let input = format!("romberg (n = 0, levels = {}, eps = 0) f = {} g = {} alpha = {:e} beta = {:e} a = {:e} b = {:e}", k, json_floats(&pf), json_floats(&pg), al, be, a, b);
        tried += 3;
        crumb(&input);
        match catch(|| (romberg(&f, a, b, 0.0, k), romberg(&g, a, b, 0.0, k), romberg(&h, a, b, 0.0, k), romberg(&h, b, a, 0.0, k), romberg(&h, a, a, 0.0, k))) {
            Err(e) => fail("romberg:panics", 1.0, format!("panicked: {}", e), input),
            Ok((rf, rg, rh, rhs, rz)) => {
                let tol = rel * sc + f64::MIN_POSITIVE;
                if !((rh - (al * rf + be * rg)).abs() <= tol) { fail("romberg:not-linear", (rh - (al * rf + be * rg)).abs() / tol, format!("rule(alpha f + beta g) = {:e} but alpha rule(f) + beta rule(g) = {:e}", rh, al * rf + be * rg), input.clone()); }
                if !((rh + rhs).abs() <= tol) { fail("romberg:no-sign-change", (rh + rhs).abs() / tol, format!("rule over [a,b] = {:e}, over [b,a] = {:e}: sum should vanish", rh, rhs), input.clone()); }
                if rz != 0.0 { fail("romberg:a=b-nonzero", 1.0, format!("rule over [a,a] = {:e}", rz), input.clone()); }
            }
        }
    }

    // ---- 7c. trapz (affine exactness, sign change, a = b) and quad5 (monomials 0..19) ON the corners: first / last panel count, whole range
    for &(a, b) in corners.iter() {
        for &n in [1usize, 2, 3, 4095, 4096].iter() {
            for rep in 0..2 {
                let (c, d) = if rep == 0 { (r.small_int(9), r.small_int(9)) } else { (r.uniform(-3.0, 3.0), r.uniform(-3.0, 3.0)) };
                let p = [c, d];
                let input = format!("trapz(f(x) = {:e} + {:e}*x, a = {:e}, b = {:e}, n = {})", c, d, a, b, n);
                crumb(&input);
                tried += 2;
                match catch(|| (trapz(|x| horner(&p, x), a, b, n), trapz(|x| horner(&p, x), b, a, n))) {
                    Err(e) => fail("trapz:panics", 1.0, format!("panicked: {}", e), input),
                    Ok((g, gs)) => {
                        let want = poly_int(&p, a, b);
                        let tol = 4.0 * (n as f64 + 8.0) * eps * poly_scale(&p, a, b);
                        if !((g - want).abs() <= tol) { fail("trapz:affine-not-exact", (g - want).abs() / (tol + f64::MIN_POSITIVE), format!("returned {:e}, the integral of the affine integrand is {:e} (difference {:e}, rounding allowance {:e})", g, want, g - want, tol), input.clone()); }
                        if !((g + gs).abs() <= 2.0 * tol + f64::MIN_POSITIVE) { fail("trapz:no-sign-change", (g + gs).abs() / (2.0 * tol + f64::MIN_POSITIVE), format!("rule over [a,b] = {:e}, over [b,a] = {:e}: sum should vanish", g, gs), input.clone()); }
                        if a == b && g != 0.0 { fail("trapz:a=b-nonzero", 1.0, format!("returned {:e} for an empty interval", g), input); }
                    }
                }
            }
        }
        for d in 0..=19usize {
            let mut p = vec![0.0; d + 1]; p[d] = 1.0;
            let want = poly_int(&p, a, b); let sc = poly_scale(&p, a, b);
            tried += 2;
            let input = format!("quad5(polynomial coefficients {} (degree {}), a = {:e}, b = {:e})", json_floats(&p), d, a, b);
            crumb(&input);
            match catch(|| (quad5(|x| horner(&p, x), a, b), quad5(|x| horner(&p, x), b, a))) {
                Err(e) => fail("quad5:panics", 1.0, format!("panicked: {}", e), input),
                Ok((g, gs)) => { let tol = 1e-12 * sc + f64::MIN_POSITIVE;
                    if !((g - want).abs() <= tol) { fail(if d <= 9 { "quad5:polynomial-not-exact" } else { "quad5:polynomial-not-exact-deg10..19" }, (g - want).abs() / tol, format!("returned {:e}, exact integral {:e} (difference {:e}, allowance {:e})", g, want, g - want, tol), input.clone()); }
                    if !((g + gs).abs() <= 256.0 * eps * sc + f64::MIN_POSITIVE) { fail("quad5:no-sign-change", (g + gs).abs() / (256.0 * eps * sc + f64::MIN_POSITIVE), format!("rule over [a,b] = {:e}, over [b,a] = {:e}: sum should vanish", g, gs), input.clone()); }
                    if a == b && g != 0.0 { fail("quad5:a=b-nonzero", 1.0, format!("rule over [a,a] = {:e}", g), input); } }
            }
        }
    }

    // ---- 7d. smooth catalogue: the WHOLE stated domain of every entry in both orientations (section 4 draws interior sub-intervals),
    //          first / last panel counts, and the ends of the tolerance range: eps = 0, below rounding, log-uniform in 1e-12..1e-3, exactly 1e-3
    let mut smooth_case = |s: &Smooth, a: f64, b: f64, n: usize, tol_req: f64, nmax: usize, tried: &mut u64| {
        let want = (s.anti)(b) - (s.anti)(a);
        let fmax = (0..=64).map(|i| (s.f)(a + (b - a) * i as f64 / 64.0).abs()).fold(0.0, f64::max);
        let amax = (s.anti)(a).abs().max((s.anti)(b).abs());
        let h = (b - a).abs() / n as f64;
        let bound = (b - a).abs() * h * h / 12.0 * (s.d2max)(a, b);
        let round = 8.0 * (n as f64 + 8.0) * eps * (b - a).abs() * fmax + 64.0 * eps * amax;
        *tried += 1;
        let input = format!("trapz(f = {}, a = {:e}, b = {:e}, n = {})", s.name, a, b, n);
        crumb(&input);
        match catch(|| trapz(s.f, a, b, n)) {
            Err(e) => fail("trapz:panics", 1.0, format!("panicked: {}", e), input),
            Ok(g) => if !((g - want).abs() <= bound + round) { fail("trapz:error-bound-exceeded", (g - want).abs() / (bound + round), format!("returned {:e}, integral {:e}: error {:e} exceeds (b-a)h^2/12 max|f''| = {:e} (+ rounding {:e})", g, want, (g - want).abs(), bound, round), input) },
        }
        *tried += 1;
        let input = format!("romberg(f = {}, a = {:e}, b = {:e}, eps = {:e}, nmax = {})", s.name, a, b, tol_req, nmax);
        crumb(&input);
        match catch(|| romberg(s.f, a, b, tol_req, nmax)) {
            Err(e) => fail("romberg:panics", 1.0, format!("panicked: {}", e), input),
            Ok(g) => { let allow = 100.0 * tol_req * want.abs().max(1.0) + 1e-11 * ((b - a).abs() * fmax + amax);
                       if !((g - want).abs() <= allow) {
                           let first = catch(|| romberg(s.f, a, b, tol_req, 3)).map(|r3| r3 == g).unwrap_or(false);
                           let class = if first { "romberg:first-convergence-test-aliased" } else { "romberg:error-far-above-tolerance" };
                           fail(class, (g - want).abs() / allow, format!("returned {:e}, integral {:e}: error {:e} against requested tolerance {:e}{}", g, want, (g - want).abs(), tol_req,
                                if first { " (the 3-node and 5-node estimates agreed to the tolerance by aliasing, so the run stopped at its first test)" } else { "" }), input); } }
        }
    };
    let eps_ends = [0.0, 1e-16, 1e-14, 1e-12, 1e-3];
    for (i, s) in cat.iter().enumerate() {
        for (j, &n) in [1usize, 2, 4096].iter().enumerate() {
            let (a, b) = if j % 2 == 0 { (s.lo, s.hi) } else { (s.hi, s.lo) };
            smooth_case(s, a, b, n, eps_ends[(i + j) % eps_ends.len()], 12 + (i + 3 * j) % 9, &mut tried);
        }
    }
    for it in 0..(if thorough { 3000 } else { 120 }) {
        let s = &cat[it % cat.len()];
        let (a, b) = match it % 4 { 0 => (s.lo, r.uniform(s.lo, s.hi)), 1 => (r.uniform(s.lo, s.hi), s.hi), _ => (r.uniform(s.lo, s.hi), r.uniform(s.lo, s.hi)) };
        let tol_req = match it % 3 { 0 => eps_ends[(it / 3) % eps_ends.len()], _ => 10f64.powf(r.uniform(-12.0, -3.0)) };
        let n = *r.pick(&[1usize, 2, 3, 4095, 4096]);
        smooth_case(s, a, b, n, tol_req, 12 + r.below(9) as usize, &mut tried);
    }

    // ---- 7e. sampled trapezoid: first and last admissible length (2, 10^4) at every tier, abscissae over the whole range +-1e3, uniform abscissae
    //          passed as x (must agree with the dx form), descending abscissae, repeated and all-equal abscissae
    let lens: Vec<usize> = if thorough { vec![2, 2, 3, 3, 4, 9999, 10000, 10000, 10000, 10000] } else { vec![2, 2, 3, 4, 10000, 10000] };
    for rep in 0..(if thorough { 40 } else { 4 }) {
        for (li, &len) in lens.iter().enumerate() {
            let kind = (rep + li) % 6;
            let integer = (rep + li) % 2 == 1 && kind != 1 && kind != 5;
            let y: Vec<f64> = (0..len).map(|_| if integer { 2.0 * r.small_int(50) } else { r.uniform(-5.0, 5.0) }).collect();
            let d = if integer { r.small_int(8) } else { r.uniform(-2.0, 2.0) * 0.1 };
            let x0 = if integer { r.small_int(500) } else { r.uniform(-1e3, 0.0) };
            let mut x: Vec<f64> = match kind {
                0 => (0..len).map(|_| if integer { r.small_int(1000) } else { r.uniform(-1e3, 1e3) }).collect(),            // whole range, sorted below
                1 => (0..len).map(|i| x0 + i as f64 * d).collect(),                                                       // uniform grid given as x
                2 => (0..len).map(|_| if integer { r.small_int(1000) } else { r.uniform(-1e3, 1e3) }).collect(),            // descending (sorted, reversed)
                3 => vec![x0; len],                                                                                       // all abscissae equal: integral 0
                4 => (0..len).map(|i| if integer { (i / 3) as f64 - 1000.0 } else { -1e3 + 2e3 * ((i / 2) as f64) / len as f64 }).collect(), // every knot repeated
                _ => { let mut v: Vec<f64> = (0..len).map(|_| r.uniform(-1e3, 1e3)).collect(); v[0] = -1e3; v[len - 1] = 1e3; v } // end points on the boundary
            };
            if kind != 1 && kind != 3 { x.sort_by(|p, q| p.partial_cmp(q).unwrap()); }
            if kind == 2 { x.reverse(); }
            let mut acc = DD::from(0.0); let mut mag = 0.0;
            for i in 1..len { let t = DD::from(y[i]).add(DD::from(y[i - 1])).mul(DD::from(x[i]).add(DD::from(-x[i - 1]))); acc = acc.add(DD(t.0 / 2.0, t.1 / 2.0)); mag += (t.0 / 2.0).abs(); }
            let want = acc.val();
            let short = |v: &[f64]| if v.len() <= 12 { json_floats(v) } else { format!("{} values starting {}", v.len(), json_floats(&v[..6])) };
            let input = format!("trapezoid(y = {}, x = {}, dx = None)", short(&y), short(&x));
            crumb(&input);
            tried += 1;
            match catch(|| trapezoid(&y, Some(&x), None)) {
                Err(e) => fail("trapezoid:panics-on-valid-input", 1.0, format!("panicked: {}", e), input),
                Ok(g) => {
                    // exact when every operation is: integer abscissae, even integer ordinates
                    let tol = if integer { 0.0 } else { 2.0 * (len as f64 + 4.0) * eps * mag };
                    if !((g - want).abs() <= tol) { fail("trapezoid:not-sum-of-chord-integrals", (g - want).abs() / (tol + f64::MIN_POSITIVE), format!("returned {:e}, the piecewise-linear interpolant integrates to {:e}", g, want), input.clone()); }
                    if kind == 3 && g != 0.0 { fail("trapezoid:not-sum-of-chord-integrals", f64::INFINITY, format!("returned {:e} although all abscissae coincide (every chord has width 0)", g), input.clone()); }
                    if kind == 1 {
                        // the same samples through the constant-spacing form: sum (y_i + y_{i-1})/2 * d, against the x form up to the rounding of x0 + i d
                        tried += 1;
                        let xm = x0.abs().max((x0 + len as f64 * d).abs());
                        let ysum: f64 = (1..len).map(|i| ((y[i] + y[i - 1]) / 2.0).abs()).sum();
                        match catch(|| trapezoid(&y, None, Some(d))) {
                            Err(e) => fail("trapezoid:panics-on-valid-input", 1.0, format!("panicked: {}", e), format!("trapezoid(y = {}, x = None, dx = {:e})", short(&y), d)),
                            Ok(gd) => { let tol2 = tol + 2.0 * (len as f64 + 4.0) * eps * mag + 4.0 * eps * xm * ysum;
                                        if !((g - gd).abs() <= tol2) { fail("trapezoid:not-sum-of-chord-integrals", (g - gd).abs() / (tol2 + f64::MIN_POSITIVE), format!("x form returned {:e}, the dx form {:e} on the uniform grid x0 = {:e}, dx = {:e}", g, gd, x0, d), input); } }
                        }
                    }
                }
            }
        }
    }

    // ---- 7f. level budgets 2..11 with a positive tolerance on the smooth catalogue (section 4 draws budgets 12..20 only).  With so few levels the
    //          budget can run out before the tolerance is met, and then nothing is promised; the demand "error of the order of eps" is made exactly
    //          when the run STOPPED EARLY, i.e. reported convergence (its value differs from the value of the same budget with eps = 0)
    for it in 0..(if thorough { 6000 } else { 400 }) {
        let s = &cat[it % cat.len()];
        let (a, b) = match it % 5 { 0 => (s.lo, s.hi), 1 => (s.hi, s.lo), _ => (r.uniform(s.lo, s.hi), r.uniform(s.lo, s.hi)) };
        let nmax = 2 + (it / cat.len()) % 10;
        let tol_req = match it % 3 { 0 => *r.pick(&[1e-3, 1e-5, 1e-8, 1e-10]), _ => 10f64.powf(r.uniform(-12.0, -3.0)) };
        let want = (s.anti)(b) - (s.anti)(a);
        let fmax = (0..=64).map(|i| (s.f)(a + (b - a) * i as f64 / 64.0).abs()).fold(0.0, f64::max);
        let amax = (s.anti)(a).abs().max((s.anti)(b).abs());
        tried += 1;
        let input = format!("romberg(f = {}, a = {:e}, b = {:e}, eps = {:e}, nmax = {})", s.name, a, b, tol_req, nmax);
        crumb(&input);
        match catch(|| (romberg(s.f, a, b, tol_req, nmax), romberg(s.f, a, b, 0.0, nmax))) {
            Err(e) => fail("romberg:panics", 1.0, format!("panicked: {}", e), input),
            Ok((g, full)) => { let allow = 100.0 * tol_req * want.abs().max(1.0) + 1e-11 * ((b - a).abs() * fmax + amax);
                       if g != full && !((g - want).abs() <= allow) {
                           let first = catch(|| romberg(s.f, a, b, tol_req, 3)).map(|r3| r3 == g).unwrap_or(false);
                           let class = if first { "romberg:first-convergence-test-aliased" } else { "romberg:error-far-above-tolerance" };
                           fail(class, (g - want).abs() / allow, format!("returned {:e} before the budget was used up (the full budget gives {:e}), integral {:e}: error {:e} against requested tolerance {:e}{}", g, full, want, (g - want).abs(), tol_req,
                                if first { " (the 3-node and 5-node estimates agreed to the tolerance by aliasing, so the run stopped at its first test)" } else { "" }), input); } }
        }
    }

    // ---- 7g. random polynomials and monomials (degree 0..19) with a POSITIVE tolerance and every budget 2..20 (sections 3 / 7a use eps = 0, 3a / 5 two
    //          special families): polynomials are smooth integrands, so a run that stopped early owes an error of the order of eps
    for it in 0..(if thorough { 20000 } else { 1500 }) {
        let nmax = 2 + it % 19;
        let d = r.below(20) as usize;
        let p = if it % 4 == 0 { let mut p = vec![0.0; d + 1]; p[d] = 1.0; p } else { coeffs(&mut r, d) };
        let (a, b) = if it % 7 == 0 { corners[(it / 7) % corners.len()] } else { (endpoint(&mut r), endpoint(&mut r)) };
        let tol_req = match it % 3 { 0 => *r.pick(&[1e-3, 1e-5, 1e-8, 1e-10]), _ => 10f64.powf(r.uniform(-12.0, -3.0)) };
        let want = poly_int(&p, a, b); let sc = poly_scale(&p, a, b);
        tried += 3;
        let input = format!("romberg(polynomial coefficients {} (degree {}), a = {:e}, b = {:e}, eps = {:e}, nmax = {})", json_floats(&p), d, a, b, tol_req, nmax);
        crumb(&input);
        match catch(|| (romberg(|x| horner(&p, x), a, b, tol_req, nmax), romberg(|x| horner(&p, x), a, b, 0.0, nmax), romberg(|x| horner(&p, x), b, a, tol_req, nmax))) {
            Err(e) => fail("romberg:panics", 1.0, format!("panicked: {}", e), input),
            Ok((g, full, gs)) => { let allow = 100.0 * tol_req * want.abs().max(1.0) + 1e-10 * sc;
                       // empty interval and swapped limits with a positive tolerance (section 2 / 7b use eps = 0): the stopping test sees |differences| and
                       // |estimates| only, so it decides alike on [a,b] and [b,a]; the two values may differ by rounding, or by one level of an accurate run
                       if a == b && g != 0.0 { fail("romberg:a=b-nonzero", 1.0, format!("rule over [a,a] = {:e}", g), input.clone()); }
                       if (g != full || 2 * nmax > d) && !((g + gs).abs() <= 2.0 * allow + f64::MIN_POSITIVE) { fail("romberg:no-sign-change", (g + gs).abs() / (2.0 * allow + f64::MIN_POSITIVE), format!("rule over [a,b] = {:e}, over [b,a] = {:e} (eps = {:e}): sum should vanish", g, gs, tol_req), input.clone()); }
                       if g != full && !((g - want).abs() <= allow) {
                           let first = catch(|| romberg(|x| horner(&p, x), a, b, tol_req, 3)).map(|r3| r3 == g).unwrap_or(false);
                           let class = if first { "romberg:first-convergence-test-aliased" } else { "romberg:error-far-above-tolerance" };
                           fail(class, (g - want).abs() / allow, format!("returned {:e} before the budget was used up (the full budget gives {:e}), integral {:e}: error {:e} against requested tolerance {:e}{}", g, full, want, (g - want).abs(), tol_req,
                                if first { " (the 3-node and 5-node estimates agreed to the tolerance by aliasing, so the run stopped at its first test)" } else { "" }), input); } }
        }
    }

    let out = worst.into_iter().map(|(class, (_, what, input))| Finding { class, what, input }).collect();
    (tried, out)
}
