pub mod c05;
