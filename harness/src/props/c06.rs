//! C06 — GLM fitting: case generation for the Coq correspondence (step mode + full runs, the inner linear solve and
//! the matrix inverse recorded like libm calls) and the failure-search oracle (score equations, least squares,
//! deviance, standard errors, predictions, permutation, convergence status).
//!
//! End-to-end family (`CFitE`): the same step cases and full runs WITHOUT the tables of inner calls; the Coq side computes
//! `solve` / `invert_matrix` with C01's executable models (Model/SolveInst.v), so a scoring step / a whole fit is reproduced whole.
#![allow(clippy::needless_range_loop, clippy::too_many_arguments)]
use crate::libm;
use crate::util::*;
use compute::linalg::{dot, invert_matrix, matmul, solve};
use compute::predict::{ExponentialFamily as Fam, GLM};
use compute::statistics::mean;

#[path = "c06_pinned.rs"]
mod pinned;

const FAMS: [(Fam, &str); 6] = [
    (Fam::Gaussian, "Gaussian"), (Fam::Bernoulli, "Bernoulli"), (Fam::QuasiPoisson, "QuasiPoisson"),
    (Fam::Poisson, "Poisson"), (Fam::Gamma, "Gamma"), (Fam::Exponential, "Exponential"),
];

/// the library prints the coefficient vector to stdout on every iteration: send fd 1 to /dev/null
fn silence_stdout() {
    use std::os::raw::{c_char, c_int};
    extern "C" { fn open(path: *const c_char, flags: c_int, ...) -> c_int; fn dup2(a: c_int, b: c_int) -> c_int; }
    unsafe { let fd = open(b"/dev/null\0".as_ptr() as *const c_char, 1); if fd >= 0 { dup2(fd, 1); } }
}

#[derive(Clone)]
struct Prob { fam: usize, n: usize, p: usize, x: Vec<f64>, y: Vec<f64>, w: Option<Vec<f64>>, wkind: usize, off: Option<Vec<f64>>, alpha: f64, tol: f64, beta: Vec<f64>, dkind: usize }

impl Prob {
    fn describe(&self) -> String {
        format!("family={} n={} p={} alpha={:e} tol={:e} design_kind={} weights={} offsets={} x={} y={} w={} off={}",
            FAMS[self.fam].1, self.n, self.p, self.alpha, self.tol, self.dkind, ["none", "integer", "real"][self.wkind], self.off.is_some(),
            json_floats(&self.x), json_floats(&self.y), self.w.as_ref().map(|w| json_floats(w)).unwrap_or("null".into()),
            self.off.as_ref().map(|w| json_floats(w)).unwrap_or("null".into()))
    }
}

fn design_matrix(r: &mut Rng, n: usize, p: usize, kind: usize) -> Vec<f64> {
    // column 0 = 1; kind 0: standardised random, 1: polynomial in t in [-1,1], 2: balanced indicators, 3: mixed
    let mut cols: Vec<Vec<f64>> = vec![vec![1.0; n]];
    let t: Vec<f64> = (0..n).map(|_| r.uniform(-1.0, 1.0)).collect();
    let shift = r.below(7) as usize;
    for j in 1..p {
        let k = if kind == 3 { r.below(3) as usize } else { kind };
        let c: Vec<f64> = match k {
            0 => {
                let v: Vec<f64> = (0..n).map(|_| r.normal()).collect();
                let m = v.iter().sum::<f64>() / n as f64;
                let s = (v.iter().map(|a| (a - m) * (a - m)).sum::<f64>() / n as f64).sqrt();
                v.iter().map(|a| (a - m) / s).collect()
            }
            1 => t.iter().map(|a| a.powi(j as i32)).collect(),
            _ => (0..n).map(|i| if (i + shift) % p == j { 1.0 } else { 0.0 }).collect(),
        };
        cols.push(c);
    }
    let mut x = vec![0.0; n * p];
    for i in 0..n { for j in 0..p { x[i * p + j] = cols[j][i]; } }
    x
}

fn ref_mu(fam: usize, eta: f64) -> f64 { match fam { 0 => eta, 1 => 1.0 / (1.0 + (-eta).exp()), _ => eta.exp() } }
fn ref_dmu(fam: usize, mu: f64) -> f64 { match fam { 0 => 1.0, 1 => mu * (1.0 - mu), _ => mu } }
fn ref_var(fam: usize, mu: f64) -> f64 { match fam { 0 => 1.0, 1 => mu * (1.0 - mu), 2 | 3 => mu, _ => mu * mu } }
fn ref_unit_dev(fam: usize, y: f64, mu: f64) -> f64 {
    match fam {
        0 => (y - mu) * (y - mu),
        1 => -2.0 * ((if y > 0.0 { y * mu.ln() } else { 0.0 }) + (if y < 1.0 { (1.0 - y) * (1.0 - mu).ln() } else { 0.0 })),
        2 | 3 => 2.0 * ((if y > 0.0 { y * (y / mu).ln() } else { 0.0 }) - (y - mu)),
        _ => 2.0 * ((y - mu) / mu - (y / mu).ln()),
    }
}
fn has_disp(fam: usize) -> bool { matches!(fam, 0 | 2 | 4) }
fn canonical(fam: usize) -> bool { fam <= 3 }

fn problem(r: &mut Rng, fam: usize, n: usize, p: usize, dkind: usize, wkind: usize, with_off: bool, alpha: f64, tol: f64) -> Prob { problem_mode(r, fam, n, p, dkind, wkind, with_off, alpha, tol, 0) }
/// mode 1: slopes of order one in every column (strong signal: the information matrix is far from diagonal, so the inner solve pivots);
/// mode 2: exposure offsets log(100..800) with counts in the hundreds (log-link families)
fn problem_mode(r: &mut Rng, fam: usize, n: usize, p: usize, dkind: usize, wkind: usize, with_off: bool, alpha: f64, tol: f64, mode: u8) -> Prob {
    let x = design_matrix(r, n, p, dkind);
    let mut beta: Vec<f64> = (0..p).map(|_| r.uniform(-1.5, 1.5) / if mode == 1 { 1.0 } else { ((p.max(2) - 1) as f64).sqrt() }).collect();
    beta[0] = r.uniform(-1.0, 1.0);
    let off = if mode == 2 { Some((0..n).map(|_| r.uniform((100.0f64).ln(), (800.0f64).ln())).collect::<Vec<f64>>()) } else if with_off { Some((0..n).map(|_| r.uniform(-0.5, 0.5)).collect::<Vec<f64>>()) } else { None };
    let w = match wkind { 0 => None, 1 => Some((0..n).map(|_| r.range(1, 3) as f64).collect::<Vec<f64>>()), _ => Some((0..n).map(|_| r.uniform(0.5, 2.0)).collect::<Vec<f64>>()) };
    let mut y = vec![0.0; n];
    for i in 0..n {
        let mut eta = 0.0; for j in 0..p { eta += x[i * p + j] * beta[j]; }
        if let Some(o) = &off { eta += o[i]; }
        let mu = ref_mu(fam, eta);
        y[i] = match fam {
            0 => mu + 0.7 * r.normal(),
            1 => if r.unit() < mu { 1.0 } else { 0.0 },
            2 | 3 => {
                if mu > 30.0 { (mu + mu.sqrt() * r.normal()).round().max(0.0) }
                else { let l = (-mu).exp(); let mut k = 0.0; let mut pr = r.unit(); while pr > l { k += 1.0; pr *= r.unit(); } k }
            }
            4 => { let mut s = 0.0; for _ in 0..3 { s -= (1.0 - r.unit()).ln(); } mu * s / 3.0 }
            _ => -mu * (1.0 - r.unit()).ln(),
        };
    }
    Prob { fam, n, p, x, y, w, wkind, off, alpha, tol, beta, dkind }
}

/// evaluation points of the coverage audit: the same simulation as `problem_mode`, with the regimes the quantifier names but the
/// first generator never drew.  bmode 0: slopes scaled by 1/sqrt(p-1) (as before); 1: EVERY coefficient (intercept too) uniform in
/// [-1.5, 1.5]; 2: every coefficient exactly +-1.5 (corner of the stated box); 3: intercept only (all slopes 0: the fit has nothing to find).
/// wmode 0 none, 1 integer 1..3, 2 real 0.5..2 (as before), 3 integer 0..3 (zero = observation dropped), 4 integer 1..12,
/// 5 real log-uniform 0.05..20, 6 constant 2.  omode 0 none, 1 +-0.5, 2 exposure log(100..800) (as before), 3 +-2.
/// noise: standard deviation of the Gaussian response (0.7 before).
#[derive(Clone, Copy)]
struct Cfg { bmode: u8, wmode: u8, omode: u8, noise: f64 }
fn problem_x(r: &mut Rng, fam: usize, n: usize, p: usize, dkind: usize, c: Cfg, alpha: f64, tol: f64) -> Prob {
    let x = design_matrix(r, n, p, dkind);
    let beta: Vec<f64> = match c.bmode {
        0 => { let mut b: Vec<f64> = (0..p).map(|_| r.uniform(-1.5, 1.5) / ((p.max(2) - 1) as f64).sqrt()).collect(); b[0] = r.uniform(-1.0, 1.0); b }
        1 => (0..p).map(|_| r.uniform(-1.5, 1.5)).collect(),
        2 => (0..p).map(|_| if r.coin(0.5) { 1.5 } else { -1.5 }).collect(),
        _ => { let mut b = vec![0.0; p]; b[0] = r.uniform(-1.5, 1.5); b }
    };
    let off = match c.omode { 0 => None, 1 => Some((0..n).map(|_| r.uniform(-0.5, 0.5)).collect::<Vec<f64>>()),
        2 => Some((0..n).map(|_| r.uniform((100.0f64).ln(), (800.0f64).ln())).collect()), _ => Some((0..n).map(|_| r.uniform(-2.0, 2.0)).collect()) };
    let (w, wkind): (Option<Vec<f64>>, usize) = match c.wmode {
        0 => (None, 0),
        1 => (Some((0..n).map(|_| r.range(1, 3) as f64).collect()), 1),
        2 => (Some((0..n).map(|_| r.uniform(0.5, 2.0)).collect()), 2),
        3 => (Some((0..n).map(|_| r.range(0, 3) as f64).collect()), 1),
        4 => (Some((0..n).map(|_| r.range(1, 12) as f64).collect()), 1),
        5 => (Some((0..n).map(|_| (r.uniform((0.05f64).ln(), (20.0f64).ln())).exp()).collect()), 2),
        _ => (Some(vec![2.0; n]), 2),
    };
    // zero weights may remove every observation of an indicator group (or of the reference group): the weighted design is then rank
    // deficient, no MLE exists without the penalty and the information matrix has no inverse - outside the quantifier ("so that the MLE
    // exists").  Such a draw keeps its pattern but the dropped observations come back with weight 1.
    let w = match w { Some(mut w) if c.wmode == 3 => {
        let mut h = vec![0.0; p * p]; for i in 0..n { for j in 0..p { for k in 0..p { h[j * p + k] += x[i * p + j] * w[i] * x[i * p + k]; } } }
        let mut eye = vec![0.0; p * p]; for j in 0..p { eye[j * p + j] = 1.0; }
        if gauss(&h, &eye, p, p).is_none() { for v in w.iter_mut() { if *v == 0.0 { *v = 1.0; } } }
        Some(w) } other => other };
    let mut y = vec![0.0; n];
    for i in 0..n {
        let mut eta = 0.0; for j in 0..p { eta += x[i * p + j] * beta[j]; }
        if let Some(o) = &off { eta += o[i]; }
        let mu = ref_mu(fam, eta);
        y[i] = match fam {
            0 => mu + c.noise * r.normal(),
            1 => if r.unit() < mu { 1.0 } else { 0.0 },
            2 | 3 => {
                if mu > 30.0 { (mu + mu.sqrt() * r.normal()).round().max(0.0) }
                else { let l = (-mu).exp(); let mut k = 0.0; let mut pr = r.unit(); while pr > l { k += 1.0; pr *= r.unit(); } k }
            }
            4 => { let mut s = 0.0; for _ in 0..3 { s -= (1.0 - r.unit()).ln(); } mu * s / 3.0 }
            _ => -mu * (1.0 - r.unit()).ln(),
        };
    }
    Prob { fam, n, p, x, y, w, wkind, off, alpha, tol, beta, dkind }
}

fn make_glm(pr: &Prob) -> GLM {
    let mut g = GLM::new(FAMS[pr.fam].0);
    g.set_penalty(pr.alpha).set_tolerance(pr.tol);
    if let Some(w) = &pr.w { g.set_weights(w); }
    if let Some(o) = &pr.off { g.set_offset(o); }
    g
}
fn run_fit(pr: &Prob, max_iter: usize) -> Result<(bool, GLM), String> {
    catch(|| { let mut g = make_glm(pr); let ok = g.fit(&pr.x, &pr.y, max_iter).is_ok(); (ok, g) })
}

// ------------------------------------------------------------------------------------------------------------
// independent reference computations for the oracle
fn ref_eta(pr: &Prob, x: &[f64], off: Option<&Vec<f64>>, beta: &[f64]) -> Vec<f64> {
    let p = pr.p; let n = x.len() / p;
    (0..n).map(|i| { let mut e = 0.0; for j in 0..p { e += x[i * p + j] * beta[j]; } if let Some(o) = off { e += o[i]; } e }).collect()
}
/// (score_alpha, scale) per coordinate
fn ref_score(pr: &Prob, beta: &[f64]) -> (Vec<f64>, Vec<f64>) {
    let eta = ref_eta(pr, &pr.x, pr.off.as_ref(), beta);
    let (n, p) = (pr.n, pr.p);
    let mut s = vec![0.0; p]; let mut sc = vec![0.0; p];
    for i in 0..n {
        let mu = ref_mu(pr.fam, eta[i]);
        let wi = pr.w.as_ref().map(|w| w[i]).unwrap_or(1.0);
        // (dmu / var first: for the log link dmu * (y - mu) is of order mu^2 and overflows from mu ~ 1e154 on, which made |s| <= tol * scale
        //  read inf <= inf; found by the coverage audit)
        let t = wi * (pr.y[i] - mu) * (ref_dmu(pr.fam, mu) / ref_var(pr.fam, mu));
        for j in 0..p { s[j] += pr.x[i * p + j] * t; sc[j] += (pr.x[i * p + j] * t).abs(); }
    }
    for j in 1..p { s[j] -= pr.alpha * beta[j]; sc[j] += (pr.alpha * beta[j]).abs(); }
    (s, sc)
}
fn ref_fisher(pr: &Prob, beta: &[f64]) -> Vec<f64> {
    let eta = ref_eta(pr, &pr.x, pr.off.as_ref(), beta);
    let (n, p) = (pr.n, pr.p);
    let mut h = vec![0.0; p * p];
    for i in 0..n {
        let mu = ref_mu(pr.fam, eta[i]);
        let wi = pr.w.as_ref().map(|w| w[i]).unwrap_or(1.0);
        let d = ref_dmu(pr.fam, mu);
        let ww = wi * d * (d / ref_var(pr.fam, mu));
        for j in 0..p { for k in 0..p { h[j * p + k] += pr.x[i * p + j] * ww * pr.x[i * p + k]; } }
    }
    h
}
fn ref_deviance(pr: &Prob, beta: &[f64], weighted: bool) -> f64 {
    let eta = ref_eta(pr, &pr.x, pr.off.as_ref(), beta);
    (0..pr.n).map(|i| (if weighted { pr.w.as_ref().map(|w| w[i]).unwrap_or(1.0) } else { 1.0 }) * ref_unit_dev(pr.fam, pr.y[i], ref_mu(pr.fam, eta[i]))).sum()
}
/// sum of the ABSOLUTE values of the terms the (weighted) deviance is added up from, in the form the family evaluates them (Poisson:
/// mu - y - y ln mu + y ln y, four terms of the size of y ln y that cancel down to the unit deviance): the rounding error of a deviance,
/// the implementation's as well as the reference's, is a small multiple of 2^-53 times this, whatever the order of summation
fn ref_deviance_terms(pr: &Prob, beta: &[f64]) -> f64 {
    let eta = ref_eta(pr, &pr.x, pr.off.as_ref(), beta);
    (0..pr.n).map(|i| { let (y, mu) = (pr.y[i], ref_mu(pr.fam, eta[i])); let w = pr.w.as_ref().map(|w| w[i]).unwrap_or(1.0);
        w.abs() * match pr.fam {
            0 => (y - mu) * (y - mu),
            1 => 2.0 * ((y * mu.ln()).abs() + ((1.0 - y) * (1.0 - mu).ln()).abs()),
            2 | 3 => 2.0 * (mu.abs() + y.abs() + (y * mu.ln()).abs() + if y > 0.0 { (y * y.ln()).abs() } else { 0.0 }),
            _ => 2.0 * (((y - mu) / mu).abs() + (y / mu).ln().abs()),
        } }).sum()
}
/// Gauss-Jordan with partial pivoting: solves A X = B (B with m columns); None when singular
fn gauss(a: &[f64], b: &[f64], p: usize, m: usize) -> Option<Vec<f64>> {
    let mut a = a.to_vec(); let mut b = b.to_vec();
    for c in 0..p {
        let mut piv = c; for r in c + 1..p { if a[r * p + c].abs() > a[piv * p + c].abs() { piv = r; } }
        if !(a[piv * p + c].abs() > 0.0) { return None; }
        if piv != c { for k in 0..p { a.swap(c * p + k, piv * p + k); } for k in 0..m { b.swap(c * m + k, piv * m + k); } }
        for r in 0..p { if r != c {
            let f = a[r * p + c] / a[c * p + c];
            for k in 0..p { a[r * p + k] -= f * a[c * p + k]; }
            for k in 0..m { b[r * m + k] -= f * b[c * m + k]; }
        } }
    }
    for r in 0..p { for k in 0..m { b[r * m + k] /= a[r * p + r]; } }
    Some(b)
}
fn tolfac(fam: usize, tol: f64) -> f64 { 100.0 * tol + if canonical(fam) { 0.0 } else { 10.0 * tol.sqrt() } + 1e-7 }

/// reach of the failure search, printed to stderr when HARNESS_C06_STATS is set (what was evaluated, not what is demanded)
#[derive(Default)]
struct Stats { c: std::collections::BTreeMap<String, u64> }
impl Stats {
    fn bump(&mut self, k: String) { *self.c.entry(k).or_insert(0) += 1; }
    fn max(&mut self, k: String, v: u64) { let e = self.c.entry(k).or_insert(0); if v > *e { *e = v; } }
}

fn add(out: &mut Vec<Finding>, class: &str, what: String, input: String) { if !out.iter().any(|f| f.class == class) { out.push(Finding { class: class.into(), what, input }); } }

/// first iteration budget for which fit reports Ok (0: none up to `budget`): every budget up to 100 is tried; above that by bisection,
/// Ok being monotone in the budget because the loop leaves at the first iteration whose test succeeds
fn first_ok(pr: &Prob, budget: usize) -> usize {
    let okk = |k: usize| matches!(run_fit(pr, k), Ok((true, _)));
    if budget <= 100 { for k in 1..=budget { if okk(k) { return k; } } return 0; }
    if !okk(budget) { return 0; }
    let (mut lo, mut hi) = (1usize, budget);
    while hi - lo > 1 { let mid = (lo + hi) / 2; if okk(mid) { hi = mid } else { lo = mid } }
    hi
}

/// every clause of the property on one generated problem.  `it` thins out the two most expensive comparisons on the first block (NB: there
/// `it % 3 == 0` / `it % 4 == 0` also fix the family index `it % 6`: replicated data only Gaussian / Poisson, unit weights only the even
/// families); `audit` = a point of the coverage audit: both comparisons always, a larger iteration budget on a second try, more permutations
fn examine(pr: &Prob, it: usize, r: &mut Rng, rx: &mut Rng, out: &mut Vec<Finding>, st: &mut Stats, blk: &str, audit: bool) {
    let (fam, n, p, alpha, tol) = (pr.fam, pr.n, pr.p, pr.alpha, pr.tol);
    let inp = pr.describe();
    let wtag = if pr.wkind == 0 { "" } else { "weighted:" };
    crumb(&inp);
    // (a) one iteration can never have converged: must be Err
    match run_fit(&pr, 1) {
        Ok((true, _)) => add(out, "status:ok-after-one-iteration", "fit(.., max_iter = 1) returned Ok although no change of the deviance has been observed yet".into(), inp.clone()),
        _ => {}
    }
    if audit { if let Ok((true, _)) = run_fit(&pr, 0) { add(out, "status:ok-after-one-iteration", "fit(.., max_iter = 0) returned Ok although no change of the deviance has been observed".into(), inp.clone()); } }
    let fname = FAMS[fam].1;
    st.bump(format!("{} {} tried", blk, fname));
    // iteration budget: 100 as before; a fit that has not converged by then is tried once more with BIG (slow starts: the loop
    // begins at intercept = mean(y) on the LINK scale, so a log-link fit of counts in the hundreds needs about mean(y) steps)
    const BIG: usize = 3000;
    let mut budget = 100usize;
    let (mut ok, mut g) = match run_fit(&pr, budget) { Ok(v) => v, Err(_) => { st.bump(format!("{} {} PANIC", blk, fname)); return } };
    if !ok && audit {
        st.bump(format!("{} {} err(100)", blk, fname));
        budget = BIG;
        match run_fit(&pr, budget) { Ok(v) => { ok = v.0; g = v.1; } Err(_) => { st.bump(format!("{} {} PANIC", blk, fname)); return } }
    }
    if !ok { st.bump(format!("{} {} err({})", blk, fname, budget)); st.bump(format!("{} {} err({}) coefficients {}", blk, fname, budget, if g.coef().unwrap().iter().all(|c| c.is_finite()) { "finite" } else { "NaN/inf" })); st.bump(format!("{} tol=1e-{:02} err", blk, -tol.log10().round() as i64)); return; }
    if budget > 100 { st.bump(format!("{} {} ok only with budget {}", blk, fname, budget)); }
    st.bump(format!("{} {} ok", blk, fname));
    st.bump(format!("{} tol=1e-{:02} ok", blk, -tol.log10().round() as i64));
    st.max(format!("{} {} max n ok", blk, fname), n as u64);
    st.bump(format!("{} {} ok p={}", blk, fname, p));
    if pr.w.is_some() && pr.off.is_some() && alpha > 0.0 { st.bump(format!("{} {} ok weights+offsets+penalty", blk, fname)); }
    let coef = g.coef().unwrap().to_vec();
    st.max(format!("{} {} max |coef| x100 ok", blk, fname), (coef.iter().fold(0.0f64, |m, c| m.max(c.abs())) * 100.0) as u64);
    st.max(format!("{} {} max |beta_true| x100 ok", blk, fname), (pr.beta.iter().fold(0.0f64, |m, c| m.max(c.abs())) * 100.0) as u64);
    if coef.iter().any(|c| !c.is_finite()) { add(out, "status:ok-with-nonfinite-coefficients", format!("fit returned Ok with coefficients {:?}", coef), inp.clone()); return; }
    // the quantifier is over data for which the MLE exists (|beta| <= 1.5): a (quasi-)separated sample drives the
    // coefficients off to infinity until the deviance stops changing; such fits are outside the property
    // (Bernoulli only: for the other families the simulated data always have a finite MLE near the generating coefficients, and a
    //  diverging coefficient of a count model drives its own score to 0, so the check below is still satisfied)
    let mut diverged = coef.iter().any(|c| c.abs() > 10.0);
    // (a loose tolerance stops a separated Bernoulli fit before any coefficient has passed 10: carry the same iteration 40 steps further
    //  with tolerance 0; if it runs off, or ends in NaN, no MLE exists)
    if fam == 1 && !diverged && audit {
        let mut q0 = pr.clone(); q0.tol = 0.0;
        let js = first_ok(&pr, budget);
        if let Ok((_, gc)) = run_fit(&q0, js + 40) { if gc.coef().unwrap().iter().any(|c| !(c.abs() <= 10.0)) { diverged = true; st.bump(format!("{} {} separated (continued iteration diverges)", blk, fname)); } }
    }
    if fam == 1 && diverged { return; }
    let tf = tolfac(fam, tol);
    // (b) penalised score equations at the returned coefficients
    let (s, sc) = ref_score(&pr, &coef);
    let bad: Vec<usize> = (0..p).filter(|&j| !(s[j].is_finite() && sc[j].is_finite() && s[j].abs() <= tf * sc[j].max(1.0))).collect();
    if !bad.is_empty() {
        // WHICH failure: carry the same iteration one step past the point where it reported Ok (tolerance 0: the test never succeeds). If the
        // coefficients still move by more than the allowance used for agreement of coefficients everywhere below, the iteration had not
        // converged at all (Fisher scoring with a non-canonical link can settle into a period-2 oscillation) and two consecutive deviances agreed
        // by coincidence: a failure of the stopping rule (class status:ok-while-coefficients-still-moving), not of the scoring step
        let js = first_ok(&pr, budget);
        let mut q0 = pr.clone(); q0.tol = 0.0;
        let moving = if js >= 1 { match (run_fit(&q0, js), run_fit(&q0, js + 1)) {
            (Ok((_, ga)), Ok((_, gb))) => {
                let (ca, cb) = (ga.coef().unwrap().to_vec(), gb.coef().unwrap().to_vec());
                let sz = ca.iter().fold(1.0f64, |m, v| m.max(v.abs()));
                let step = ca.iter().zip(&cb).fold(0.0f64, |m, (a, b)| m.max((a - b).abs()));
                if ca.iter().zip(&coef).all(|(a, b)| a.to_bits() == b.to_bits()) && step > (10.0 * tol.sqrt() + 1e-7) * sz { Some((step, cb)) } else { None }
            }
            _ => None } } else { None };
        if let Some((step, cb)) = moving {
            let j = bad[0];
            st.bump(format!("{} {} Ok while the coefficients still move", blk, fname));
            add(out, "status:ok-while-coefficients-still-moving", format!("fit returned Ok after {} iterations with coefficients {:?}; one more step of the same iteration gives {:?} (largest change {:e}, tolerance {:e}): the iteration has not converged, two consecutive deviances agreed by coincidence; score equation {} at the returned coefficients = {:e}, magnitude of its terms {:e}, allowed {:e}", js, coef, cb, step, tol, j, s[j], sc[j], tf * sc[j].max(1.0)), inp.clone());
            return;
        }
        for &j in &bad {
            add(out, &format!("{}score:{}", wtag, if alpha > 0.0 { "penalised-score-not-zero" } else { "score-not-zero" }),
                format!("score equation {} at the returned coefficients: X^T W (y-mu) dmu/var - alpha*beta (intercept unpenalised) = {:e}, magnitude of its terms {:e}, allowed {:e} (coef {:?})", j, s[j], sc[j], tf * sc[j].max(1.0), coef), inp.clone());
        }
    }
    // a diverged coefficient (an indicator column with all-zero counts, say) leaves a numerically singular information matrix: the score
    // equation above is the property's claim there; deviance / standard errors / predictions are not compared on such fits
    if diverged { return; }
    // (c) Gaussian: (weighted, ridge) least squares
    if fam == 0 {
        let mut a = vec![0.0; p * p]; let mut b = vec![0.0; p];
        for i in 0..n { let wi = pr.w.as_ref().map(|w| w[i]).unwrap_or(1.0); let yi = pr.y[i] - pr.off.as_ref().map(|o| o[i]).unwrap_or(0.0);
            for j in 0..p { b[j] += pr.x[i * p + j] * wi * yi; for k in 0..p { a[j * p + k] += pr.x[i * p + j] * wi * pr.x[i * p + k]; } } }
        for j in 1..p { a[j * p + j] += alpha; }
        if let Some(bls) = gauss(&a, &b, p, 1) {
            let sz = bls.iter().fold(1.0f64, |m, v| m.max(v.abs()));
            for j in 0..p { if !((coef[j] - bls[j]).abs() <= (tf + 1e-6) * sz) {
                add(out, &format!("{}gaussian:not-ridge-least-squares", wtag), format!("coefficient {} = {:e}, (weighted, ridge) least squares gives {:e}", j, coef[j], bls[j]), inp.clone()); } }
        }
    }
    // (d) deviance at the fitted means; with prior weights: sum of w_i d(y_i, mu_i) (for frequency weights, the family's
    //     deviance of the replicated data)
    let dev = g.deviance().unwrap();
    let dref = ref_deviance(&pr, &coef, false);
    if pr.wkind == 0 {
        if !((dev - dref).abs() <= tf * (dref.abs() + 1.0)) {
            add(out, &format!("deviance:{}", if fam == 0 { "gaussian-not-residual-sum-of-squares" } else { "not-family-deviance" }),
                format!("deviance() = {:e}, the family's deviance at the fitted means is {:e}", dev, dref), inp.clone());
        }
    } else {
        let dw = ref_deviance(&pr, &coef, true);
        if !((dev - dw).abs() <= tf * (dw.abs() + 1.0)) {
            add(out, "weighted:deviance-ignores-weights", format!("deviance() = {:e} with {} weights; sum of w_i d_i = {:e}, unweighted sum = {:e}", dev, ["", "frequency", "real"][pr.wkind], dw, dref), inp.clone());
        }
    }
    // (e) aic / bic / dispersion formulas from the reported deviance
    let nn = pr.w.as_ref().map(|w| w.iter().sum::<f64>()).unwrap_or(n as f64).round();
    let (aic, bic, disp) = (g.aic().unwrap(), g.bic().unwrap(), g.dispersion().unwrap());
    let rel = |a: f64, b: f64, t: f64| (a - b).abs() <= t * (a.abs().max(b.abs()) + 1e-300);
    if !rel(aic, dev + 2.0 * p as f64, 1e-12) { add(out, "aic:formula", format!("aic() = {:e}, deviance + 2p = {:e}", aic, dev + 2.0 * p as f64), inp.clone()); }
    if !rel(bic, dev + p as f64 * nn.ln(), 1e-12) { add(out, "bic:formula", format!("bic() = {:e}, deviance + p ln n = {:e}", bic, dev + p as f64 * nn.ln()), inp.clone()); }
    let dispref = if has_disp(fam) { dev / (nn - p as f64) } else { 1.0 };
    if !rel(disp, dispref, 1e-12) { add(out, "dispersion:formula", format!("dispersion() = {:e}, expected {:e}", disp, dispref), inp.clone()); }
    // (f) standard errors: sqrt diag (dispersion * inverse Fisher information at the fitted coefficients)
    {
        let dtrue = ref_deviance(&pr, &coef, true);
        let disp_true = if has_disp(fam) { dtrue / (nn - p as f64) } else { 1.0 };
        let h = ref_fisher(&pr, &coef);
        let mut eye = vec![0.0; p * p]; for j in 0..p { eye[j * p + j] = 1.0; }
        if let (Some(hi), Ok(se)) = (gauss(&h, &eye, p, p), catch(|| g.coef_standard_error().unwrap().to_vec())) {
            for j in 0..p {
                let sref = (disp_true * hi[j * p + j]).sqrt();
                if !rel(se[j], sref, tf + 1e-6) {
                    add(out, &format!("{}stderr:not-sqrt-diag-dispersion-inverse-information", wtag), format!("standard error {} = {:e}, sqrt(dispersion * [I^-1]_jj) = {:e}", j, se[j], sref), inp.clone());
                }
            }
        }
    }
    // (g) predictions = inverse link of X.beta + offset (on the training design, so that stored offsets apply)
    if let Ok(pred) = catch(|| g.predict(&pr.x).unwrap().to_vec()) {
        let eta = ref_eta(&pr, &pr.x, pr.off.as_ref(), &coef);
        for i in 0..n { let m = ref_mu(fam, eta[i]); if !rel(pred[i], m, 1e-11) { add(out, "predict:not-inverse-link", format!("prediction {} = {:e}, inverse link of x.beta + offset = {:e}", i, pred[i], m), inp.clone()); break; } }
    } else { add(out, "predict:panics-on-training-design", "predict panicked on the design it was fitted on".into(), inp.clone()); }
    // (g') predictions on a design the model has not seen (1..7 rows; only without stored offsets, whose length is that of the training data)
    if pr.off.is_none() {
        let m = 1 + rx.below(7) as usize;
        let xn = design_matrix(rx, 40, p, pr.dkind)[..m * p].to_vec(); // the first m rows of a fresh 40-row design of the same kind
        crumb(&format!("predict on new design {} after {}", json_floats(&xn), inp));
        match catch(|| g.predict(&xn).unwrap().to_vec()) {
            Ok(pred) => {
                let eta = ref_eta(&pr, &xn, None, &coef);
                if pred.len() != m { add(out, "predict:not-inverse-link", format!("{} predictions for a design of {} rows", pred.len(), m), inp.clone()); }
                else { for i in 0..m { let mm = ref_mu(fam, eta[i]); if !rel(pred[i], mm, 1e-11) { add(out, "predict:not-inverse-link", format!("prediction {} on the new design {} = {:e}, inverse link of x.beta = {:e}", i, json_floats(&xn), pred[i], mm), inp.clone()); break; } } }
            }
            Err(_) => add(out, "predict:panics-on-new-design", format!("predict panicked on the valid {} x {} design {}", m, p, json_floats(&xn)), inp.clone()),
        }
    }
    // (f') the whole covariance matrix = dispersion * inverse Fisher information (the standard errors are its diagonal): every entry,
    //      relative to sqrt(c_jj c_kk), with twice the allowance of a standard error (a variance is its square)
    {
        let dtrue = ref_deviance(&pr, &coef, true);
        let disp_true = if has_disp(fam) { dtrue / (nn - p as f64) } else { 1.0 };
        let h = ref_fisher(&pr, &coef);
        let mut eye = vec![0.0; p * p]; for j in 0..p { eye[j * p + j] = 1.0; }
        if let (Some(hi), Ok(cov)) = (gauss(&h, &eye, p, p), catch(|| g.coef_covariance_matrix().unwrap())) {
            if cov.len() != p * p { add(out, &format!("{}stderr:not-sqrt-diag-dispersion-inverse-information", wtag), format!("covariance matrix has {} entries, p = {}", cov.len(), p), inp.clone()); }
            else { for j in 0..p { for k in 0..p {
                let cref = disp_true * hi[j * p + k];
                let scale = (disp_true * hi[j * p + j]).sqrt() * (disp_true * hi[k * p + k]).sqrt();
                if !((cov[j * p + k] - cref).abs() <= 2.0 * (tf + 1e-6) * scale * (1.0 + 1e-9)) {
                    add(out, &format!("{}stderr:not-sqrt-diag-dispersion-inverse-information", wtag), format!("covariance entry ({}, {}) = {:e}, dispersion * [I^-1]_jk = {:e} (scale sqrt(c_jj c_kk) = {:e})", j, k, cov[j * p + k], cref, scale), inp.clone());
                }
            } } }
        }
    }
    // (g'') score(x, y) is the family's deviance of y at the predictions (unweighted), i.e. at the RETURNED coefficients
    if pr.w.is_none() {
        if let Ok(sc) = catch(|| g.score(&pr.x, &pr.y)) {
            let want = ref_deviance(&pr, &coef, false);
            if !((sc - want).abs() <= 1e-9 * (want.abs() + 1.0)) { add(out, "deviance:score-not-deviance-of-predictions", format!("score(x, y) = {:e}, the family's deviance at the predictions is {:e}", sc, want), inp.clone()); }
        } else { add(out, "predict:panics-on-training-design", "score panicked on the design the model was fitted on".into(), inp.clone()); }
    }
    // (h) invariance under a permutation of the observations (a random one; on the audit's points also the reversal and the exchange
    //     of the first and the last observation)
    for kind in 0..(if audit { 3 } else { 1 }) {
        let mut idx: Vec<usize> = (0..n).collect();
        match kind {
            0 => { for i in (1..n).rev() { let j = r.below(i as u64 + 1) as usize; idx.swap(i, j); } }
            1 => idx.reverse(),
            _ => idx.swap(0, n - 1),
        }
        let mut q = pr.clone();
        for (k, &i) in idx.iter().enumerate() {
            for j in 0..p { q.x[k * p + j] = pr.x[i * p + j]; }
            q.y[k] = pr.y[i];
            if let Some(w) = &pr.w { q.w.as_mut().unwrap()[k] = w[i]; }
            if let Some(o) = &pr.off { q.off.as_mut().unwrap()[k] = o[i]; }
        }
        let how = ["reordering the observations", "reversing the order of the observations", "exchanging the first and the last observation"][kind];
        match run_fit(&q, budget) {
            Ok((true, g2)) => {
                let c2 = g2.coef().unwrap();
                let sz = coef.iter().fold(1.0f64, |m, v| m.max(v.abs()));
                let far: Vec<usize> = (0..p).filter(|&j| !((coef[j] - c2[j]).abs() <= (10.0 * tol.sqrt() + 1e-7) * sz)).collect();
                if !far.is_empty() {
                    // the reordered fit stops on its own; what the property claims of it is a root of the (identical) score equations to within
                    // the tolerance: two such roots further apart than the allowance lie along a flat direction of the likelihood
                    // (n = 20..24, p = 6, polynomial columns) - a failure only if the reordered fit is not such a root
                    let (s2, sc2) = ref_score(&pr, c2);
                    let root = (0..p).all(|j| s2[j].is_finite() && sc2[j].is_finite() && s2[j].abs() <= tf * sc2[j].max(1.0));
                    if root { st.bump(format!("{} {} permutation: coefficients apart but both roots of the same score equations", blk, fname)); }
                    else { for &j in &far { add(out, "permutation:coefficients-change", format!("coefficient {} = {:e}, after {} {:e}, and the latter does not satisfy the score equations ({:?}, magnitudes {:?}, allowed fraction {:e})", j, coef[j], how, c2[j], s2, sc2, tf), inp.clone()); } }
                }
                let d2 = g2.deviance().unwrap();
                if !((dev - d2).abs() <= (100.0 * tol + 1e-9) * (dev.abs() + 1.0)) { add(out, "permutation:deviance-changes", format!("deviance {:e}, after {} {:e}", dev, how, d2), inp.clone()); }
            }
            _ => {} // a different rounding may move the stopping iteration across max_iter; not a failure of the property
        }
    }
    // (i) Ok means the convergence criterion (relative change of the penalised deviance < tol) really held between the last two iterations
    {
        let coef_after = |k: usize| -> Option<(bool, Vec<f64>)> {
            if k == 0 { let mut c = vec![0.0; p]; c[0] = pr.y.iter().sum::<f64>() / n as f64; return Some((false, c)); }
            match run_fit(&pr, k) { Ok((okk, gk)) => Some((okk, gk.coef().unwrap().to_vec())), Err(_) => None }
        };
        let jstop = first_ok(&pr, budget);
        st.max(format!("{} {} max iterations to Ok", blk, fname), jstop as u64);
        if jstop == 2 { st.bump(format!("{} {} Ok at iteration 2", blk, fname)); }
        if jstop >= 2 {
            if let (Some((_, c2)), Some((_, c1)), Some((_, c0))) = (coef_after(jstop), coef_after(jstop - 1), coef_after(jstop - 2)) {
                // penalised deviance seen by iteration k: (weighted) deviance at the means of beta_{k-1}, penalty at beta_k
                let pd = |prev: &Vec<f64>, cur: &Vec<f64>| ref_deviance(&pr, prev, true) + alpha * cur[1..].iter().map(|b| b * b).sum::<f64>();
                let (d1, d0) = (pd(&c1, &c2), pd(&c0, &c1));
                let relc = (d1 - d0).abs() / d0;
                // what the two evaluations of each deviance (the implementation's, on which it decided, and this one) can differ by: rounding
                // of sums whose terms cancel (Poisson counts in the hundreds: terms ~1e3 times the deviance); 1e-13 alone was enough as long as
                // no such fit reached Ok
                let noise = 32.0 * f64::EPSILON * (ref_deviance_terms(&pr, &c1) + ref_deviance_terms(&pr, &c0) + alpha * (c2[1..].iter().map(|b| b * b).sum::<f64>() + c1[1..].iter().map(|b| b * b).sum::<f64>())) / d0.abs();
                if !(relc < tol * (1.0 + 1e-6) + 1e-13 + noise) { add(out, "status:ok-without-convergence", format!("fit returned Ok after {} iterations but the relative change of the penalised deviance (deviance + alpha*|beta_1..|^2) between the last two iterations is {:e} >= tolerance {:e}", jstop, relc, tol), inp.clone()); }
            }
        }
    }
    // (j) the public penalised deviance = deviance + alpha * sum of squares of the non-intercept coefficients
    {
        let eta = ref_eta(&pr, &pr.x, pr.off.as_ref(), &coef);
        let mu: Vec<f64> = eta.iter().map(|e| ref_mu(fam, *e)).collect();
        if let Ok(pd) = catch(|| FAMS[fam].0.penalized_deviance(&pr.y, &mu, alpha, &coef)) {
            let want = ref_deviance(&pr, &coef, false) + alpha * coef[1..].iter().map(|b| b * b).sum::<f64>();
            if !rel(pd, want, 1e-9) && p > 1 && alpha > 0.0 && fam != 0 { add(out, "penalized-deviance:penalty-not-alpha-times-squared-norm", format!("penalized_deviance = {:e}, deviance + alpha*|beta_1..|^2 = {:e}", pd, want), inp.clone()); }
        }
    }
    // (l) explicit unit weights are the same fit as no weights, bit for bit (the weighted deviance takes the family's own
    //     deviance when every weight is 1)
    if pr.wkind == 0 && (it % 4 == 0 || audit) {
        let mut q = pr.clone(); q.w = Some(vec![1.0; n]);
        if let Ok((ok2, g2)) = run_fit(&q, budget) {
            let c2 = g2.coef().unwrap();
            let same = ok2 && c2.len() == coef.len() && c2.iter().zip(&coef).all(|(a, b)| a.to_bits() == b.to_bits())
                && g2.deviance().unwrap().to_bits() == dev.to_bits() && g2.dispersion().unwrap().to_bits() == disp.to_bits();
            if !same { add(out, "weighted:unit-weights-differ-from-no-weights", format!("with weights = [1; n]: coef {:?}, deviance {:e}; without weights: coef {:?}, deviance {:e}", c2, g2.deviance().unwrap(), coef, dev), inp.clone()); }
        }
    }
    // (k) frequency weights = replicated observations
    if pr.wkind == 1 && (it % 3 == 0 || audit) {
        let w = pr.w.as_ref().unwrap();
        let mut q = pr.clone(); q.x.clear(); q.y.clear(); q.w = None; q.wkind = 0; let mut qo = vec![];
        for i in 0..n { for _ in 0..(w[i] as usize) { q.x.extend_from_slice(&pr.x[i * p..(i + 1) * p]); q.y.push(pr.y[i]); if let Some(o) = &pr.off { qo.push(o[i]); } } }
        q.n = q.y.len(); if pr.off.is_some() { q.off = Some(qo); }
        if let Ok((true, g2)) = run_fit(&q, budget) {
            let c2 = g2.coef().unwrap();
            let sz = coef.iter().fold(1.0f64, |m, v| m.max(v.abs()));
            let far: Vec<usize> = (0..p).filter(|&j| !((coef[j] - c2[j]).abs() <= (10.0 * tol.sqrt() + 1e-6) * sz)).collect();
            if !far.is_empty() {
                // The two iterations start at different intercepts and stop independently. What the property claims of each is that it is a root
                // of the score equations to within the tolerance, and the two problems have THE SAME score (C06_frequency_weights_gradient_information).
                // A distance between two such roots beyond the allowance is a flat direction of the likelihood (n = 20, p = 6, polynomial columns:
                // information matrix of condition ~1e7), not a failure - unless the replicated fit is NOT a root of the weighted equations.
                let (s2, sc2) = ref_score(&pr, c2);
                let root = (0..p).all(|j| s2[j].is_finite() && sc2[j].is_finite() && s2[j].abs() <= tf * sc2[j].max(1.0));
                if root { st.bump(format!("{} {} replicated data: coefficients apart but both roots of the same score equations", blk, fname)); }
                else { for &j in &far { add(out, "weighted:coefficients-differ-from-replicated-data", format!("coefficient {} = {:e} with frequency weights, {:e} on the replicated data, and the latter does not satisfy the weighted score equations ({:?}, magnitudes {:?}, allowed fraction {:e})", j, coef[j], c2[j], s2, sc2, tf), inp.clone()); } }
            }
            // (standard errors exist where the Fisher information has an inverse: same condition as in (f))
            let info_invertible = { let h = ref_fisher(&pr, &coef); let mut eye = vec![0.0; p * p]; for j in 0..p { eye[j * p + j] = 1.0; } gauss(&h, &eye, p, p).is_some() };
            if !info_invertible { st.bump(format!("{} {} replicated data: information singular, standard errors not compared", blk, fname)); }
            else if let (Ok(se), Ok(se2)) = (catch(|| g.coef_standard_error().unwrap().to_vec()), catch(|| g2.coef_standard_error().unwrap().to_vec())) {
                for j in 0..p { if !rel(se[j], se2[j], tf + 1e-5) { add(out, "weighted:stderr-differs-from-replicated-data", format!("standard error {} = {:e} with frequency weights, {:e} on the replicated data", j, se[j], se2[j]), inp.clone()); } }
            }
            // deviance, dispersion, AIC, BIC: the two fits stop independently, each within the tolerance of the common optimum
            let (d2, disp2, aic2, bic2) = (g2.deviance().unwrap(), g2.dispersion().unwrap(), g2.aic().unwrap(), g2.bic().unwrap());
            if !((dev - d2).abs() <= (tf + 1e-6) * (d2.abs() + 1.0)) { add(out, "weighted:deviance-differs-from-replicated-data", format!("deviance {:e} with frequency weights, {:e} on the replicated data", dev, d2), inp.clone()); }
            if !((disp - disp2).abs() <= (tf + 1e-6) * (disp2.abs() + 1.0)) { add(out, "weighted:dispersion-differs-from-replicated-data", format!("dispersion {:e} with frequency weights, {:e} on the replicated data", disp, disp2), inp.clone()); }
            if !((aic - aic2).abs() <= (tf + 1e-6) * (aic2.abs() + 1.0)) || !((bic - bic2).abs() <= (tf + 1e-6) * (bic2.abs() + 1.0)) { add(out, "weighted:aic-bic-differ-from-replicated-data", format!("aic, bic = {:e}, {:e} with frequency weights, {:e}, {:e} on the replicated data", aic, bic, aic2, bic2), inp.clone()); }
        }
    }
}

pub fn oracle(tier: &str, seed: u64) -> (u64, Vec<Finding>) {
    silence_stdout();
    let thorough = tier == "thorough";
    let mut r = Rng::new(seed ^ 0x0C06);
    let mut out: Vec<Finding> = vec![]; let mut tried = 0u64;
    let mut st = Stats::default();
    let mut rx = Rng::new(seed ^ 0x0C06_E47A); // the added evaluation points draw from their own stream: the first block is unchanged
    let iters = if thorough { 3000 } else { 300 };
    let alphas = [0.0, 0.1, 1.0, 10.0];
    for it in 0..iters {
        let fam = it % 6;
        let n = if it % 10 == 9 { 20 + r.below(481) as usize } else { 20 + r.below(100) as usize };
        let p = 1 + r.below(6) as usize;
        let alpha = alphas[(it / 6) % 4];
        let tol = 10f64.powi(-(5 + r.below(10) as i32));
        let wkind = [0, 0, 1, 2][r.below(4) as usize];
        let (dk, wo) = (r.below(4) as usize, r.coin(0.4));
        let mode: u8 = if it % 10 == 3 && fam >= 2 { 1 } else if it % 10 == 7 && fam >= 2 { 2 } else { 0 };
        let (n, p) = if mode == 1 { (300, 6) } else { (n, p) };
        let pr = problem_mode(&mut r, fam, n, p, if mode == 1 { 0 } else { dk }, wkind, wo, alpha, tol, mode);
        tried += 1;
        examine(&pr, it, &mut r, &mut rx, &mut out, &mut st, &format!("A{}", mode), false);
    }
    // ---- coverage audit: evaluation points the quantifier names and the block above does not reach ------------------------
    // (in the block above `it % 10 == 9 / 3 / 7` forces `it` odd, hence an odd family index: the rows n > 119, the strong-signal mode and
    //  the exposure-offset mode only ever met Bernoulli / Poisson / Exponential, never Gaussian / QuasiPoisson / Gamma, the three families
    //  with a dispersion; and every exposure-offset fit ran out of its 100 iterations, so that mode was never examined at all)
    let mut q = Rng::new(seed ^ 0x0C06_B10C);
    let reps = if thorough { 6 } else { 1 };
    let plain = Cfg { bmode: 0, wmode: 0, omode: 0, noise: 0.7 };
    let mut k = 0usize; // running index of the added points (thins (k)/(l) like `it`)
    let tol_of = |e: usize| 10f64.powi(-((5 + e % 10) as i32));
    for rep in 0..reps {
        // B. every combination family x penalty x weights (none / frequency / real) x offsets (none / +-0.5), n over the whole of 20..500
        for fam in 0..6 { for (ia, &alpha) in alphas.iter().enumerate() { for wmode in 0..3u8 { for omode in 0..2u8 {
            let n = 20 + q.below(481) as usize; let p = 1 + q.below(6) as usize; let dk = q.below(4) as usize;
            let pr = problem_x(&mut q, fam, n, p, dk, Cfg { wmode, omode, ..plain }, alpha, tol_of(k + ia + rep));
            tried += 1; k += 1; examine(&pr, k, &mut q, &mut rx, &mut out, &mut st, "B", true);
        } } } }
        // C. first and last size of each range: n in {20, 21, 499, 500} x p in {1, 2, 5, 6}, every family, every design kind in turn
        for fam in 0..6 { for (i_n, &n) in [20usize, 21, 499, 500].iter().enumerate() { for (i_p, &p) in [1usize, 2, 5, 6].iter().enumerate() {
            if !thorough && (i_n + i_p + fam) % 2 == 1 { continue; }
            let c = Cfg { wmode: [0, 1, 2][(k + rep) % 3], omode: [0, 1][(k / 3) % 2], ..plain };
            let pr = problem_x(&mut q, fam, n, p, (k + rep) % 4, c, alphas[(k / 2 + rep) % 4], tol_of(k + rep));
            tried += 1; k += 1; examine(&pr, k, &mut q, &mut rx, &mut out, &mut st, "C", true);
        } } }
        // D. coefficients over the whole stated box |beta_j| <= 1.5 (every column at once, intercept included; and its corners), and the
        //    opposite end, no signal at all (slopes 0); every family, p = 1..6, n in 20..500
        for fam in 0..6 { for bmode in 1..=3u8 { for j in 0..6 {
            let n = if j % 2 == 0 { 20 + q.below(100) as usize } else { 120 + q.below(381) as usize };
            let p = if bmode == 3 { 1 + q.below(6) as usize } else { 1 + (j + fam) % 6 };
            let c = Cfg { bmode, wmode: [0, 0, 1, 2][q.below(4) as usize], omode: if q.coin(0.3) { 1 } else { 0 }, noise: 0.7 };
            let dk = q.below(4) as usize; let pr = problem_x(&mut q, fam, n, p, dk, c, alphas[(k + rep) % 4], tol_of(k / 4 + rep));
            tried += 1; k += 1; examine(&pr, k, &mut q, &mut rx, &mut out, &mut st, &format!("D{}", bmode), true);
        } } }
        // E. offsets beyond +-0.5: exposure offsets log(100..800) with counts in the hundreds for ALL FOUR log-link families (larger iteration
        //    budget, see `examine`), and offsets in +-2 for every family
        for fam in 0..6 { for omode in 2..=3u8 { for j in 0..4 {
            if omode == 2 && fam < 2 { continue; }
            let n = 20 + q.below(if j == 3 { 481 } else { 100 }) as usize; let p = 1 + q.below(6) as usize;
            let c = Cfg { omode, wmode: [0, 1, 2, 0][j], ..plain };
            let dk = q.below(4) as usize; let pr = problem_x(&mut q, fam, n, p, dk, c, alphas[(k + rep) % 4], tol_of(k / 4 + rep));
            tried += 1; k += 1; examine(&pr, k, &mut q, &mut rx, &mut out, &mut st, &format!("E{}", omode), true);
        } } }
        // I. the same exposure offsets on the smallest designs (p = 1: intercept and offset only; p = 2), Poisson and QuasiPoisson, Gamma and
        //    Exponential: with one column the information "matrix" is a single sum, so whatever happens to that sum decides the step alone
        for fam in 2..6 { for j in 0..6 {
            let n = 20 + q.below(if j == 5 { 481 } else { 60 }) as usize; let p = if j < 4 { 1 } else { 2 };
            let c = Cfg { omode: 2, wmode: [0, 0, 1, 2, 0, 0][j], ..plain };
            let pr = problem_x(&mut q, fam, n, p, 0, c, alphas[(k + rep) % 4], tol_of(k / 2 + rep));
            tried += 1; k += 1; examine(&pr, k, &mut q, &mut rx, &mut out, &mut st, "I", true);
        } }
        // J. the most over-parametrised corner of the quantifier with the non-canonical (log) link of Gamma / Exponential: n = 20..24, p = 6,
        //    polynomial columns, no penalty - where Fisher scoring is least contractive
        for fam in 4..6 { for j in 0..12 {
            let c = Cfg { wmode: [0, 2, 1][j % 3], omode: [0, 1][j % 2], ..plain };
            let pr = problem_x(&mut q, fam, 20 + j % 5, 6, 1, c, 0.0, tol_of(j + rep));
            tried += 1; k += 1; examine(&pr, k, &mut q, &mut rx, &mut out, &mut st, "J", true);
        } }
        // F. weights beyond 1..3 / 0.5..2: frequencies with zeros (dropped observations), frequencies up to 12, real weights over
        //    0.05..20, a constant weight 2; with offsets and penalty in turn
        for fam in 0..6 { for wmode in 3..=6u8 { for j in 0..2 {
            let n = 20 + q.below(if j == 1 { 481 } else { 100 }) as usize; let p = 1 + q.below(6) as usize;
            let c = Cfg { wmode, omode: [0, 1][(k + rep) % 2], ..plain };
            let dk = q.below(4) as usize; let pr = problem_x(&mut q, fam, n, p, dk, c, alphas[(k / 2 + rep) % 4], tol_of(k / 8 + rep));
            tried += 1; k += 1; examine(&pr, k, &mut q, &mut rx, &mut out, &mut st, &format!("F{}", wmode), true);
        } } }
        // G. every tolerance 1e-5 .. 1e-14 with every family (the draw above left some pairs to chance)
        for fam in 0..6 { for e in 0..10usize {
            let n = 20 + q.below(100) as usize; let p = 1 + q.below(6) as usize;
            let c = Cfg { wmode: [0, 0, 1, 2][q.below(4) as usize], omode: if q.coin(0.4) { 1 } else { 0 }, ..plain };
            let dk = q.below(4) as usize; let pr = problem_x(&mut q, fam, n, p, dk, c, alphas[(k + rep) % 4], tol_of(e));
            tried += 1; k += 1; examine(&pr, k, &mut q, &mut rx, &mut out, &mut st, "G", true);
        } }
        // H. Gaussian responses at other noise levels than 0.7 (nearly exact fit, and noise far above the signal)
        for &noise in &[1e-3, 0.05, 5.0, 50.0] { for j in 0..2 {
            let n = 20 + q.below(if j == 1 { 481 } else { 100 }) as usize; let p = 1 + q.below(6) as usize;
            let c = Cfg { noise, wmode: [0, 1, 2][(k + rep) % 3], omode: [0, 1][k % 2], bmode: 0 };
            let dk = q.below(4) as usize; let pr = problem_x(&mut q, 0, n, p, dk, c, alphas[(k / 2 + rep) % 4], tol_of(k + rep));
            tried += 1; k += 1; examine(&pr, k, &mut q, &mut rx, &mut out, &mut st, "H", true);
        } }
    }
    // ---- the data set of the recorded finding `status:ok-while-coefficients-still-moving`, evaluated on every run whatever the seed (so the
    //      finding listed in known_findings.txt is reported by every run and a repair of the stopping rule is noticed at once)
    {
        let pr = Prob { fam: 5, n: 20, p: 6, x: pinned::X.to_vec(), y: pinned::Y.to_vec(), w: Some(pinned::W.to_vec()), wkind: 2, off: Some(pinned::OFF.to_vec()),
                        alpha: 0.0, tol: 1e-10, beta: vec![0.0; 6], dkind: 1 };
        let (mut q1, mut q2) = (Rng::new(0x0C06_F1D1), Rng::new(0x0C06_F1D2));
        tried += 1; examine(&pr, 0, &mut q1, &mut q2, &mut out, &mut st, "pinned", true);
    }
    if std::env::var("HARNESS_C06_STATS").is_ok() { for (k, v) in &st.c { eprintln!("{:>8}  {}", v, k); } }
    (tried, out)
}

// ------------------------------------------------------------------------------------------------------------
// correspondence cases

/// mirror of one iteration's dataflow up to the linear solve, on the crate's own public functions:
/// (argument matrix of `solve`, right-hand side, unpenalised information matrix, means)
fn step_args(pr: &Prob, coef: &[f64]) -> (Vec<f64>, Vec<f64>, Vec<f64>, Vec<f64>) {
    let (n, p) = (pr.n, pr.p);
    let fam = FAMS[pr.fam].0;
    let mut eta = matmul(&pr.x, coef, n, p, false, false);
    if let Some(o) = &pr.off { assert_eq!(o.len(), n); for i in 0..n { eta[i] += o[i]; } }
    let mu = fam.inv_link(&eta).to_vec();
    let dmu = fam.d_inv_link(&eta, &mu).to_vec();
    let var = fam.variance(&mu).to_vec();
    let w: Vec<f64> = pr.w.clone().unwrap_or(vec![1.0; n]);
    let mut dbeta = vec![0.0; p];
    for i in 0..n { let wr = (w[i] * (pr.y[i] - mu[i])) * (dmu[i] / var[i]); for j in 0..p { dbeta[j] -= pr.x[i * p + j] * wr; } }
    let mut wx = pr.x.clone();
    for i in 0..n { let ww = (w[i] * dmu[i]) * (dmu[i] / var[i]); for j in 0..p { wx[i * p + j] *= ww; } }
    let mut ddbeta = matmul(&pr.x, &wx, n, n, true, false);
    let info = ddbeta.clone();
    if pr.alpha > 0.0 { for j in 1..p { dbeta[j] += pr.alpha * coef[j]; } for j in 1..p { ddbeta[j * p + j] += pr.alpha; } }
    (ddbeta, dbeta, info, mu)
}

/// mirror of `GLM::weighted_penalized_deviance` (private) on the crate's public functions: the penalised deviance the loop
/// compares, from the observed means and coefficients (unit weights: the family's own penalised deviance)
fn fit_pdev(pr: &Prob, mu: &[f64], coef: &[f64]) -> f64 {
    let fam = FAMS[pr.fam].0;
    match &pr.w {
        Some(w) if !w.iter().all(|&v| v == 1.0) => {
            let d: f64 = (0..pr.y.len()).map(|i| w[i] * fam.deviance(&pr.y[i..i + 1], &mu[i..i + 1])).sum();
            d + pr.alpha * dot(&coef[1..], &coef[1..])
        }
        _ => fam.penalized_deviance(&pr.y, mu, pr.alpha, coef),
    }
}

fn opt_list(v: &Option<Vec<f64>>) -> Tm { match v { Some(v) => app("Some", vec![fl(v)]), None => Tm::Raw("None".into()) } }

struct Obs { fit: Result<Vec<f64>, String>, cov: Result<Vec<f64>, String>, pred: Result<Vec<f64>, String>, ok: bool, coef: Vec<f64> }
/// run fit(max_iter) and every accessor; libm calls of all of them are recorded by the caller
fn observe(pr: &Prob, max_iter: usize, xnew: &[f64]) -> Obs {
    match run_fit(pr, max_iter) {
        Err(e) => Obs { fit: Err(e.clone()), cov: Err(e.clone()), pred: Err(e), ok: false, coef: vec![] },
        Ok((ok, g)) => {
            let coef = g.coef().unwrap().to_vec();
            let fit = catch(|| { let mut v = vec![if ok { 0.0 } else { 1.0 }]; v.extend_from_slice(&coef); v.push(g.deviance().unwrap()); v.push(g.aic().unwrap()); v.push(g.bic().unwrap()); v.push(g.dispersion().unwrap()); v });
            let cov = catch(|| { let mut v = g.coef_covariance_matrix().unwrap(); v.extend_from_slice(&g.coef_standard_error().unwrap()); v });
            let pred = catch(|| g.predict(xnew).unwrap().to_vec());
            Obs { fit, cov, pred, ok, coef }
        }
    }
}

fn solve_entry(a: &[f64], b: &[f64]) -> Tm { let (a2, b2) = (a.to_vec(), b.to_vec()); Tm::Tup(vec![fl(a), fl(b), outcome_list(&catch(move || solve(&a2, &b2)))]) }
fn inv_entry(a: &[f64]) -> Tm { let a2 = a.to_vec(); Tm::Tup(vec![fl(a), outcome_list(&catch(move || invert_matrix(&a2)))]) }

/// one correspondence case: `start` = None (run from the initial state with budget max_iter) or Some((coef_k, pdev_k))
/// (one iteration from the observed state; the implementation side is fit(max_iter = k+1))
fn fit_case(pr: &Prob, t: &libm::Table, stbl: Vec<Tm>, itbl: Vec<Tm>, max_iter: usize, start: Option<(&[f64], f64)>, xnew: &[f64], o: &Obs) -> Tm {
    let st = match start { None => Tm::Raw("None".into()), Some((c, d)) => app("Some", vec![Tm::Tup(vec![fl(c), Tm::F(d)])]) };
    app("CFit", vec![libm_table(t), Tm::L(stbl), Tm::L(itbl), Tm::Raw(FAMS[pr.fam].1.into()), Tm::F(pr.alpha), Tm::F(pr.tol), opt_list(&pr.w), opt_list(&pr.off),
        fl(&pr.x), fl(&pr.y), Tm::Nat(max_iter as u64), st, fl(xnew), outcome_list(&o.fit), outcome_list(&o.cov), outcome_list(&o.pred)])
}

/// the same case end to end: no table of inner calls; the Coq side computes solve / invert_matrix with C01's executable model
fn fit_case_e2e(pr: &Prob, t: &libm::Table, max_iter: usize, start: Option<(&[f64], f64)>, xnew: &[f64], o: &Obs) -> Tm {
    let st = match start { None => Tm::Raw("None".into()), Some((c, d)) => app("Some", vec![Tm::Tup(vec![fl(c), Tm::F(d)])]) };
    app("CFitE", vec![libm_table(t), Tm::Raw(FAMS[pr.fam].1.into()), Tm::F(pr.alpha), Tm::F(pr.tol), opt_list(&pr.w), opt_list(&pr.off),
        fl(&pr.x), fl(&pr.y), Tm::Nat(max_iter as u64), st, fl(xnew), outcome_list(&o.fit), outcome_list(&o.cov), outcome_list(&o.pred)])
}

/// trajectory of one problem: step cases k -> k+1 until Ok or `kmax`, plus (optionally) the full run
fn trajectory(cs: &mut Cases, pr: &Prob, kmax: usize, full: bool, tag: &str, r: &mut Rng) {
    let (n, p) = (pr.n, pr.p);
    // new design for predict: a few rows of the training design (so stored offsets of length n apply only when m = n)
    let xnew: Vec<f64> = if pr.off.is_some() || r.coin(0.3) { pr.x.clone() } else { let m = 1 + r.below(5) as usize; pr.x[..(m.min(n)) * p].to_vec() };
    let mut coef_prev: Vec<f64> = vec![];
    let mut coef: Vec<f64> = { let mut c = vec![0.0; p.max(1)]; c[0] = mean(&pr.y); c.truncate(p.max(1)); c };
    let mut all_solve: Vec<Tm> = vec![];
    let mut last_inv: Vec<Tm> = vec![];
    let mut steps = 0;
    for k in 0..kmax {
        // arguments of the inner solve at the observed state, through the crate's own public functions
        let args = catch(|| step_args(pr, &coef));
        let (stbl, itbl, pdev) = match &args {
            Ok((a, b, info, _mu)) => {
                let pdev = if k == 0 { f64::INFINITY } else {
                    let mu_prev = catch(|| step_args(pr, &coef_prev)).map(|v| v.3).unwrap_or(vec![]);
                    catch(|| fit_pdev(pr, &mu_prev, &coef)).unwrap_or(f64::NAN)
                };
                (vec![solve_entry(a, b)], vec![inv_entry(info)], pdev)
            }
            Err(_) => (vec![], vec![], f64::NAN),
        };
        libm::start();
        let o = observe(pr, k + 1, &xnew);
        let t = libm::stop();
        let nontrivial = k >= 1 && o.fit.is_ok() && o.coef != coef;
        let start = if k == 0 { None } else { Some((&coef[..], pdev)) };
        cs.push(fit_case(pr, &t, stbl.clone(), itbl.clone(), 1, start, &xnew, &o), &format!("{}/step{}{}", tag, if k == 0 { "0" } else { "k" }, if o.fit.is_err() { "/panic" } else if o.ok { "/ok" } else { "/err" }), nontrivial);
        cs.push(fit_case_e2e(pr, &t, 1, start, &xnew, &o), &format!("e2e-{}/step{}{}", tag, if k == 0 { "0" } else { "k" }, if o.fit.is_err() { "/panic" } else if o.ok { "/ok" } else { "/err" }), nontrivial);
        all_solve.extend(stbl); last_inv = itbl;
        steps = k + 1;
        if o.fit.is_err() || o.ok { break; }
        coef_prev = coef; coef = o.coef.clone();
    }
    if full && steps >= 2 {
        // the whole run with budget = steps (and one with a larger budget when it stopped by convergence): all solves recorded
        libm::start();
        let o = observe(pr, steps, &xnew);
        let t = libm::stop();
        cs.push(fit_case(pr, &t, all_solve.clone(), last_inv.clone(), steps, None, &xnew, &o), &format!("{}/full{}", tag, if o.ok { "/ok" } else { "/err" }), true);
        cs.push(fit_case_e2e(pr, &t, steps, None, &xnew, &o), &format!("e2e-{}/full{}", tag, if o.ok { "/ok" } else { "/err" }), true);
        if o.ok {
            libm::start();
            let o2 = observe(pr, steps + 7, &xnew);
            let t2 = libm::stop();
            cs.push(fit_case(pr, &t2, all_solve, last_inv, steps + 7, None, &xnew, &o2), &format!("{}/full-spare-budget", tag), true);
            cs.push(fit_case_e2e(pr, &t2, steps + 7, None, &xnew, &o2), &format!("e2e-{}/full-spare-budget", tag), true);
        }
    }
}

fn special(r: &mut Rng, kind: usize) -> f64 {
    match kind { 0 => *r.pick(&[0.0, -0.0, 1.0, -1.0, 0.5, 2.0, f64::INFINITY, f64::NEG_INFINITY, f64::NAN, 5e-324, -5e-324, 1e-310, 1e308, -745.2, 709.9, 40.0, -40.0]),
                 1 => r.uniform(0.0, 1.0), 2 => r.range(0, 6) as f64, 3 => r.uniform(-4.0, 4.0), 5 => r.range(0, 1) as f64, _ => r.uniform(0.05, 9.0) }
}

pub fn gen(tier: &str, seed: u64, outdir: &str) {
    silence_stdout();
    let thorough = tier == "thorough";
    let mut r = Rng::new(seed ^ 0xC06);
    let mut cs = Cases::new("C06");
    let mult = if thorough { 10 } else { 1 };
    // 1. family tables on vectors with special values, every length residue mod 8
    for i in 0..(240 * mult) {
        let fam = i % 6; let which = (i / 6) % 5; let len = (i / 30) % 11 + if i % 7 == 0 { 8 } else { 0 };
        let kind_a = if i % 3 == 0 { 0 } else { [3, 3, 3, 2, 1][which] };
        let ka = if which >= 3 && kind_a != 0 { match fam { 0 => 3, 1 => 5, 2 | 3 => 2, _ => 4 } } else { kind_a };
        let a: Vec<f64> = (0..len).map(|_| special(&mut r, ka)).collect();
        let lb = if i % 11 == 5 { len + 1 } else { len };
        let b: Vec<f64> = (0..lb).map(|_| special(&mut r, if i % 4 == 0 { 0 } else if fam == 1 { 1 } else { 4 })).collect();
        let c: Vec<f64> = (0..(i % 5)).map(|_| special(&mut r, if i % 9 == 0 { 0 } else { 3 })).collect();
        let alpha = *r.pick(&[0.0, 0.1, 1.0, 10.0]);
        let f = FAMS[fam].0;
        libm::start();
        let e = match which {
            0 => catch(|| f.variance(&a).to_vec()),
            1 => catch(|| f.inv_link(&a).to_vec()),
            2 => catch(|| f.d_inv_link(&a, &b).to_vec()),
            3 => catch(|| vec![f.deviance(&a, &b)]),
            _ => catch(|| vec![f.penalized_deviance(&a, &b, alpha, &c)]),
        };
        let t = libm::stop();
        cs.push(app("CFam", vec![libm_table(&t), Tm::Nat(which as u64), Tm::Raw(FAMS[fam].1.into()), fl(&a), fl(&b), fl(&c), Tm::F(alpha), outcome_list(&e)]),
            &format!("family/{}{}", ["variance", "inv_link", "d_inv_link", "deviance", "penalized_deviance"][which], if e.is_err() { "/panic" } else { "" }), len >= 1);
    }
    // 2. trajectories over the property's grid (small n dominate; a few large)
    let alphas = [0.0, 0.1, 1.0, 10.0];
    let nprob = if thorough { 400 } else { 48 };
    for i in 0..nprob {
        let fam = i % 6;
        // (every 11th problem is large: 11 is prime to 6, so the large designs rotate over the six families; `i % 12 == 11` met Exponential only)
        let n = if i % 11 == 10 { 100 + r.below(if thorough { 401 } else { 101 }) as usize } else { 20 + r.below(29) as usize };
        let p = 1 + (i / 6) % 6;
        let alpha = alphas[(i / 2) % 4];
        let tol = 10f64.powi(-(5 + r.below(10) as i32));
        let wkind = [0, 1, 2][(i / 3) % 3];
        let pr = problem(&mut r, fam, n, p, (i / 4) % 4, wkind, i % 5 < 2, alpha, tol);
        trajectory(&mut cs, &pr, if thorough { 12 } else { 8 }, true, FAMS[fam].1, &mut r);
    }
    // 2b. coverage audit: the regimes of the quantifier the grid above never draws (one short trajectory each at the quick tier): every
    //     coefficient anywhere in / at the corners of |beta_j| <= 1.5, frequencies with zeros and up to 12, real weights over 0.05..20,
    //     offsets in +-2 and exposure offsets with counts in the hundreds (the start at intercept = mean(y) overflows there: NaN trajectories)
    for i in 0..(if thorough { 60 } else { 6 }) {
        let fam = (i + i / 6) % 6;
        let c = Cfg { bmode: [1, 2, 1, 2, 0, 0][i % 6], wmode: [3, 4, 5, 0, 6, 3][(i + i / 6) % 6], omode: if i % 6 == 4 && fam >= 2 { 2 } else { [0, 3, 1][i % 3] }, noise: [0.7, 0.05, 5.0][i % 3] };
        let (n, p) = (20 + r.below(21) as usize, 2 + r.below(5) as usize);
        let dk = r.below(4) as usize;
        let tol = 10f64.powi(-(5 + r.below(10) as i32));
        let pr = problem_x(&mut r, fam, n, p, dk, c, alphas[(i + i / 6) % 4], tol);
        trajectory(&mut cs, &pr, if thorough { 10 } else { 5 }, i % 2 == 0, &format!("audit-{}", FAMS[fam].1), &mut r);
    }
    // 3. malformed / degenerate stream: wrong lengths, not a design matrix, empty data, special values, alpha <= 0 / NaN
    for i in 0..(60 * mult) {
        let fam = i % 6;
        let (n, p) = (1 + r.below(9) as usize, 1 + r.below(3) as usize);
        let al = *r.pick(&[0.0, -1.0, 0.5, f64::NAN]);
        let mut pr = problem(&mut r, fam, n.max(3), p, 0, [0, 1, 2][i % 3], i % 2 == 0, al, 1e-6);
        match i % 10 {
            0 => { pr.x.pop(); }
            1 => { pr.y.pop(); pr.n -= 1; }
            2 => { if let Some(w) = pr.w.as_mut() { w.pop(); } else { pr.x[0] = 1.0 + 4e-16; } }
            3 => { if let Some(o) = pr.off.as_mut() { o.push(0.0); } else { pr.x[p] = 0.5; } }
            4 => { pr.x[0] = f64::NAN; }
            5 => { pr.y[0] = f64::INFINITY; }
            6 => { pr.x.clear(); }
            7 => { pr.y.clear(); pr.n = 0; }
            8 => { let k = pr.n * pr.p; pr.x[k - 1] = f64::NAN; }
            _ => { pr.x[0] = 1.0 + 2.0 * f64::EPSILON; }
        }
        trajectory(&mut cs, &pr, 3, i % 2 == 0, "malformed", &mut r);
    }
    cs.write(outdir, if thorough { 60 } else { 40 }, "six families x alpha in {0,0.1,1,10} x weights none/integer/real x offsets on/off x designs (standardised random, polynomial, indicator, mixed), n in 20..48 mostly and up to 200 (quick) / 500 (thorough), p in 1..6, tolerance 1e-5..1e-14, responses simulated from the model; the large designs rotate over the six families; plus short trajectories (tags audit-*) with every coefficient in / at the corners of |beta_j| <= 1.5, frequency weights with zeros and up to 12, real weights over 0.05..20, offsets in +-2 and exposure offsets log(100..800); per problem one step case per iteration k -> k+1 (model's one-step map from the observed state, inner solve/inverse answered from the recorded calls of the crate's own solve/invert_matrix) and full runs with the exact and a spare iteration budget; every step case and every full run ALSO end to end (tags e2e-*: no table of inner calls, solve / invert_matrix computed inside Coq by C01's executable models, libm still from the recorded table); family tables on vectors of every length residue mod 8 with +-0, +-inf, NaN, subnormals; malformed stream (wrong lengths, not a design matrix, empty data, NaN/inf entries, alpha <= 0 or NaN); non-trivial = a step k >= 1 whose coefficients change; distinct by hash");
}
