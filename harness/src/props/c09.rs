//! C09 — special functions (gamma, beta, digamma, erf).
use crate::libm::{self, reference};
use crate::util::*;
use compute::functions::{beta, digamma, erf, gamma};

/// distance from x to the nearest pole of Gamma (non-positive integers), for x < 0.5
fn pole_dist(x: f64) -> f64 { if x >= 0.5 { f64::INFINITY } else { (x - x.round()).abs() } }

/// glibc's own tgamma / erf exactly as `crate::libm::reference` obtains them (dlopen("libm.so.6") + dlsym), with the function pointer looked
/// up ONCE: `reference::*` calls dlsym on every evaluation, which takes the loader lock and serialises the workers of the exhaustive sweep.
mod fastref {
    use std::os::raw::{c_char, c_int, c_void};
    use std::sync::OnceLock;
    extern "C" {
        fn dlsym(handle: *mut c_void, symbol: *const c_char) -> *mut c_void;
        fn dlopen(f: *const c_char, flags: c_int) -> *mut c_void;
    }
    type F1 = extern "C" fn(f64) -> f64;
    fn get(name: &'static [u8]) -> F1 {
        unsafe {
            let h = dlopen(b"libm.so.6\0".as_ptr() as *const c_char, 2);
            assert!(!h.is_null(), "cannot dlopen libm.so.6");
            let p = dlsym(h, name.as_ptr() as *const c_char);
            assert!(!p.is_null());
            std::mem::transmute::<*mut c_void, F1>(p)
        }
    }
    pub fn tgamma(x: f64) -> f64 { static F: OnceLock<F1> = OnceLock::new(); (F.get_or_init(|| get(b"tgamma\0")))(x) }
    pub fn erf(x: f64) -> f64 { static F: OnceLock<F1> = OnceLock::new(); (F.get_or_init(|| get(b"erf\0")))(x) }
}

/// (class, severity, what, input) of one failed demand
type Hit = (&'static str, f64, String, String);
/// worst failure per class
#[derive(Default)]
struct Worst(std::collections::BTreeMap<String, (f64, String, String)>);
impl Worst {
    fn note(&mut self, h: Hit) {
        let e = self.0.entry(h.0.to_string()).or_insert((0.0, String::new(), String::new()));
        if h.1 > e.0 || e.1.is_empty() { *e = (h.1, h.2, h.3); }
    }
    fn merge(&mut self, o: Worst) { for (c, (sev, what, input)) in o.0 { let e = self.0.entry(c).or_insert((0.0, String::new(), String::new())); if sev > e.0 || e.1.is_empty() { *e = (sev, what, input); } } }
}

/// gamma against glibc tgamma: relative error 1e-13, scaled by pole proximity for x < 0.5. Returns (evaluated?, failure)
fn gamma_point(x: f64, breadcrumb: bool) -> (u64, Option<Hit>) {
    let want = fastref::tgamma(x);
    if !want.is_finite() || want.abs() < f64::MIN_POSITIVE { return (0, None); }
    let d = pole_dist(x);
    // near a pole -n (n >= 1) the relative condition number |x|/d is huge: skipped; near 0 it is 1 (Gamma(x) ~ 1/x is a finite normal
    // f64 down to |x| ~ 1e-308), so tiny arguments of either sign are in the quantifier
    if d < 1e-3 && x.abs() >= 0.5 { return (0, None); }
    if breadcrumb { crumb(&format!("gamma x={:e}", x)); }
    let got = gamma(x);
    // reflection: the relative condition number of Gamma near a pole grows like |x|/d; the property scales by proximity
    let tol = 1e-13 * if x < 0.5 { (1.0f64).max(x.abs() / d) } else { 1.0 };
    let err = ((got - want) / want).abs();
    if !(err <= tol) {
        let class = if !got.is_finite() { "gamma:nonfinite-where-true-value-finite" } else if x < 0.5 { "gamma:inaccurate-reflection" } else { "gamma:inaccurate" };
        return (1, Some((class, if got.is_finite() { err / tol } else { f64::MAX }, format!("gamma({:e}) = {:e}, true value {:e}, relative error {:e} > {:e}", x, got, want, err, tol), format!("x={:e}", x))));
    }
    (1, None)
}

/// erf: odd, |erf| <= 1, within 1.5e-7 of the true erf
fn erf_point(x: f64, breadcrumb: bool, w: &mut Worst) -> u64 {
    if breadcrumb { crumb(&format!("erf x={:e}", x)); }
    let got = erf(x); let want = fastref::erf(x);
    if !(got.abs() <= 1.0) { w.note(("erf:exceeds-1", got.abs(), format!("|erf({:e})| = {:e} > 1", x, got.abs()), format!("x={:e}", x))); }
    let err = (got - want).abs();
    if !(err <= 1.5e-7) { w.note(("erf:inaccurate", err, format!("erf({:e}) = {:e}, true {:e}, error {:e} > 1.5e-7", x, got, want, err), format!("x={:e}", x))); }
    let m = erf(-x);
    if x != 0.0 && m != -got { w.note(("erf:not-odd", 1.0, format!("erf(-x) = {:e} but -erf(x) = {:e}", m, -got), format!("x={:e}", x))); }
    if x == 0.0 && (m != -got) { w.note(("erf:not-odd-at-zero", 1.0, format!("erf(-0) = {:e} but -erf(0) = {:e} (an odd function vanishes at 0)", m, -got), "x=0".into())); }
    1
}

/// the f32 values of [lo, hi] as (first bit pattern, last bit pattern, sign) per sign
fn f32_ranges(lo: f32, hi: f32) -> Vec<(u32, u32, f64)> {
    let mut ranges = vec![];
    if lo < 0.0 { ranges.push(((if hi < 0.0 { -hi } else { 0.0f32 }).to_bits(), (-lo).to_bits(), -1.0)); }
    if hi > 0.0 { ranges.push(((if lo > 0.0 { lo } else { 0.0f32 }).to_bits(), hi.to_bits(), 1.0)); }
    ranges
}

/// every stride-th f32 in [lo, hi], walking the bit patterns (both signs). `jitter` = None: the aligned patterns 0, stride, 2 stride, ...
/// (the f32 values with log2(stride) trailing zero bits: all integers and half-integers among them); `jitter` = Some(rng): one pattern drawn
/// uniformly inside every block of `stride` consecutive patterns (a stratified sample that also reaches the values with all 24 bits set).
/// One breadcrumb per 256 evaluations (an input that takes the process down is then known to within its neighbours; `--replay` re-runs the search).
fn f32_sweep(lo: f32, hi: f32, stride: u32, mut jitter: Option<&mut Rng>, what: &str, mut f: impl FnMut(f64)) {
    let stride = stride.max(1); let mut k = 0u32;
    for (a, e, sg) in f32_ranges(lo, hi) {
        let mut i = a as u64;
        while i <= e as u64 {
            let j = match jitter.as_mut() { Some(r) => (i + r.below(stride as u64)).min(e as u64), None => i };
            let x = sg * f32::from_bits(j as u32) as f64;
            if k % 256 == 0 { crumb(&format!("{} f32 sweep at x={:e} (bit pattern {:#x}, stride {}, next 256 points)", what, x, j, stride)); }
            k = k.wrapping_add(1);
            f(x); i += stride as u64;
        }
    }
}

/// EVERY f32 in [lo, hi] (both signs), split over `threads` workers; per-thread worst failures are merged. Breadcrumbs per 2^16 values and only
/// from worker 0 (the single-threaded searches that run BEFORE this one carry a breadcrumb per evaluation and reach every branch first).
fn f32_exhaustive(lo: f32, hi: f32, threads: usize, what: &'static str, f: impl Fn(f64, &mut Worst) -> u64 + Sync) -> (u64, Worst) {
    let mut total = 0u64; let mut all = Worst::default();
    for (a, e, sg) in f32_ranges(lo, hi) {
        let n = (e - a) as u64 + 1; let per = (n + threads as u64 - 1) / threads as u64;
        let parts: Vec<(u64, Worst)> = std::thread::scope(|s| {
            let hs: Vec<_> = (0..threads as u64).map(|t| { let f = &f; s.spawn(move || {
                let (from, to) = (a as u64 + t * per, (a as u64 + (t + 1) * per).min(e as u64 + 1));
                let mut w = Worst::default(); let mut cnt = 0u64;
                let mut i = from;
                while i < to {
                    let x = sg * f32::from_bits(i as u32) as f64;
                    if t == 0 && i % 65536 == 0 { crumb(&format!("{} exhaustive f32 sweep, worker 0 at x={:e} (bit pattern {:#x}); {} workers", what, x, i, threads)); }
                    cnt += f(x, &mut w); i += 1;
                }
                (cnt, w) }) }).collect();
            hs.into_iter().map(|h| h.join().expect("oracle worker panicked")).collect()
        });
        for (c, w) in parts { total += c; all.merge(w); }
    }
    (total, all)
}

fn next_up(x: f64) -> f64 { if x == 0.0 { f64::from_bits(1) } else if x > 0.0 { f64::from_bits(x.to_bits() + 1) } else { f64::from_bits(x.to_bits() - 1) } }
fn next_down(x: f64) -> f64 { -next_up(-x) }

pub fn oracle(tier: &str, seed: u64) -> (u64, Vec<Finding>) {
    let thorough = tier == "thorough";
    let mut r = Rng::new(seed ^ 0xC09);
    let mut out: Vec<Finding> = vec![]; let mut tried = 0u64;
    let mut worst = Worst::default();
    macro_rules! fail { ($class:expr, $sev:expr, $what:expr, $input:expr) => { worst.note(($class, $sev, $what, $input)) } }
    macro_rules! chk_gamma { ($x:expr) => {{ let (n, h) = gamma_point($x, true); tried += n; if let Some(h) = h { worst.note(h); } }} }
    // ---- gamma against glibc tgamma on single points (a breadcrumb per evaluation); the dense sweeps come last
    for _ in 0..(if thorough { 200000 } else { 20000 }) { let x = r.uniform(-170.0, 171.6); chk_gamma!(x); }
    for n in 1..=171 { chk_gamma!(n as f64); chk_gamma!(n as f64 + 0.5); }
    // tiny arguments of both signs at every decade (not powers of two: the low bits matter), down to where Gamma(x) ~ 1/x overflows
    for k in 1..=308i32 { for sgn in [1.0, -1.0] { for _ in 0..(if thorough { 20 } else { 3 }) { let x = sgn * r.uniform(1.0, 10.0) * (10.0f64).powi(-k); chk_gamma!(x); } } }
    // the ends of the stated range (-170, 171.6): the last unit interval on either side, where the true value is closest to the overflow /
    // underflow threshold, and the f64 neighbours of the end points
    for _ in 0..(if thorough { 40000 } else { 4000 }) { chk_gamma!(r.uniform(170.6, 171.6)); chk_gamma!(r.uniform(-170.0, -169.0)); chk_gamma!(r.uniform(-170.0, -140.0)); }
    for x in [next_down(171.6), next_down(next_down(171.6)), 171.5, 171.59999, next_up(-170.0) + 1e-3, -169.5, -169.999, -169.001] { chk_gamma!(x); }
    // the branch switch at 1/2 (reflection below, Lanczos sum from 1/2 on) and the f64 neighbours of 1/2, 1, 2, 0
    for c in [0.5f64, 1.0, 2.0, 1.5, -0.5, -1.5] { let (mut lo, mut hi) = (c, c); for _ in 0..8 { chk_gamma!(lo); chk_gamma!(hi); lo = next_down(lo); hi = next_up(hi); } }
    for _ in 0..(if thorough { 20000 } else { 2000 }) { let e = (r.uniform((1e-16f64).ln(), (0.4f64).ln())).exp(); chk_gamma!(0.5 - e); chk_gamma!(0.5 + e); }
    for x in [f64::MIN_POSITIVE, -f64::MIN_POSITIVE, 1e-308, -1e-308, 6e-309, -6e-309] { chk_gamma!(x); }
    // just outside every pole neighbourhood (distance 1e-3 .. 1/2 from each pole -1 .. -169, log-uniform, both sides): the scaled tolerance
    // |x|/d is exercised where it is largest
    for n in 1..=169 { for _ in 0..(if thorough { 40 } else { 6 }) { let d = (r.uniform((1.0001e-3f64).ln(), (0.5f64).ln())).exp(); chk_gamma!(-(n as f64) + d); chk_gamma!(-(n as f64) - d); } }
    // ---- identities: Gamma(x+1) = x Gamma(x), Gamma(n+1) = n!
    for _ in 0..(if thorough { 50000 } else { 5000 }) {
        let x = r.uniform(0.01, 170.0); tried += 1;
        crumb(&format!("gamma x={:e} and x+1", x));
        let (a, b) = (gamma(x + 1.0), x * gamma(x));
        let err = ((a - b) / b).abs();
        if !(err <= 2e-13) { fail!("gamma:recurrence", err, format!("gamma(x+1) = {:e} but x*gamma(x) = {:e} (relative difference {:e})", a, b, err), format!("x={:e}", x)); }
    }
    // the same identity for tiny x (x + 1 rounds to 1: Gamma(1) = 1 against x Gamma(x)), over the last unit interval below the overflow
    // point, and through the reflection branch (negative x off the poles, tolerance scaled by pole proximity as in the accuracy clause)
    for i in 0..(if thorough { 60000 } else { 6000 }) {
        let x = match i % 3 { 0 => (r.uniform((1e-300f64).ln(), 0.0)).exp(), 1 => r.uniform(169.6, 170.6), _ => r.uniform(-170.0, 0.0) };
        let scale = if x < 0.0 { let d = pole_dist(x); if d < 1e-3 { continue; } (1.0f64).max((x.abs() + 1.0) / d) } else { 1.0 };
        tried += 1;
        crumb(&format!("gamma x={:e} and x+1", x));
        let (a, b) = (gamma(x + 1.0), x * gamma(x));
        if !b.is_finite() || b.abs() < f64::MIN_POSITIVE || reference::tgamma(x + 1.0).abs() < f64::MIN_POSITIVE { continue; }
        let err = ((a - b) / b).abs();
        if !(err <= 2e-13 * scale) { fail!("gamma:recurrence", err / scale, format!("gamma(x+1) = {:e} but x*gamma(x) = {:e} (relative difference {:e} > {:e})", a, b, err, 2e-13 * scale), format!("x={:e}", x)); }
    }
    let mut fact = 1.0f64;
    for n in 1..=170u32 { fact *= n as f64; tried += 1; let g = gamma(n as f64 + 1.0); let err = ((g - fact) / fact).abs();
        if !(err <= 1e-13) { fail!("gamma:factorial", if g.is_finite() { err } else { f64::MAX }, format!("gamma({}) = {:e}, {}! = {:e}", n + 1, g, n, fact), format!("n={}", n)); } }
    // ---- beta
    let chk_beta = |a: f64, b: f64, exact: Option<f64>, worst: &mut Worst, tried: &mut u64| {
        *tried += 1;
        let want = (reference::lgamma(a) + reference::lgamma(b) - reference::lgamma(a + b)).exp();
        let want2 = reference::tgamma(a) * reference::tgamma(b) / reference::tgamma(a + b);
        let want = if want2.is_finite() && want2 > 0.0 { want2 } else { want };
        let want = exact.unwrap_or(want);
        crumb(&format!("beta a={:e} b={:e}", a, b));
        let got = beta(a, b);
        let err = ((got - want) / want).abs();
        if !(err <= 1e-12) { worst.note((if got.is_finite() && got != 0.0 { "beta:inaccurate" } else { "beta:degenerate" }, err, format!("beta({:e},{:e}) = {:e}, Gamma(a)Gamma(b)/Gamma(a+b) = {:e}", a, b, got, want), format!("a={:e} b={:e}", a, b))); }
        let sym = beta(b, a); let e2 = ((got - sym) / want).abs();
        if !(e2 <= 1e-12) { worst.note(("beta:asymmetric", e2, format!("beta(a,b) = {:e} but beta(b,a) = {:e}", got, sym), format!("a={:e} b={:e}", a, b))); }
    };
    let (l0, l1) = ((1e-3f64).ln(), (80f64).ln());
    for _ in 0..(if thorough { 100000 } else { 10000 }) {
        let (a, b) = if r.coin(0.5) { (r.uniform(1e-3, 80.0), r.uniform(1e-3, 80.0)) } else { ((r.uniform(l0, l1)).exp(), (r.uniform(l0, l1)).exp()) };
        chk_beta(a, b, None, &mut worst, &mut tried);
    }
    // the corners and edges of (1e-3, 80)^2 that independent draws reach rarely: one argument tiny (reflection branch) with the other large,
    // both tiny (a + b on either side of the branch switch at 1/2), both large (Gamma(a+b) up to Gamma(160))
    for i in 0..(if thorough { 60000 } else { 6000 }) {
        let (a, b) = match i % 4 {
            0 => ((r.uniform(l0, (0.5f64).ln())).exp(), r.uniform(40.0, 80.0)),
            1 => ((r.uniform(l0, (0.5f64).ln())).exp(), (r.uniform(l0, (0.5f64).ln())).exp()),
            2 => (r.uniform(60.0, 80.0), r.uniform(60.0, 80.0)),
            _ => ((r.uniform(l0, (1e-2f64).ln())).exp(), (r.uniform((70f64).ln(), l1)).exp()),
        };
        chk_beta(a, b, None, &mut worst, &mut tried);
    }
    {
        let edge = [next_up(1e-3), 1.0000001e-3, 2e-3, 0.01, 0.1, 0.25, next_down(0.5), 0.5, next_up(0.5), next_down(1.0), 1.0, next_up(1.0), 2.0, 40.0, 79.0, 79.9999, next_down(80.0)];
        for &a in &edge { for &b in &edge { chk_beta(a, b, None, &mut worst, &mut tried); } }
    }
    // ---- beta on the grid of special values (exactly 1, 2, 3, 1/2, ... in either slot): B(a,1) = 1/a, B(1,b) = 1/b, B(m,n) by factorials
    {
        let grid = [0.25, 0.5, 1.0, 1.5, 2.0, 2.5, 3.0, 4.0, 5.0, 7.0, 10.0, 20.0, 50.0, 80.0];
        for &a in &grid { for &b in &grid { chk_beta(a, b, if b == 1.0 { Some(1.0 / a) } else if a == 1.0 { Some(1.0 / b) } else { None }, &mut worst, &mut tried); } }
        // every pair of integers and half-integers below 80 (quick: every pair on a coarser grid plus the full first rows)
        let step = if thorough { 1 } else { 7 };
        for i in 1..160usize { for j in 1..160usize { if i % step == 0 && j % step == 0 || i <= 4 { let (a, b) = (i as f64 / 2.0, j as f64 / 2.0);
            chk_beta(a, b, if b == 1.0 { Some(1.0 / a) } else if a == 1.0 { Some(1.0 / b) } else { None }, &mut worst, &mut tried); } } }
    }
    // ---- digamma: integers against harmonic numbers, recurrence, accuracy 1e-10 rel. to max(1,|psi|)
    const EULER: f64 = 0.577_215_664_901_532_9;
    let mut h = 0.0f64; let mut hc = 0.0f64; // Kahan harmonic
    let nmax = 10000; // "all integers <= 1e4": at both tiers
    for n in 1..=nmax { tried += 1;
        crumb(&format!("digamma n={}", n));
        let want = h - EULER; let got = digamma(n as f64);
        let err = (got - want).abs() / want.abs().max(1.0);
        if !(err <= 1e-10) { fail!("digamma:integers", err, format!("digamma({}) = {:e}, H_(n-1) - gamma = {:e}", n, got, want), format!("n={}", n)); }
        let y = 1.0 / n as f64 - hc; let t = h + y; hc = (t - h) - y; h = t; }
    // half-integers: psi(n + 1/2) = -gamma - 2 ln 2 + 2 (1 + 1/3 + ... + 1/(2n-1)) (closed form, independent of the series reference below)
    {
        let (mut o, mut oc) = (0.0f64, 0.0f64); // Kahan sum of 1/(2k-1)
        for n in 0..=nmax { tried += 1;
            if n >= 1 { let y = 1.0 / (2 * n - 1) as f64 - oc; let t = o + y; oc = (t - o) - y; o = t; }
            let x = n as f64 + 0.5;
            crumb(&format!("digamma x={:e}", x));
            let want = -EULER - 2.0 * std::f64::consts::LN_2 + 2.0 * o; let got = digamma(x);
            let err = (got - want).abs() / want.abs().max(1.0);
            if !(err <= 1e-10) { fail!("digamma:half-integers", err, format!("digamma({}) = {:e}, -gamma - 2 ln 2 + 2 sum_(k<={}) 1/(2k-1) = {:e}", x, got, n, want), format!("x={:e}", x)); }
        }
    }
    let chk_digamma = |x: f64, worst: &mut Worst, tried: &mut u64| {
        *tried += 1;
        crumb(&format!("digamma x={:e} and x+1", x));
        let (a, b) = (digamma(x + 1.0), digamma(x) + 1.0 / x);
        let err = (a - b).abs() / a.abs().max(1.0).max(1.0 / x);
        if !(err <= 1e-10) { worst.note(("digamma:recurrence", err, format!("digamma(x+1) = {:e}, digamma(x)+1/x = {:e}", a, b), format!("x={:e}", x))); }
        // independent reference: numerical derivative of lgamma is too rough; use the series at x+20 with recurrence in double-double-free form
        let mut s = 0.0; let mut y = x; while y < 30.0 { s += 1.0 / y; y += 1.0; }
        let y2 = y * y; let asym = reference_ln(y) - 0.5 / y - 1.0 / (12.0 * y2) * (1.0 - 1.0 / (10.0 * y2) * (1.0 - 10.0 / (21.0 * y2) * (1.0 - 21.0 / (20.0 * y2))));
        crumb(&format!("digamma x={:e}", x));
        let want = asym - s; let got = digamma(x);
        let err = (got - want).abs() / want.abs().max(1.0);
        if !(err <= 1e-10) { worst.note(("digamma:inaccurate", err, format!("digamma({:e}) = {:e}, reference {:e}", x, got, want), format!("x={:e}", x))); }
    };
    for _ in 0..(if thorough { 100000 } else { 10000 }) { let x = (r.uniform((1e-3f64).ln(), (1e6f64).ln())).exp(); chk_digamma(x, &mut worst, &mut tried); }
    // every recurrence depth 0..7 uniformly (the log-uniform draw puts few points in each unit interval), the switch to the series at 6,
    // the root of psi near 1.4616 (the tolerance is absolute there), and the two ends of the stated range
    for _ in 0..(if thorough { 50000 } else { 5000 }) { chk_digamma(r.uniform(1e-3, 8.0), &mut worst, &mut tried); chk_digamma(r.uniform(1e5, 1e6), &mut worst, &mut tried); chk_digamma(r.uniform(1e-3, 1e-2), &mut worst, &mut tried); }
    for c in [1.0f64, 2.0, 3.0, 4.0, 5.0, 6.0, 7.0, 1.461_632_144_968_362_3] { let (mut lo, mut hi) = (c, c); for _ in 0..4 { chk_digamma(lo, &mut worst, &mut tried); chk_digamma(hi, &mut worst, &mut tried); lo = next_down(lo); hi = next_up(hi); } }
    for x in [next_up(1e-3), 1.001e-3, next_down(1e6), 999_999.5, 999_999.0, 5.999_999, 6.000_001] { chk_digamma(x, &mut worst, &mut tried); }
    // ---- erf on single points: random f64 in +-40, the ends, where exp(-x^2) becomes subnormal and then 0 (x ~ 26.6 .. 27.3), tiny
    // arguments of both signs at every decade down to the smallest subnormal, the f64 neighbours of 0, 6, 40
    for _ in 0..(if thorough { 200000 } else { 20000 }) { let x = r.uniform(-40.0, 40.0); tried += erf_point(x, true, &mut worst); }
    tried += erf_point(0.0, true, &mut worst);
    for _ in 0..(if thorough { 20000 } else { 2000 }) { tried += erf_point(r.uniform(26.0, 28.0), true, &mut worst); tried += erf_point(r.uniform(5.5, 10.0), true, &mut worst); }
    for k in 1..=323i32 { for _ in 0..(if thorough { 10 } else { 2 }) { let x = r.uniform(1.0, 10.0) * (10.0f64).powi(-k); tried += erf_point(x, true, &mut worst); } }
    for x in [f64::from_bits(1), f64::MIN_POSITIVE, next_down(f64::MIN_POSITIVE), 6.0, next_up(6.0), next_down(6.0), 40.0, next_down(40.0), 39.999, 26.0, 27.0, 27.3, 1.0, 0.5, 3.5] { tried += erf_point(x, true, &mut worst); tried += erf_point(-x, true, &mut worst); }
    // ---- the f32 sweeps. Quick: the aligned stratified subsample (f32 values with 12 / 10 trailing zero bits: contains every integer and
    // half-integer) and a jittered one (one value drawn inside every block of 512 / 256 consecutive f32 values, seed-dependent).
    // Thorough: EVERY f32-representable argument of (-170, 171.6) for gamma and of [-6, 6] for erf, as the quantifier says.
    if thorough {
        let threads = std::env::var("C09_ORACLE_THREADS").ok().and_then(|s| s.parse().ok()).unwrap_or(4usize).max(1);
        let (n, w) = f32_exhaustive(-170.0, 171.6, threads, "gamma", |x, w| { let (n, h) = gamma_point(x, false); if let Some(h) = h { w.note(h); } n });
        tried += n; worst.merge(w);
        let (n, w) = f32_exhaustive(-6.0, 6.0, threads, "erf", |x, w| erf_point(x, false, w));
        tried += n; worst.merge(w);
    } else {
        let mut w = Worst::default(); let mut n = 0u64;
        f32_sweep(-170.0, 171.6, 1 << 12, None, "gamma", |x| { let (k, h) = gamma_point(x, false); n += k; if let Some(h) = h { w.note(h); } });
        f32_sweep(-170.0, 171.6, 1 << 9, Some(&mut r), "gamma", |x| { let (k, h) = gamma_point(x, false); n += k; if let Some(h) = h { w.note(h); } });
        f32_sweep(-6.0, 6.0, 1 << 10, None, "erf", |x| { n += erf_point(x, false, &mut w); });
        f32_sweep(-6.0, 6.0, 1 << 8, Some(&mut r), "erf", |x| { n += erf_point(x, false, &mut w); });
        tried += n; worst.merge(w);
    }
    for (class, (_, what, input)) in worst.0 { out.push(Finding { class, what, input }); }
    (tried, out)
}
fn reference_ln(x: f64) -> f64 { x.ln() }

fn one(f: impl FnOnce() -> f64) -> (libm::Table, Tm) {
    libm::start();
    let r = catch(f);
    let t = libm::stop();
    (t, outcome_list(&r.map(|x| vec![x])))
}

pub fn gen(tier: &str, seed: u64, outdir: &str) {
    let thorough = tier == "thorough";
    let mut r = Rng::new(seed ^ 0x9C09);
    let mut cs = Cases::new("C09");
    let k = if thorough { 10 } else { 1 };
    // gamma: integers, half-integers, reflection branch, near poles, overflow edge, specials
    let mut gx: Vec<(f64, &str)> = vec![];
    for n in 1..=172 { gx.push((n as f64, "gamma/integer")); }
    for n in 0..=171 { gx.push((n as f64 + 0.5, "gamma/half-integer")); }
    for _ in 0..400 * k { gx.push((r.uniform(0.5, 171.6), "gamma/direct")); }
    for _ in 0..400 * k { gx.push((r.uniform(-170.0, 0.5), "gamma/reflection")); }
    for _ in 0..100 * k { let n = -(r.below(170) as f64); gx.push((n + r.uniform(-1e-3, 1e-3), "gamma/near-pole")); }
    for _ in 0..50 * k { gx.push((r.uniform(171.0, 180.0), "gamma/overflow-edge")); }
    for _ in 0..50 * k { gx.push(((r.uniform(-700.0, 0.0)).exp(), "gamma/tiny-positive")); }
    for x in [0.0, -0.0, 0.5, 0.49999999999999994, 1.0, 2.0, -1.0, -2.0, f64::INFINITY, f64::NEG_INFINITY, f64::NAN, 1e-300, -1e-300, 5e-324, 171.6, 171.7, 200.0, -170.5, -200.5] { gx.push((x, "gamma/special")); }
    // added by the coverage audit: negative half-integers (reflection exactly between two poles), tiny negative arguments, the f64 neighbours
    // of the branch switch 1/2 and of 1, the two ends of the property's range, the last finite values, and arguments of extreme magnitude
    for n in 0..=171 { gx.push((-(n as f64) - 0.5, "gamma/negative-half-integer")); }
    for _ in 0..50 * k { gx.push((-(r.uniform(-700.0, 0.0)).exp(), "gamma/tiny-negative")); }
    for _ in 0..50 * k { gx.push((0.5 + (r.uniform(-37.0, -1.0)).exp() * if r.coin(0.5) { 1.0 } else { -1.0 }, "gamma/branch-switch")); }
    for _ in 0..60 * k { gx.push((if r.coin(0.5) { r.uniform(170.6, 171.7) } else { r.uniform(-171.2, -169.0) }, "gamma/range-end")); }
    for c in [0.5f64, 1.0, 2.0] { gx.push((next_up(c), "gamma/special")); gx.push((next_down(c), "gamma/special")); gx.push((next_up(next_up(c)), "gamma/special")); gx.push((next_down(next_down(c)), "gamma/special")); }
    for x in [next_down(171.6), 171.62, 171.6243, 171.6244, 171.63, -170.0, next_up(-170.0), -170.99, -170.62, -171.5, -0.5, -1.5, f64::MIN_POSITIVE, -f64::MIN_POSITIVE, next_down(f64::MIN_POSITIVE), -5e-324, 6e-309, -6e-309, 1e10, -1e10 + 0.5, 1e300, -1e300, f64::MAX, f64::MIN, 4503599627370496.5, -4503599627370495.5] { gx.push((x, "gamma/special")); }
    for (x, tag) in gx {
        let (t, e) = one(|| gamma(x));
        cs.push(app("CGamma", vec![libm_table(&t), Tm::F(x), e]), tag, x != 1.0 && x != 2.0);
    }
    // beta
    for i in 0..300 * k {
        let (a, b) = if i % 3 == 0 { (r.uniform(1e-3, 80.0), r.uniform(1e-3, 80.0)) } else if i % 3 == 1 { ((r.uniform(-6.9, 4.38)).exp(), (r.uniform(-6.9, 4.38)).exp()) } else { (r.uniform(-5.0, 5.0), r.uniform(-5.0, 5.0)) };
        let (t, e) = one(|| beta(a, b));
        cs.push(app("CBeta", vec![libm_table(&t), Tm::F(a), Tm::F(b), e]), if a < 0.5 || b < 0.5 { "beta/reflection" } else { "beta/direct" }, true);
    }
    // beta on the grid of special values (exactly 1, 2, 1/2, ... in either slot)
    for &a in &[0.25, 0.5, 1.0, 1.5, 2.0, 3.0, 5.0, 10.0, 50.0] { for &b in &[0.25, 0.5, 1.0, 1.5, 2.0, 3.0, 5.0, 10.0, 50.0] {
        let (t, e) = one(|| beta(a, b));
        cs.push(app("CBeta", vec![libm_table(&t), Tm::F(a), Tm::F(b), e]), "beta/special-grid", true);
    }}
    // added by the coverage audit: the corners of (1e-3, 80)^2 (tiny with large, both tiny across the switch a + b = 1/2, both large), the
    // edges themselves, and arguments where Gamma(a + b) or a factor overflows / is a pole / is not a number
    for i in 0..120 * k {
        let (a, b) = match i % 4 { 0 => ((r.uniform(-6.9, -0.7)).exp(), r.uniform(40.0, 80.0)), 1 => ((r.uniform(-6.9, -0.7)).exp(), (r.uniform(-6.9, -0.7)).exp()), 2 => (r.uniform(60.0, 80.0), r.uniform(60.0, 80.0)), _ => (r.uniform(70.0, 80.0), (r.uniform(-6.9, -4.6)).exp()) };
        let (t, e) = one(|| beta(a, b));
        cs.push(app("CBeta", vec![libm_table(&t), Tm::F(a), Tm::F(b), e]), "beta/corner", true);
    }
    {
        let edge = [0.0, -0.0, 1e-300, 1e-3, next_up(1e-3), next_down(0.5), 0.5, 1.0, 80.0, next_down(80.0), 85.8, 100.0, 171.0, 200.0, -1.0, -0.5, f64::INFINITY, f64::NAN];
        for &a in &edge { for &b in &edge {
            let (t, e) = one(|| beta(a, b));
            cs.push(app("CBeta", vec![libm_table(&t), Tm::F(a), Tm::F(b), e]), "beta/edge", true);
        }}
    }
    // digamma: recurrence depths 0..6 and beyond (negative arguments), large arguments, integers
    let mut dx: Vec<(f64, &str)> = vec![];
    for n in 1..=40 { dx.push((n as f64, "digamma/integer")); }
    for _ in 0..300 * k { dx.push(((r.uniform(-6.9, 13.8)).exp(), "digamma/positive")); }
    for _ in 0..100 * k { dx.push((r.uniform(0.0, 6.0), "digamma/recurrence")); }
    for _ in 0..60 * k { dx.push((r.uniform(-50.0, 0.0), "digamma/negative")); }
    for x in [6.0, 5.999999999999999, 0.0, -0.0, -1.0, 1e-300, f64::INFINITY, f64::NAN, 1e300] { dx.push((x, "digamma/special")); }
    // added by the coverage audit: half-integers, large integers up to 1e4 (the property's harmonic-number clause), both ends of (1e-3, 1e6),
    // every integer switch point with its f64 neighbours, the root of psi, negative half-integers
    for n in 0..=40 { dx.push((n as f64 + 0.5, "digamma/half-integer")); }
    for _ in 0..60 * k { dx.push((r.range(41, 10000) as f64, "digamma/large-integer")); }
    for n in [100.0, 1000.0, 9999.0, 10000.0, 1e5, 1e6] { dx.push((n, "digamma/large-integer")); }
    for _ in 0..40 * k { dx.push((r.uniform(1e-3, 2e-3), "digamma/range-end")); dx.push((r.uniform(9e5, 1e6), "digamma/range-end")); }
    for c in 1..=7 { let c = c as f64; dx.push((next_up(c), "digamma/special")); dx.push((next_down(c), "digamma/special")); }
    for x in [1e-3, next_up(1e-3), next_down(1e6), 1.461_632_144_968_362_3, -0.5, -1.5, -10.5, f64::MIN_POSITIVE, 5e-324, -1e-300, 1e15, f64::MAX] { dx.push((x, "digamma/special")); }
    for (x, tag) in dx {
        let (t, e) = one(|| digamma(x));
        cs.push(app("CDigamma", vec![libm_table(&t), Tm::F(x), e]), tag, x != 6.0);
    }
    // erf
    let mut ex: Vec<(f64, &str)> = vec![];
    for _ in 0..300 * k { ex.push((r.uniform(-6.0, 6.0), "erf/core")); }
    for _ in 0..100 * k { ex.push((r.uniform(-40.0, 40.0), "erf/tails")); }
    for _ in 0..50 * k { ex.push(((r.uniform(-700.0, 0.0)).exp() * if r.coin(0.5) { 1.0 } else { -1.0 }, "erf/tiny")); }
    for x in [0.0, -0.0, 1.0, -1.0, f64::INFINITY, f64::NEG_INFINITY, 5e-324, -5e-324, 26.0, 27.0, -27.0, 1e200] { ex.push((x, "erf/special")); }
    // added by the coverage audit: where exp(-x^2) turns subnormal and then 0, the ends of the two stated ranges with their f64 neighbours,
    // f32-representable arguments (the sweep's population)
    for _ in 0..60 * k { ex.push((r.uniform(26.0, 28.0) * if r.coin(0.5) { 1.0 } else { -1.0 }, "erf/underflow-edge")); }
    for _ in 0..100 * k { ex.push(((r.uniform(-6.0, 6.0) as f32) as f64, "erf/f32")); }
    for x in [6.0, next_up(6.0), next_down(6.0), 40.0, next_down(40.0), 26.6, 27.3, f64::MIN_POSITIVE, next_down(f64::MIN_POSITIVE), f64::MAX] { ex.push((x, "erf/special")); ex.push((-x, "erf/special")); }
    for (x, tag) in ex {
        let (t, e) = one(|| erf(x));
        cs.push(app("CErf", vec![libm_table(&t), Tm::F(x), e]), tag, x != 0.0);
    }
    cs.write(outdir, 500, "gamma at all integers 1..172 and half-integers, random direct/reflection/near-pole/overflow-edge/tiny arguments and specials; beta on (1e-3,80)^2 linear and log-uniform plus negative arguments; digamma on integers, log-uniform (1e-3,1e6), recurrence depths, negative arguments, specials; erf on [-6,6], +-40, tiny and special arguments; (coverage audit) gamma at negative half-integers, tiny negative arguments, around the branch switch 1/2 and both ends of (-170, 171.6), extreme magnitudes; beta in the corners and on the edges of (1e-3,80)^2 and where a factor overflows, is a pole or NaN; digamma at half-integers, integers up to 1e4, both ends of (1e-3,1e6), the neighbours of 1..7; erf where exp(-x^2) underflows, f32 arguments, the ends 6 and 40; every case carries the libm calls (pow, exp, sin, ln) the implementation made; non-trivial = argument off the trivial points 1, 2 (gamma), 6 (digamma), 0 (erf); distinct by hash of the case term");
}
