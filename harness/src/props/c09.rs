//! C09 — special functions (gamma, beta, digamma, erf).
use crate::libm::{self, reference};
use crate::util::*;
use compute::functions::{beta, digamma, erf, gamma};

/// distance from x to the nearest pole of Gamma (non-positive integers), for x < 0.5
fn pole_dist(x: f64) -> f64 { if x >= 0.5 { f64::INFINITY } else { (x - x.round()).abs() } }

fn f32_sweep(lo: f32, hi: f32, stride: u32, mut f: impl FnMut(f64)) {
    // every stride-th f32 in [lo, hi], walking the bit patterns (both signs)
    let mut ranges: Vec<(f32, f32, f64)> = vec![];
    if lo < 0.0 { ranges.push((if hi < 0.0 { -hi } else { 0.0 }, -lo, -1.0)); }
    if hi > 0.0 { ranges.push((if lo > 0.0 { lo } else { 0.0 }, hi, 1.0)); }
    for (a, b, sg) in ranges {
        let (mut i, e) = (a.to_bits(), b.to_bits());
        while i <= e { f(sg * f32::from_bits(i) as f64); i = i.saturating_add(stride.max(1)); }
    }
}

pub fn oracle(tier: &str, seed: u64) -> (u64, Vec<Finding>) {
    let thorough = tier == "thorough";
    let mut r = Rng::new(seed ^ 0xC09);
    let mut out: Vec<Finding> = vec![]; let mut tried = 0u64;
    let mut worst: std::collections::BTreeMap<String, (f64, String, String)> = Default::default();
    let mut fail = |class: &str, sev: f64, what: String, input: String| {
        let e = worst.entry(class.to_string()).or_insert((0.0, String::new(), String::new()));
        if sev > e.0 || e.1.is_empty() { *e = (sev, what, input); }
    };
    // ---- gamma against glibc tgamma: relative error 1e-13, scaled by pole proximity for x < 0.5
    let mut chk_gamma = |x: f64, tried: &mut u64| {
        let want = reference::tgamma(x);
        if !want.is_finite() || want.abs() < f64::MIN_POSITIVE { return; }
        let d = pole_dist(x);
        // near a pole -n (n >= 1) the relative condition number |x|/d is huge: skipped; near 0 it is 1 (Gamma(x) ~ 1/x is a finite normal
        // f64 down to |x| ~ 1e-308), so tiny arguments of either sign are in the quantifier
        if d < 1e-3 && x.abs() >= 0.5 { return; }
        *tried += 1;
        crumb(&format!("gamma x={:e}", x));
        let got = gamma(x);
        // reflection: the relative condition number of Gamma near a pole grows like |x|/d; the property scales by proximity
        let tol = 1e-13 * if x < 0.5 { (1.0f64).max(x.abs() / d) } else { 1.0 };
        let err = ((got - want) / want).abs();
        if !(err <= tol) {
            let class = if !got.is_finite() { "gamma:nonfinite-where-true-value-finite" } else if x < 0.5 { "gamma:inaccurate-reflection" } else { "gamma:inaccurate" };
            fail(class, if got.is_finite() { err / tol } else { f64::MAX }, format!("gamma({:e}) = {:e}, true value {:e}, relative error {:e} > {:e}", x, got, want, err, tol), format!("x={:e}", x));
        }
    };
    let stride = if thorough { 1u32 << 6 } else { 1u32 << 12 };
    f32_sweep(-170.0, 171.6, stride, |x| chk_gamma(x, &mut tried));
    for _ in 0..(if thorough { 200000 } else { 20000 }) { let x = r.uniform(-170.0, 171.6); chk_gamma(x, &mut tried); }
    for n in 1..=171 { chk_gamma(n as f64, &mut tried); chk_gamma(n as f64 + 0.5, &mut tried); }
    // tiny arguments of both signs at every decade (not powers of two: the low bits matter)
    for k in 1..=300i32 { for sgn in [1.0, -1.0] { for _ in 0..(if thorough { 20 } else { 3 }) { let x = sgn * r.uniform(1.0, 10.0) * (10.0f64).powi(-k); chk_gamma(x, &mut tried); } } }
    // ---- identities: Gamma(x+1) = x Gamma(x), Gamma(n+1) = n!
    for _ in 0..(if thorough { 50000 } else { 5000 }) {
        let x = r.uniform(0.01, 170.0); tried += 1;
        let (a, b) = (gamma(x + 1.0), x * gamma(x));
        let err = ((a - b) / b).abs();
        if !(err <= 2e-13) { fail("gamma:recurrence", err, format!("gamma(x+1) = {:e} but x*gamma(x) = {:e} (relative difference {:e})", a, b, err), format!("x={:e}", x)); }
    }
    let mut fact = 1.0f64;
    for n in 1..=170u32 { fact *= n as f64; tried += 1; let g = gamma(n as f64 + 1.0); let err = ((g - fact) / fact).abs();
        if !(err <= 1e-13) { fail("gamma:factorial", if g.is_finite() { err } else { f64::MAX }, format!("gamma({}) = {:e}, {}! = {:e}", n + 1, g, n, fact), format!("n={}", n)); } }
    // ---- beta
    for _ in 0..(if thorough { 100000 } else { 10000 }) {
        let (a, b) = if r.coin(0.5) { (r.uniform(1e-3, 80.0), r.uniform(1e-3, 80.0)) } else { ((r.uniform((1e-3f64).ln(), (80f64).ln())).exp(), (r.uniform((1e-3f64).ln(), (80f64).ln())).exp()) };
        tried += 1;
        let want = (reference::lgamma(a) + reference::lgamma(b) - reference::lgamma(a + b)).exp();
        let want2 = reference::tgamma(a) * reference::tgamma(b) / reference::tgamma(a + b);
        let want = if want2.is_finite() && want2 > 0.0 { want2 } else { want };
        crumb(&format!("beta a={:e} b={:e}", a, b));
        let got = beta(a, b);
        let err = ((got - want) / want).abs();
        if !(err <= 1e-12) { fail(if got.is_finite() && got != 0.0 { "beta:inaccurate" } else { "beta:degenerate" }, err, format!("beta({:e},{:e}) = {:e}, Gamma(a)Gamma(b)/Gamma(a+b) = {:e}", a, b, got, want), format!("a={:e} b={:e}", a, b)); }
        let sym = beta(b, a); let e2 = ((got - sym) / want).abs();
        if !(e2 <= 1e-12) { fail("beta:asymmetric", e2, format!("beta(a,b) = {:e} but beta(b,a) = {:e}", got, sym), format!("a={:e} b={:e}", a, b)); }
    }
    // ---- beta on the grid of special values (exactly 1, 2, 3, 1/2, ... in either slot): B(a,1) = 1/a, B(1,b) = 1/b, B(m,n) by factorials
    {
        let grid = [0.25, 0.5, 1.0, 1.5, 2.0, 2.5, 3.0, 4.0, 5.0, 7.0, 10.0, 20.0, 50.0, 80.0];
        for &a in &grid { for &b in &grid {
            tried += 1;
            let want = reference::tgamma(a) * reference::tgamma(b) / reference::tgamma(a + b);
            let want = if b == 1.0 { 1.0 / a } else if a == 1.0 { 1.0 / b } else { want };
            crumb(&format!("beta a={:e} b={:e}", a, b));
            let got = beta(a, b);
            let err = ((got - want) / want).abs();
            if !(err <= 1e-12) { fail(if got.is_finite() && got != 0.0 { "beta:inaccurate" } else { "beta:degenerate" }, err, format!("beta({:e},{:e}) = {:e}, Gamma(a)Gamma(b)/Gamma(a+b) = {:e}", a, b, got, want), format!("a={:e} b={:e}", a, b)); }
            let sym = beta(b, a); let e2 = ((got - sym) / want).abs();
            if !(e2 <= 1e-12) { fail("beta:asymmetric", e2, format!("beta(a,b) = {:e} but beta(b,a) = {:e}", got, sym), format!("a={:e} b={:e}", a, b)); }
        }}
    }
    // ---- digamma: integers against harmonic numbers, recurrence, accuracy 1e-10 rel. to max(1,|psi|)
    const EULER: f64 = 0.577_215_664_901_532_9;
    let mut h = 0.0f64; let mut hc = 0.0f64; // Kahan harmonic
    let nmax = if thorough { 10000 } else { 2000 };
    for n in 1..=nmax { tried += 1;
        crumb(&format!("digamma n={}", n));
        let want = h - EULER; let got = digamma(n as f64);
        let err = (got - want).abs() / want.abs().max(1.0);
        if !(err <= 1e-10) { fail("digamma:integers", err, format!("digamma({}) = {:e}, H_(n-1) - gamma = {:e}", n, got, want), format!("n={}", n)); }
        let y = 1.0 / n as f64 - hc; let t = h + y; hc = (t - h) - y; h = t; }
    for _ in 0..(if thorough { 100000 } else { 10000 }) {
        let x = (r.uniform((1e-3f64).ln(), (1e6f64).ln())).exp(); tried += 1;
        crumb(&format!("digamma x={:e} and x+1", x));
        let (a, b) = (digamma(x + 1.0), digamma(x) + 1.0 / x);
        let err = (a - b).abs() / a.abs().max(1.0).max(1.0 / x);
        if !(err <= 1e-10) { fail("digamma:recurrence", err, format!("digamma(x+1) = {:e}, digamma(x)+1/x = {:e}", a, b), format!("x={:e}", x)); }
        // independent reference: numerical derivative of lgamma is too rough; use the series at x+20 with recurrence in double-double-free form
        let mut s = 0.0; let mut y = x; while y < 30.0 { s += 1.0 / y; y += 1.0; }
        let y2 = y * y; let asym = reference_ln(y) - 0.5 / y - 1.0 / (12.0 * y2) * (1.0 - 1.0 / (10.0 * y2) * (1.0 - 10.0 / (21.0 * y2) * (1.0 - 21.0 / (20.0 * y2))));
        crumb(&format!("digamma x={:e}", x));
        let want = asym - s; let got = digamma(x);
        let err = (got - want).abs() / want.abs().max(1.0);
        if !(err <= 1e-10) { fail("digamma:inaccurate", err, format!("digamma({:e}) = {:e}, reference {:e}", x, got, want), format!("x={:e}", x)); }
    }
    // ---- erf: odd, |erf| <= 1, within 1.5e-7 of the true erf
    let mut chk_erf = |x: f64, tried: &mut u64| { *tried += 1;
        crumb(&format!("erf x={:e}", x));
        let got = erf(x); let want = reference::erf(x);
        if !(got.abs() <= 1.0) { fail("erf:exceeds-1", got.abs(), format!("|erf({:e})| = {:e} > 1", x, got.abs()), format!("x={:e}", x)); }
        let err = (got - want).abs();
        if !(err <= 1.5e-7) { fail("erf:inaccurate", err, format!("erf({:e}) = {:e}, true {:e}, error {:e} > 1.5e-7", x, got, want, err), format!("x={:e}", x)); }
        let m = erf(-x);
        if x != 0.0 && m != -got { fail("erf:not-odd", 1.0, format!("erf(-x) = {:e} but -erf(x) = {:e}", m, -got), format!("x={:e}", x)); }
        if x == 0.0 && (m != -got) { fail("erf:not-odd-at-zero", 1.0, format!("erf(-0) = {:e} but -erf(0) = {:e} (an odd function vanishes at 0)", m, -got), "x=0".into()); }
    };
    f32_sweep(-6.0, 6.0, if thorough { 1 << 4 } else { 1 << 10 }, |x| chk_erf(x, &mut tried));
    for _ in 0..(if thorough { 200000 } else { 20000 }) { let x = r.uniform(-40.0, 40.0); chk_erf(x, &mut tried); }
    chk_erf(0.0, &mut tried);
    for (class, (_, what, input)) in worst { out.push(Finding { class, what, input }); }
    (tried, out)
}
fn reference_ln(x: f64) -> f64 { x.ln() }

fn one(f: impl FnOnce() -> f64) -> (libm::Table, Tm) {
    libm::start();
    let r = catch(f);
    let t = libm::stop();
    (t, outcome_list(&r.map(|x| vec![x])))
}

pub fn gen(tier: &str, seed: u64, outdir: &str) {
    let thorough = tier == "thorough";
    let mut r = Rng::new(seed ^ 0x9C09);
    let mut cs = Cases::new("C09");
    let k = if thorough { 10 } else { 1 };
    // gamma: integers, half-integers, reflection branch, near poles, overflow edge, specials
    let mut gx: Vec<(f64, &str)> = vec![];
    for n in 1..=172 { gx.push((n as f64, "gamma/integer")); }
    for n in 0..=171 { gx.push((n as f64 + 0.5, "gamma/half-integer")); }
    for _ in 0..400 * k { gx.push((r.uniform(0.5, 171.6), "gamma/direct")); }
    for _ in 0..400 * k { gx.push((r.uniform(-170.0, 0.5), "gamma/reflection")); }
    for _ in 0..100 * k { let n = -(r.below(170) as f64); gx.push((n + r.uniform(-1e-3, 1e-3), "gamma/near-pole")); }
    for _ in 0..50 * k { gx.push((r.uniform(171.0, 180.0), "gamma/overflow-edge")); }
    for _ in 0..50 * k { gx.push(((r.uniform(-700.0, 0.0)).exp(), "gamma/tiny-positive")); }
    for x in [0.0, -0.0, 0.5, 0.49999999999999994, 1.0, 2.0, -1.0, -2.0, f64::INFINITY, f64::NEG_INFINITY, f64::NAN, 1e-300, -1e-300, 5e-324, 171.6, 171.7, 200.0, -170.5, -200.5] { gx.push((x, "gamma/special")); }
    for (x, tag) in gx {
        let (t, e) = one(|| gamma(x));
        cs.push(app("CGamma", vec![libm_table(&t), Tm::F(x), e]), tag, x != 1.0 && x != 2.0);
    }
    // beta
    for i in 0..300 * k {
        let (a, b) = if i % 3 == 0 { (r.uniform(1e-3, 80.0), r.uniform(1e-3, 80.0)) } else if i % 3 == 1 { ((r.uniform(-6.9, 4.38)).exp(), (r.uniform(-6.9, 4.38)).exp()) } else { (r.uniform(-5.0, 5.0), r.uniform(-5.0, 5.0)) };
        let (t, e) = one(|| beta(a, b));
        cs.push(app("CBeta", vec![libm_table(&t), Tm::F(a), Tm::F(b), e]), if a < 0.5 || b < 0.5 { "beta/reflection" } else { "beta/direct" }, true);
    }
    // beta on the grid of special values (exactly 1, 2, 1/2, ... in either slot)
    for &a in &[0.25, 0.5, 1.0, 1.5, 2.0, 3.0, 5.0, 10.0, 50.0] { for &b in &[0.25, 0.5, 1.0, 1.5, 2.0, 3.0, 5.0, 10.0, 50.0] {
        let (t, e) = one(|| beta(a, b));
        cs.push(app("CBeta", vec![libm_table(&t), Tm::F(a), Tm::F(b), e]), "beta/special-grid", true);
    }}
    // digamma: recurrence depths 0..6 and beyond (negative arguments), large arguments, integers
    let mut dx: Vec<(f64, &str)> = vec![];
    for n in 1..=40 { dx.push((n as f64, "digamma/integer")); }
    for _ in 0..300 * k { dx.push(((r.uniform(-6.9, 13.8)).exp(), "digamma/positive")); }
    for _ in 0..100 * k { dx.push((r.uniform(0.0, 6.0), "digamma/recurrence")); }
    for _ in 0..60 * k { dx.push((r.uniform(-50.0, 0.0), "digamma/negative")); }
    for x in [6.0, 5.999999999999999, 0.0, -0.0, -1.0, 1e-300, f64::INFINITY, f64::NAN, 1e300] { dx.push((x, "digamma/special")); }
    for (x, tag) in dx {
        let (t, e) = one(|| digamma(x));
        cs.push(app("CDigamma", vec![libm_table(&t), Tm::F(x), e]), tag, x != 6.0);
    }
    // erf
    let mut ex: Vec<(f64, &str)> = vec![];
    for _ in 0..300 * k { ex.push((r.uniform(-6.0, 6.0), "erf/core")); }
    for _ in 0..100 * k { ex.push((r.uniform(-40.0, 40.0), "erf/tails")); }
    for _ in 0..50 * k { ex.push(((r.uniform(-700.0, 0.0)).exp() * if r.coin(0.5) { 1.0 } else { -1.0 }, "erf/tiny")); }
    for x in [0.0, -0.0, 1.0, -1.0, f64::INFINITY, f64::NEG_INFINITY, 5e-324, -5e-324, 26.0, 27.0, -27.0, 1e200] { ex.push((x, "erf/special")); }
    for (x, tag) in ex {
        let (t, e) = one(|| erf(x));
        cs.push(app("CErf", vec![libm_table(&t), Tm::F(x), e]), tag, x != 0.0);
    }
    cs.write(outdir, 500, "gamma at all integers 1..172 and half-integers, random direct/reflection/near-pole/overflow-edge/tiny arguments and specials; beta on (1e-3,80)^2 linear and log-uniform plus negative arguments; digamma on integers, log-uniform (1e-3,1e6), recurrence depths, negative arguments, specials; erf on [-6,6], +-40, tiny and special arguments; every case carries the libm calls (pow, exp, sin, ln) the implementation made; non-trivial = argument off the trivial points 1, 2 (gamma), 6 (digamma), 0 (erf); distinct by hash of the case term");
}
