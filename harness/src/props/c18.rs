//! C18 — distributions are a pure function of their current parameters and the RNG seed.
//! Histories of setter / update calls (valid and invalid interleaved, panics caught, the object used further)
//! on the 13 univariate distributions.  `gen` records, after every call, whether it returned and the COMPLETE
//! state of the object (every field, cached sub-samplers included, read through `{:?}`) for the lock-step
//! comparison with the Coq state machines; `oracle` is the property itself: fresh-twin comparison, valid
//! requests succeed, invalid ones panic, no object holds parameters its constructor refuses.
use crate::util::*;
use compute::distributions::*;

// ------------------------------------------------------------------------------------------------ table
#[derive(Clone, Copy, PartialEq, Debug)]
enum K { F, U, I }                       // type of a constructor argument: f64, u64/usize, i64
#[derive(Clone, Copy, PartialEq, Debug)]
enum Dom { Any, Pos, NonNeg, Prob, PosInt, AnyInt, Lower, Upper }   // textbook domain of a parameter
struct Spec { name: &'static str, names: &'static [&'static str], kinds: &'static [K], doms: &'static [Dom], discrete: bool }
// ids as in Generated/dist_setters.v (`machines`); method k < arity is the setter of parameter k, k = arity is update
const SPECS: [Spec; 13] = [
    Spec { name: "Bernoulli", names: &["p"], kinds: &[K::F], doms: &[Dom::Prob], discrete: true },
    Spec { name: "Beta", names: &["alpha", "beta"], kinds: &[K::F, K::F], doms: &[Dom::Pos, Dom::Pos], discrete: false },
    Spec { name: "Binomial", names: &["n", "p"], kinds: &[K::U, K::F], doms: &[Dom::AnyInt, Dom::Prob], discrete: true },
    Spec { name: "ChiSquared", names: &["dof"], kinds: &[K::U], doms: &[Dom::PosInt], discrete: false },
    Spec { name: "DiscreteUniform", names: &["lower", "upper"], kinds: &[K::I, K::I], doms: &[Dom::Lower, Dom::Upper], discrete: true },
    Spec { name: "Exponential", names: &["lambda"], kinds: &[K::F], doms: &[Dom::Pos], discrete: false },
    Spec { name: "Gamma", names: &["alpha", "beta"], kinds: &[K::F, K::F], doms: &[Dom::Pos, Dom::Pos], discrete: false },
    Spec { name: "Gumbel", names: &["mu", "beta"], kinds: &[K::F, K::F], doms: &[Dom::Any, Dom::Pos], discrete: false },
    Spec { name: "Normal", names: &["mu", "sigma"], kinds: &[K::F, K::F], doms: &[Dom::Any, Dom::NonNeg], discrete: false },
    Spec { name: "Pareto", names: &["alpha", "minval"], kinds: &[K::F, K::F], doms: &[Dom::Pos, Dom::Pos], discrete: false },
    Spec { name: "Poisson", names: &["lambda"], kinds: &[K::F], doms: &[Dom::Pos], discrete: true },
    Spec { name: "T", names: &["dof"], kinds: &[K::F], doms: &[Dom::Pos], discrete: false },
    Spec { name: "Uniform", names: &["lower", "upper"], kinds: &[K::F, K::F], doms: &[Dom::Lower, Dom::Upper], discrete: false },
];

#[derive(Clone, Copy, Debug, PartialEq)]
enum Val { I(i128), F(f64) }
impl Val {
    fn f(&self) -> f64 { match self { Val::F(x) => *x, Val::I(n) => *n as f64 } }
    fn i(&self) -> i128 { match self { Val::I(n) => *n, Val::F(x) => *x as i128 } }
    fn same(&self, o: &Val) -> bool { match (self, o) { (Val::I(a), Val::I(b)) => a == b, (Val::F(a), Val::F(b)) => a.to_bits() == b.to_bits(), _ => false } }
    fn show(&self) -> String { match self { Val::I(n) => format!("{}", n), Val::F(x) => format!("{:e}", x) } }
}
fn same_vals(a: &[Val], b: &[Val]) -> bool { a.len() == b.len() && a.iter().zip(b).all(|(x, y)| x.same(y)) }
fn show_vals(a: &[Val]) -> String { format!("[{}]", a.iter().map(|v| v.show()).collect::<Vec<_>>().join(", ")) }

/// the textbook (documented) domain, independent of the code
fn in_domain(sp: &Spec, p: &[Val]) -> bool {
    for (k, d) in sp.doms.iter().enumerate() {
        let ok = match d {
            Dom::Any => true,
            Dom::Pos => p[k].f() > 0.0,
            Dom::NonNeg => p[k].f() >= 0.0,
            Dom::Prob => p[k].f() >= 0.0 && p[k].f() <= 1.0,
            Dom::PosInt => p[k].i() > 0,
            Dom::AnyInt => true,
            Dom::Lower => match (p[k], p[k + 1]) { (Val::I(a), Val::I(b)) => a <= b, (a, b) => a.f() <= b.f() },
            Dom::Upper => true,
        };
        if !ok { return false; }
    }
    true
}

// ------------------------------------------------------------------------------------------------ objects
#[derive(Clone, Copy)]
enum Obj {
    Bernoulli(Bernoulli), Beta(Beta), Binomial(Binomial), ChiSquared(ChiSquared), DiscreteUniform(DiscreteUniform),
    Exponential(Exponential), Gamma(Gamma), Gumbel(Gumbel), Normal(Normal), Pareto(Pareto), Poisson(Poisson), T(T), Uniform(Uniform),
}
#[derive(Clone, Debug)]
enum Arg { Set(Val), Update(Vec<f64>) }

fn construct(id: usize, p: &[Val]) -> Result<Obj, String> {
    let f = |i: usize| p[i].f();
    let u = |i: usize| p[i].i() as u64;
    let n = |i: usize| p[i].i() as i64;
    catch(|| match id {
        0 => Obj::Bernoulli(Bernoulli::new(f(0))),
        1 => Obj::Beta(Beta::new(f(0), f(1))),
        2 => Obj::Binomial(Binomial::new(u(0), f(1))),
        3 => Obj::ChiSquared(ChiSquared::new(u(0) as usize)),
        4 => Obj::DiscreteUniform(DiscreteUniform::new(n(0), n(1))),
        5 => Obj::Exponential(Exponential::new(f(0))),
        6 => Obj::Gamma(Gamma::new(f(0), f(1))),
        7 => Obj::Gumbel(Gumbel::new(f(0), f(1))),
        8 => Obj::Normal(Normal::new(f(0), f(1))),
        9 => Obj::Pareto(Pareto::new(f(0), f(1))),
        10 => Obj::Poisson(Poisson::new(f(0))),
        11 => Obj::T(T::new(f(0))),
        12 => Obj::Uniform(Uniform::new(f(0), f(1))),
        _ => unreachable!(),
    })
}

/// the other public constructor: `Default::default()`
fn construct_default(id: usize) -> Result<Obj, String> {
    catch(|| match id {
        0 => Obj::Bernoulli(Default::default()), 1 => Obj::Beta(Default::default()), 2 => Obj::Binomial(Default::default()),
        3 => Obj::ChiSquared(Default::default()), 4 => Obj::DiscreteUniform(Default::default()), 5 => Obj::Exponential(Default::default()),
        6 => Obj::Gamma(Default::default()), 7 => Obj::Gumbel(Default::default()), 8 => Obj::Normal(Default::default()),
        9 => Obj::Pareto(Default::default()), 10 => Obj::Poisson(Default::default()), 11 => Obj::T(Default::default()),
        12 => Obj::Uniform(Default::default()),
        _ => unreachable!(),
    })
}

macro_rules! each { ($o:expr, $d:ident => $e:expr) => { match $o {
    Obj::Bernoulli($d) => $e, Obj::Beta($d) => $e, Obj::Binomial($d) => $e, Obj::ChiSquared($d) => $e, Obj::DiscreteUniform($d) => $e,
    Obj::Exponential($d) => $e, Obj::Gamma($d) => $e, Obj::Gumbel($d) => $e, Obj::Normal($d) => $e, Obj::Pareto($d) => $e,
    Obj::Poisson($d) => $e, Obj::T($d) => $e, Obj::Uniform($d) => $e } } }

impl Obj {
    fn call(&mut self, k: usize, a: &Arg) -> Result<(), String> {
        catch(move || {
            if let Arg::Update(v) = a { each!(self, d => d.update(v)); return; }
            let v = match a { Arg::Set(v) => *v, _ => unreachable!() };
            let (f, u, n) = (v.f(), v.i() as u64, v.i() as i64);
            match (self, k) {
                (Obj::Bernoulli(d), 0) => { d.set_p(f); }
                (Obj::Beta(d), 0) => { d.set_alpha(f); } (Obj::Beta(d), 1) => { d.set_beta(f); }
                (Obj::Binomial(d), 0) => { d.set_n(u); } (Obj::Binomial(d), 1) => { d.set_p(f); }
                (Obj::ChiSquared(d), 0) => { d.set_dof(u as usize); }
                (Obj::DiscreteUniform(d), 0) => { d.set_lower(n); } (Obj::DiscreteUniform(d), 1) => { d.set_upper(n); }
                (Obj::Exponential(d), 0) => { d.set_lambda(f); }
                (Obj::Gamma(d), 0) => { d.set_alpha(f); } (Obj::Gamma(d), 1) => { d.set_beta(f); }
                (Obj::Gumbel(d), 0) => { d.set_mu(f); } (Obj::Gumbel(d), 1) => { d.set_beta(f); }
                (Obj::Normal(d), 0) => { d.set_mu(f); } (Obj::Normal(d), 1) => { d.set_sigma(f); }
                (Obj::Pareto(d), 0) => { d.set_alpha(f); } (Obj::Pareto(d), 1) => { d.set_minval(f); }
                (Obj::Poisson(d), 0) => { d.set_lambda(f); }
                (Obj::T(d), 0) => { d.set_dof(f); }
                (Obj::Uniform(d), 0) => { d.set_lower(f); } (Obj::Uniform(d), 1) => { d.set_upper(f); }
                _ => unreachable!(),
            }
        })
    }
    fn debug(&self) -> String { each!(self, d => format!("{:?}", d)) }
    /// every field of the object, depth first in declaration order, from the derived Debug output
    fn flat(&self) -> Vec<Val> { parse_debug(&self.debug()) }
    fn params(&self, sp: &Spec) -> Vec<Val> { self.flat()[..sp.kinds.len()].to_vec() }

    /// what a user can see without touching the RNG: density/mass (and log-density, Normal's cdf) at fixed probe points AND at points
    /// placed by the object's own parameters (the parameters themselves, their neighbours, mean, mean +- sd, interval midpoint:
    /// after a whole-interval move or a rescaling the fixed points may all lie outside the support), mean, variance
    fn look(&self) -> Vec<u64> {
        fn cont<D: Continuous<PDFType = f64> + Mean<MeanType = f64> + Variance<VarianceType = f64>>(d: &D, ps: &[f64]) -> Vec<u64> {
            let mut v = vec![];
            let (m, var) = (catch(|| d.mean()), catch(|| d.var()));
            let mut xs: Vec<f64> = vec![-2.5, -1.0, 0.0, 0.25, 0.5, 1.0, 1.5, 3.0, 10.0];
            for &p in ps { xs.extend_from_slice(&[p, 0.5 * p, 2.0 * p, p + 1.0, p - 1.0, p * (1.0 + f64::EPSILON), p * (1.0 - f64::EPSILON)]); }
            if ps.len() == 2 { xs.push(0.5 * ps[0] + 0.5 * ps[1]); xs.push(ps[0] * ps[1]); xs.push(ps[0] / ps[1]); }
            if let (Ok(m), Ok(var)) = (&m, &var) { let sd = var.sqrt(); xs.extend_from_slice(&[*m, m + sd, m - sd, m + 6.0 * sd]); }
            for x in xs { v.push(bits(catch(|| d.pdf(x)))); v.push(bits(catch(|| d.ln_pdf(x)))); }
            v.push(bits(m)); v.push(bits(var)); v
        }
        // pmf of Binomial / Poisson costs O(min(k, n - k)) / O(k): parameter-placed points are kept where that is cheap
        fn disc<D: Discrete + Mean<MeanType = f64> + Variance<VarianceType = f64>>(d: &D, ks: &[i64]) -> Vec<u64> {
            let mut v = vec![];
            for x in [-1i64, 0, 1, 2, 5, 10].iter().chain(ks) { v.push(bits(catch(|| d.pmf(*x)))); }
            v.push(bits(catch(|| d.mean()))); v.push(bits(catch(|| d.var()))); v
        }
        let fl = self.flat();
        let f = |i: usize| fl[i].f();
        let n = |i: usize| fl[i].i().clamp(i64::MIN as i128, i64::MAX as i128) as i64;
        let cheap = |k: f64| if k.is_finite() && k.abs() <= 20_000.0 { vec![k as i64, k as i64 + 1] } else { vec![] };
        match self {
            Obj::Bernoulli(d) => disc(d, &[]),
            Obj::Binomial(d) => { let nn = fl[0].i();       // k = n, n - 1, n + 1 are O(1) for every n
                let mut ks: Vec<i64> = if nn <= i64::MAX as i128 - 1 { vec![nn as i64, nn as i64 - 1, nn as i64 + 1] } else { vec![] };   // k <= i64::MAX < n: every such k costs O(k)
                ks.extend(cheap(nn as f64 * f(1))); if nn <= 40_000 { ks.push((nn / 2) as i64); } disc(d, &ks) }
            Obj::DiscreteUniform(d) => { let (a, b) = (n(0), n(1));
                disc(d, &[a, b, a.saturating_sub(1), a.saturating_add(1), b.saturating_sub(1), b.saturating_add(1), ((a as i128 + b as i128) / 2) as i64, i64::MIN, i64::MAX]) }
            Obj::Poisson(d) => disc(d, &cheap(f(0))),
            Obj::Normal(d) => { let mut v = cont(d, &[f(0), f(1)]);
                // `cdf` is not among the functions the property names (density or mass, mean, variance, samples); it is compared as one more
                // function of the state, but only where its argument (x - mu) / (sigma sqrt 2) is a number: `erf(NaN)` recurses without bound
                // (known, DESIGN D.1 "observed, outside every property's quantifier") and takes the process down for object and twin alike,
                // e.g. Normal::new(m, 0.).cdf(m) (0/0) or Normal::new(-inf, s).cdf(-inf)
                for x in [-2.5, 0.0, 1.0, f(0), f(0) + f(1), f(0) - 3.0 * f(1), f(0) + 1.0] {
                    if ((x - f(0)) / (f(1) * 2_f64.sqrt())).is_nan() { continue; }
                    v.push(bits(catch(|| d.cdf(x)))); } v }
            Obj::Beta(d) => cont(d, &[f(0), f(1)]), Obj::ChiSquared(d) => cont(d, &[f(0), f(0) - 2.0]), Obj::Exponential(d) => cont(d, &[f(0), 1.0 / f(0)]),
            Obj::Gamma(d) => cont(d, &[f(0), f(1)]), Obj::Gumbel(d) => cont(d, &[f(0), f(1)]), Obj::Pareto(d) => cont(d, &[f(0), f(1)]),
            Obj::T(d) => cont(d, &[f(0)]), Obj::Uniform(d) => cont(d, &[f(0), f(1)]),
        }
    }
    /// the first `n` draws after `alea::set_seed(seed)`
    fn draws(&self, seed: u64, n: usize) -> Vec<u64> {
        alea::set_seed(seed);
        (0..n).map(|_| bits(catch(|| each!(self, d => d.sample())))).collect()
    }
}
/// parameter regions where 40 000 draws are cheap (rates / counts that make each draw O(1) or short)
fn bulk_safe(id: usize, p: &[Val]) -> bool {
    sample_safe(id, p) && p.iter().all(|v| match v { Val::F(x) => x.is_finite() && x.abs() < 1e6, _ => true }) && match id { 2 => (p[0].i() as u64) < 10_000, _ => true }
}
const PANIC_BITS: u64 = 0x7ff8_dead_beef_0001;
fn bits(r: Result<f64, String>) -> u64 { match r { Ok(x) => if x.is_nan() { 0x7ff8_0000_0000_0000 } else { x.to_bits() }, Err(_) => PANIC_BITS } }

/// Where the seeded streams are compared.  The UNREPAIRED samplers terminated (quickly) only for gamma shapes >= 1/3 (Beta, Gamma, T),
/// Binomial n <= 1e5 and Poisson rates <= 1e6 (C03 owns the samplers: Marsaglia-Tsang looped forever for shape < 1/3, the inversion
/// sampler for an underflowing (1-p)^n), and the streams were compared only there.  With C03's repairs every sampler returns for every
/// parameter the constructors accept (probed: 2000 draws each at shapes / rates / scales 5e-324 .. 1e308 and inf, n up to 2^64 - 1 with
/// p from 5e-324 to 1 - 2^-53, bounds i64::MIN / i64::MAX, dof up to 2^64 - 1; T(5e-324).sample() panics in both object and twin), so the
/// comparison now runs over the whole domain; a sampler that loops again is reported through the breadcrumb as crash:hang.
fn sample_safe(_id: usize, p: &[Val]) -> bool {
    !p.iter().any(|v| matches!(v, Val::F(x) if x.is_nan()))   // Poisson's PTRS loop never accepts with a NaN rate (NaN: correspondence stream only)
}

fn parse_debug(s: &str) -> Vec<Val> {
    // `name: value` pairs whose value is a number, in textual order
    let b = s.as_bytes();
    let mut out = vec![]; let mut i = 0;
    while i + 1 < b.len() {
        if b[i] == b':' && b[i + 1] == b' ' {
            let mut j = i + 2;
            while j < b.len() && !matches!(b[j], b',' | b' ' | b'}') { j += 1; }
            let tok = &s[i + 2..j];
            if let Some(c) = tok.chars().next() {
                if c.is_ascii_digit() || c == '-' || tok == "inf" || tok == "NaN" {
                    if tok.contains('.') || tok.contains('e') || tok.contains("inf") || tok == "NaN" { out.push(Val::F(tok.parse::<f64>().unwrap())); }
                    else { out.push(Val::I(tok.parse::<i128>().unwrap())); }
                }
            }
            i = j;
        } else { i += 1; }
    }
    out
}

// ------------------------------------------------------------------------------------------------ inputs
fn pos_value(r: &mut Rng, valid: bool) -> f64 {
    if valid {
        match r.below(12) { 0 => 0.5, 1 => 1.0, 2 => 2.5, 3 => 10.0, 4 => 1e-3, 5 => 1e3, 6 => 5e-324, 7 => 1e308, 8 => f64::INFINITY,
                            9 => 0.34 + r.unit(), _ => r.uniform(0.34, 20.0) }
    } else {
        *r.pick(&[0.0, -0.0, -1.0, -1e-300, -5e-324, f64::NEG_INFINITY, -2.5])
    }
}
fn value_for(r: &mut Rng, d: Dom, valid: bool) -> f64 {
    match d {
        Dom::Any | Dom::Lower | Dom::Upper => match r.below(8) { 0 => 0.0, 1 => -0.0, 2 => f64::INFINITY, 3 => f64::NEG_INFINITY, 4 => 1e300, 5 => -1e-310, _ => r.uniform(-10.0, 10.0) },
        Dom::Pos => pos_value(r, valid),
        Dom::NonNeg => if valid { if r.coin(0.2) { *r.pick(&[0.0, -0.0]) } else { pos_value(r, true) } } else { *r.pick(&[-1.0, -1e-300, -5e-324, f64::NEG_INFINITY]) },
        Dom::Prob => if valid { match r.below(8) { 0 => 0.0, 1 => 1.0, 2 => -0.0, 3 => 5e-324, 4 => 1.0 - f64::EPSILON / 2.0, 5 => 0.5, _ => r.unit() } }
                     else { *r.pick(&[-1e-17, 1.0 + f64::EPSILON, 2.0, -1.0, f64::INFINITY, f64::NEG_INFINITY, -5e-324]) },
        Dom::PosInt | Dom::AnyInt => {
            // a float handed to update(): truncated and saturated by `as usize` / `as u64`
            let ok = [1.0, 2.0, 2.7, 5.0, 17.99, 100.0, 1e6, 9007199254740993.0, 9.3e18, 1.8446744073709552e19, 1e19, 1e300, f64::INFINITY];
            let zero = [0.0, -0.0, 0.99, -0.5, -3.0, -1e300, f64::NEG_INFINITY, 5e-324];
            if valid || d == Dom::AnyInt && r.coin(0.5) { *r.pick(&ok) } else { *r.pick(&zero) }
        }
    }
}
fn int_for(r: &mut Rng, k: K, d: Dom, valid: bool) -> i128 {
    match k {
        // Binomial's n = 0 is valid (the sampler and the mass function have a branch for it); ChiSquared's dof = 0 is the invalid value
        K::U => if d == Dom::AnyInt && r.coin(0.12) { 0 } else if valid || d == Dom::AnyInt { *r.pick(&[1i128, 2, 3, 5, 10, 100, 1000, (1 << 53) + 1, u64::MAX as i128, 7, 30, 31, 100_000, 100_001, 1 << 32]) } else { 0 },
        _ => match r.below(10) { 0 => i64::MIN as i128, 1 => i64::MAX as i128, 2 => 0, _ => r.range(-50, 50) as i128 },
    }
}

/// one call: which method, with which argument; `cur` are the object's current parameters
fn draw_call(r: &mut Rng, sp: &Spec, cur: &[Val]) -> (usize, Arg) {
    let ar = sp.kinds.len();
    let two_sided = sp.doms[0] == Dom::Lower;
    let k = if r.coin(0.45) { ar } else { r.below(ar as u64) as usize };
    let valid = r.coin(0.7);
    if k < ar {
        if two_sided {
            // a bound: valid = on the right side of the other bound
            let (lo, hi) = (cur[0], cur[1]);
            let v = match sp.kinds[k] {
                K::I => { let (lo, hi) = (lo.i(), hi.i());
                          let x = if (k == 0) == valid { lo.min(hi) - r.range(0, 9) as i128 } else { lo.max(hi) + r.range(if valid { 0 } else { 1 }, 9) as i128 };
                          let x = if !valid && k == 0 { hi + r.range(1, 9) as i128 } else if !valid { lo - r.range(1, 9) as i128 } else { x };
                          // one call in ten: a far / extreme bound (valid or not as it falls), as the float bounds get below
                          let x = if r.coin(0.1) { int_for(r, K::I, sp.doms[k], true) } else { x };
                          Val::I(x.clamp(i64::MIN as i128, i64::MAX as i128)) }
                _ => { let (lo, hi) = (lo.f(), hi.f());
                       let x = if k == 0 { if valid { hi - r.uniform(0.0, 7.0) * r.below(2) as f64 } else { hi + r.uniform(0.1, 7.0) } }
                               else if valid { lo + r.uniform(0.0, 7.0) * r.below(2) as f64 } else { lo - r.uniform(0.1, 7.0) };
                       Val::F(if r.coin(0.1) { value_for(r, Dom::Any, true) } else { x }) }
            };
            return (k, Arg::Set(v));
        }
        let v = match sp.kinds[k] { K::F => Val::F(value_for(r, sp.doms[k], valid)), kk => Val::I(int_for(r, kk, sp.doms[k], valid)) };
        return (k, Arg::Set(v));
    }
    // update(params): mostly the right length
    let mut v: Vec<f64> = vec![];
    if two_sided {
        let (lo, hi) = (cur[0].f(), cur[1].f());
        let w = if sp.kinds[0] == K::I { (r.range(0, 12)) as f64 } else { r.uniform(0.0, 12.0) * r.below(4).min(1) as f64 };
        let gap = if sp.kinds[0] == K::I { r.range(1, 20) as f64 } else { r.uniform(0.01, 20.0) };
        let (a, b) = match r.below(6) {
            0 => (hi + gap, hi + gap + w),                 // the whole interval moves above the old one
            1 => (lo - gap - w, lo - gap),                 // ... below
            2 => (lo - gap, hi + gap),                     // widen
            3 => { let m = (lo + hi) / 2.0; (m, m) }       // collapse
            4 => (value_for(r, Dom::Any, true), value_for(r, Dom::Any, true)),
            _ => (r.uniform(-30.0, 30.0), r.uniform(-30.0, 30.0)),
        };
        let (a, b) = if sp.kinds[0] == K::I && r.coin(0.8) { (a.floor(), b.floor()) } else { (a, b) };
        let (a, b) = if valid && a > b { (b, a) } else if !valid && a <= b { (b + gap, a) } else { (a, b) };
        v.push(a); v.push(b);
    } else {
        let bad = if valid { usize::MAX } else { r.below(ar as u64) as usize };
        for j in 0..ar { v.push(value_for(r, sp.doms[j], j != bad)); }
    }
    match r.below(14) { 0 => { v.pop(); } 1 => { v.push(1.0); } 2 => { v.clear(); } _ => {} }
    (k, Arg::Update(v))
}

fn draw_initial(r: &mut Rng, sp: &Spec, valid: bool) -> Vec<Val> {
    let ar = sp.kinds.len();
    let bad = if valid { usize::MAX } else { r.below(ar as u64) as usize };
    let mut p: Vec<Val> = (0..ar).map(|j| match sp.kinds[j] {
        K::F => Val::F(value_for(r, sp.doms[j], j != bad)),
        k => Val::I(int_for(r, k, sp.doms[j], j != bad)) }).collect();
    if sp.doms[0] == Dom::Lower {
        let sw = match (p[0], p[1]) { (Val::I(a), Val::I(b)) => a > b, (a, b) => a.f() > b.f() };
        if sw == valid { p.swap(0, 1); }
        if !valid && p[0].same(&p[1]) { p[0] = match p[0] { Val::I(a) => Val::I((a + 1).min(i64::MAX as i128)), Val::F(a) => Val::F(a + 1.0) }; }
    }
    p
}

/// the parameter vector a call asks for (Rust's own `as` casts for update), None when the slice is too short
fn target_of(sp: &Spec, cur: &[Val], k: usize, a: &Arg) -> Option<Vec<Val>> {
    match a {
        Arg::Set(v) => { let mut t = cur.to_vec(); t[k] = *v; Some(t) }
        Arg::Update(v) => {
            if v.len() < sp.kinds.len() { return None; }
            Some(sp.kinds.iter().enumerate().map(|(j, kk)| match kk { K::F => Val::F(v[j]), K::U => Val::I((v[j] as u64) as i128), K::I => Val::I((v[j] as i64) as i128) }).collect())
        }
    }
}

fn zs_fs(vals: &[Val]) -> (Tm, Tm) {
    let zs: Vec<Tm> = vals.iter().filter_map(|v| if let Val::I(n) = v { Some(Tm::Raw(if *n < 0 { format!("({})%Z", n) } else { format!("{}%Z", n) })) } else { None }).collect();
    let fs: Vec<Tm> = vals.iter().filter_map(|v| if let Val::F(x) = v { Some(Tm::F(*x)) } else { None }).collect();
    (Tm::L(zs), Tm::L(fs))
}

/// object == fresh twin built from the object's own parameters?  (None: the constructor refuses them)
fn twin_equal(id: usize, sp: &Spec, o: &Obj, seed: u64, with_draws: bool) -> Option<(bool, String)> {
    let p = o.params(sp);
    let twin = match construct(id, &p) { Ok(t) => t, Err(_) => return None };
    if o.debug() != twin.debug() { return Some((false, format!("state {} but a fresh object is {}", o.debug(), twin.debug()))); }
    let (lo, lt) = (o.look(), twin.look());
    if lo != lt { return Some((false, format!("pdf/pmf/mean/var bits differ from the fresh twin at parameters {}", show_vals(&p)))); }
    if with_draws && sample_safe(id, &p) {
        let a = o.draws(seed, NDRAWS);
        // other live objects, constructed in between, must not matter (0, 1, 13 or 130 of them, by the seed; copies of the object itself among
        // them; they are sampled and mutated while the object and its twin exist); nor must a second run from the same seed
        let nother = [0usize, 1, 13, 130][(seed % 4) as usize];
        let mut others: Vec<Obj> = (0..nother).filter_map(|j| if j % 5 == 4 { Some(*o) } else { construct(j % 13, &default_params(j % 13)).ok() }).collect();
        for (j, ot) in others.iter_mut().enumerate() {
            let _ = catch(|| each!(&*ot, d => d.sample()));
            if j % 5 == 4 { let dp: Vec<f64> = default_params(id).iter().map(|v| v.f()).collect(); let _ = ot.call(sp.kinds.len(), &Arg::Update(dp)); }
        }
        let b = twin.draws(seed, NDRAWS);
        if a != b { return Some((false, format!("the first {} draws after set_seed({}) differ from the fresh twin at parameters {} ({} other objects alive)", NDRAWS, seed, show_vals(&p), others.len()))); }
        // the object itself must not have been touched by what happened to its copies
        if o.debug() != twin.debug() { return Some((false, format!("state {} changed while other objects were mutated (fresh: {})", o.debug(), twin.debug()))); }
    }
    Some((true, String::new()))
}
const NDRAWS: usize = 64;
fn default_params(id: usize) -> Vec<Val> {
    match id { 0 => vec![Val::F(0.5)], 2 => vec![Val::I(3), Val::F(0.5)], 3 => vec![Val::I(2)], 4 => vec![Val::I(0), Val::I(3)],
               5 | 10 | 11 => vec![Val::F(1.5)], 8 | 7 => vec![Val::F(0.0), Val::F(1.0)], 12 => vec![Val::F(0.0), Val::F(1.0)], _ => vec![Val::F(1.5), Val::F(2.0)] }
}

// ------------------------------------------------------------------------------------------------ gen
pub fn gen(tier: &str, seed: u64, outdir: &str) {
    let mut r = Rng::new(seed ^ 0xC18);
    let mut cs = Cases::new("C18");
    let thorough = tier == "thorough";
    let per_dist = if thorough { 1500 } else { 60 };
    for id in 0..13 {
        let sp = &SPECS[id];
        for h in 0..per_dist {
            let valid0 = h % 10 != 9;
            let mut p0 = draw_initial(&mut r, sp, valid0);
            // NaN parameters: only in the correspondence stream (the property does not say whether NaN is "invalid";
            // the model must still do what the code does: `x <= 0.` lets NaN through, `assert!(x > 0.)` and `contains` do not)
            if h % 20 == 13 { let j = r.below(p0.len() as u64) as usize; if let Val::F(_) = p0[j] { p0[j] = Val::F(f64::NAN); } }
            // the other constructor: the object `Default::default()` returns, handed to the model as `new` of ITS parameters
            // (so the lock-step comparison of the complete state also says that the default object is one `new` builds)
            let from_default = h % 20 == 7;
            if from_default { if let Ok(d) = construct_default(id) { p0 = d.params(sp); } }
            let (zs, fs) = zs_fs(&p0);
            let mut o = match if from_default { construct_default(id) } else { construct(id, &p0) } {
                Err(_) => { cs.push(app("CHist", vec![Tm::Nat(id as u64), zs, fs, Tm::Raw("Panic".into()), Tm::L(vec![])]), &format!("{}/new-panics", sp.name), false); continue; }
                Ok(o) => o,
            };
            let (ezs, efs) = zs_fs(&o.flat());
            let e0 = app("Val", vec![Tm::Tup(vec![ezs, efs])]);
            let len = 1 + r.below(20) as usize;
            let len = match h { 0 | 7 => 20, 1 => 1, _ => len };     // both ends of the stated range, for every distribution
            let mut steps = vec![]; let mut changes = 0; let mut panics = 0;
            for _ in 0..len {
                let cur = o.params(sp);
                let (k, mut a) = draw_call(&mut r, sp, &cur);
                if r.coin(0.04) {
                    match &mut a { Arg::Set(Val::F(x)) => *x = f64::NAN,
                                   Arg::Update(v) if !v.is_empty() => { let j = r.below(v.len() as u64) as usize; v[j] = f64::NAN; }
                                   _ => {} }
                }
                let before = o.debug();
                let res = o.call(k, &a);
                if o.debug() != before { changes += 1; }
                if res.is_err() { panics += 1; }
                let mname = if k == sp.kinds.len() { "update".to_string() } else { format!("set_{}", sp.names[k]) };
                *cs.tags.entry(format!("call/{}::{}/{}", sp.name, mname, if res.is_ok() { "returns" } else if o.debug() != before { "panics-after-partial-update" } else { "panics" })).or_insert(0) += 1;
                let tw = twin_equal(id, sp, &o, seed.wrapping_add(steps.len() as u64), true).map(|x| x.0).unwrap_or(false);
                let (azs, afs) = match &a { Arg::Set(v) => zs_fs(&[*v]), Arg::Update(v) => (Tm::L(vec![]), fl(v)) };
                let (szs, sfs) = zs_fs(&o.flat());
                steps.push(Tm::Tup(vec![Tm::Nat(k as u64), azs, afs, Tm::Tup(vec![Tm::B(res.is_ok()), Tm::B(tw), szs, sfs])]));
            }
            if from_default { *cs.tags.entry(format!("{}/from-default", sp.name)).or_insert(0) += 1; }
            let tag = format!("{}/len{}{}", sp.name, if len <= 5 { "1-5" } else if len <= 12 { "6-12" } else { "13-20" }, if panics > 0 { "+panics" } else { "" });
            cs.push(app("CHist", vec![Tm::Nat(id as u64), zs, fs, e0, Tm::L(steps)]), &tag, changes >= 2);
        }
    }
    cs.write(outdir, if thorough { 450 } else { 400 }, "a history with at least two calls that changed the object's state");
}

// ------------------------------------------------------------------------------------------------ oracle
/// the breadcrumb keeps 2047 bytes: for a long history keep its beginning and its end (the call about to run)
fn crumb_text(h: &str) -> String {
    if h.len() <= 2000 { return h.to_string(); }
    let a = (0..=500).rev().find(|i| h.is_char_boundary(*i)).unwrap_or(0);
    let b = (h.len() - 1400..h.len()).find(|i| h.is_char_boundary(*i)).unwrap_or(h.len());
    format!("{} ... {}", &h[..a], &h[b..])
}
pub fn oracle(tier: &str, seed: u64) -> (u64, Vec<Finding>) {
    let mut out: Vec<Finding> = vec![]; let mut tried = 0u64;
    let nseeds = if tier == "thorough" { 400 } else { 50 };
    for id in 0..13 {
        let sp = &SPECS[id];
        for s in 0..nseeds {
            let mut r = Rng::new(seed ^ 0x18_0000 ^ ((id as u64) << 32) ^ s);
            let p0 = draw_initial(&mut r, sp, s % 8 != 7);
            let mut hist = format!("{}::new({})", sp.name, show_vals(&p0));
            tried += 1;
            crumb(&hist);
            // the other constructor: every eighth history starts from `Default::default()`, which must be an object `new` can build
            let from_default = s % 8 == 3;
            if from_default {
                hist = format!("{}::default()", sp.name);
                crumb(&hist);
                match construct_default(id) {
                    Err(e) => { out.push(Finding { class: format!("default-panics:{}", sp.name), what: format!("Default::default() panicked ({})", e), input: hist.clone() }); continue; }
                    Ok(d) => match twin_equal(id, sp, &d, seed ^ s, true) {
                        None => out.push(Finding { class: format!("object-holds-refused-parameters:{}", sp.name), what: format!("the default object is {} but {}::new panics on these parameters", d.debug(), sp.name), input: hist.clone() }),
                        Some((false, why)) => out.push(Finding { class: format!("differs-from-fresh-twin:{}", sp.name), what: why, input: hist.clone() }),
                        Some((true, _)) => if !in_domain(sp, &d.params(sp)) { out.push(Finding { class: format!("constructor-accepts-out-of-domain:{}", sp.name), what: "the default object holds parameters outside the documented domain".into(), input: hist.clone() }); },
                    },
                }
            }
            let mut o = match if from_default { construct_default(id) } else { construct(id, &p0) } {
                Ok(o) => { if !from_default && !in_domain(sp, &p0) { out.push(Finding { class: format!("constructor-accepts-out-of-domain:{}", sp.name), what: "the constructor returned an object for parameters outside the documented domain".into(), input: hist.clone() }); } o }
                Err(e) => { if in_domain(sp, &p0) { out.push(Finding { class: format!("constructor-rejects-valid:{}", sp.name), what: format!("the constructor panicked ({}) on parameters inside the documented domain", e), input: hist.clone() }); } continue; }
            };
            // both ends of the stated range 1..20 are reached for every distribution whatever the seed
            let len = 1 + r.below(20) as usize;
            let len = match s { 0 | 3 => 20, 1 => 1, _ => len };
            for step in 0..len {
                let cur = o.params(sp);
                let (k, a) = draw_call(&mut r, sp, &cur);
                let mname = if k == sp.kinds.len() { "update".to_string() } else { format!("set_{}", sp.names[k]) };
                hist.push_str(&match &a { Arg::Set(v) => format!("; {}({})", mname, v.show()), Arg::Update(v) => format!("; update({})", json_floats(v).replace('"', "")) });
                let before = o.debug();
                crumb(&crumb_text(&hist));
                let res = o.call(k, &a);
                tried += 1;
                let target = target_of(sp, &cur, k, &a);
                let wf = match &a { Arg::Update(v) => v.len() == sp.kinds.len(), _ => true };
                // validity of the request: the constructor's verdict, cross-checked with the documented domain
                let verdict = target.as_ref().map(|t| (construct(id, t).is_ok(), in_domain(sp, t)));
                match (verdict, &res) {
                    (Some((true, true)), Err(e)) if wf =>
                        out.push(Finding { class: format!("valid-request-rejected:{}::{}", sp.name, mname), what: format!("the call panicked ({}) although {}::new accepts the requested parameters {} (current parameters {})", e, sp.name, show_vals(target.as_ref().unwrap()), show_vals(&cur)), input: hist.clone() }),
                    (Some((true, true)), Ok(())) => {
                        if !same_vals(&o.params(sp), target.as_ref().unwrap()) {
                            out.push(Finding { class: format!("request-not-applied:{}::{}", sp.name, mname), what: format!("after the call the parameters are {}, requested {}", show_vals(&o.params(sp)), show_vals(target.as_ref().unwrap())), input: hist.clone() }); }
                    }
                    (Some((false, false)), Ok(())) | (None, Ok(())) =>
                        out.push(Finding { class: format!("invalid-request-accepted:{}::{}", sp.name, mname), what: format!("the call returned although the requested parameters {:?} are refused by the constructor / the slice is too short", target.as_ref().map(|t| show_vals(t))), input: hist.clone() }),
                    (Some((a_, b_)), _) if a_ != b_ =>
                        out.push(Finding { class: format!("constructor-vs-documented-domain:{}", sp.name), what: format!("{}::new {} parameters {} that the documented domain {}", sp.name, if a_ { "accepts" } else { "rejects" }, show_vals(target.as_ref().unwrap()), if b_ { "contains" } else { "excludes" }), input: hist.clone() }),
                    _ => {}
                }
                if res.is_err() && k < sp.kinds.len() && o.debug() != before {
                    out.push(Finding { class: format!("rejected-setter-mutated-object:{}::{}", sp.name, mname), what: format!("the setter panicked but the object changed from {} to {}", before, o.debug()), input: hist.clone() });
                }
                // RNG seeds of every size, 0 and 2^64 - 1 included (they were 31 .. 50 only)
                let tseed = match (step + s as usize) % 6 { 0 => 0, 1 => u64::MAX, 2 => seed.wrapping_mul(31).wrapping_add(step as u64),
                                                            _ => Rng::new(seed ^ (s << 24) ^ ((id as u64) << 40) ^ step as u64).next() };
                match twin_equal(id, sp, &o, tseed, true) {
                    None => out.push(Finding { class: format!("object-holds-refused-parameters:{}", sp.name), what: format!("the object is {} but {}::new panics on these parameters", o.debug(), sp.name), input: hist.clone() }),
                    Some((false, why)) => { out.push(Finding { class: format!("differs-from-fresh-twin:{}", sp.name), what: why, input: hist.clone() }); }
                    Some((true, _)) => {}
                }
                // reproducibility of the seeded stream on the object itself
                let p = o.params(sp);
                if step == len - 1 && sample_safe(id, &p) {
                    let a1 = o.draws(seed ^ 77, 8); let a2 = o.draws(seed ^ 77, 8);
                    if a1 != a2 { out.push(Finding { class: format!("sampling-not-reproducible:{}", sp.name), what: "two runs of 8 draws from the same seed differ".into(), input: hist.clone() }); }
                    // ... the matrix form is the same stream, row-major
                    {
                        let (nr, nc) = [(3usize, 5usize), (1, 1), (4, 1), (1, 6), (2, 2)][(s % 5) as usize];
                        let inp = format!("{}; alea::set_seed({}); sample_matrix({}, {})", hist, seed ^ 93, nr, nc);
                        crumb(&crumb_text(&inp)); tried += 1;
                        alea::set_seed(seed ^ 93);
                        let m: Result<(Vec<usize>, Vec<u64>), String> = catch(|| { let m = each!(&o, d => d.sample_matrix(nr, nc)); (vec![m.nrows, m.ncols], m.data().iter().map(|x| bits(Ok(*x))).collect()) });
                        let single = o.draws(seed ^ 93, nr * nc);
                        match m {
                            // the bulk form is the same stream as successive single draws: it is right to panic exactly when one of those does
                            // (T::new(5e-324).sample() panics, dof / 2 underflows to the gamma shape 0; the sampler belongs to C03)
                            Err(_) if single.contains(&PANIC_BITS) => {}
                            Err(e) => out.push(Finding { class: format!("bulk-sampling-panics:{}", sp.name), what: e, input: inp }),
                            Ok((sh, b)) => if sh != vec![nr, nc] || b != single {
                                out.push(Finding { class: format!("bulk-draws-differ-from-single-draws:{}", sp.name), what: format!("from the same seed, sample_matrix({}, {}) (shape {:?}) and {} successive sample() calls differ", nr, nc, sh, nr * nc), input: inp });
                            }
                        }
                    }
                    // ... and of BULK draws of every size (small, and beyond any internal batching threshold): the same seed gives the same stream
                    // whether the draws are requested one at a time or in bulk
                    // the small sizes (0 and 1: the boundary) for every history and every parameter; the large ones where 40 000 draws are cheap
                    {
                        for &nb in [0usize, 1, 7, 1000, 40_000].iter().filter(|&&nb| nb <= 7 || s < 4 && bulk_safe(id, &p)) {
                            let inp = format!("{}; alea::set_seed({}); sample_n({})", hist, seed ^ 91, nb);
                            crumb(&crumb_text(&inp)); tried += 1;
                            alea::set_seed(seed ^ 91);
                            let bulk: Result<Vec<u64>, String> = catch(|| each!(&o, d => d.sample_n(nb)).iter().map(|x| bits(Ok(*x))).collect());
                            let single = o.draws(seed ^ 91, nb);
                            match bulk {
                                // the bulk form is the same stream as successive single draws: it is right to panic exactly when one of those does
                            // (T::new(5e-324).sample() panics, dof / 2 underflows to the gamma shape 0; the sampler belongs to C03)
                            Err(_) if single.contains(&PANIC_BITS) => {}
                            Err(e) => out.push(Finding { class: format!("bulk-sampling-panics:{}", sp.name), what: e, input: inp }),
                                Ok(b) => if b != single {
                                    let k = (0..nb).find(|&k| b.get(k) != single.get(k)).unwrap_or(0);
                                    out.push(Finding { class: format!("bulk-draws-differ-from-single-draws:{}", sp.name), what: format!("from the same seed, sample_n({}) and {} successive sample() calls differ (first at draw {}; lengths {} / {})", nb, nb, k, b.len(), single.len()), input: inp });
                                }
                            }
                        }
                    }
                }
            }
            // keep at most three findings per class
            let mut seen: std::collections::HashMap<String, u32> = std::collections::HashMap::new();
            out.retain(|f| { let c = seen.entry(f.class.clone()).or_insert(0); *c += 1; *c <= 3 });
        }
    }
    (tried, out)
}
