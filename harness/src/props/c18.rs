//! C18 — distributions are a pure function of their current parameters and the RNG seed.
//! Histories of setter / update calls (valid and invalid interleaved, panics caught, the object used further)
//! on the 13 univariate distributions.  `gen` records, after every call, whether it returned and the COMPLETE
//! state of the object (every field, cached sub-samplers included, read through `{:?}`) for the lock-step
//! comparison with the Coq state machines; `oracle` is the property itself: fresh-twin comparison, valid
//! requests succeed, invalid ones panic, no object holds parameters its constructor refuses.
use crate::util::*;
use compute::distributions::*;

// ------------------------------------------------------------------------------------------------ table
#[derive(Clone, Copy, PartialEq, Debug)]
enum K { F, U, I }                       // type of a constructor argument: f64, u64/usize, i64
#[derive(Clone, Copy, PartialEq, Debug)]
enum Dom { Any, Pos, NonNeg, Prob, PosInt, AnyInt, Lower, Upper }   // textbook domain of a parameter
struct Spec { name: &'static str, names: &'static [&'static str], kinds: &'static [K], doms: &'static [Dom], discrete: bool }
// ids as in Generated/dist_setters.v (`machines`); method k < arity is the setter of parameter k, k = arity is update
const SPECS: [Spec; 13] = [
    Spec { name: "Bernoulli", names: &["p"], kinds: &[K::F], doms: &[Dom::Prob], discrete: true },
    Spec { name: "Beta", names: &["alpha", "beta"], kinds: &[K::F, K::F], doms: &[Dom::Pos, Dom::Pos], discrete: false },
    Spec { name: "Binomial", names: &["n", "p"], kinds: &[K::U, K::F], doms: &[Dom::AnyInt, Dom::Prob], discrete: true },
    Spec { name: "ChiSquared", names: &["dof"], kinds: &[K::U], doms: &[Dom::PosInt], discrete: false },
    Spec { name: "DiscreteUniform", names: &["lower", "upper"], kinds: &[K::I, K::I], doms: &[Dom::Lower, Dom::Upper], discrete: true },
    Spec { name: "Exponential", names: &["lambda"], kinds: &[K::F], doms: &[Dom::Pos], discrete: false },
    Spec { name: "Gamma", names: &["alpha", "beta"], kinds: &[K::F, K::F], doms: &[Dom::Pos, Dom::Pos], discrete: false },
    Spec { name: "Gumbel", names: &["mu", "beta"], kinds: &[K::F, K::F], doms: &[Dom::Any, Dom::Pos], discrete: false },
    Spec { name: "Normal", names: &["mu", "sigma"], kinds: &[K::F, K::F], doms: &[Dom::Any, Dom::NonNeg], discrete: false },
    Spec { name: "Pareto", names: &["alpha", "minval"], kinds: &[K::F, K::F], doms: &[Dom::Pos, Dom::Pos], discrete: false },
    Spec { name: "Poisson", names: &["lambda"], kinds: &[K::F], doms: &[Dom::Pos], discrete: true },
    Spec { name: "T", names: &["dof"], kinds: &[K::F], doms: &[Dom::Pos], discrete: false },
    Spec { name: "Uniform", names: &["lower", "upper"], kinds: &[K::F, K::F], doms: &[Dom::Lower, Dom::Upper], discrete: false },
];

#[derive(Clone, Copy, Debug, PartialEq)]
enum Val { I(i128), F(f64) }
impl Val {
    fn f(&self) -> f64 { match self { Val::F(x) => *x, Val::I(n) => *n as f64 } }
    fn i(&self) -> i128 { match self { Val::I(n) => *n, Val::F(x) => *x as i128 } }
    fn same(&self, o: &Val) -> bool { match (self, o) { (Val::I(a), Val::I(b)) => a == b, (Val::F(a), Val::F(b)) => a.to_bits() == b.to_bits(), _ => false } }
    fn show(&self) -> String { match self { Val::I(n) => format!("{}", n), Val::F(x) => format!("{:e}", x) } }
}
fn same_vals(a: &[Val], b: &[Val]) -> bool { a.len() == b.len() && a.iter().zip(b).all(|(x, y)| x.same(y)) }
fn show_vals(a: &[Val]) -> String { format!("[{}]", a.iter().map(|v| v.show()).collect::<Vec<_>>().join(", ")) }

/// the textbook (documented) domain, independent of the code
fn in_domain(sp: &Spec, p: &[Val]) -> bool {
    for (k, d) in sp.doms.iter().enumerate() {
        let ok = match d {
            Dom::Any => true,
            Dom::Pos => p[k].f() > 0.0,
            Dom::NonNeg => p[k].f() >= 0.0,
            Dom::Prob => p[k].f() >= 0.0 && p[k].f() <= 1.0,
            Dom::PosInt => p[k].i() > 0,
            Dom::AnyInt => true,
            Dom::Lower => match (p[k], p[k + 1]) { (Val::I(a), Val::I(b)) => a <= b, (a, b) => a.f() <= b.f() },
            Dom::Upper => true,
        };
        if !ok { return false; }
    }
    true
}

// ------------------------------------------------------------------------------------------------ objects
#[derive(Clone, Copy)]
enum Obj {
    Bernoulli(Bernoulli), Beta(Beta), Binomial(Binomial), ChiSquared(ChiSquared), DiscreteUniform(DiscreteUniform),
    Exponential(Exponential), Gamma(Gamma), Gumbel(Gumbel), Normal(Normal), Pareto(Pareto), Poisson(Poisson), T(T), Uniform(Uniform),
}
#[derive(Clone, Debug)]
enum Arg { Set(Val), Update(Vec<f64>) }

fn construct(id: usize, p: &[Val]) -> Result<Obj, String> {
    let f = |i: usize| p[i].f();
    let u = |i: usize| p[i].i() as u64;
    let n = |i: usize| p[i].i() as i64;
    catch(|| match id {
        0 => Obj::Bernoulli(Bernoulli::new(f(0))),
        1 => Obj::Beta(Beta::new(f(0), f(1))),
        2 => Obj::Binomial(Binomial::new(u(0), f(1))),
        3 => Obj::ChiSquared(ChiSquared::new(u(0) as usize)),
        4 => Obj::DiscreteUniform(DiscreteUniform::new(n(0), n(1))),
        5 => Obj::Exponential(Exponential::new(f(0))),
        6 => Obj::Gamma(Gamma::new(f(0), f(1))),
        7 => Obj::Gumbel(Gumbel::new(f(0), f(1))),
        8 => Obj::Normal(Normal::new(f(0), f(1))),
        9 => Obj::Pareto(Pareto::new(f(0), f(1))),
        10 => Obj::Poisson(Poisson::new(f(0))),
        11 => Obj::T(T::new(f(0))),
        12 => Obj::Uniform(Uniform::new(f(0), f(1))),
        _ => unreachable!(),
    })
}

macro_rules! each { ($o:expr, $d:ident => $e:expr) => { match $o {
    Obj::Bernoulli($d) => $e, Obj::Beta($d) => $e, Obj::Binomial($d) => $e, Obj::ChiSquared($d) => $e, Obj::DiscreteUniform($d) => $e,
    Obj::Exponential($d) => $e, Obj::Gamma($d) => $e, Obj::Gumbel($d) => $e, Obj::Normal($d) => $e, Obj::Pareto($d) => $e,
    Obj::Poisson($d) => $e, Obj::T($d) => $e, Obj::Uniform($d) => $e } } }

impl Obj {
    fn call(&mut self, k: usize, a: &Arg) -> Result<(), String> {
        catch(move || {
            if let Arg::Update(v) = a { each!(self, d => d.update(v)); return; }
            let v = match a { Arg::Set(v) => *v, _ => unreachable!() };
            let (f, u, n) = (v.f(), v.i() as u64, v.i() as i64);
            match (self, k) {
                (Obj::Bernoulli(d), 0) => { d.set_p(f); }
                (Obj::Beta(d), 0) => { d.set_alpha(f); } (Obj::Beta(d), 1) => { d.set_beta(f); }
                (Obj::Binomial(d), 0) => { d.set_n(u); } (Obj::Binomial(d), 1) => { d.set_p(f); }
                (Obj::ChiSquared(d), 0) => { d.set_dof(u as usize); }
                (Obj::DiscreteUniform(d), 0) => { d.set_lower(n); } (Obj::DiscreteUniform(d), 1) => { d.set_upper(n); }
                (Obj::Exponential(d), 0) => { d.set_lambda(f); }
                (Obj::Gamma(d), 0) => { d.set_alpha(f); } (Obj::Gamma(d), 1) => { d.set_beta(f); }
                (Obj::Gumbel(d), 0) => { d.set_mu(f); } (Obj::Gumbel(d), 1) => { d.set_beta(f); }
                (Obj::Normal(d), 0) => { d.set_mu(f); } (Obj::Normal(d), 1) => { d.set_sigma(f); }
                (Obj::Pareto(d), 0) => { d.set_alpha(f); } (Obj::Pareto(d), 1) => { d.set_minval(f); }
                (Obj::Poisson(d), 0) => { d.set_lambda(f); }
                (Obj::T(d), 0) => { d.set_dof(f); }
                (Obj::Uniform(d), 0) => { d.set_lower(f); } (Obj::Uniform(d), 1) => { d.set_upper(f); }
                _ => unreachable!(),
            }
        })
    }
    fn debug(&self) -> String { each!(self, d => format!("{:?}", d)) }
    /// every field of the object, depth first in declaration order, from the derived Debug output
    fn flat(&self) -> Vec<Val> { parse_debug(&self.debug()) }
    fn params(&self, sp: &Spec) -> Vec<Val> { self.flat()[..sp.kinds.len()].to_vec() }

    /// what a user can see without touching the RNG: density/mass at probe points, mean, variance
    fn look(&self) -> Vec<u64> {
        fn cont<D: Continuous<PDFType = f64> + Mean<MeanType = f64> + Variance<VarianceType = f64>>(d: &D) -> Vec<u64> {
            let mut v = vec![];
            for x in [-2.5, -1.0, 0.0, 0.25, 0.5, 1.0, 1.5, 3.0, 10.0] { v.push(bits(catch(|| d.pdf(x)))); }
            v.push(bits(catch(|| d.mean()))); v.push(bits(catch(|| d.var()))); v
        }
        fn disc<D: Discrete + Mean<MeanType = f64> + Variance<VarianceType = f64>>(d: &D) -> Vec<u64> {
            let mut v = vec![];
            for x in [-1i64, 0, 1, 2, 5, 10] { v.push(bits(catch(|| d.pmf(x)))); }
            v.push(bits(catch(|| d.mean()))); v.push(bits(catch(|| d.var()))); v
        }
        match self {
            Obj::Bernoulli(d) => disc(d), Obj::Binomial(d) => disc(d), Obj::DiscreteUniform(d) => disc(d), Obj::Poisson(d) => disc(d),
            Obj::Beta(d) => cont(d), Obj::ChiSquared(d) => cont(d), Obj::Exponential(d) => cont(d), Obj::Gamma(d) => cont(d),
            Obj::Gumbel(d) => cont(d), Obj::Normal(d) => cont(d), Obj::Pareto(d) => cont(d), Obj::T(d) => cont(d), Obj::Uniform(d) => cont(d),
        }
    }
    /// the first `n` draws after `alea::set_seed(seed)`
    fn draws(&self, seed: u64, n: usize) -> Vec<u64> {
        alea::set_seed(seed);
        (0..n).map(|_| bits(catch(|| each!(self, d => d.sample())))).collect()
    }
}
/// parameter regions where 40 000 draws are cheap (rates / counts that make each draw O(1) or short)
fn bulk_safe(id: usize, p: &[Val]) -> bool {
    sample_safe(id, p) && p.iter().all(|v| match v { Val::F(x) => x.is_finite() && x.abs() < 1e6, _ => true }) && match id { 2 => (p[0].i() as u64) < 10_000, _ => true }
}
const PANIC_BITS: u64 = 0x7ff8_dead_beef_0001;
fn bits(r: Result<f64, String>) -> u64 { match r { Ok(x) => if x.is_nan() { 0x7ff8_0000_0000_0000 } else { x.to_bits() }, Err(_) => PANIC_BITS } }

/// Sampling terminates (quickly) in the unrepaired samplers only in these regions (C03 owns the samplers:
/// Marsaglia-Tsang loops forever for shape < 1/3, the inversion sampler for an underflowing (1-p)^n).
fn sample_safe(id: usize, p: &[Val]) -> bool {
    if p.iter().any(|v| matches!(v, Val::F(x) if x.is_nan())) { return false; }   // Poisson's PTRS loop never accepts with a NaN rate
    match id {
        1 => p[0].f() >= 0.34 && p[1].f() >= 0.34,
        6 => p[0].f() >= 0.34,
        11 => p[0].f() >= 0.68,
        2 => p[0].i() <= 100_000,
        10 => p[0].f() <= 1e6,
        _ => true,
    }
}

fn parse_debug(s: &str) -> Vec<Val> {
    // `name: value` pairs whose value is a number, in textual order
    let b = s.as_bytes();
    let mut out = vec![]; let mut i = 0;
    while i + 1 < b.len() {
        if b[i] == b':' && b[i + 1] == b' ' {
            let mut j = i + 2;
            while j < b.len() && !matches!(b[j], b',' | b' ' | b'}') { j += 1; }
            let tok = &s[i + 2..j];
            if let Some(c) = tok.chars().next() {
                if c.is_ascii_digit() || c == '-' || tok == "inf" || tok == "NaN" {
                    if tok.contains('.') || tok.contains('e') || tok.contains("inf") || tok == "NaN" { out.push(Val::F(tok.parse::<f64>().unwrap())); }
                    else { out.push(Val::I(tok.parse::<i128>().unwrap())); }
                }
            }
            i = j;
        } else { i += 1; }
    }
    out
}

// ------------------------------------------------------------------------------------------------ inputs
fn pos_value(r: &mut Rng, valid: bool) -> f64 {
    if valid {
        match r.below(12) { 0 => 0.5, 1 => 1.0, 2 => 2.5, 3 => 10.0, 4 => 1e-3, 5 => 1e3, 6 => 5e-324, 7 => 1e308, 8 => f64::INFINITY,
                            9 => 0.34 + r.unit(), _ => r.uniform(0.34, 20.0) }
    } else {
        *r.pick(&[0.0, -0.0, -1.0, -1e-300, -5e-324, f64::NEG_INFINITY, -2.5])
    }
}
fn value_for(r: &mut Rng, d: Dom, valid: bool) -> f64 {
    match d {
        Dom::Any | Dom::Lower | Dom::Upper => match r.below(8) { 0 => 0.0, 1 => -0.0, 2 => f64::INFINITY, 3 => f64::NEG_INFINITY, 4 => 1e300, 5 => -1e-310, _ => r.uniform(-10.0, 10.0) },
        Dom::Pos => pos_value(r, valid),
        Dom::NonNeg => if valid { if r.coin(0.2) { *r.pick(&[0.0, -0.0]) } else { pos_value(r, true) } } else { *r.pick(&[-1.0, -1e-300, -5e-324, f64::NEG_INFINITY]) },
        Dom::Prob => if valid { match r.below(8) { 0 => 0.0, 1 => 1.0, 2 => -0.0, 3 => 5e-324, 4 => 1.0 - f64::EPSILON / 2.0, 5 => 0.5, _ => r.unit() } }
                     else { *r.pick(&[-1e-17, 1.0 + f64::EPSILON, 2.0, -1.0, f64::INFINITY, f64::NEG_INFINITY, -5e-324]) },
        Dom::PosInt | Dom::AnyInt => {
            // a float handed to update(): truncated and saturated by `as usize` / `as u64`
            let ok = [1.0, 2.0, 2.7, 5.0, 17.99, 100.0, 1e6, 9007199254740993.0, 9.3e18, 1.8446744073709552e19, 1e19, 1e300, f64::INFINITY];
            let zero = [0.0, -0.0, 0.99, -0.5, -3.0, -1e300, f64::NEG_INFINITY, 5e-324];
            if valid || d == Dom::AnyInt && r.coin(0.5) { *r.pick(&ok) } else { *r.pick(&zero) }
        }
    }
}
fn int_for(r: &mut Rng, k: K, d: Dom, valid: bool) -> i128 {
    match k {
        K::U => if valid || d == Dom::AnyInt { *r.pick(&[1i128, 2, 3, 5, 10, 100, 1000, (1 << 53) + 1, u64::MAX as i128, 7, 30]) } else { 0 },
        _ => match r.below(10) { 0 => i64::MIN as i128, 1 => i64::MAX as i128, 2 => 0, _ => r.range(-50, 50) as i128 },
    }
}

/// one call: which method, with which argument; `cur` are the object's current parameters
fn draw_call(r: &mut Rng, sp: &Spec, cur: &[Val]) -> (usize, Arg) {
    let ar = sp.kinds.len();
    let two_sided = sp.doms[0] == Dom::Lower;
    let k = if r.coin(0.45) { ar } else { r.below(ar as u64) as usize };
    let valid = r.coin(0.7);
    if k < ar {
        if two_sided {
            // a bound: valid = on the right side of the other bound
            let (lo, hi) = (cur[0], cur[1]);
            let v = match sp.kinds[k] {
                K::I => { let (lo, hi) = (lo.i(), hi.i());
                          let x = if (k == 0) == valid { lo.min(hi) - r.range(0, 9) as i128 } else { lo.max(hi) + r.range(if valid { 0 } else { 1 }, 9) as i128 };
                          let x = if !valid && k == 0 { hi + r.range(1, 9) as i128 } else if !valid { lo - r.range(1, 9) as i128 } else { x };
                          Val::I(x.clamp(i64::MIN as i128, i64::MAX as i128)) }
                _ => { let (lo, hi) = (lo.f(), hi.f());
                       let x = if k == 0 { if valid { hi - r.uniform(0.0, 7.0) * r.below(2) as f64 } else { hi + r.uniform(0.1, 7.0) } }
                               else if valid { lo + r.uniform(0.0, 7.0) * r.below(2) as f64 } else { lo - r.uniform(0.1, 7.0) };
                       Val::F(if r.coin(0.1) { value_for(r, Dom::Any, true) } else { x }) }
            };
            return (k, Arg::Set(v));
        }
        let v = match sp.kinds[k] { K::F => Val::F(value_for(r, sp.doms[k], valid)), kk => Val::I(int_for(r, kk, sp.doms[k], valid)) };
        return (k, Arg::Set(v));
    }
    // update(params): mostly the right length
    let mut v: Vec<f64> = vec![];
    if two_sided {
        let (lo, hi) = (cur[0].f(), cur[1].f());
        let w = if sp.kinds[0] == K::I { (r.range(0, 12)) as f64 } else { r.uniform(0.0, 12.0) * r.below(4).min(1) as f64 };
        let gap = if sp.kinds[0] == K::I { r.range(1, 20) as f64 } else { r.uniform(0.01, 20.0) };
        let (a, b) = match r.below(6) {
            0 => (hi + gap, hi + gap + w),                 // the whole interval moves above the old one
            1 => (lo - gap - w, lo - gap),                 // ... below
            2 => (lo - gap, hi + gap),                     // widen
            3 => { let m = (lo + hi) / 2.0; (m, m) }       // collapse
            4 => (value_for(r, Dom::Any, true), value_for(r, Dom::Any, true)),
            _ => (r.uniform(-30.0, 30.0), r.uniform(-30.0, 30.0)),
        };
        let (a, b) = if sp.kinds[0] == K::I && r.coin(0.8) { (a.floor(), b.floor()) } else { (a, b) };
        let (a, b) = if valid && a > b { (b, a) } else if !valid && a <= b { (b + gap, a) } else { (a, b) };
        v.push(a); v.push(b);
    } else {
        let bad = if valid { usize::MAX } else { r.below(ar as u64) as usize };
        for j in 0..ar { v.push(value_for(r, sp.doms[j], j != bad)); }
    }
    match r.below(14) { 0 => { v.pop(); } 1 => { v.push(1.0); } 2 => { v.clear(); } _ => {} }
    (k, Arg::Update(v))
}

fn draw_initial(r: &mut Rng, sp: &Spec, valid: bool) -> Vec<Val> {
    let ar = sp.kinds.len();
    let bad = if valid { usize::MAX } else { r.below(ar as u64) as usize };
    let mut p: Vec<Val> = (0..ar).map(|j| match sp.kinds[j] {
        K::F => Val::F(value_for(r, sp.doms[j], j != bad)),
        k => Val::I(int_for(r, k, sp.doms[j], j != bad)) }).collect();
    if sp.doms[0] == Dom::Lower {
        let sw = match (p[0], p[1]) { (Val::I(a), Val::I(b)) => a > b, (a, b) => a.f() > b.f() };
        if sw == valid { p.swap(0, 1); }
        if !valid && p[0].same(&p[1]) { p[0] = match p[0] { Val::I(a) => Val::I((a + 1).min(i64::MAX as i128)), Val::F(a) => Val::F(a + 1.0) }; }
    }
    p
}

/// the parameter vector a call asks for (Rust's own `as` casts for update), None when the slice is too short
fn target_of(sp: &Spec, cur: &[Val], k: usize, a: &Arg) -> Option<Vec<Val>> {
    match a {
        Arg::Set(v) => { let mut t = cur.to_vec(); t[k] = *v; Some(t) }
        Arg::Update(v) => {
            if v.len() < sp.kinds.len() { return None; }
            Some(sp.kinds.iter().enumerate().map(|(j, kk)| match kk { K::F => Val::F(v[j]), K::U => Val::I((v[j] as u64) as i128), K::I => Val::I((v[j] as i64) as i128) }).collect())
        }
    }
}

fn zs_fs(vals: &[Val]) -> (Tm, Tm) {
    let zs: Vec<Tm> = vals.iter().filter_map(|v| if let Val::I(n) = v { Some(Tm::Raw(if *n < 0 { format!("({})%Z", n) } else { format!("{}%Z", n) })) } else { None }).collect();
    let fs: Vec<Tm> = vals.iter().filter_map(|v| if let Val::F(x) = v { Some(Tm::F(*x)) } else { None }).collect();
    (Tm::L(zs), Tm::L(fs))
}

/// object == fresh twin built from the object's own parameters?  (None: the constructor refuses them)
fn twin_equal(id: usize, sp: &Spec, o: &Obj, seed: u64, with_draws: bool) -> Option<(bool, String)> {
    let p = o.params(sp);
    let twin = match construct(id, &p) { Ok(t) => t, Err(_) => return None };
    if o.debug() != twin.debug() { return Some((false, format!("state {} but a fresh object is {}", o.debug(), twin.debug()))); }
    let (lo, lt) = (o.look(), twin.look());
    if lo != lt { return Some((false, format!("pdf/pmf/mean/var bits differ from the fresh twin at parameters {}", show_vals(&p)))); }
    if with_draws && sample_safe(id, &p) {
        let a = o.draws(seed, 12);
        // other live objects, constructed in between, must not matter; nor must a second run from the same seed
        let _others: Vec<Obj> = (0..13).filter_map(|j| construct(j, &default_params(j)).ok()).collect();
        let b = twin.draws(seed, 12);
        if a != b { return Some((false, format!("the first 12 draws after set_seed({}) differ from the fresh twin at parameters {}", seed, show_vals(&p)))); }
    }
    Some((true, String::new()))
}
fn default_params(id: usize) -> Vec<Val> {
    match id { 0 => vec![Val::F(0.5)], 2 => vec![Val::I(3), Val::F(0.5)], 3 => vec![Val::I(2)], 4 => vec![Val::I(0), Val::I(3)],
               5 | 10 | 11 => vec![Val::F(1.5)], 8 | 7 => vec![Val::F(0.0), Val::F(1.0)], 12 => vec![Val::F(0.0), Val::F(1.0)], _ => vec![Val::F(1.5), Val::F(2.0)] }
}

// ------------------------------------------------------------------------------------------------ gen
pub fn gen(tier: &str, seed: u64, outdir: &str) {
    let mut r = Rng::new(seed ^ 0xC18);
    let mut cs = Cases::new("C18");
    let thorough = tier == "thorough";
    let per_dist = if thorough { 1500 } else { 60 };
    for id in 0..13 {
        let sp = &SPECS[id];
        for h in 0..per_dist {
            let valid0 = h % 10 != 9;
            let mut p0 = draw_initial(&mut r, sp, valid0);
            // NaN parameters: only in the correspondence stream (the property does not say whether NaN is "invalid";
            // the model must still do what the code does: `x <= 0.` lets NaN through, `assert!(x > 0.)` and `contains` do not)
            if h % 20 == 13 { let j = r.below(p0.len() as u64) as usize; if let Val::F(_) = p0[j] { p0[j] = Val::F(f64::NAN); } }
            let (zs, fs) = zs_fs(&p0);
            let mut o = match construct(id, &p0) {
                Err(_) => { cs.push(app("CHist", vec![Tm::Nat(id as u64), zs, fs, Tm::Raw("Panic".into()), Tm::L(vec![])]), &format!("{}/new-panics", sp.name), false); continue; }
                Ok(o) => o,
            };
            let (ezs, efs) = zs_fs(&o.flat());
            let e0 = app("Val", vec![Tm::Tup(vec![ezs, efs])]);
            let len = 1 + r.below(20) as usize;
            let mut steps = vec![]; let mut changes = 0; let mut panics = 0;
            for _ in 0..len {
                let cur = o.params(sp);
                let (k, mut a) = draw_call(&mut r, sp, &cur);
                if r.coin(0.04) {
                    match &mut a { Arg::Set(Val::F(x)) => *x = f64::NAN,
                                   Arg::Update(v) if !v.is_empty() => { let j = r.below(v.len() as u64) as usize; v[j] = f64::NAN; }
                                   _ => {} }
                }
                let before = o.debug();
                let res = o.call(k, &a);
                if o.debug() != before { changes += 1; }
                if res.is_err() { panics += 1; }
                let mname = if k == sp.kinds.len() { "update".to_string() } else { format!("set_{}", sp.names[k]) };
                *cs.tags.entry(format!("call/{}::{}/{}", sp.name, mname, if res.is_ok() { "returns" } else if o.debug() != before { "panics-after-partial-update" } else { "panics" })).or_insert(0) += 1;
                let tw = twin_equal(id, sp, &o, seed.wrapping_add(steps.len() as u64), true).map(|x| x.0).unwrap_or(false);
                let (azs, afs) = match &a { Arg::Set(v) => zs_fs(&[*v]), Arg::Update(v) => (Tm::L(vec![]), fl(v)) };
                let (szs, sfs) = zs_fs(&o.flat());
                steps.push(Tm::Tup(vec![Tm::Nat(k as u64), azs, afs, Tm::Tup(vec![Tm::B(res.is_ok()), Tm::B(tw), szs, sfs])]));
            }
            let tag = format!("{}/len{}{}", sp.name, if len <= 5 { "1-5" } else if len <= 12 { "6-12" } else { "13-20" }, if panics > 0 { "+panics" } else { "" });
            cs.push(app("CHist", vec![Tm::Nat(id as u64), zs, fs, e0, Tm::L(steps)]), &tag, changes >= 2);
        }
    }
    cs.write(outdir, if thorough { 450 } else { 400 }, "a history with at least two calls that changed the object's state");
}

// ------------------------------------------------------------------------------------------------ oracle
/// the breadcrumb keeps 2047 bytes: for a long history keep its beginning and its end (the call about to run)
fn crumb_text(h: &str) -> String {
    if h.len() <= 2000 { return h.to_string(); }
    let a = (0..=500).rev().find(|i| h.is_char_boundary(*i)).unwrap_or(0);
    let b = (h.len() - 1400..h.len()).find(|i| h.is_char_boundary(*i)).unwrap_or(h.len());
    format!("{} ... {}", &h[..a], &h[b..])
}
pub fn oracle(tier: &str, seed: u64) -> (u64, Vec<Finding>) {
    let mut out: Vec<Finding> = vec![]; let mut tried = 0u64;
    let nseeds = if tier == "thorough" { 400 } else { 50 };
    for id in 0..13 {
        let sp = &SPECS[id];
        for s in 0..nseeds {
            let mut r = Rng::new(seed ^ 0x18_0000 ^ ((id as u64) << 32) ^ s);
            let p0 = draw_initial(&mut r, sp, s % 8 != 7);
            let mut hist = format!("{}::new({})", sp.name, show_vals(&p0));
            tried += 1;
            crumb(&hist);
            let mut o = match construct(id, &p0) {
                Ok(o) => { if !in_domain(sp, &p0) { out.push(Finding { class: format!("constructor-accepts-out-of-domain:{}", sp.name), what: "the constructor returned an object for parameters outside the documented domain".into(), input: hist.clone() }); } o }
                Err(e) => { if in_domain(sp, &p0) { out.push(Finding { class: format!("constructor-rejects-valid:{}", sp.name), what: format!("the constructor panicked ({}) on parameters inside the documented domain", e), input: hist.clone() }); } continue; }
            };
            let len = 1 + r.below(20) as usize;
            for step in 0..len {
                let cur = o.params(sp);
                let (k, a) = draw_call(&mut r, sp, &cur);
                let mname = if k == sp.kinds.len() { "update".to_string() } else { format!("set_{}", sp.names[k]) };
                hist.push_str(&match &a { Arg::Set(v) => format!("; {}({})", mname, v.show()), Arg::Update(v) => format!("; update({})", json_floats(v).replace('"', "")) });
                let before = o.debug();
                crumb(&crumb_text(&hist));
                let res = o.call(k, &a);
                tried += 1;
                let target = target_of(sp, &cur, k, &a);
                let wf = match &a { Arg::Update(v) => v.len() == sp.kinds.len(), _ => true };
                // validity of the request: the constructor's verdict, cross-checked with the documented domain
                let verdict = target.as_ref().map(|t| (construct(id, t).is_ok(), in_domain(sp, t)));
                match (verdict, &res) {
                    (Some((true, true)), Err(e)) if wf =>
                        out.push(Finding { class: format!("valid-request-rejected:{}::{}", sp.name, mname), what: format!("the call panicked ({}) although {}::new accepts the requested parameters {} (current parameters {})", e, sp.name, show_vals(target.as_ref().unwrap()), show_vals(&cur)), input: hist.clone() }),
                    (Some((true, true)), Ok(())) => {
                        if !same_vals(&o.params(sp), target.as_ref().unwrap()) {
                            out.push(Finding { class: format!("request-not-applied:{}::{}", sp.name, mname), what: format!("after the call the parameters are {}, requested {}", show_vals(&o.params(sp)), show_vals(target.as_ref().unwrap())), input: hist.clone() }); }
                    }
                    (Some((false, false)), Ok(())) | (None, Ok(())) =>
                        out.push(Finding { class: format!("invalid-request-accepted:{}::{}", sp.name, mname), what: format!("the call returned although the requested parameters {:?} are refused by the constructor / the slice is too short", target.as_ref().map(|t| show_vals(t))), input: hist.clone() }),
                    (Some((a_, b_)), _) if a_ != b_ =>
                        out.push(Finding { class: format!("constructor-vs-documented-domain:{}", sp.name), what: format!("{}::new {} parameters {} that the documented domain {}", sp.name, if a_ { "accepts" } else { "rejects" }, show_vals(target.as_ref().unwrap()), if b_ { "contains" } else { "excludes" }), input: hist.clone() }),
                    _ => {}
                }
                if res.is_err() && k < sp.kinds.len() && o.debug() != before {
                    out.push(Finding { class: format!("rejected-setter-mutated-object:{}::{}", sp.name, mname), what: format!("the setter panicked but the object changed from {} to {}", before, o.debug()), input: hist.clone() });
                }
                match twin_equal(id, sp, &o, seed.wrapping_mul(31).wrapping_add(step as u64), true) {
                    None => out.push(Finding { class: format!("object-holds-refused-parameters:{}", sp.name), what: format!("the object is {} but {}::new panics on these parameters", o.debug(), sp.name), input: hist.clone() }),
                    Some((false, why)) => { out.push(Finding { class: format!("differs-from-fresh-twin:{}", sp.name), what: why, input: hist.clone() }); }
                    Some((true, _)) => {}
                }
                // reproducibility of the seeded stream on the object itself
                let p = o.params(sp);
                if step == len - 1 && sample_safe(id, &p) {
                    let a1 = o.draws(seed ^ 77, 8); let a2 = o.draws(seed ^ 77, 8);
                    if a1 != a2 { out.push(Finding { class: format!("sampling-not-reproducible:{}", sp.name), what: "two runs of 8 draws from the same seed differ".into(), input: hist.clone() }); }
                    // ... and of BULK draws of every size (small, and beyond any internal batching threshold): the same seed gives the same stream
                    // whether the draws are requested one at a time or in bulk
                    if s < 2 && bulk_safe(id, &p) {
                        for nb in [7usize, 1000, 40_000] {
                            let inp = format!("{}; alea::set_seed({}); sample_n({})", hist, seed ^ 91, nb);
                            crumb(&crumb_text(&inp)); tried += 1;
                            alea::set_seed(seed ^ 91);
                            let bulk: Result<Vec<u64>, String> = catch(|| each!(&o, d => d.sample_n(nb)).iter().map(|x| bits(Ok(*x))).collect());
                            let single = o.draws(seed ^ 91, nb);
                            match bulk {
                                Err(e) => out.push(Finding { class: format!("bulk-sampling-panics:{}", sp.name), what: e, input: inp }),
                                Ok(b) => if b != single {
                                    let k = (0..nb).find(|&k| b.get(k) != single.get(k)).unwrap_or(0);
                                    out.push(Finding { class: format!("bulk-draws-differ-from-single-draws:{}", sp.name), what: format!("from the same seed, sample_n({}) and {} successive sample() calls differ (first at draw {}; lengths {} / {})", nb, nb, k, b.len(), single.len()), input: inp });
                                }
                            }
                        }
                    }
                }
            }
            // keep at most three findings per class
            let mut seen: std::collections::HashMap<String, u32> = std::collections::HashMap::new();
            out.retain(|f| { let c = seen.entry(f.class.clone()).or_insert(0); *c += 1; *c <= 3 });
        }
    }
    (tried, out)
}
