//! C04 — element-wise arithmetic, maps, reductions: case generation for the Coq correspondence and the
//! failure-search oracle.
#![allow(clippy::needless_range_loop)]
use crate::util::*;
use compute::linalg::{dot, inf_norm, logmeanexp, logsumexp, norm, prod, sum, Matrix, Vector};
use compute::statistics::max;

// ---------------------------------------------------------------------------------------------
// values
const SPECIALS: [f64; 14] = [0.0, -0.0, f64::INFINITY, f64::NEG_INFINITY, f64::NAN, 5e-324, -5e-324, 2.2250738585072014e-308,
    1.7976931348623157e308, -1.7976931348623157e308, 1.0, -1.0, 1e-300, 4.4501477170144023e-308];

#[derive(Clone, Copy, PartialEq)]
enum Mode { Reals, Special, Ints, Unit, Pos }

fn val(r: &mut Rng, m: Mode) -> f64 {
    match m {
        Mode::Reals => { let e = r.range(-6, 6) as i32; r.uniform(-4.0, 4.0) * 2f64.powi(e) }
        Mode::Special => if r.coin(0.3) { *r.pick(&SPECIALS) } else if r.coin(0.2) { f64::from_bits(r.next()) } else { r.uniform(-3.0, 3.0) },
        Mode::Ints => r.small_int(9),
        Mode::Unit => r.uniform(-1.0, 1.0),
        Mode::Pos => r.uniform(0.01, 6.0),
    }
}
fn vals(r: &mut Rng, n: usize, m: Mode) -> Vec<f64> { (0..n).map(|_| val(r, m)).collect() }
fn has_special(v: &[f64]) -> bool { v.iter().any(|x| !x.is_finite() || *x == 0.0 || x.abs() < 2.3e-308) }
fn nontrivial(n: usize, vs: &[&[f64]]) -> bool { (n >= 9 && n % 8 != 0) || vs.iter().any(|v| has_special(v)) }

fn mat_out(m: &Matrix) -> Vec<f64> {
    let mut v = vec![m.nrows as f64, m.ncols as f64];
    v.extend_from_slice(&m.data);
    v
}
fn mat_tm(r: usize, c: usize, d: &[f64]) -> Tm { app("mkmat", vec![Tm::Nat(r as u64), Tm::Nat(c as u64), fl(d)]) }
fn raw(s: &str) -> Tm { Tm::Raw(s.into()) }
/// a Matrix with the given fields, bypassing `Matrix::new` (the fields are public)
fn mk(r: usize, c: usize, d: &[f64]) -> Matrix { Matrix { data: Vector::new(d.to_vec()), nrows: r, ncols: c } }

macro_rules! binop { ($t:expr, $a:expr, $b:expr) => { match $t { 0 => $a + $b, 1 => $a - $b, 2 => $a * $b, _ => $a / $b } } }
macro_rules! asgop { ($t:expr, $a:expr, $b:expr) => { match $t { 0 => $a += $b, 1 => $a -= $b, 2 => $a *= $b, _ => $a /= $b } } }

const TRAITS: [&str; 4] = ["TAdd", "TSub", "TMul", "TDiv"];
const ATRAITS: [&str; 4] = ["TAddAssign", "TSubAssign", "TMulAssign", "TDivAssign"];
const TOKS: [&str; 4] = ["VAdd", "VSub", "VMul", "VDiv"];

/// Vector op Vector, the four ownership forms
fn vec_vec(t: usize, form: usize, a: &[f64], b: &[f64]) -> Result<Vec<f64>, String> {
    let (x, y) = (Vector::new(a.to_vec()), Vector::new(b.to_vec()));
    catch(move || { let r: Vector = match form { 0 => binop!(t, x, y), 1 => binop!(t, &x, &y), 2 => binop!(t, x, &y), _ => binop!(t, &x, y) }; r.v })
}
const VV_FORMS: [(&str, &str); 4] = [("TyVector", "TyVector"), ("TyRefVector", "TyRefVector"), ("TyVector", "TyRefVector"), ("TyRefVector", "TyVector")];
/// Vector op= Vector: (owned, borrowed); the borrowed form also returns the borrowed operand afterwards
fn vec_vec_assign(t: usize, form: usize, a: &[f64], b: &[f64]) -> Result<Vec<f64>, String> {
    let (mut x, y) = (Vector::new(a.to_vec()), Vector::new(b.to_vec()));
    catch(move || { if form == 0 { asgop!(t, x, y); x.v } else { asgop!(t, x, &y); let mut o = x.v; o.extend_from_slice(&y.v); o } })
}
/// Vector op f64 / f64 op Vector: forms (V,f) (&V,f) (f,V) (f,&V)
fn vec_scalar(t: usize, form: usize, a: &[f64], s: f64) -> Result<Vec<f64>, String> {
    let x = Vector::new(a.to_vec());
    catch(move || { let r: Vector = match form { 0 => binop!(t, x, s), 1 => binop!(t, &x, s), 2 => binop!(t, s, x), _ => binop!(t, s, &x) }; r.v })
}
const VS_FORMS: [(&str, &str); 4] = [("TyVector", "TyF64"), ("TyRefVector", "TyF64"), ("TyF64", "TyVector"), ("TyF64", "TyRefVector")];
fn vec_scalar_assign(t: usize, a: &[f64], s: f64) -> Result<Vec<f64>, String> {
    let mut x = Vector::new(a.to_vec());
    catch(move || { asgop!(t, x, s); x.v })
}
/// Matrix op f64 / f64 op Matrix: forms (M,f) (&M,f) (f,M) (f,&M)
fn mat_scalar(t: usize, form: usize, m: &Matrix, s: f64) -> Result<Vec<f64>, String> {
    let x = m.clone();
    catch(move || { let r: Matrix = match form { 0 => binop!(t, x, s), 1 => binop!(t, &x, s), 2 => binop!(t, s, x), _ => binop!(t, s, &x) }; mat_out(&r) })
}
const MS_FORMS: [(&str, &str); 4] = [("TyMatrix", "TyF64"), ("TyRefMatrix", "TyF64"), ("TyF64", "TyMatrix"), ("TyF64", "TyRefMatrix")];
fn mat_scalar_assign(t: usize, m: &Matrix, s: f64) -> Result<Vec<f64>, String> {
    let mut x = m.clone();
    catch(move || { asgop!(t, x, s); mat_out(&x) })
}
fn mat_mat_assign(t: usize, form: usize, m1: &Matrix, m2: &Matrix) -> Result<Vec<f64>, String> {
    let (mut x, y) = (m1.clone(), m2.clone());
    catch(move || { if form == 0 { asgop!(t, x, y); mat_out(&x) } else { asgop!(t, x, &y); let mut o = mat_out(&x); o.extend(mat_out(&y)); o } })
}
fn mat_mat(t: usize, form: usize, m1: &Matrix, m2: &Matrix) -> Result<Vec<f64>, String> {
    let (x, y) = (m1.clone(), m2.clone());
    catch(move || { let r: Matrix = match form { 0 => binop!(t, x, y), 1 => binop!(t, &x, &y), 2 => binop!(t, x, &y), _ => binop!(t, &x, y) }; mat_out(&r) })
}

// ---------------------------------------------------------------------------------------------
// the 29 maps: Coq constructor, Vector method, Matrix method, scalar method, input mode, and the name under which
// the SCALAR method's values enter the table the Coq model reads (None: the model computes the map with IEEE operations)
type VM = fn(&Vector) -> Vector;
type MM = fn(&Matrix) -> Matrix;
type SM = fn(f64) -> f64;
type MapRow = (&'static str, VM, MM, SM, Mode, Option<&'static str>);
macro_rules! maps { ($(($c:literal, $m:ident, $mode:expr, $t:expr)),* $(,)?) => { [ $( ($c, (|v: &Vector| v.$m()) as VM, (|m: &Matrix| m.$m()) as MM, (|x: f64| x.$m()) as SM, $mode, $t) ),* ] } }
fn all_maps() -> [MapRow; 29] {
    maps![("ULn", ln, Mode::Pos, Some("Ln")), ("ULn1p", ln_1p, Mode::Pos, Some("Ln1p")), ("ULog10", log10, Mode::Pos, Some("Log10")), ("ULog2", log2, Mode::Pos, Some("Log2")),
          ("UExp", exp, Mode::Reals, Some("Exp")), ("UExp2", exp2, Mode::Reals, Some("Exp2")), ("UExpm1", exp_m1, Mode::Reals, Some("Expm1")),
          ("USin", sin, Mode::Reals, Some("Sin")), ("UCos", cos, Mode::Reals, Some("Cos")), ("UTan", tan, Mode::Reals, Some("Tan")),
          ("USinh", sinh, Mode::Reals, Some("Sinh")), ("UCosh", cosh, Mode::Reals, Some("Cosh")), ("UTanh", tanh, Mode::Reals, Some("Tanh")),
          ("UAsin", asin, Mode::Unit, Some("Asin")), ("UAcos", acos, Mode::Unit, Some("Acos")), ("UAtan", atan, Mode::Reals, Some("Atan")),
          ("UAsinh", asinh, Mode::Reals, Some("Asinh")), ("UAcosh", acosh, Mode::Pos, Some("Acosh")), ("UAtanh", atanh, Mode::Unit, Some("Atanh")),
          ("USqrt", sqrt, Mode::Pos, None), ("UCbrt", cbrt, Mode::Reals, Some("Cbrt")), ("UAbs", abs, Mode::Reals, None),
          ("UFloor", floor, Mode::Reals, Some("Floor")), ("UCeil", ceil, Mode::Reals, Some("Ceil")),
          ("UToRadians", to_radians, Mode::Reals, None), ("UToDegrees", to_degrees, Mode::Reals, None),
          ("URecip", recip, Mode::Reals, None), ("URound", round, Mode::Reals, Some("Round")), ("USignum", signum, Mode::Reals, None)]
}
/// the table of the SCALAR f64 method on the elements (the claim is kernel-vs-scalar): (name, x, x.method())
fn scalar_table(f: SM, name: Option<&'static str>, v: &[f64]) -> crate::libm::Table {
    let mut t = crate::libm::Table::default();
    if let Some(nm) = name {
        for x in v {
            let x = std::hint::black_box(*x);
            if !t.t1.iter().any(|e| e.1.to_bits() == x.to_bits() || (e.1.is_nan() && x.is_nan())) { t.t1.push((nm, x, std::hint::black_box(f(x)))); }
        }
    }
    t
}

fn lengths(thorough: bool, dense_to: usize, r: &mut Rng) -> Vec<usize> {
    let mut l: Vec<usize> = (0..=dense_to).collect();
    for x in [24usize, 31, 32, 33, 39, 40] { if x > dense_to { l.push(x); } }
    if thorough { for _ in 0..6 { l.push(41 + r.below(400) as usize); } }
    l
}
/// shapes r x c with r*c = n (n >= 1): 1 x n, n x 1 and one proper factorisation when there is one
fn shapes_of(n: usize) -> Vec<(usize, usize)> {
    let mut s = vec![(1, n)];
    if n > 1 { s.push((n, 1)); }
    for d in 2..n { if n % d == 0 { s.push((d, n / d)); break; } }
    s
}

const REDS: [&str; 6] = ["RSum", "RProd", "RNorm", "RMax", "RLogsumexp", "RLogmeanexp"];
fn run_red(k: usize, form: usize, v: &[f64]) -> Result<Vec<f64>, String> {
    let x = v.to_vec();
    catch(move || vec![match form {
        0 => match k { 0 => sum(&x), 1 => prod(&x), 2 => norm(&x), 3 => max(&x), 4 => logsumexp(&x), _ => logmeanexp(&x) },
        1 => { let w = Vector::new(x); match k { 0 => w.sum(), 1 => w.prod(), 2 => w.norm(), 3 => w.max(), 4 => w.logsumexp(), _ => w.logmeanexp() } }
        _ => { let n = x.len(); let w = mk(1, n, &x); match k { 0 => w.sum(), 1 => w.prod(), 2 => w.norm(), _ => w.max() } }
    }])
}

fn lq(q: &mut Vec<(Tm, String)>, t: Tm, tag: &str, _nt: bool) { q.push((t, tag.to_string())); }
fn spread(cs: &mut Cases, q: &mut Vec<(Tm, String)>, tick: &mut usize) { *tick += 1; if *tick % 12 == 0 { if let Some((t, tag)) = q.pop() { cs.push(t, &tag, true); } } }

pub fn gen(tier: &str, seed: u64, outdir: &str) {
    let mut r = Rng::new(seed);
    let mut cs = Cases::new("C04");
    let thorough = tier == "thorough";
    let modes = [Mode::Reals, Mode::Special, Mode::Ints];

    let mut long: Vec<(Tm, String)> = vec![];
    let maps = all_maps();
    // 0. long vectors (thorough): random lengths up to 1e4 through a sample of forms; queued and spread over the shards
    if thorough {
        for it in 0..60 {
            let n = 41 + r.below(if it % 12 == 0 { 10_000 } else { 900 }) as usize;
            let t = it % 4;
            let (a, b) = (vals(&mut r, n, Mode::Reals), vals(&mut r, n, Mode::Reals));
            let s = val(&mut r, Mode::Reals);
            let f = r.below(4) as usize;
            let res = vec_vec(t, f, &a, &b);
            lq(&mut long, app("CVecOp", vec![raw(TRAITS[t]), raw(VV_FORMS[f].0), raw(VV_FORMS[f].1), app("OVec", vec![fl(&a)]), app("OVec", vec![fl(&b)]), outcome_list(&res)]), "long/vec-op-vec", true);
            let res = vec_scalar(t, f, &a, s);
            let (sf, of) = if f < 2 { (app("OVec", vec![fl(&a)]), app("OSc", vec![Tm::F(s)])) } else { (app("OSc", vec![Tm::F(s)]), app("OVec", vec![fl(&a)])) };
            lq(&mut long, app("CVecOp", vec![raw(TRAITS[t]), raw(VS_FORMS[f].0), raw(VS_FORMS[f].1), sf, of, outcome_list(&res)]), "long/vec-scalar", true);
            let x = Vector::new(a.clone());
            let e = *r.pick(&[2, 3, 4, -1]);
            let res = catch(move || x.powi(e).v);
            lq(&mut long, app("CVecPowi", vec![fl(&a), Tm::Z(e as i64), outcome_list(&res)]), "long/powi", true);
            let res = run_red(0, 0, &a);
            lq(&mut long, app("CRed", vec![raw("RSum"), Tm::Nat(0), fl(&a), libm_table(&crate::libm::Table::default()), outcome_list(&res)]), "long/sum", true);
            let (x, y) = (a.clone(), b.clone());
            let res = catch(move || vec![dot(&x, &y)]);
            lq(&mut long, app("CDot", vec![fl(&a), fl(&b), outcome_list(&res)]), "long/dot", true);
            if n <= 1500 {
                let (name, vm, _, sm, mode, tn) = maps[it % 29];
                let a = vals(&mut r, n, mode);
                let tb = scalar_table(sm, tn, &a);
                let x = Vector::new(a.clone());
                let res = catch(|| vm(&x).v);
                lq(&mut long, app("CVecMap", vec![raw(name), fl(&a), libm_table(&tb), outcome_list(&res)]), "long/map", true);
            }
        }
    }
    let mut tick = 0usize;
    // 1. Vector operator rows: every length 0..=40 x 4 operators x every form (thorough: once per value mode)
    let reps = if thorough { 3 } else { 1 };
    for rep in 0..reps { for &n in &lengths(thorough, 40, &mut r) { for t in 0..4 {
        spread(&mut cs, &mut long, &mut tick);
        let md = modes[(n + t + rep) % 3];
        let (a, b) = (vals(&mut r, n, md), vals(&mut r, n, md));
        let s = val(&mut r, md);
        let nt = nontrivial(n, &[&a, &b]);
        for f in 0..4 {
            let res = vec_vec(t, f, &a, &b);
            cs.push(app("CVecOp", vec![raw(TRAITS[t]), raw(VV_FORMS[f].0), raw(VV_FORMS[f].1), app("OVec", vec![fl(&a)]), app("OVec", vec![fl(&b)]), outcome_list(&res)]), "vec-op-vec", nt);
            let res = vec_scalar(t, f, &a, s);
            let (sf, of) = if f < 2 { (app("OVec", vec![fl(&a)]), app("OSc", vec![Tm::F(s)])) } else { (app("OSc", vec![Tm::F(s)]), app("OVec", vec![fl(&a)])) };
            cs.push(app("CVecOp", vec![raw(TRAITS[t]), raw(VS_FORMS[f].0), raw(VS_FORMS[f].1), sf, of, outcome_list(&res)]), if f < 2 { "vec-op-scalar" } else { "scalar-op-vec" }, nt);
        }
        for f in 0..2 {
            let res = vec_vec_assign(t, f, &a, &b);
            cs.push(app("CVecOp", vec![raw(ATRAITS[t]), raw("TyVector"), raw(if f == 0 { "TyVector" } else { "TyRefVector" }), app("OVec", vec![fl(&a)]), app("OVec", vec![fl(&b)]), outcome_list(&res)]), "vec-assign-vec", nt);
        }
        let res = vec_scalar_assign(t, &a, s);
        cs.push(app("CVecOp", vec![raw(ATRAITS[t]), raw("TyVector"), raw("TyF64"), app("OVec", vec![fl(&a)]), app("OSc", vec![Tm::F(s)]), outcome_list(&res)]), "vec-assign-scalar", nt);
        // length mismatch: must panic
        if n % 3 == 0 || thorough {
            let k = n + 1 + r.below(9) as usize; let b2 = vals(&mut r, k, Mode::Ints);
            let (a2, b2) = if r.coin(0.5) { (a.clone(), b2) } else { (b2, a.clone()) };
            let f = r.below(4) as usize;
            let res = vec_vec(t, f, &a2, &b2);
            cs.push(app("CVecOp", vec![raw(TRAITS[t]), raw(VV_FORMS[f].0), raw(VV_FORMS[f].1), app("OVec", vec![fl(&a2)]), app("OVec", vec![fl(&b2)]), outcome_list(&res)]), "malformed/vec-length-mismatch", res.is_err());
            let f = r.below(2) as usize;
            let res = vec_vec_assign(t, f, &a2, &b2);
            cs.push(app("CVecOp", vec![raw(ATRAITS[t]), raw("TyVector"), raw(if f == 0 { "TyVector" } else { "TyRefVector" }), app("OVec", vec![fl(&a2)]), app("OVec", vec![fl(&b2)]), outcome_list(&res)]), "malformed/vec-length-mismatch", res.is_err());
        }
    }}}
    // 2. Matrix rows: sizes 1..=40 (every residue), a few shapes per size
    let msizes: Vec<usize> = if thorough { (1..=40).collect() } else { (1..=18).chain([24, 31, 32, 33, 40]).collect() };
    for rep in 0..reps { for &n in &msizes { for (si, &(rr, cc)) in shapes_of(n).iter().enumerate() { for t in 0..4 {
        if !thorough && si > 0 && (n + t) % 2 == 0 { continue; }
        spread(&mut cs, &mut long, &mut tick);
        let md = modes[(n + t + si + rep) % 3];
        let (a, b) = (vals(&mut r, n, md), vals(&mut r, n, md));
        let s = val(&mut r, md);
        let nt = nontrivial(n, &[&a, &b]);
        let (m1, m2) = (mk(rr, cc, &a), mk(rr, cc, &b));
        for f in 0..4 {
            let res = mat_scalar(t, f, &m1, s);
            let (sf, of) = if f < 2 { (app("MMat", vec![mat_tm(rr, cc, &a)]), app("MSc", vec![Tm::F(s)])) } else { (app("MSc", vec![Tm::F(s)]), app("MMat", vec![mat_tm(rr, cc, &a)])) };
            cs.push(app("CMatOp", vec![raw(TRAITS[t]), raw(MS_FORMS[f].0), raw(MS_FORMS[f].1), sf, of, outcome_list(&res)]), if f < 2 { "mat-op-scalar" } else { "scalar-op-mat" }, nt);
            let res = mat_mat(t, f, &m1, &m2);
            cs.push(app("CMatBin", vec![raw(TOKS[t]), Tm::Nat(f as u64), mat_tm(rr, cc, &a), mat_tm(rr, cc, &b), outcome_list(&res)]), "mat-op-mat", nt);
        }
        for f in 0..2 {
            let res = mat_mat_assign(t, f, &m1, &m2);
            cs.push(app("CMatOp", vec![raw(ATRAITS[t]), raw("TyMatrix"), raw(if f == 0 { "TyMatrix" } else { "TyRefMatrix" }), app("MMat", vec![mat_tm(rr, cc, &a)]), app("MMat", vec![mat_tm(rr, cc, &b)]), outcome_list(&res)]), "mat-assign-mat", nt);
        }
        let res = mat_scalar_assign(t, &m1, s);
        cs.push(app("CMatOp", vec![raw(ATRAITS[t]), raw("TyMatrix"), raw("TyF64"), app("MMat", vec![mat_tm(rr, cc, &a)]), app("MSc", vec![Tm::F(s)]), outcome_list(&res)]), "mat-assign-scalar", nt);
        // shape mismatch: same size but transposed shape (assign must panic; Matrix op Matrix broadcasts or panics), or another size
        if (rr != cc && (n % 2 == 0 || thorough)) || n % 5 == 0 {
            let (r2, c2, b2) = if rr != cc && r.coin(0.6) { (cc, rr, b.clone()) } else { let k = n + 1 + r.below(4) as usize; (1, k, vals(&mut r, k, Mode::Ints)) };
            let m3 = mk(r2, c2, &b2);
            let f = r.below(2) as usize;
            let res = mat_mat_assign(t, f, &m1, &m3);
            cs.push(app("CMatOp", vec![raw(ATRAITS[t]), raw("TyMatrix"), raw(if f == 0 { "TyMatrix" } else { "TyRefMatrix" }), app("MMat", vec![mat_tm(rr, cc, &a)]), app("MMat", vec![mat_tm(r2, c2, &b2)]), outcome_list(&res)]), "malformed/mat-shape-mismatch", res.is_err());
            let f = r.below(4) as usize;
            let res = mat_mat(t, f, &m1, &m3);
            cs.push(app("CMatBin", vec![raw(TOKS[t]), Tm::Nat(f as u64), mat_tm(rr, cc, &a), mat_tm(r2, c2, &b2), outcome_list(&res)]), "malformed/mat-shape-mismatch", res.is_err());
        }
    }}}}
    // 2b. the empty Matrix (0 x 0, as built by Matrix::empty()): every form
    for t in 0..4 {
        let e: Vec<f64> = vec![];
        let (m1, m2) = (mk(0, 0, &e), mk(0, 0, &e));
        for f in 0..4 {
            let res = mat_scalar(t, f, &m1, 2.0);
            let (sf, of) = if f < 2 { (app("MMat", vec![mat_tm(0, 0, &e)]), app("MSc", vec![Tm::F(2.0)])) } else { (app("MSc", vec![Tm::F(2.0)]), app("MMat", vec![mat_tm(0, 0, &e)])) };
            cs.push(app("CMatOp", vec![raw(TRAITS[t]), raw(MS_FORMS[f].0), raw(MS_FORMS[f].1), sf, of, outcome_list(&res)]), "empty-matrix", true);
            let res = mat_mat(t, f, &m1, &m2);
            cs.push(app("CMatBin", vec![raw(TOKS[t]), Tm::Nat(f as u64), mat_tm(0, 0, &e), mat_tm(0, 0, &e), outcome_list(&res)]), "empty-matrix", true);
        }
        for f in 0..2 {
            let res = mat_mat_assign(t, f, &m1, &m2);
            cs.push(app("CMatOp", vec![raw(ATRAITS[t]), raw("TyMatrix"), raw(if f == 0 { "TyMatrix" } else { "TyRefMatrix" }), app("MMat", vec![mat_tm(0, 0, &e)]), app("MMat", vec![mat_tm(0, 0, &e)]), outcome_list(&res)]), "empty-matrix", true);
        }
        let res = mat_scalar_assign(t, &m1, 2.0);
        cs.push(app("CMatOp", vec![raw(ATRAITS[t]), raw("TyMatrix"), raw("TyF64"), app("MMat", vec![mat_tm(0, 0, &e)]), app("MSc", vec![Tm::F(2.0)]), outcome_list(&res)]), "empty-matrix", true);
    }
    { let e: Vec<f64> = vec![];
      let m = mk(0, 0, &e); let res = catch(move || mat_out(&(-m)));
      cs.push(app("CMatNeg", vec![mat_tm(0, 0, &e), outcome_list(&res)]), "empty-matrix", true);
      let m = mk(0, 0, &e); let res = catch(move || mat_out(&m.abs()));
      cs.push(app("CMatMap", vec![raw("UAbs"), mat_tm(0, 0, &e), libm_table(&crate::libm::Table::default()), outcome_list(&res)]), "empty-matrix", true);
      let m = mk(0, 0, &e); let res = catch(move || mat_out(&m.powi(2)));
      cs.push(app("CMatPowi", vec![mat_tm(0, 0, &e), Tm::Z(2), outcome_list(&res)]), "empty-matrix", true);
      // all 29 maps, more exponents, powf, Matrix::inf_norm, on Matrix::empty() itself
      for (name, _vm, mm, _sm, _mode, _tn) in maps.iter() {
          let m = Matrix::empty(); let res = catch(|| mat_out(&mm(&m)));
          cs.push(app("CMatMap", vec![raw(name), mat_tm(0, 0, &e), libm_table(&crate::libm::Table::default()), outcome_list(&res)]), "empty-matrix", true);
      }
      for &p in &[3i32, -1, 0, 7] {
          let m = Matrix::empty(); let res = catch(move || mat_out(&m.powi(p)));
          cs.push(app("CMatPowi", vec![mat_tm(0, 0, &e), Tm::Z(p as i64), outcome_list(&res)]), "empty-matrix", true);
      }
      let m = Matrix::empty(); let res = catch(move || mat_out(&m.powf(2.5)));
      cs.push(app("CMatPowf", vec![mat_tm(0, 0, &e), Tm::F(2.5), libm_table(&crate::libm::Table::default()), outcome_list(&res)]), "empty-matrix", true);
      let m = Matrix::empty(); let res = catch(move || vec![m.inf_norm()]);
      cs.push(app("CMatInfNorm", vec![mat_tm(0, 0, &e), outcome_list(&res)]), "empty-matrix", true);
      // 2c. degenerate shapes over no data (0 x c, r x 0: what reshape_mut(-1, c) / (r, -1) makes of the empty matrix;
      //     built here through the public fields): Matrix::new still refuses them, so the value forms panic
      for &(rr, cc) in &[(0usize, 3usize), (3, 0), (0, 1), (1, 0)] {
          for t in 0..4 { for f in 0..4 {
              let m1 = mk(rr, cc, &e);
              let res = mat_scalar(t, f, &m1, 2.0);
              let (sf, of) = if f < 2 { (app("MMat", vec![mat_tm(rr, cc, &e)]), app("MSc", vec![Tm::F(2.0)])) } else { (app("MSc", vec![Tm::F(2.0)]), app("MMat", vec![mat_tm(rr, cc, &e)])) };
              cs.push(app("CMatOp", vec![raw(TRAITS[t]), raw(MS_FORMS[f].0), raw(MS_FORMS[f].1), sf, of, outcome_list(&res)]), "malformed/degenerate-matrix", true);
              let res = mat_mat(t, f, &m1, &m1);
              cs.push(app("CMatBin", vec![raw(TOKS[t]), Tm::Nat(f as u64), mat_tm(rr, cc, &e), mat_tm(rr, cc, &e), outcome_list(&res)]), "malformed/degenerate-matrix", true);
              let m0 = mk(0, 0, &e);
              let res = mat_mat(t, f, &m1, &m0);
              cs.push(app("CMatBin", vec![raw(TOKS[t]), Tm::Nat(f as u64), mat_tm(rr, cc, &e), mat_tm(0, 0, &e), outcome_list(&res)]), "malformed/degenerate-matrix", true);
              let res = mat_mat(t, f, &m0, &m1);
              cs.push(app("CMatBin", vec![raw(TOKS[t]), Tm::Nat(f as u64), mat_tm(0, 0, &e), mat_tm(rr, cc, &e), outcome_list(&res)]), "malformed/degenerate-matrix", true);
          }
          let m1 = mk(rr, cc, &e);
          let res = mat_scalar_assign(t, &m1, 2.0);
          cs.push(app("CMatOp", vec![raw(ATRAITS[t]), raw("TyMatrix"), raw("TyF64"), app("MMat", vec![mat_tm(rr, cc, &e)]), app("MSc", vec![Tm::F(2.0)]), outcome_list(&res)]), "malformed/degenerate-matrix", true);
          }
          let m = mk(rr, cc, &e); let res = catch(move || mat_out(&(-m)));
          cs.push(app("CMatNeg", vec![mat_tm(rr, cc, &e), outcome_list(&res)]), "malformed/degenerate-matrix", true);
          let m = mk(rr, cc, &e); let res = catch(move || mat_out(&m.exp()));
          cs.push(app("CMatMap", vec![raw("UExp"), mat_tm(rr, cc, &e), libm_table(&crate::libm::Table::default()), outcome_list(&res)]), "malformed/degenerate-matrix", true);
      }
      // the empty matrix against non-empty operands: 1 x 1 broadcasts to the empty matrix, everything else panics
      for t in 0..4 { for &(rr, cc) in &[(1usize, 1usize), (1, 3), (3, 1), (2, 2)] {
          let b: Vec<f64> = (0..rr * cc).map(|i| 1.5 + i as f64).collect();
          let (m0, m1) = (mk(0, 0, &e), mk(rr, cc, &b));
          for f in 0..4 {
              let res = mat_mat(t, f, &m0, &m1);
              cs.push(app("CMatBin", vec![raw(TOKS[t]), Tm::Nat(f as u64), mat_tm(0, 0, &e), mat_tm(rr, cc, &b), outcome_list(&res)]), "empty-matrix", true);
              let res = mat_mat(t, f, &m1, &m0);
              cs.push(app("CMatBin", vec![raw(TOKS[t]), Tm::Nat(f as u64), mat_tm(rr, cc, &b), mat_tm(0, 0, &e), outcome_list(&res)]), "empty-matrix", true);
          }
          for f in 0..2 {
              let res = mat_mat_assign(t, f, &m0, &m1);
              cs.push(app("CMatOp", vec![raw(ATRAITS[t]), raw("TyMatrix"), raw(if f == 0 { "TyMatrix" } else { "TyRefMatrix" }), app("MMat", vec![mat_tm(0, 0, &e)]), app("MMat", vec![mat_tm(rr, cc, &b)]), outcome_list(&res)]), "empty-matrix", true);
          }
      }}
    }
    // 3. negation
    for &n in &lengths(thorough, 17, &mut r) {
        let a = vals(&mut r, n, Mode::Special);
        let x = Vector::new(a.clone());
        let res = catch(move || (-x).v);
        cs.push(app("CVecNeg", vec![fl(&a), outcome_list(&res)]), "neg/vector", nontrivial(n, &[&a]));
        if n >= 1 { for &(rr, cc) in &shapes_of(n) {
            let m = mk(rr, cc, &a);
            let res = catch(move || mat_out(&(-m)));
            cs.push(app("CMatNeg", vec![mat_tm(rr, cc, &a), outcome_list(&res)]), "neg/matrix", nontrivial(n, &[&a]));
        }}
    }
    // 4. the 29 maps x Vector / Matrix x lengths; elements in the map's domain, then special values
    let dense = if thorough { 40 } else { 17 };
    for (name, vm, mm, sm, mode, tn) in maps.iter() { for &n in &lengths(thorough, dense, &mut r) { for pass in 0..2 {
        if pass == 1 && !(thorough || n % 4 == 1) { continue; }
        spread(&mut cs, &mut long, &mut tick);
        let a = vals(&mut r, n, if pass == 0 { *mode } else { Mode::Special });
        let t = scalar_table(*sm, *tn, &a);
        let nt = nontrivial(n, &[&a]);
        let x = Vector::new(a.clone());
        let res = catch(|| vm(&x).v);
        cs.push(app("CVecMap", vec![raw(name), fl(&a), libm_table(&t), outcome_list(&res)]), &format!("map/{}", name), nt);
        if n >= 1 && (thorough || pass == 0) {
            let sh = shapes_of(n); let (rr, cc) = sh[sh.len() - 1];
            let m = mk(rr, cc, &a);
            let res = catch(|| mat_out(&mm(&m)));
            cs.push(app("CMatMap", vec![raw(name), mat_tm(rr, cc, &a), libm_table(&t), outcome_list(&res)]), &format!("map/{}", name), nt);
        }
    }}}
    // 5. powi (exponents -3..=5 and a few large ones) and powf
    for &n in &lengths(thorough, if thorough { 40 } else { 19 }, &mut r) {
        let mut exps: Vec<i32> = (-3..=5).collect();
        exps.extend([7, 10, -8, 31, 64, i32::MAX, i32::MIN + 1]);
        for &e in &exps {
            if !thorough && !(2..=3).contains(&e) && (n as i32 + e).rem_euclid(3) != 0 { continue; }
            let a = vals(&mut r, n, if (n as i32 + e) % 2 == 0 { Mode::Reals } else { Mode::Special });
            let nt = nontrivial(n, &[&a]);
            let x = Vector::new(a.clone());
            let res = catch(move || x.powi(e).v);
            cs.push(app("CVecPowi", vec![fl(&a), Tm::Z(e as i64), outcome_list(&res)]), &format!("powi/{}", if e == 2 || e == 3 { e.to_string() } else { "other".into() }), nt);
            if n >= 1 && (thorough || e == 2 || e == 3) {
                let sh = shapes_of(n); let (rr, cc) = sh[sh.len() - 1];
                let m = mk(rr, cc, &a);
                let res = catch(move || mat_out(&m.powi(e)));
                cs.push(app("CMatPowi", vec![mat_tm(rr, cc, &a), Tm::Z(e as i64), outcome_list(&res)]), "powi/matrix", nt);
            }
        }
        for &p in &[2.0, 3.0, 0.5, -1.5, 0.0, f64::NAN, 1e3] {
            if !thorough && ((n as f64 + p * 2.0) as i64).rem_euclid(3) != 0 && p != 2.0 { continue; }
            let a = vals(&mut r, n, if n % 2 == 0 { Mode::Pos } else { Mode::Special });
            crate::libm::start();
            for x in &a { std::hint::black_box(std::hint::black_box(*x).powf(std::hint::black_box(p))); }
            let t = crate::libm::stop();
            let x = Vector::new(a.clone());
            let res = catch(move || x.powf(p).v);
            cs.push(app("CVecPowf", vec![fl(&a), Tm::F(p), libm_table(&t), outcome_list(&res)]), "powf", nontrivial(n, &[&a]));
            if n >= 1 && n % 3 == 0 {
                let sh = shapes_of(n); let (rr, cc) = sh[sh.len() - 1];
                let m = mk(rr, cc, &a);
                let res = catch(move || mat_out(&m.powf(p)));
                cs.push(app("CMatPowf", vec![mat_tm(rr, cc, &a), Tm::F(p), libm_table(&t), outcome_list(&res)]), "powf", nontrivial(n, &[&a]));
            }
        }
    }
    // 6. reductions
    for &n in &lengths(thorough, 40, &mut r) { for k in 0..6 { for form in 0..3 {
        if form == 2 && (k >= 4 || n == 0) { continue; }
        if !thorough && form > 0 && (n + k) % 4 != 0 { continue; }
        let md = if k >= 4 { if n % 3 == 0 { Mode::Special } else { Mode::Reals } } else { modes[(n + k + form) % 3] };
        let mut a = vals(&mut r, n, md);
        if k >= 4 && n % 3 == 1 { let sh = *r.pick(&[700.0, -700.0, 1e6, -1e300, 1.7e308]); for x in a.iter_mut() { *x += sh; } }
        // the table of exp/ln as the implementation evaluates them is what the scalar path would evaluate too
        crate::libm::start();
        let res = run_red(k, form, &a);
        let t = crate::libm::stop();
        cs.push(app("CRed", vec![raw(REDS[k]), Tm::Nat(form as u64), fl(&a), libm_table(&t), outcome_list(&res)]), &format!("reduce/{}", REDS[k]), nontrivial(n, &[&a]));
    }}
        let md = modes[n % 3];
        let (a, b) = (vals(&mut r, n, md), vals(&mut r, n, md));
        let (x, y) = (a.clone(), b.clone());
        let res = catch(move || vec![dot(&x, &y)]);
        cs.push(app("CDot", vec![fl(&a), fl(&b), outcome_list(&res)]), "reduce/dot", nontrivial(n, &[&a, &b]));
        if n % 4 == 0 {
            let k = n + 1 + r.below(8) as usize; let b2 = vals(&mut r, k, Mode::Ints);
            let (x, y) = (a.clone(), b2.clone());
            let res = catch(move || vec![dot(&x, &y)]);
            cs.push(app("CDot", vec![fl(&a), fl(&b2), outcome_list(&res)]), "malformed/dot-length-mismatch", res.is_err());
        }
    }
    // 7. infinity norm: free function (any nrows, incl. 0 and non-divisors) and Matrix method
    for &n in &lengths(thorough, 30, &mut r) {
        let a = vals(&mut r, n, if n % 4 == 0 { Mode::Special } else { Mode::Reals });
        let mut rows: Vec<usize> = if n >= 1 { shapes_of(n).iter().map(|s| s.0).collect() } else { vec![] };
        rows.push(0); rows.push(n + 1); if n >= 3 { rows.push(n - 1); }
        for nr in rows {
            let x = a.clone();
            let res = catch(move || vec![inf_norm(&x, nr)]);
            cs.push(app("CInfNorm", vec![fl(&a), Tm::Nat(nr as u64), outcome_list(&res)]), if res.is_ok() { "reduce/inf_norm" } else { "malformed/inf_norm" }, n >= 2);
        }
        if n >= 1 { for &(rr, cc) in &shapes_of(n) {
            let m = mk(rr, cc, &a);
            let res = catch(move || vec![m.inf_norm()]);
            cs.push(app("CMatInfNorm", vec![mat_tm(rr, cc, &a), outcome_list(&res)]), "reduce/Matrix::inf_norm", n >= 2);
        }}
    }
    while let Some((t, tag)) = long.pop() { cs.push(t, &tag, true); }
    cs.write(outdir, if thorough { 250 } else { 700 },
             "every length 0..=40 x 4 operators x every Vector operator form (op, scalar-left, scalar-right, op-assign; owned and borrowed) and the Matrix forms on every size 1..=40 (quick: 1..=18 and 24,31,32,33,40) with several shapes; the 29 maps + powi (-3..=5 and extreme exponents) + powf on Vector and Matrix; reductions (free function, Vector method, Matrix method), dot, both infinity norms; malformed stream (length / shape mismatches, nrows = 0 or not dividing the length); value modes: reals over 12 binades, small integers, specials (+-0, +-inf, NaN, subnormals, extremes, random bit patterns); non-trivial = length >= 9 with a non-empty remainder (n mod 8 <> 0), or a special value present, or a panic (malformed stream); distinct by hash of the case term");
}

// ---------------------------------------------------------------------------------------------
// failure-search oracle: the property's statement against the implementation only
fn same(a: f64, b: f64) -> bool { a.to_bits() == b.to_bits() || (a.is_nan() && b.is_nan()) }
fn same_vec(a: &[f64], b: &[f64]) -> bool { a.len() == b.len() && a.iter().zip(b).all(|(x, y)| same(*x, *y)) }
fn sop(t: usize, x: f64, y: f64) -> f64 { match t { 0 => x + y, 1 => x - y, 2 => x * y, _ => x / y } }
const OPN: [&str; 4] = ["add", "sub", "mul", "div"];

/// error-free sum: (hi, lo) with hi + lo the exact sum accumulated in double-double
fn dd_sum(xs: impl Iterator<Item = f64>) -> f64 {
    let (mut hi, mut lo) = (0.0f64, 0.0f64);
    for x in xs {
        let s = hi + x; let bb = s - hi; let e = (hi - (s - bb)) + (x - bb);
        hi = s; lo += e;
    }
    hi + lo
}
/// Dekker product error without fma
fn two_prod(a: f64, b: f64) -> (f64, f64) {
    let p = a * b;
    let split = |x: f64| { let c = 134217729.0 * x; let h = c - (c - x); (h, x - h) };
    let ((ah, al), (bh, bl)) = (split(a), split(b));
    (p, ((ah * bh - p) + ah * bl + al * bh) + al * bl)
}

fn check_pos(out: &mut Vec<Finding>, class: &str, got: &Result<Vec<f64>, String>, want: &[f64], input: &str) {
    match got {
        Ok(g) => if !same_vec(g, want) {
            let i = g.iter().zip(want).position(|(x, y)| !same(*x, *y));
            out.push(Finding { class: class.into(), what: format!("result differs from the position-wise scalar operation (length {} vs {}, first differing position {:?}: got {:?}, scalar gives {:?})", g.len(), want.len(), i, i.map(|i| g[i]), i.map(|i| want[i])), input: input.into() });
        },
        Err(e) => out.push(Finding { class: format!("{}:panics", class), what: format!("panicked on valid operands: {}", e), input: input.into() }),
    }
}

pub fn oracle(tier: &str, seed: u64) -> (u64, Vec<Finding>) {
    let mut r = Rng::new(seed ^ 0xC04);
    let mut out = vec![]; let mut tried = 0u64;
    let iters = if tier == "thorough" { 6000 } else { 900 };
    let maps = all_maps();
    // --- the empty Matrix: the property includes empty operands; every form must return the empty result
    //     (class empty-matrix:value-form-panics: recorded as a finding on the original code, repaired by `fix:` in
    //     Matrix::reshape_mut; the class must stay silent on the repaired code and fires again if the fix is reverted)
    { let e: Vec<f64> = vec![];
      let mut bad: Vec<String> = vec![];
      let mut wrong: Vec<String> = vec![];
      crumb("empty matrix (0x0, Matrix::empty()) through every operator form");
      // the expected outcome: shape 0 x 0 and no data (a borrowed right operand of op-assign is reported too)
      let mut see = |res: Result<Vec<f64>, String>, what: String| {
          match res {
              Err(_) => bad.push(what),
              Ok(v) => if !((v.len() == 2 || v.len() == 4) && v.iter().all(|x| x.to_bits() == 0)) { wrong.push(format!("{} -> {:?}", what, v)) },
          }
      };
      for (src, m0) in [("Matrix::empty()", Matrix::empty()), ("Matrix { nrows: 0, ncols: 0, data: [] }", mk(0, 0, &e)), ("Matrix::default()", Matrix::default())] {
          for t in 0..4 {
              for f in 0..4 {
                  tried += 2;
                  see(mat_scalar(t, f, &m0, 2.0), format!("{} {} ({})", ["Matrix op f64", "&Matrix op f64", "f64 op Matrix", "f64 op &Matrix"][f], OPN[t], src));
                  see(mat_mat(t, f, &m0, &m0), format!("Matrix {} Matrix (ownership form {}, {})", OPN[t], f, src));
              }
              tried += 3;
              see(mat_mat_assign(t, 0, &m0, &m0), format!("Matrix {}= Matrix ({})", OPN[t], src));
              see(mat_mat_assign(t, 1, &m0, &m0), format!("Matrix {}= &Matrix ({})", OPN[t], src));
              see(mat_scalar_assign(t, &m0, 2.0), format!("Matrix {}= f64 ({})", OPN[t], src));
          }
          tried += 2;
          let m = m0.clone(); see(catch(move || mat_out(&(-m))), format!("-Matrix ({})", src));
          let m = m0.clone(); see(catch(move || mat_out(&m.powf(2.5))), format!("Matrix::powf ({})", src));
          for p in [2i32, 3, -1, 0, 7] { tried += 1; let m = m0.clone(); see(catch(move || mat_out(&m.powi(p))), format!("Matrix::powi({}) ({})", p, src)); }
          for (name, _vm, mm, _sm, _mode, _tn) in maps.iter() { tried += 1; let m = m0.clone(); see(catch(move || mat_out(&mm(&m))), format!("Matrix map {} ({})", name, src)); }
      }
      if !bad.is_empty() {
          out.push(Finding { class: "empty-matrix:value-form-panics".into(),
              what: format!("{} operator/map forms panic on the empty 0x0 Matrix instead of returning the empty result (e.g. {})", bad.len(), bad[..bad.len().min(4)].join("; ")),
              input: "Matrix::empty() (nrows = 0, ncols = 0, no data), scalar 2.0".into() });
      }
      if !wrong.is_empty() {
          out.push(Finding { class: "empty-matrix:wrong-result".into(),
              what: format!("{} operator/map forms return something other than the empty 0x0 matrix on the empty Matrix (e.g. {})", wrong.len(), wrong[..wrong.len().min(4)].join("; ")),
              input: "Matrix::empty() (nrows = 0, ncols = 0, no data), scalar 2.0".into() });
      } }
    for it in 0..iters {
        let n = if it < 82 { it / 2 } else if it % 50 == 0 { 41 + r.below(10_000) as usize } else { r.below(70) as usize };
        let md = *r.pick(&[Mode::Reals, Mode::Special, Mode::Ints]);
        let (a, b) = (vals(&mut r, n, md), vals(&mut r, n, md));
        let s = val(&mut r, md);
        let t = (it % 4) as usize;
        let f = r.below(4) as usize;
        // --- Vector op Vector / scalar forms
        let inp = format!("op={} form={} a={} b={} scalar={:e}", OPN[t], f, json_floats(&a), json_floats(&b), s); crumb(&inp);
        let want: Vec<f64> = (0..n).map(|i| sop(t, a[i], b[i])).collect();
        check_pos(&mut out, &format!("vec-op-vec:{}", OPN[t]), &vec_vec(t, f, &a, &b), &want, &inp); tried += 1;
        let want_vs: Vec<f64> = (0..n).map(|i| sop(t, a[i], s)).collect();
        let want_sv: Vec<f64> = (0..n).map(|i| sop(t, s, a[i])).collect();
        check_pos(&mut out, &format!("vec-op-scalar:{}", OPN[t]), &vec_scalar(t, f % 2, &a, s), &want_vs, &inp); tried += 1;
        check_pos(&mut out, &format!("scalar-op-vec:{}", OPN[t]), &vec_scalar(t, 2 + f % 2, &a, s), &want_sv, &inp); tried += 1;
        let mut w2 = want.clone(); if f % 2 == 1 { w2.extend_from_slice(&b); }
        check_pos(&mut out, &format!("vec-assign-vec:{}", OPN[t]), &vec_vec_assign(t, f % 2, &a, &b), &w2, &inp); tried += 1;
        check_pos(&mut out, &format!("vec-assign-scalar:{}", OPN[t]), &vec_scalar_assign(t, &a, s), &want_vs, &inp); tried += 1;
        // borrowed operands unchanged
        { let (x, y) = (Vector::new(a.clone()), Vector::new(b.clone()));
          let _ = catch(|| { let _z: Vector = binop!(t, &x, &y); let _w: Vector = binop!(t, &x, s); let _u: Vector = binop!(t, s, &x); });
          tried += 1;
          if !same_vec(&x.v, &a) || !same_vec(&y.v, &b) { out.push(Finding { class: "operand-modified".into(), what: "a borrowed operand changed".into(), input: inp.clone() }); } }
        // length mismatch must panic
        if it % 3 == 0 {
            let k = n + 1 + r.below(17) as usize; let b2 = vals(&mut r, k, Mode::Ints);
            let (p, q) = if r.coin(0.5) { (&a, &b2) } else { (&b2, &a) };
            let inp2 = format!("op={} a={} b={}", OPN[t], json_floats(p), json_floats(q)); crumb(&inp2);
            tried += 2;
            if let Ok(v) = vec_vec(t, f, p, q) { out.push(Finding { class: "vec-op-vec:length-mismatch-accepted".into(), what: format!("returned {} values for operands of lengths {} and {}", v.len(), p.len(), q.len()), input: inp2.clone() }); }
            if let Ok(v) = vec_vec_assign(t, f % 2, p, q) { out.push(Finding { class: "vec-assign-vec:length-mismatch-accepted".into(), what: format!("returned {} values for operands of lengths {} and {}", v.len(), p.len(), q.len()), input: inp2.clone() }); }
        }
        // --- Matrix forms
        if n >= 1 {
            let sh = shapes_of(n); let (rr, cc) = *r.pick(&sh);
            let (m1, m2) = (mk(rr, cc, &a), mk(rr, cc, &b));
            let inpm = format!("op={} form={} shape={}x{} a={} b={} scalar={:e}", OPN[t], f, rr, cc, json_floats(&a), json_floats(&b), s); crumb(&inpm);
            let shape = |w: &[f64]| { let mut o = vec![rr as f64, cc as f64]; o.extend_from_slice(w); o };
            check_pos(&mut out, &format!("mat-op-mat:{}", OPN[t]), &mat_mat(t, f, &m1, &m2), &shape(&want), &inpm); tried += 1;
            check_pos(&mut out, &format!("mat-op-scalar:{}", OPN[t]), &mat_scalar(t, f % 2, &m1, s), &shape(&want_vs), &inpm); tried += 1;
            check_pos(&mut out, &format!("scalar-op-mat:{}", OPN[t]), &mat_scalar(t, 2 + f % 2, &m1, s), &shape(&want_sv), &inpm); tried += 1;
            let mut w3 = shape(&want); if f % 2 == 1 { w3.extend(shape(&b)); }
            check_pos(&mut out, &format!("mat-assign-mat:{}", OPN[t]), &mat_mat_assign(t, f % 2, &m1, &m2), &w3, &inpm); tried += 1;
            check_pos(&mut out, &format!("mat-assign-scalar:{}", OPN[t]), &mat_scalar_assign(t, &m1, s), &shape(&want_vs), &inpm); tried += 1;
            let neg: Vec<f64> = a.iter().map(|x| -x).collect();
            let m = m1.clone();
            check_pos(&mut out, "neg:matrix", &catch(move || mat_out(&(-m))), &shape(&neg), &inpm); tried += 1;
            if rr != cc {
                let m3 = mk(cc, rr, &b); tried += 1;
                if let Ok(v) = mat_mat_assign(t, f % 2, &m1, &m3) { out.push(Finding { class: "mat-assign-mat:shape-mismatch-accepted".into(), what: format!("{}x{} op= {}x{} returned {:?}", rr, cc, cc, rr, &v[..2]), input: inpm.clone() }); }
                if rr > 1 && cc > 1 { tried += 1; if let Ok(v) = mat_mat(t, f, &m1, &m3) { out.push(Finding { class: "mat-op-mat:shape-mismatch-accepted".into(), what: format!("{}x{} op {}x{} returned {:?}", rr, cc, cc, rr, &v[..2]), input: inpm.clone() }); } }
            }
            // maps on the Matrix keep the shape
            let (name, _, mm, sm, mode, _) = maps[it % 29];
            let am = vals(&mut r, n, if it % 5 == 0 { Mode::Special } else { mode });
            let wantm: Vec<f64> = am.iter().map(|x| sm(*x)).collect();
            let m = mk(rr, cc, &am);
            let inpx = format!("map={} shape={}x{} a={}", name, rr, cc, json_floats(&am)); crumb(&inpx);
            check_pos(&mut out, &format!("map:{}", name), &catch(|| mat_out(&mm(&m))), &shape(&wantm), &inpx); tried += 1;
        }
        let neg: Vec<f64> = a.iter().map(|x| -x).collect();
        let x = Vector::new(a.clone());
        check_pos(&mut out, "neg:vector", &catch(move || (-x).v), &neg, &inp); tried += 1;
        // --- maps (kernel vs the scalar f64 method at each position)
        { let (name, vm, _, sm, mode, _) = maps[(it / 2) % 29];
          let am = vals(&mut r, n, if it % 4 == 0 { Mode::Special } else { mode });
          let wantm: Vec<f64> = am.iter().map(|x| sm(*x)).collect();
          let x = Vector::new(am.clone());
          let inpx = format!("map={} a={}", name, json_floats(&am)); crumb(&inpx);
          check_pos(&mut out, &format!("map:{}", name), &catch(|| vm(&x).v), &wantm, &inpx); tried += 1;
          if !same_vec(&x.v, &am) { out.push(Finding { class: "operand-modified".into(), what: "a map changed its operand".into(), input: format!("map={} a={}", name, json_floats(&am)) }); } }
        // --- powi / powf
        { let e = *r.pick(&[-3, -2, -1, 0, 1, 2, 3, 4, 5, 2, 3, 11, -7]);
          let ap = vals(&mut r, n, if it % 3 == 0 { Mode::Special } else { Mode::Reals });
          let inpx = format!("powi exponent={} a={}", e, json_floats(&ap)); crumb(&inpx);
          let wantp: Vec<f64> = ap.iter().map(|x| x.powi(e)).collect();
          let x = Vector::new(ap.clone());
          check_pos(&mut out, &format!("powi:{}", if e == 2 || e == 3 { e.to_string() } else { "other".into() }), &catch(move || x.powi(e).v), &wantp, &inpx); tried += 1;
          let p = *r.pick(&[2.0, 3.0, 0.5, -1.25, 0.0]);
          let inpx = format!("powf exponent={:e} a={}", p, json_floats(&ap)); crumb(&inpx);
          let wantp: Vec<f64> = ap.iter().map(|x| x.powf(p)).collect();
          let x = Vector::new(ap.clone());
          check_pos(&mut out, "powf", &catch(move || x.powf(p).v), &wantp, &inpx); tried += 1; }
        // --- reductions against compensated references, within the worst-case bound for the length
        if n <= 3000 {
            let ar = vals(&mut r, n, Mode::Reals); let br = vals(&mut r, n, Mode::Reals);
            let u = f64::EPSILON; // 2^-52 = 2u: twice the unit roundoff, so (n+2)*EPSILON dominates gamma_n
            let nn = n as f64 + 2.0;
            let inp = format!("a={} b={}", json_floats(&ar), json_floats(&br)); crumb(&inp);
            let (sref, sabs) = (dd_sum(ar.iter().copied()), ar.iter().map(|x| x.abs()).sum::<f64>());
            let got = sum(&ar); tried += 1;
            if (got - sref).abs() > nn * u * sabs { out.push(Finding { class: "sum:beyond-rounding-bound".into(), what: format!("sum = {:e}, exact sum = {:e}, bound {:e}", got, sref, nn * u * sabs), input: inp.clone() }); }
            let (mut dh, mut dabs) = (vec![], 0.0);
            for i in 0..n { let (p, e) = two_prod(ar[i], br[i]); dh.push(p); dh.push(e); dabs += p.abs(); }
            let dref = dd_sum(dh.iter().copied());
            let got = dot(&ar, &br); tried += 1;
            if (got - dref).abs() > (nn + 1.0) * u * dabs { out.push(Finding { class: "dot:beyond-rounding-bound".into(), what: format!("dot = {:e}, exact = {:e}, bound {:e}", got, dref, (nn + 1.0) * u * dabs), input: inp.clone() }); }
            let mut qh = vec![]; for i in 0..n { let (p, e) = two_prod(ar[i], ar[i]); qh.push(p); qh.push(e); }
            let nref = dd_sum(qh.iter().copied()).sqrt();
            let got = norm(&ar); tried += 1;
            if (got - nref).abs() > (nn + 2.0) * u * nref { out.push(Finding { class: "norm:beyond-rounding-bound".into(), what: format!("norm = {:e}, reference = {:e}", got, nref), input: inp.clone() }); }
            if n <= 60 {
                let ap = vals(&mut r, n, Mode::Pos);
                let lref = dd_sum(ap.iter().map(|x| x.ln()));
                crumb(&format!("prod a={}", json_floats(&ap)));
                let got = prod(&ap); tried += 1;
                if (got.ln() - lref).abs() > (nn + 4.0) * u * (1.0 + ap.iter().map(|x| x.ln().abs()).sum::<f64>()) { out.push(Finding { class: "prod:beyond-rounding-bound".into(), what: format!("ln(prod) = {:e}, sum of ln = {:e}", got.ln(), lref), input: format!("a={}", json_floats(&ap)) }); }
            }
            // reductions on data with infinities / overflowing prefixes: the IEEE result of adding (multiplying) the elements one after the other
            // (an infinite partial sum stays infinite; inf + (-inf) and 0 * inf are NaN) -- compared as classes: +inf / -inf / NaN / finite
            if n >= 2 && it % 4 == 0 {
                let mut sp = ar.clone();
                let k = r.below(n as u64) as usize;
                match r.below(4) { 0 => sp[k] = f64::INFINITY, 1 => sp[k] = f64::NEG_INFINITY, 2 => { sp[0] = 1.5e308; sp[n - 1] = 1.0e308; if n > 2 { sp[1] = 1.2e308; } } _ => { sp[k] = f64::INFINITY; sp[(k + 1) % n] = f64::NEG_INFINITY; } }
                let class_of = |x: f64| if x.is_nan() { 0 } else if x == f64::INFINITY { 1 } else if x == f64::NEG_INFINITY { 2 } else { 3 };
                let naive_sum = sp.iter().fold(0.0f64, |a, b| a + b);
                let inp = format!("x={}", json_floats(&sp)); crumb(&inp); tried += 2;
                let got = sum(&sp);
                // every association of the additions gives the same class here unless both infinities (or an overflow of either sign) can meet
                let ambiguous = sp.iter().any(|x| x.is_nan()) || (sp.iter().any(|x| *x > 1e307) && sp.iter().any(|x| *x < -1e307));
                if !ambiguous && class_of(got) != class_of(naive_sum) { out.push(Finding { class: "sum:special-values".into(), what: format!("sum = {:e}, adding the elements one after the other gives {:e}", got, naive_sum), input: inp.clone() }); }
                let got = catch(|| Vector::new(sp.clone()).sum());
                if let Ok(g) = got { if !ambiguous && class_of(g) != class_of(naive_sum) { out.push(Finding { class: "Vector::sum:special-values".into(), what: format!("Vector::sum = {:e}, adding the elements one after the other gives {:e}", g, naive_sum), input: inp.clone() }); } }
            }
            if n >= 1 {
                // log-sum-exp, including large-magnitude inputs (the naive formula would overflow / underflow)
                let shift = *r.pick(&[0.0, 0.0, 700.0, -700.0, 1e4, -1e6, 1e300, -1e300]);
                let al: Vec<f64> = ar.iter().map(|x| x * 3.0 + shift).collect();
                let m = al.iter().cloned().fold(f64::NEG_INFINITY, f64::max);
                let sref = dd_sum(al.iter().map(|x| (x - m).exp()));
                let (lse, lme) = (sref.ln() + m, (sref / n as f64).ln() + m);
                let tol = |w: f64| 4.0 * (nn + 8.0) * u * w.abs().max(1.0);
                let inp = format!("x={}", json_floats(&al)); crumb(&inp);
                let got = logsumexp(&al); tried += 1;
                if !got.is_finite() { out.push(Finding { class: "logsumexp:overflow".into(), what: format!("logsumexp = {:e} for finite inputs (true value {:e})", got, lse), input: inp.clone() }); }
                else if (got - lse).abs() > tol(lse) { out.push(Finding { class: "logsumexp:inaccurate".into(), what: format!("logsumexp = {:e}, reference {:e}", got, lse), input: inp.clone() }); }
                let got = logmeanexp(&al); tried += 1;
                if !got.is_finite() { out.push(Finding { class: "logmeanexp:overflow".into(), what: format!("logmeanexp = {:e} for finite inputs (true value {:e})", got, lme), input: inp.clone() }); }
                else if (got - lme).abs() > tol(lme) { out.push(Finding { class: "logmeanexp:inaccurate".into(), what: format!("logmeanexp = {:e}, reference {:e}", got, lme), input: inp.clone() }); }
                // the overflow / underflow EDGES of exp: every single exp(x_i) is finite (resp. non-zero) but their plain sum is not:
                // k values within half a unit below a maximum m with m < 709.78 < m + ln k (and the mirror image near -745)
                for edge in [1.0f64, -1.0] {
                    let k = 2 + r.below(if it % 7 == 0 { 3000 } else { 40 }) as usize;
                    let m = if edge > 0.0 { 709.7 - (k as f64).ln() * r.unit() } else { -745.2 - 3.0 * r.unit() };
                    let ae: Vec<f64> = (0..k).map(|i| if i == k / 2 { m } else { m - 0.5 * r.unit() }).collect();
                    let sref = dd_sum(ae.iter().map(|x| (x - m).exp()));
                    let (lse, lme) = (sref.ln() + m, (sref / k as f64).ln() + m);
                    let tol = |w: f64| 4.0 * (k as f64 + 10.0) * u * w.abs().max(1.0);
                    let inp = format!("x={}", json_floats(&ae)); crumb(&inp);
                    let got = logsumexp(&ae); tried += 1;
                    if !got.is_finite() { out.push(Finding { class: "logsumexp:overflow".into(), what: format!("logsumexp = {:e} for {} finite inputs near {:e} (true value {:e})", got, k, m, lse), input: inp.clone() }); }
                    else if (got - lse).abs() > tol(lse) { out.push(Finding { class: "logsumexp:inaccurate".into(), what: format!("logsumexp = {:e}, reference {:e}", got, lse), input: inp.clone() }); }
                    let got = logmeanexp(&ae); tried += 1;
                    if !got.is_finite() { out.push(Finding { class: "logmeanexp:overflow".into(), what: format!("logmeanexp = {:e} for {} finite inputs near {:e} (true value {:e})", got, k, m, lme), input: inp.clone() }); }
                    else if (got - lme).abs() > tol(lme) { out.push(Finding { class: "logmeanexp:inaccurate".into(), what: format!("logmeanexp = {:e}, reference {:e}", got, lme), input: inp.clone() }); }
                }
                // infinity norms
                let sh = shapes_of(n); let (rr, cc) = *r.pick(&sh);
                let iref = (0..rr).map(|i| dd_sum((0..cc).map(|j| ar[i * cc + j].abs()))).fold(0.0, f64::max);
                let inp = format!("shape={}x{} a={}", rr, cc, json_floats(&ar)); crumb(&inp);
                let got = catch(|| inf_norm(&ar, rr)); tried += 1;
                match got { Ok(g) => if (g - iref).abs() > (cc as f64 + 2.0) * u * iref { out.push(Finding { class: "inf_norm:wrong".into(), what: format!("inf_norm = {:e}, max row sum = {:e}", g, iref), input: inp.clone() }); },
                            Err(e) => out.push(Finding { class: "inf_norm:panics".into(), what: e, input: inp.clone() }) }
                let mm = mk(rr, cc, &ar);
                let got = catch(|| mm.inf_norm()); tried += 1;
                match got { Ok(g) => if (g - iref).abs() > (cc as f64 + 2.0) * u * iref { out.push(Finding { class: "Matrix::inf_norm:wrong".into(), what: format!("Matrix::inf_norm = {:e}, max row sum = {:e}", g, iref), input: inp.clone() }); },
                            Err(e) => out.push(Finding { class: "Matrix::inf_norm:panics".into(), what: e, input: inp.clone() }) }
                if n >= 2 { let bad = n + 1; tried += 1; if let Ok(g) = catch(|| inf_norm(&ar, bad)) { if n % bad != 0 { out.push(Finding { class: "inf_norm:nonmatrix-accepted".into(), what: format!("inf_norm returned {:e} for {} elements in {} rows", g, n, bad), input: inp.clone() }); } } }
            }
            tried += 1;
            if let Ok(g) = catch(|| dot(&ar, &vals(&mut Rng::new(it as u64), n + 1, Mode::Ints))) { out.push(Finding { class: "dot:length-mismatch-accepted".into(), what: format!("dot returned {:e} for lengths {} and {}", g, n, n + 1), input: inp.clone() }); }
        }
        if out.len() > 40 { break; }
    }
    (tried, out)
}
